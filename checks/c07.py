"""C07 — a terminated connection is reported closed to everyone exactly once
(models: Model/Conn/{Close,Loop}.lean, adapter: src/verif/c07.rs)."""
import itertools
from .common import bump

ID = "C07"
AREA = "c07"
LEAN_PROPS = "Litep2pVerif.Props.C07"
THEOREMS = ["exit_reports_closed_once", "close_report_waits_for_busy_protocol", "protocols_before_manager", "live_protocols_all_told",
            "app_closed_iff_last", "established_survives_dead_protocol", "loop_usable_after_protocol_exit",
            "accept_established_then_closed", "redial_after_close"]
MANIFEST = {
    "text": "Lean 4 theorems about an operational model of the TCP connection event loop (every exit incl. the `?` exits), of "
            "ProtocolSet::report_connection_{established,closed} over bounded FIFO channels with suspended sends, of the "
            "manager's PeerState close rule and of accept: exactly one close report per live protocol and the manager on "
            "every terminating run and every interleaving with the environment (invariant proof), protocols before the "
            "manager, a dead receiver stops nobody from being told, ConnectionClosed iff last connection gone and after "
            "established, a dead protocol never fails a new connection and every live protocol is told whenever "
            "report_connection_established returns, suspended on full channels or not (invariant EstInv, the counterpart of the "
            "close path's), after a protocol shut down the loop keeps running and a substream negotiated for a live protocol is "
            "delivered (theorem over the permit-aware loop), dialable afterwards. Tied to the code by (S1) "
            "exhaustive small-scope differential runs of the real ProtocolSet with harness-owned receivers and (S2) two real "
            "Litep2p nodes on loopback whose event sequences the models must predict, and (tcploop area) the REAL "
            "TcpConnection::start loop driven over loopback TCP+noise+yamux with adapter-owned event sources (remote substreams "
            "and their negotiation, protocol handles, commands, receivers) against the permit-aware loop model "
            "Model/Conn/Permits.lean in checker mode (every order of the branches select! may take), incl. the no-permit exit "
            "and its race with the idle exit repeated over fresh connections; protocol/manager channels held FULL over real time "
            "while the connection ends (6 s against hard-coded bounds — ONE hold PER EXIT PATH of the loop in every quick run: "
            "remote close, go-away, ForceClose by another protocol, all handles released / its race with the no-permit exit, the "
            "error path of start() after a report to a protocol that shut down, plus two with the manager busy; 1.5 s with the "
            "configurable timeouts made small; theorem close_report_waits_for_busy_protocol: from every exit path the loop is "
            "suspended in exactly that report and NO transition but a move of the other end of a channel changes it) and "
            "the REAL future of TcpTransport::accept driven with a full channel (model Model/Conn/Accept.lean; theorem "
            "accept_established_then_closed: the future never resolves Err, so an accept is never abandoned after some "
            "protocols were told, nothing is reported closed before the loop exists, and whoever was told established is "
            "told closed exactly once when the loop returns); a property-level oracle on all three. "
            "Defects §8 (h) and (i) are repaired by two fix: commits and the theorems hold at full strength.",
    "note": "Trusted: Lean kernel; axioms propext/Classical.choice/Quot.sound; the hand-written models and their tie (S1 "
            "deterministic differential runs; S2 sampled real-node scenarios, thread schedules of the real runtime are "
            "sampled, the proof covers all schedules of the model); tokio mpsc semantics (bounded FIFO, reserved slot for a "
            "suspended sender, closed on receiver drop) as modelled; yamux, multistream-select and TCP outside the model; "
            "only the TCP transport's loop is modelled. Real time in the tcploop area: the model has no clock — on the code as "
            "modelled the passage of time enables nothing but negotiation timeouts (sot=), which are may-transitions; a "
            "time-bounded report shorter than the holds used (1.5 s from configuration, 6 s hard-coded) is detected on whichever "
            "exit path it sits (the long hold rotates over all of them), a longer hard-coded bound is not.",
    "technique": "Lean 4 proof (invariant over a small-step LTS of the connection task and its channels) + "
                 "model/implementation correspondence (component-in-a-box and real loopback nodes)",
    "design_ref": "DESIGN.md §7 C07, §8 (h)(i)",
}
RULE = ("S1: operation sequences on the real ProtocolSet (<=3 protocols, channel capacities 1-2, receivers dropped / filled / "
        "drained, report_established / report_closed / report_substream_failure, permits), exhaustive up to length 3 "
        "(quick) or 4 (thorough) over 2 protocols plus seeded longer sequences, each ending in a sweep that drains every "
        "receiver; S2: loopback scenarios (cause x protocol shut down before/after the connection x acting protocol) whose "
        "full observation the loop+manager+accept models must predict; tcploop: fixed, race (remote substream + last holder "
        "released before the loop is polled), negotiation-spanning and seeded random operation sequences on the real "
        "TcpConnection loop (1-3 protocols, keep-alive yes/no), every observation checked against the set the permit-aware "
        "model allows; plus channel capacities 1-3, fill/pause/resume of protocols and the manager, real-time holds (sleep), "
        "connections accepted through the real TcpTransport::accept with full/paused/dead receivers, half-closed substreams, "
        "bursts of open requests beyond the yamux ACK backlog against a stalling remote followed by every close cause (the "
        "connection must still notice a remote close afterwards), fallback names; f-round: seven 6 s holds per quick run "
        "(exit path rotating: remote_close, remote_goaway, force_close, idle(+race), error; busy protocol x5, busy manager "
        "x2, run in parallel shards), family `order` (a substream finishing negotiation against a full channel, then every "
        "exit path in the same poll or a later one, then drain). "
        "A case is non-trivial if a report call was made with "
        "a dead or full receiver, or it is a conclusive S2 scenario; distinct = distinct (ops, observations) by SHA-256")
TRUSTED_BASE = ["Lean 4.33 kernel", "axioms: propext, Classical.choice, Quot.sound only",
                "hand-written models Model/Conn/Close.lean, Model/Conn/Loop.lean, Model/Conn/Permits.lean, Model/Conn/Accept.lean tied to protocol_set.rs, "
                "tcp/connection.rs (start, run_event_loop, handle_yamux_substream, handle_negotiated_substream, "
                "handle_protocol_command), tcp/mod.rs (accept), manager/{mod,peer_state}.rs by this correspondence run",
                "adapters /repo/src/verif/c07.rs, /repo/src/verif/tcploop.rs, harness, verif.py, checks/c07.py, checks/tcploop.py",
                "tcploop: quiescence of the hand-polled futures is detected through TCP_INFO byte counters of the two loopback "
                "sockets (nothing in flight) and waker flags; which ready select! branch is taken is sampled (the model allows "
                "every order, the race arrangement is repeated over fresh connections); `sleep` lets real time pass while the "
                "adapter polls whatever timers wake; the accept path uses a real TcpTransport (no listener) whose executor hands "
                "the spawned connection task to the adapter, so the task's result (Ok/Err) is not observable there",
                "tokio mpsc channel semantics as modelled; FuturesUnordered polls every pending send when woken",
                "HashMap iteration order modelled as an arbitrary permutation (theorems hold for every order)",
                "yamux / multistream-select / noise / TCP not modelled: their outcomes are inputs of the loop model"]
ASSUMPTIONS = ["loopback TCP on 127.0.0.1 is available; an S2 scenario in which the two nodes never connect is reported as "
               "inconclusive and not compared",
               "an expected event arrives within 6 s on this machine (absence within the timeout is a distinct observation)",
               "connection ids are fresh (shared atomic counter)",
               "tcploop real-time holds: a bound on a report that the code derives from configuration is at most the configured "
               "value (1 s in the adapter), a hard-coded one below 6 s; longer bounds would need longer holds (thorough tier)"]
KEEP_PREFIX = 1

CAUSES = ["remote_drop", "force_close", "keepalive", "live_substream", "dead_substream"]


# ------------------------------------------------------------------------------------------ generator

def sweep(n, cap):
    ops = []
    for i in range(n):
        ops += [f"recv {i}"] * (cap + 2)
    ops += ["recv_mgr"] * 4
    return ops


def alphabet(n):
    ops = ["drop_mgr", "fill_mgr", "recv_mgr", "report_established", "report_closed", "permit", "release"]
    for i in range(n):
        ops += [f"drop_receiver {i}", f"fill_channel {i}", f"recv {i}", f"report_substream_failure {i}"]
    return ops


def valid(seq):
    return sum(1 for o in seq if o == "report_established") <= 1


def s1_case(n, cap, mcap, seq):
    return [f"protocols {n} {cap} {mcap}"] + list(seq) + sweep(n, cap)


def s2_space():
    res = []
    for cause in CAUSES:
        for dead in ["-", 0, 1, 2]:
            for when in (["after"] if dead == "-" else ["before", "after"]):
                if cause == "dead_substream":
                    if dead == "-":
                        continue
                    res.append(f"s2 cause={cause} dead={dead} when={when} via=0")
                    continue
                for via in range(3):
                    if via == dead:
                        continue
                    if cause == "keepalive" and via != min(v for v in range(3) if v != dead):
                        continue
                    res.append(f"s2 cause={cause} dead={dead} when={when} via={via}")
    return res


def s2_pick(rng, k):
    space = s2_space()
    must = ["s2 cause=dead_substream dead=1 when=after via=0", "s2 cause=dead_substream dead=0 when=before via=0",
            "s2 cause=remote_drop dead=2 when=before via=0", "s2 cause=remote_drop dead=- when=after via=0",
            "s2 cause=force_close dead=- when=after via=1", "s2 cause=keepalive dead=- when=after via=0",
            "s2 cause=live_substream dead=0 when=after via=2", "s2 cause=force_close dead=1 when=after via=2"]
    rest = [s for s in space if s not in must]
    rng.shuffle(rest)
    return (must + rest)[:k]


def gen_cases(rng, tier):
    depth = {"quick": 3, "thorough": 4, "search": 3}[tier]
    n_rand = {"quick": 800, "thorough": 20000, "search": 3000}[tier]
    n_s2 = {"quick": 24, "thorough": 10 ** 6, "search": 40}[tier]
    # S2 first so that the slow cases are spread over the shards
    for line in s2_pick(rng, n_s2):
        yield [line]
    if tier == "thorough":
        for rep in range(2):
            for line in s2_space():
                yield [line]
    ops2 = alphabet(2)
    for d in range(1, depth + 1):
        for seq in itertools.product(ops2, repeat=d):
            if valid(seq):
                yield s1_case(2, 1, 1, seq)
    if tier == "thorough":
        ops3 = alphabet(3)
        for d in range(1, 4):
            for seq in itertools.product(ops3, repeat=d):
                if valid(seq):
                    yield s1_case(3, 1, 2, seq)
    for _ in range(n_rand):
        n = rng.choice([1, 2, 3, 3])
        cap = rng.choice([1, 1, 2])
        mcap = rng.choice([1, 2])
        ops = alphabet(n)
        weights = [3 if o.startswith("report") else 2 if o.startswith(("fill", "drop_receiver")) else 1 for o in ops]
        seq, est = [], False
        for _ in range(rng.choice([4, 6, 8, 12])):
            o = rng.choices(ops, weights)[0]
            if o == "report_established":
                if est:
                    continue
                est = True
            seq.append(o)
        yield s1_case(n, cap, mcap, seq)
    yield ["protocols 9 1 1", "recv 0"]
    yield ["recv 0", "bogus"]


def mutate_case(rng, case, n):
    for _ in range(n):
        c = list(case)
        if c[0].startswith("s2"):
            yield [rng.choice(s2_space())]
            continue
        for _ in range(rng.randrange(1, 3)):
            i = rng.randrange(1, len(c))
            if rng.random() < 0.5 and len(c) > 2:
                del c[i]
            else:
                c.insert(i, rng.choice(case[1:]))
        if valid(c):
            yield c


def corpus():
    """Witnesses of the two repaired defects (DESIGN §8 h, i) and of the suspended-send paths."""
    return [
        ["s2 cause=dead_substream dead=1 when=after via=0"],          # (h)
        ["s2 cause=remote_drop dead=1 when=before via=0"],            # (i)
        s1_case(3, 2, 2, ["drop_receiver 1", "report_established", "report_closed", "report_closed"]),
        s1_case(3, 1, 1, ["fill_channel 1", "report_closed", "recv 1", "drop_receiver 2"]),
        s1_case(2, 1, 1, ["fill_mgr", "report_closed", "drop_receiver 0", "recv_mgr"]),
        s1_case(2, 1, 1, ["report_established", "recv 0", "recv 1", "release", "permit"]),
    ]


def model_lines(case, impl):
    """Checker mode for S2 only: the driver takes over `inconclusive`, everything else it predicts."""
    res = []
    for i, op in enumerate(case):
        if op.startswith("s2") and impl is not None and i < len(impl):
            res.append(f"{op} -> {impl[i]}")
        else:
            res.append(op)
    return res


# ------------------------------------------------------------------------------------------ oracle

def parse_snapshot(o):
    """'<ret> call=<c> q=<a,b,c> m=<m>' -> (ret, call, [q], m) or None."""
    t = o.split()
    if len(t) != 4 or not t[1].startswith("call=") or not t[2].startswith("q=") or not t[3].startswith("m="):
        return None
    q = t[2][2:].split(",") if t[2][2:] else []
    return t[0], t[1][5:], q, t[3][2:]


def oracle_s2(case, out, bad):
    op, o = case[0], out[0] if out else ""
    if not o or o == "inconclusive" or o.startswith("panic") or o == "skipped" or o == "bad-op":
        if o.startswith("panic"):
            bad.append({"kind": "panic", "msg": "panic in a two-node scenario: " + o, "step": 0, "op": op, "out": o})
        return
    args = dict(a.split("=", 1) for a in op.split()[1:] if "=" in a)
    f = dict(a.split("=", 1) for a in o.split() if "=" in a)
    dead = int(args["dead"]) if args.get("dead", "-").isdigit() else None
    cause = args.get("cause")
    if cause == "dead_substream" and dead is None:
        return

    def v(kind, msg):
        bad.append({"kind": kind, "msg": msg + f" [{o}]", "step": 0, "op": op, "out": o})

    a = f.get("A", "-")
    if "E" not in a:
        v("established-missing", "the connection was never announced to the application although a protocol had merely shut down")
        return
    if a.count("C") == 0:
        v("closed-missing-app", "the connection ended but the application never saw ConnectionClosed")
    if a.count("C") > 1 or a.count("E") > 1 or (a.find("C") != -1 and a.find("C") < a.find("E")):
        v("app-sequence", f"application event sequence {a} is not established-then-closed once")
    for i in range(3):
        p = f.get(f"P{i}", "-")
        if i == dead:
            if p.count("C") > 1 or p.count("E") > 1:
                v("closed-twice", f"protocol {i} saw {p}")
            continue
        if p.count("E") != 1:
            v("established-missing-proto", f"running protocol {i} saw {p}: not told about the connection exactly once")
        elif p.count("C") == 0:
            v("closed-missing-proto", f"running protocol {i} saw {p}: never told that the connection closed")
        elif p.count("C") > 1:
            v("closed-twice", f"running protocol {i} saw {p}: told twice")
    if a.count("C") >= 1:
        if f.get("redial") != "attempted":
            v("redial-refused", f"dial after the connection ended was not attempted: {f.get('redial')}")
        else:
            if f.get("A2") != "E":
                v("reconnect-missing", "the re-dialed connection was never announced to the application")
            for i in range(3):
                if i != dead and f.get(f"P{i}", "").count("C") == 1 and f.get(f"Q{i}") != "E":
                    v("reconnect-missing-proto", f"running protocol {i} was not told about the new connection: {f.get(f'Q{i}')}")
            if f.get("A2") == "E" and f.get("sub") != "ok":
                v("survivor-broken", "a surviving protocol could not open a substream on the new connection")
    if cause == "live_substream" and f.get("live") != "ok":
        v("survivor-broken", "a surviving protocol did not get its inbound substream while another protocol was shut down")


def oracle(case, out):
    bad = []
    if not case:
        return bad
    if case[0].startswith("s2"):
        oracle_s2(case, out, bad)
        return bad
    t0 = case[0].split()
    if t0[0] != "protocols" or len(t0) != 4 or not all(x.isdigit() for x in t0[1:]):
        return bad
    n, cap, mcap = int(t0[1]), max(int(t0[2]), 1), max(int(t0[3]), 1)
    if n > 8:
        return bad

    def v(kind, msg, i):
        bad.append({"kind": kind, "msg": msg, "step": i, "op": case[i], "out": out[i] if i < len(out) else None})

    got_c = [0] * n
    got_e = [0] * n
    mgr_c = 0
    dropped = [False] * n
    mgr_dropped = False
    closed_started = None        # step of the first report_closed that started
    closed_returned = False
    est_started = False
    est_returned = None
    current = None               # kind of the call in flight / last returned
    m_before = None              # manager queue length when the close report started
    mgr_touched = False
    last = None
    for i, op in enumerate(case):
        if i >= len(out):
            break
        o = out[i]
        if o.startswith("panic"):
            v("panic", "panic in ProtocolSet: " + o, i)
            return bad
        if o in ("skipped", "bad-op"):
            if o == "skipped":
                return bad
            continue
        s = parse_snapshot(o)
        if s is None:
            continue
        ret, call, q, m = s
        t = op.split()
        if t[0] == "drop_receiver" and ret == "ok":
            dropped[int(t[1])] = True
        elif t[0] == "drop_mgr":
            mgr_dropped = True
        elif t[0] in ("fill_mgr", "recv_mgr"):
            mgr_touched = True
            if ret == "C":
                mgr_c += 1
        elif t[0] == "recv" and ret in ("C", "E"):
            k = int(t[1])
            if ret == "C":
                got_c[k] += 1
            else:
                got_e[k] += 1
        elif ret == "started":
            current = t[0]
            if t[0] == "report_closed" and closed_started is None:
                closed_started = i
                m_before = last[3] if last else "0"
                mgr_touched = False
            if t[0] == "report_established":
                est_started = True
        if current == "report_closed" and closed_started is not None:
            if call in ("ok", "err"):
                closed_returned = True
            elif call == "blocked" and not mgr_touched and not mgr_dropped and m_before not in (None, "x") and m != "x":
                # the manager's send is the last await of the call: if the manager has the event while the call is
                # still suspended, it was told before a protocol that is still waiting
                if int(m) > int(m_before):
                    v("manager-before-protocols", "the manager got the close event while a protocol's send was still suspended", i)
        if current == "report_established" and call in ("ok", "err"):
            est_returned = call
            if call == "err":
                v("established-failed", "report_connection_established failed because a protocol had shut down", i)
        last = s
    for k in range(n):
        if got_c[k] > 1:
            v("closed-twice", f"protocol {k} received {got_c[k]} close reports", len(case) - 1)
    if mgr_c > 1:
        v("closed-twice", f"the manager received {mgr_c} close reports", len(case) - 1)
    if last is None:
        return bad
    _, call, q, m = last
    drained = call in ("ok", "err", "idle")
    if closed_started is not None and closed_returned and drained:
        for k in range(n):
            if not dropped[k] and k < len(q) and q[k] == "0" and got_c[k] != 1:
                v("closed-missing-proto", f"protocol {k} is running and drained its channel but got {got_c[k]} close reports", len(case) - 1)
        if not mgr_dropped and m == "0" and mgr_c != 1:
            v("closed-missing-mgr", f"the manager drained its channel but got {mgr_c} close reports", len(case) - 1)
    if est_started and est_returned and drained and closed_started is None:
        for k in range(n):
            if not dropped[k] and k < len(q) and q[k] == "0" and got_e[k] != 1:
                v("established-missing-proto", f"protocol {k} is running and drained its channel but got {got_e[k]} established reports", len(case) - 1)
    return bad


def stats(case, out, acc):
    if case and case[0].startswith("s2"):
        bump(acc, "s2")
        args = dict(a.split("=", 1) for a in case[0].split()[1:] if "=" in a)
        bump(acc, "s2-cause:" + args.get("cause", "?"))
        bump(acc, "s2-dead:" + ("none" if not args.get("dead", "-").isdigit() else args.get("when", "?")))
        if out and out[0] == "inconclusive":
            bump(acc, "s2-inconclusive")
        return
    bump(acc, "s1")
    for op, o in zip(case, out):
        t = op.split()[0]
        bump(acc, "op:" + t)
        if " call=blocked" in o:
            bump(acc, "blocked-snapshots")
        if o.startswith("started call=err"):
            bump(acc, "call-err")
        if o.startswith("panic"):
            bump(acc, "panic")
    bump(acc, "case-len:%d" % (10 * (len(case) // 10)))


def nontrivial(case, out):
    if case and case[0].startswith("s2"):
        return bool(out) and out[0].startswith("A=")
    started = any(o.startswith("started") for o in out)
    hard = any("call=blocked" in o or "call=err" in o or ("q=" in o and "x" in o.split("q=")[1]) for o in out)
    return started and hard


def matches_known(k, v):
    return False


# ---------------------------------------------------------------- the real event loop (engine: extra_cases)
# S1/S2 above reach `TcpConnection::start` only through whole-node scenarios. The `tcploop` area drives the REAL loop
# over loopback TCP with adapter-owned event sources (remote substreams, protocol handles, commands) and ties it to
# Model/Conn/Permits.lean (the loop model of Model/Conn/Loop.lean plus the permits that decide the no-permit exit and
# the idle exit). Judged here by the property-level oracle `tcploop.oracle_c07`.
def extra_cases(rng, tier):
    from . import tcploop
    yield "TCPLOOP", tcploop.gen_cases(rng, tier, focus="C07")


def oracle_extra(xpid, case, out):
    from . import tcploop
    return [dict(v, msg="(real TcpConnection loop, tcploop area) " + v["msg"]) for v in tcploop.oracle_c07(case, out)]


def stats_extra(xpid, case, out, acc):
    from . import tcploop
    tcploop.stats(case, out, acc)


# ---------------------------------------------------------------- "… and can be dialed again" (engine: extra_cases)
# The last clause of the property's second sentence is decided by the connection manager (`TransportManager::next`,
# `ConnectionClosed` branch and what it leaves behind): the c05 area drives it; its ledger / wedged-peer verdicts are this
# property's too (seeded change C07-g2: the closed branch drops the pending dial of the peer, which can then never be
# dialed again).
from . import cross as _cross  # noqa: E402
_cross.install(globals(), "C05", "connection manager, c05 area", count={"quick": 500, "thorough": 8000, "search": 1000})

# ---------------------------------------------------------------- real nodes through the public API (engine: extra_cases)
# `Litep2p::new` (src/lib.rs) and `ConfigBuilder` (src/config.rs) hand every protocol its configuration; the `node` area
# (checks/node.py) builds real nodes, compares the registration record with the wiring model (Model/Node/Wiring.lean)
# and judges this property's real-time scenarios at node level.
from . import node as _node  # noqa: E402
_node.install(globals())
