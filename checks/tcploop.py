"""Area `tcploop` — the REAL `TcpConnection::start` event loop driven over loopback TCP with adapter-owned event
sources (adapter /repo/src/verif/tcploop.rs, model Model/Conn/Permits.lean over Model/Conn/Loop.lean, driver
Driver/Tcploop.lean). Not a property of its own: C07 and C09 pull its cases in through the engine's `extra_cases`
mechanism and judge them with the property-level oracles below (`oracle_c07`, `oracle_c09`).

Checker mode: which ready branch `tokio::select!` takes is its RNG's choice, so every operation line is handed to the
model together with the implementation's observation; the driver explores every order of the enabled transitions and
accepts the observation iff some order yields it.

Since the c-round (seeded C07-c1, C07-c2, C09-c1): channels can be small and full (`cap=`, `mcap=`, `fill`, `pause`), real
time can pass with a channel held full (`sleep <ms>`; the configurable timeouts are small: `sot=<ms>`, and the transport of a
`via=accept` connection has connection_open_timeout = 1 s), connections can go through the REAL `TcpTransport::accept` future
(`via=accept`, `accept`; model Model/Conn/Accept.lean), and held substreams can be half-closed and read from (`half_close`,
`read_sub`, `remote_send`). Durations are never compared.

Since the d-round (seeded C08-d2, C09-d1): observations carry the substream ids (`Oo<id>`, `X<id>`; requests are numbered
1000 + n by acceptance) and the negotiated name (`.f<k>` = the protocol's k-th fallback name); protocols can have fallback
names (`fb=<i>:<n>`), the remote can propose them (`<i>.f<k>`) or know nothing else (`remote=fallback`); `burst <i> <n>`
sends n open requests in a row (more than 256 = the command channel is full: `ok256,clogged`); with `remote=stall` the yamux
streams are never acknowledged, so beyond 256 pending requests `Control::open_stream()` does not return and only the OUTER
timer of the request's future can answer it; `sot=` is small in those cases and a `sleep` of timeout + 500 ms follows.
C08 pulls the area in as well (`oracle_c08`). On a `sot=` connection the driver reads WHICH outbound requests of a
listening protocol timed out during an operation from the implementation's observation (it has no clock).

Since the f-round (seeded C07-f1, C08-f1): the long real-time hold ROTATES over the exit paths of the loop (`EXIT_PATHS`,
`exit_ops`, `long_holds`: one 6 s hold per path with a busy protocol + two with a busy manager in every quick run of C07,
consecutive in the list = one shard each); family `order` (`order_case`): a protocol's small channel is FULL when a substream
of it finishes negotiating, then every exit path — in the same poll of the loop or a later one —, then the protocol catches
up; `oracle_c08` judges the ORDER per protocol (no `Oi`/`Oo`/`X` after `C`) and that a negotiated inbound substream is NOT
LOST. The family runs in the C08, C06, C07 and C09 mixes."""
import re
from .common import bump

AREA = "tcploop"
ID = "TCPLOOP"
KEEP_PREFIX = 1
RACE_ROUNDS = {"quick": 40, "thorough": 160, "search": 40}


def model_lines(case, impl):
    res = []
    for i, op in enumerate(case):
        if impl is not None and i < len(impl):
            res.append(f"{op} -> {impl[i]}")
        else:
            res.append(op)
    return res


def _canon_field(v):
    items = v.split(",")
    ans = sorted(m for m in items if m[:1] in ("O", "X"))
    out, k = [], 0
    for m in items:
        if m[:1] in ("O", "X"):
            out.append(ans[k])
            k += 1
        else:
            out.append(m)
    return ",".join(out)


def normalize(line):
    """Observations are compared up to the order in which the answers to different requests / inbound substreams
    (`O..`, `X..`) reach a protocol within one operation (`FuturesUnordered`'s business, part of no property);
    everything else keeps its place. The driver does the same (`canon` in Driver/Tcploop.lean)."""
    if line.startswith("panic"):
        return "panic"
    if " p0=" not in line:
        return line
    toks = line.split(" ")
    for i, t in enumerate(toks):
        k, eq, v = t.partition("=")
        if eq and k[:1] == "p" and k[1:].isdigit():
            toks[i] = k + "=" + _canon_field(v)
    return " ".join(toks)


# ------------------------------------------------------------------------------------------ generator

def kinds(rng):
    return rng.choice(["Y", "Y", "YN", "NY", "YY", "N", "YNY", "NN"])


def race_case(rng):
    """The C07-b1 arrangement from primitive operations (one connection; `select!` decides)."""
    ka = rng.choice(["Y", "Y", "YN", "N"])
    ops = [f"conn ka={ka}", f"remote_open {rng.randrange(len(ka))} {rng.choice(['hdr', 'full'])}"]
    for i in range(len(ka)):
        ops.append(rng.choice([f"downgrade {i}", f"drop_handle {i}"]))
    ops += ["run", "run"]
    return ops


def span_case(rng):
    """The C09-b2 shape: a substream (inbound or outbound) of some protocol is being negotiated while every
    protocol lets go of the connection; the negotiation finishes afterwards."""
    ka = kinds(rng)
    n = len(ka)
    j = rng.randrange(n)
    inbound = rng.random() < 0.7
    ops = [f"conn ka={ka}" + ("" if inbound else " remote=stall")]
    if inbound:
        ops += [f"remote_open {j} hdr", "run"]
    else:
        ops += [f"local_open {j}", "run"]
    order = list(range(n))
    rng.shuffle(order)
    for i in order:
        ops.append(rng.choice([f"downgrade {i}", f"downgrade {i}", f"drop_handle {i}"]))
        if rng.random() < 0.3:
            ops.append("run")
    ops += ["run", "run"]
    if inbound:
        ops += [f"remote_continue 0 {j}", "run", "run"]
        end = rng.choice(["drop_sub", "reset_late", "keep"])
        if end == "drop_sub":
            ops += [f"drop_sub {j}", "run"]
    else:
        ops += [rng.choice(["remote_close", "remote_goaway", f"force_close {j}", "run"]), "run"]
    return ops


RUNLIKE = ("run", "sleep", "resume", "accept", "drop_rx")
EXITED = ("ok", "err", "end")


EXIT_PATHS = ["remote_close", "remote_goaway", "force_close", "idle", "error"]


def exit_ops(rng, path, n, slow=None, allow_idle=True):
    """Operations that make the loop take the exit path `path` at the next `run`: `remote_close` (yamux error / EOF after
    an abrupt close), `remote_goaway` (yamux `None`), `force_close` (ProtocolCommand::ForceClose, sent by a protocol other
    than the busy one where there is one), `idle` (every handle released: the command channel yields `None`; half of the
    time with a remote substream waiting as well — then `select!` decides between the idle exit and the no-permit ERROR
    exit of handle_yamux_substream), `error` (a substream is negotiated for a protocol that has shut down:
    report_substream_open fails, `run_event_loop` returns Err and `start()` makes up for the close report)."""
    if path == "idle" and not allow_idle:
        path = "force_close"
    if path == "error" and n < 2 and slow is not None:
        path = "idle" if allow_idle else "remote_close"
    if path == "force_close":
        others = [i for i in range(n) if i != slow]
        who = rng.choice(others) if others and rng.random() < 0.8 else rng.randrange(n)
        return [f"force_close {who}"]
    if path == "idle":
        order = list(range(n))
        rng.shuffle(order)
        pre = [f"remote_open {rng.randrange(n)} hdr"] if rng.random() < 0.5 else []
        return pre + [rng.choice([f"downgrade {i}", f"drop_handle {i}"]) for i in order]
    if path == "error":
        k = rng.choice([i for i in range(n) if i != slow] or [0])
        return [f"drop_rx {k}", f"remote_open {k} full"]
    return [path]


def close_cause(rng, n, allow_idle=True):
    """Operations that end the connection: each is a different close path of the loop."""
    c = rng.choice(["remote_close", "remote_goaway", "force_close", "idle"] if allow_idle else
                   ["remote_close", "remote_goaway", "force_close"])
    if c == "force_close":
        return [f"force_close {rng.randrange(n)}"]
    if c == "idle":
        order = list(range(n))
        rng.shuffle(order)
        return [rng.choice([f"downgrade {i}", f"drop_handle {i}"]) for i in order]
    return [c]


def hold_case(rng, ms, sot=None, path=None, who=None):
    """The C07-c1 / C07-f1 shape: the connection ends — by the exit path `path` of the loop (EXIT_PATHS; random if not
    given) — while one protocol's (or the manager's) channel is full and STAYS full for `ms` of real time; then the slow
    party catches up: every report must still arrive, exactly once. `ms` = 6000 outlasts hard-coded bounds of a few
    seconds (a 5 s timeout around the close report of ONE exit path is the C07-f1 shape: every path gets its own long
    hold in every quick run); with `sot` (the one timeout a TcpConnection takes from configuration) made small, 1.5 s
    outlasts a bound derived from configuration."""
    path = path or rng.choice(EXIT_PATHS)
    ka = rng.choice(["YY", "YN", "NY", "YYY"] if path == "error" else ["YY", "YN", "NY", "YYY", "Y"])
    n = len(ka)
    who = who or rng.choice(["proto", "proto", "proto", "mgr"])
    opts = (" cap=1" if who == "proto" else f" cap={rng.choice([1, 2])} mcap=1") + (f" sot={sot}" if sot else "")
    ops = [f"conn ka={ka}{opts}"]
    if who == "mgr":
        ops += ["pause m", "fill m"]
        ops += exit_ops(rng, path, n) + ["run", f"sleep {ms}", "resume m", "run"]
        return ops
    slow = rng.randrange(n)
    if path == "idle" or rng.random() < 0.5:
        ops += [f"pause {slow}", f"fill {slow}"]
        ops += exit_ops(rng, path, n, slow)
    else:
        # the channel is full of a substream the loop delivered (it holds permits: no idle close)
        ops += [f"pause {slow}", f"remote_open {slow} full", "run"]
        ops += exit_ops(rng, path, n, slow, allow_idle=False)
    ops += ["run", f"sleep {ms}", f"resume {slow}", "run"]
    return ops


def long_holds(rng, count):
    """`count` long (6 s) holds, the exit path ROTATING: the first five are one per exit path with a protocol as the busy
    party, the following ones have the manager as the busy party (paths in a random order)."""
    plan = [(p, "proto") for p in EXIT_PATHS]
    mgr_paths = list(EXIT_PATHS)
    rng.shuffle(mgr_paths)
    plan += [(p, "mgr") for p in mgr_paths]
    if count < len(EXIT_PATHS):
        rng.shuffle(plan)
    return [hold_case(rng, 6000, path=plan[k % len(plan)][0], who=plan[k % len(plan)][1]) for k in range(count)]


def order_case(rng, path=None):
    """The C08-f1 shape: a protocol's event channel (small capacity) is FULL at the moment a substream of that protocol —
    inbound or outbound — finishes negotiating; then the connection ends by one of the exit paths; then the protocol
    catches up. The report of the substream must have been queued BEFORE the close report (the loop waits in that send:
    nothing else is processed meanwhile) and must not be lost. `same`: the end of the negotiation and the cause of the exit
    are both ready when the loop is polled (one `run`); `split`: a `run` in between."""
    path = path or rng.choice(EXIT_PATHS)
    ka = rng.choice(["YY", "YN", "NY", "YYY", "YNY"] if path == "error" else ["YY", "YN", "NY", "YYY", "Y", "N", "YNY"])
    n = len(ka)
    j = rng.randrange(n)
    fb = rng.random() < 0.2
    style = rng.choice(["same", "same", "split"])
    if path in ("remote_close", "remote_goaway", "idle") and rng.random() < 0.7:
        style = "split"
    outbound = style == "split" and rng.random() < 0.35
    # an outbound request is answered with the substream (`Oo<id>`) or, by a remote that refuses, with a failure (`X<id>`)
    pol = " remote=refuse" if outbound and rng.random() < 0.5 else ""
    head = f"conn ka={ka} cap={rng.choice([1, 1, 2])}" + (f" fb={j}:1" if fb else "") + pol
    name = f"{j}.f1" if fb and rng.random() < 0.7 else f"{j}"
    ops = [head, f"pause {j}", f"fill {j}"]
    if style == "split":
        ops += [f"local_open {j}", "run", "run"] if outbound else [f"remote_open {name} full", "run"]
        if rng.random() < 0.3:
            ops += [f"remote_open {name} full", "run"]          # a second one queues up behind the suspended report
        ops += exit_ops(rng, path, n, j) + ["run"]
    elif path == "error":
        k = rng.choice([i for i in range(n) if i != j])
        if rng.random() < 0.5:
            ops += [f"drop_rx {k}", f"remote_open {name} full", f"remote_open {k} full", "run"]
        else:
            ops += [f"drop_rx {k}", f"remote_open {j} hdr", f"remote_open {k} hdr", "run", f"remote_continue 0 {name}",
                    f"remote_continue 1 {k}", "run"]
    elif path == "force_close":
        who = rng.randrange(n)
        if rng.random() < 0.6:
            ops += [f"remote_open {j} hdr", "run", f"remote_continue 0 {name}", f"force_close {who}", "run"]
        else:
            ops += [f"remote_open {name} full", f"force_close {who}", "run"]
    else:
        if rng.random() < 0.5:
            ops += [f"remote_open {j} hdr", "run", f"remote_continue 0 {name}"] + exit_ops(rng, path, n, j) + ["run"]
        else:
            ops += [f"remote_open {name} full"] + exit_ops(rng, path, n, j) + ["run"]
    if rng.random() < 0.3:
        ops.append("sleep 20")
    ops += [f"resume {j}", "run", "run"]
    return ops


def order_cases(rng, count):
    """`count` cases of the C08-f1 family, the exit path rotating (the `error` and `force_close` paths — where the end of a
    negotiation and the exit can be handled in ONE poll of the loop — twice as often)."""
    plan = ["error", "force_close", "remote_close", "error", "remote_goaway", "force_close", "idle"]
    return [order_case(rng, plan[k % len(plan)]) for k in range(count)]


def accept_hold_case(rng, ms):
    """The C07-c2 shape: a connection is being accepted (the REAL future of TcpTransport::accept, transport built with
    connection_open_timeout = 1 s) while one protocol's channel is full and stays full for `ms`; the others have been told
    `established` meanwhile. When the slow protocol catches up the connection must come up for everyone, and when it
    ends everyone must be told exactly once."""
    ka = rng.choice(["YY", "YN", "NY", "YYY", "YYN"])
    n = len(ka)
    slow = rng.randrange(n)
    ops = [f"conn ka={ka} cap={rng.choice([1, 1, 2])} via=accept", f"pause {slow}", f"fill {slow}", "accept"]
    others = [i for i in range(n) if i != slow]
    for _ in range(rng.randrange(3)):
        i = rng.choice(others)
        ops.append(rng.choice([f"downgrade {i}", f"local_open {i}", f"upgrade {i}", f"remote_open {i} full", "run"]))
    ops += [f"sleep {ms}", f"resume {slow}", "run"]
    ops += close_cause(rng, n) + ["run", "run"]
    return ops


def accept_case(rng):
    """Accept path without real-time waits: channels with room or full, resumed at once."""
    ka = kinds(rng)
    n = len(ka)
    ops = [f"conn ka={ka} cap={rng.choice([1, 2, 64])} via=accept"]
    for i in range(n):
        r = rng.random()
        if r < 0.3:
            ops += [f"pause {i}", f"fill {i}"]
        elif r < 0.4:
            ops += [f"pause {i}"]
        elif r < 0.45:
            ops += [f"drop_rx {i}"]
    ops.append("accept")
    for _ in range(rng.randrange(4)):
        i = rng.randrange(n)
        ops.append(rng.choice([f"downgrade {i}", f"local_open {i}", f"remote_open {i} full", "run", f"resume {i}",
                               f"drop_handle {i}", "sleep 5"]))
    for i in range(n):
        if rng.random() < 0.8:
            ops.append(f"resume {i}")
    ops += ["run"] + close_cause(rng, n) + ["run", "run"]
    return ops


def half_case(rng):
    """The C09-c1 shape: a protocol half-closes a substream it holds (Sink::poll_close), keeps the object and reads from
    it, while every handle is released (keep-alive expiry); the connection must stay until the object is dropped."""
    ka = kinds(rng)
    n = len(ka)
    j = rng.randrange(n)
    inbound = rng.random() < 0.6
    ops = [f"conn ka={ka}" + rng.choice(["", "", " cap=2"])]
    ops += [f"remote_open {j} full", "run"] if inbound else [f"local_open {j}", "run", "run"]
    pre = rng.random() < 0.5
    order = list(range(n))
    rng.shuffle(order)
    rel = []
    for i in order:
        rel.append(rng.choice([f"downgrade {i}", f"downgrade {i}", f"drop_handle {i}"]))
        if rng.random() < 0.3:
            rel.append("run")
    if pre:
        ops += rel + ["run", f"half_close {j}"]
    else:
        ops += [f"half_close {j}"] + (["run"] if rng.random() < 0.5 else []) + rel
    ops += ["run", "run"]
    if inbound and rng.random() < 0.5:
        ops += ["remote_send 0", "run"]
    ops += [f"read_sub {j}", "run"]
    end = rng.choice(["drop_sub", "drop_sub", "keep", "remote_close"])
    if end == "drop_sub":
        ops += [f"drop_sub {j}", "run"]
    elif end == "remote_close":
        ops += ["remote_close", "run"]
    return ops


def burst_case(rng, big=True, allow_close=True):
    """The C08-d2 shape: more outbound open requests than yamux lets wait for acknowledgement (256), to a remote that
    takes the yamux streams and never answers; `substream_open_timeout` is small. Every request — also the ones whose
    yamux stream is never even opened — must be answered (failure with its id) once the timeout has passed, and the
    connection must go on working. Small variant: a handful of requests to a stalling remote."""
    ka = rng.choice(["Y", "Y", "YN", "NY", "YY"])
    n = len(ka)
    i = rng.randrange(n)
    sot = rng.choice([300, 300, 500])
    fbs = f" fb={i}:{rng.choice([1, 2])}" if rng.random() < 0.3 else ""
    ops = [f"conn ka={ka} remote=stall sot={sot}{fbs}"]
    if big:
        total = rng.choice([257, 257, 258, 264, 300])
        shape = rng.choice(["split", "split", "clog"])
        if shape == "clog":
            # more than the command channel takes: the rest is refused (`clogged`), asked again after a `run`
            ops += [f"burst {i} {total}", "run", f"burst {i} {total - 256}", "run"]
        else:
            a = rng.choice([100, 200, 256])
            ops += [f"burst {i} {a}", "run", f"burst {i} {total - a}", "run"]
        if n > 1 and rng.random() < 0.5:
            ops += [f"local_open {(i + 1) % n}", "run"]
    else:
        for _ in range(rng.choice([1, 2, 3, 5])):
            ops.append(rng.choice([f"local_open {i}", f"local_open {rng.randrange(n)}", f"burst {i} {rng.choice([2, 3])}"]))
            if rng.random() < 0.4:
                ops.append("run")
        ops.append("run")
    if big:
        # while the last requests wait for the ACK backlog to shrink the connection must go on working: an inbound
        # substream is accepted, a remote close is noticed (the pending requests then end with the connection)
        pre = rng.choice(["none", "none", "inbound", "inbound", "close" if allow_close else "inbound"])
        if pre == "inbound":
            ops += [f"remote_open {rng.randrange(n)} full", "run"]
        elif pre == "close":
            ops += [rng.choice(["remote_close", "remote_goaway"]), "run", "run"]
            return ops
    ops.append(f"sleep {sot + TIMEOUT_MARGIN + 100}")
    # afterwards the connection still works
    tail = rng.choice(["inbound", "open_again", "close", "idle"])
    if tail == "inbound":
        ops += [f"remote_open {rng.randrange(n)} full", "run"] + close_cause(rng, n) + ["run", "run"]
    elif tail == "open_again":
        ops += ["remote_policy accept", f"local_open {i}", "run", f"drop_sub {i}", "run"] + close_cause(rng, n) + ["run", "run"]
    elif tail == "close":
        ops += close_cause(rng, n, allow_idle=False) + ["run", "run"]
    else:
        ops += [f"downgrade {j}" for j in range(n)] + ["run", "run"]
    return ops


def fallback_case(rng):
    """The C09-d1 shape: protocols with fallback names. A substream negotiated under a fallback name — proposed by the
    remote, or agreed on by a remote that only knows the old name of a protocol we ask for — is a substream of THAT
    protocol: reported to it (with the name), and for a keep-alive protocol it holds the connection across the release
    of every handle, until it is dropped."""
    ka = kinds(rng)
    n = len(ka)
    fb = [rng.choice([0, 1, 2, 2]) for _ in range(n)]
    j = rng.choice([x for x in range(n) if ka[x] == "Y"] or list(range(n)))
    if fb[j] == 0:
        fb[j] = rng.choice([1, 2])
    fbs = ",".join(f"{x}:{fb[x]}" for x in range(n) if fb[x])
    pol = rng.choice(["fallback", "fallback", "accept", "stall"])
    ops = [f"conn ka={ka} fb={fbs} remote={pol}" + rng.choice(["", "", " cap=2"])]
    f = rng.randint(1, fb[j])
    how = rng.choice(["in_full", "in_full", "in_hdr", "out"])
    if how == "in_full":
        ops += [f"remote_open {j}.f{f} full", "run"]
    elif how == "in_hdr":
        ops += [f"remote_open {j} hdr", "run", rng.choice([f"remote_continue 0 {j}.f{f}", f"remote_continue 0 {j}.f{f}",
                                                             f"remote_continue 0 {j}.f{fb[j] + 1}"]), "run"]
    else:
        ops += [f"local_open {j}", "run", "run"]
    # a second substream of some protocol, under any name
    if rng.random() < 0.5:
        x = rng.randrange(n)
        ops += [rng.choice([f"remote_open {x} full", f"remote_open {x}.f{rng.randint(1, 2)} full", f"local_open {x}"]), "run"]
    order = list(range(n))
    rng.shuffle(order)
    for i in order:
        ops.append(rng.choice([f"downgrade {i}", f"downgrade {i}", f"drop_handle {i}"]))
        if rng.random() < 0.3:
            ops.append("run")
    ops += ["run", "run"]
    if rng.random() < 0.3:
        ops += [f"half_close {j}", "run"]
    end = rng.choice(["drop_sub", "drop_sub", "keep", "remote_close"])
    if end == "drop_sub":
        ops += [f"drop_sub {j}", "run", f"drop_sub {j}", "run"]
    elif end == "remote_close":
        ops += ["remote_close", "run"]
    return ops


def random_case(rng, length):
    ka = kinds(rng)
    n = len(ka)
    via = rng.random() < 0.15
    head = f"conn ka={ka} remote={rng.choice(['accept', 'accept', 'refuse', 'stall', 'fallback'])}"
    fb = [0] * n
    if rng.random() < 0.3:
        fb = [rng.choice([0, 1, 2]) for _ in range(n)]
        if any(fb):
            head += " fb=" + ",".join(f"{x}:{fb[x]}" for x in range(n) if fb[x])

    def wire(i):
        r = rng.random()
        if r < 0.55:
            return str(i)
        if r < 0.8:
            return f"{i}.f{rng.randint(1, 2)}"      # may or may not be a name of protocol i
        return "x"
    if rng.random() < 0.35:
        head += f" cap={rng.choice([1, 1, 2, 3])}"
    if rng.random() < 0.1:
        head += " mcap=1"
    if rng.random() < 0.05:
        head += " sot=3000"
    ops = [head + (" via=accept" if via else "")]
    accept_at = rng.randrange(0, 4) if via else -1
    opened = 0
    proposed = {}
    for step in range(length):
        if step == accept_at:
            ops.append("accept")
        r = rng.random()
        i = rng.randrange(n)
        if r < 0.10:
            ops.append(rng.choice([f"fill {i}", f"fill {i}", "fill m", "pause m", "resume m", f"half_close {i}",
                                   f"half_close {i}", f"read_sub {i}", f"remote_send {rng.randrange(opened + 1)}",
                                   f"sleep {rng.choice([1, 5, 20])}", f"pause {i}", f"resume {i}", f"resume {i}"]))
            continue
        r = (r - 0.10) / 0.90
        if r < 0.28:
            ops.append("run")
        elif r < 0.40:
            ops.append(f"downgrade {i}")
        elif r < 0.45:
            ops.append(f"upgrade {i}")
        elif r < 0.49:
            ops.append(f"drop_handle {i}")
        elif r < 0.58:
            ops.append(f"local_open {i}" if rng.random() < 0.85 else f"burst {i} {rng.choice([2, 3])}")
        elif r < 0.61:
            ops.append(f"force_close {i}")
        elif r < 0.75:
            how = rng.choice(["hdr", "full", "full"])
            name = wire(i)
            ops.append(f"remote_open {name} {how}")
            proposed[opened] = how == "full" and name != "x"
            opened += 1
        elif r < 0.83 and opened:
            k = rng.randrange(opened)
            ops.append(f"remote_continue {k} {wire(i)}")
        elif r < 0.86 and opened:
            ops.append(f"remote_reset {rng.randrange(opened)}")
        elif r < 0.88:
            ops.append(rng.choice(["remote_close", "remote_goaway"]))
        elif r < 0.92:
            ops.append(f"drop_sub {i}")
        elif r < 0.95:
            ops.append(rng.choice([f"pause {i}", f"resume {i}"]))
        elif r < 0.96:
            ops.append(f"drop_rx {i}")
        elif r < 0.98:
            ops.append(f"remote_policy {rng.choice(['accept', 'refuse', 'stall', 'fallback'])}")
        else:
            ops.append("run")
    ops += ["run", "run"]
    return ops


def fixed_cases():
    return [
        # inbound keep-alive substream negotiated across the expiry of every handle, then dropped
        ["conn ka=Y", "remote_open 0 hdr", "run", "downgrade 0", "run", "run", "remote_continue 0 0", "run",
         "run", "drop_sub 0", "run"],
        ["conn ka=YN", "remote_open 0 hdr", "run", "downgrade 1", "downgrade 0", "run", "remote_continue 0 0", "run",
         "drop_sub 0", "run"],
        # ping-like protocol: the opening permit goes once the substream is delivered
        ["conn ka=N", "remote_open 0 full", "run", "downgrade 0", "run", "run"],
        # outbound open stalled by the remote: held until force-closed
        ["conn ka=Y remote=stall", "local_open 0", "run", "downgrade 0", "run", "force_close 0", "run"],
        # no-permit exit from primitive operations
        ["conn ka=Y", "remote_open 0 hdr", "downgrade 0", "run", "run"],
        # message in flight keeps the connection
        ["conn ka=YN", "pause 1", "remote_open 1 full", "run", "downgrade 0", "downgrade 1", "run", "resume 1", "run"],
        # a protocol that shut down gets an inbound substream: error exit, the others are told
        ["conn ka=YY", "drop_rx 1", "remote_open 1 full", "run", "run"],
        ["conn ka=Y remote=refuse", "local_open 0", "run", "remote_close", "run"],
        # graceful end of the remote (yamux go-away): the `None` arm of handle_yamux_substream
        ["conn ka=YN", "remote_goaway", "run", "run"],
        ["conn ka=Y", "remote_open 0 full", "run", "remote_goaway", "run"],
        # half-closed substream of a keep-alive protocol across the expiry of every handle, read from, then dropped
        ["conn ka=Y", "remote_open 0 full", "run", "half_close 0", "run", "downgrade 0", "run", "run", "remote_send 0",
         "run", "read_sub 0", "drop_sub 0", "run"],
        ["conn ka=YN", "local_open 0", "run", "run", "downgrade 1", "downgrade 0", "run", "half_close 0", "run", "run",
         "drop_sub 0", "run"],
        # ... of a ping-like protocol: never held the connection
        ["conn ka=N", "remote_open 0 full", "run", "half_close 0", "downgrade 0", "run"],
        # full channel: the close report waits, nothing is lost
        ["conn ka=YY cap=1", "pause 0", "fill 0", "remote_close", "run", "sleep 30", "resume 0", "run"],
        ["conn ka=Y mcap=1", "pause m", "fill m", "force_close 0", "run", "sleep 30", "resume m", "run"],
        # accept with a full channel: suspended, the others told; comes up when the slow protocol reads
        ["conn ka=YY cap=1 via=accept", "pause 0", "fill 0", "accept", "downgrade 1", "sleep 30", "resume 0", "run",
         "remote_close", "run"],
        ["conn ka=YN via=accept", "accept", "remote_open 1 full", "run", "remote_goaway", "run"],
        ["conn ka=Y via=accept", "run", "accept", "accept", "downgrade 0", "run"],
        # a substream negotiated under a fallback name of a keep-alive protocol holds the connection; reported to its protocol
        ["conn ka=YN fb=0:2,1:1", "remote_open 0.f2 full", "run", "downgrade 0", "downgrade 1", "run", "run", "drop_sub 0", "run"],
        ["conn ka=NY fb=0:1,1:1", "remote_open 0.f1 full", "run", "downgrade 0", "downgrade 1", "run"],
        ["conn ka=Y fb=0:1 remote=fallback", "local_open 0", "run", "run", "downgrade 0", "run", "drop_sub 0", "run"],
        ["conn ka=YY fb=1:1 remote=fallback", "local_open 0", "local_open 1", "run", "run"],
        ["conn ka=Y fb=0:1", "remote_open 0.f2 full", "run", "remote_continue 0 0.f1", "run", "downgrade 0", "run"],
        # outbound requests to a remote that never answers, small timeout: each one is answered with its id
        ["conn ka=Y remote=stall sot=300", "local_open 0", "burst 0 2", "run", "sleep 800", "downgrade 0", "run"],
        # more requests than the command channel takes: the rest is refused
        ["conn ka=Y remote=stall", "burst 0 300", "run", "burst 0 10", "force_close 0", "run"],
        ["conn ka=YYYYY"], ["run"], ["conn ka=Y", "bogus"], ["conn ka=Y cap=0"], ["conn ka=Y", "sleep 99999"],
        ["conn ka=Y fb=0:3"], ["conn ka=Y fb=1:1"], ["conn ka=Y", "burst 0 0"], ["conn ka=Y", "remote_open 0.f3 full"],
    ]


def dead_rx_case(rng):
    """The C06-e1 shape: a (counted) connection ends after some of the installed protocols have shut down — their
    receivers are gone, telling them fails — in every close path of the loop, directly or through the real accept
    future. The manager must be told all the same (it releases the connection's slot only then), exactly once."""
    ka = kinds(rng)
    n = len(ka)
    via = rng.random() < 0.3
    head = f"conn ka={ka}" + (f" cap={rng.choice([1, 2, 64])}" if rng.random() < 0.3 else "") + (" via=accept" if via else "")
    ops = [head]
    gone = [i for i in range(n) if rng.random() < 0.6] or [rng.randrange(n)]
    early = via and rng.random() < 0.4
    if early:
        ops += [f"drop_rx {i}" for i in gone]
    if via:
        ops.append("accept")
    for _ in range(rng.randrange(3)):
        i = rng.randrange(n)
        ops.append(rng.choice([f"remote_open {i} full", f"local_open {i}", "run", f"downgrade {i}", f"upgrade {i}"]))
    if not early:
        ops += [f"drop_rx {i}" for i in gone]
    if rng.random() < 0.3:
        ops.append("run")
    ops += close_cause(rng, n) + ["run", "run"]
    return ops


def gen_cases(rng, tier, focus=None):
    """`focus`: "C07" / "C09" shifts the mix towards that property's shapes."""
    if focus == "C06":
        # the manager's view of a connection's end (no real-time holds): every close path, with and without protocols
        # that have shut down, directly and through the real accept future
        n_dead = {"quick": 60, "thorough": 1500, "search": 100}[tier]
        n_acc = {"quick": 20, "thorough": 400, "search": 30}[tier]
        n_rand = {"quick": 50, "thorough": 1500, "search": 80}[tier]
        cases = [list(c) for c in fixed_cases() if not any(op.startswith("sleep") for op in c)]
        cases += [dead_rx_case(rng) for _ in range(n_dead)]
        cases += [accept_case(rng) for _ in range(n_acc)]
        # f-round: a substream finishing negotiation against a full channel, then every exit path (no real-time waits)
        cases += order_cases(rng, {"quick": 14, "thorough": 300, "search": 20}[tier])
        cases += [random_case(rng, rng.choice([5, 8, 12])) for _ in range(n_rand)]
        return cases
    n_race = {"quick": 24, "thorough": 400, "search": 40}[tier]
    n_span = {"quick": 60, "thorough": 1500, "search": 100}[tier]
    n_rand = {"quick": 220, "thorough": 6000, "search": 300}[tier]
    if focus == "C09":
        n_race //= 3
    if focus == "C07":
        n_span //= 2
    cases = [list(c) for c in fixed_cases()]
    # real-time holds (kept few: each costs its wall time in one shard). C07: 6 s holds (hard-coded
    # bounds), a few 1.5 s holds (bounds from configuration: substream_open_timeout / connection_open_timeout = 1 s).
    # f-round (C07-f1): the long hold ROTATES over the exit paths of the loop — one per path (busy protocol) plus two with
    # a busy manager in every quick run; they are consecutive in the list, so each lands in a shard of its own.
    n_long = {"quick": 7, "thorough": 20, "search": 0}[tier]
    n_short = {"quick": 3, "thorough": 24, "search": 1}[tier]
    n_acc_hold = {"quick": 3, "thorough": 24, "search": 1}[tier]
    if focus == "C09":
        n_long, n_short, n_acc_hold = 0, 0, (1 if tier != "search" else 0)
    if focus == "C08":
        n_long, n_short, n_acc_hold = 0, 1, 1
        n_race, n_span, n_rand = n_race // 3, n_span // 3, n_rand // 2
    cases += long_holds(rng, n_long)
    cases += [hold_case(rng, 1500, sot=1000) for _ in range(n_short)]
    cases += [accept_hold_case(rng, 1500) for _ in range(n_acc_hold)]
    n_half = {"quick": 40, "thorough": 800, "search": 60}[tier]
    n_acc = {"quick": 30, "thorough": 600, "search": 40}[tier]
    if focus == "C07":
        n_half //= 4
    if focus == "C09":
        n_acc //= 3
    cases += [half_case(rng) for _ in range(n_half)]
    cases += [accept_case(rng) for _ in range(n_acc)]
    # d-round: bursts of outbound requests beyond the yamux ACK backlog against a stalling remote with a small
    # substream_open_timeout (C08-d2; each costs its timeout + margin of wall time), fallback names (C09-d1)
    n_burst = {"quick": 2, "thorough": 16, "search": 1}[tier]
    n_stall = {"quick": 3, "thorough": 40, "search": 2}[tier]
    n_fb = {"quick": 40, "thorough": 800, "search": 60}[tier]
    if focus == "C08":
        n_burst, n_stall = {"quick": 4, "thorough": 32, "search": 2}[tier], {"quick": 6, "thorough": 80, "search": 3}[tier]
    if focus == "C07":
        n_fb //= 4
    # (the first one always waits past the timeout)
    cases += [burst_case(rng, allow_close=k > 0) for k in range(n_burst)]
    cases += [burst_case(rng, big=False) for _ in range(n_stall)]
    cases += [fallback_case(rng) for _ in range(n_fb)]
    # f-round (C08-f1): a substream finishing negotiation against a full channel, then every exit path, then drain
    n_order = {"quick": 28, "thorough": 600, "search": 30}[tier]
    if focus in ("C07", "C09"):
        n_order //= 2
    cases += order_cases(rng, n_order)
    if focus != "C09":
        cases.append([f"arrange_race {RACE_ROUNDS[tier]}"])
    else:
        cases.append(["arrange_race 8"])
    cases += [race_case(rng) for _ in range(n_race)]
    cases += [span_case(rng) for _ in range(n_span)]
    cases += [random_case(rng, rng.choice([5, 8, 12, 16])) for _ in range(n_rand)]
    return cases


# ------------------------------------------------------------------------------------------ observations

_BASE = re.compile(r"^(Oi|Oo|X|E|C|F|\?)")


def base(msg):
    """'Oo1003.f1' -> 'Oo', 'X1000' -> 'X', 'Oi.f2' -> 'Oi'."""
    m = _BASE.match(msg)
    return m.group(1) if m else msg


def parse(o):
    """'<ret> loop=.. acc=.. strong=.. p0=.. m=.. [stuck]' -> dict or None. `p`: message kinds per protocol
    (`Oi`, `Oo`, `X`, ..), `praw`: as printed (`Oo1003.f1`, `X1000`, `Oi.f2`)."""
    t = o.split()
    if len(t) < 5 or not t[1].startswith("loop="):
        return None
    d = {"ret": t[0], "stuck": t[-1] == "stuck", "p": {}, "praw": {}}
    for x in t[1:]:
        if "=" not in x:
            continue
        k, v = x.split("=", 1)
        if k[0] == "p" and k[1:].isdigit():
            d["praw"][int(k[1:])] = [] if v in ("-", "x") else v.split(",")
            d["p"][int(k[1:])] = [base(m) for m in d["praw"][int(k[1:])]]
            if v == "x":
                d.setdefault("dead", set()).add(int(k[1:]))
        elif k == "m":
            d["m"] = [] if v == "-" else v.split(",")
        else:
            d[k] = v
    return d


def conn_opts(line):
    """Options of a `conn` line."""
    c = {"ka": "", "fb": [0, 0, 0, 0], "via": False, "sot": None, "policy": "accept", "small": False}
    for a in line.split()[1:]:
        k, _, v = a.partition("=")
        if k == "ka":
            c["ka"] = v
        elif k == "fb":
            for part in v.split(","):
                i, _, n = part.partition(":")
                if i.isdigit() and n.isdigit() and int(i) < 4:
                    c["fb"][int(i)] = int(n)
        elif a == "via=accept":
            c["via"] = True
        elif k == "sot" and v.isdigit():
            c["sot"] = int(v)
        elif k == "remote":
            c["policy"] = v
        elif k in ("cap", "mcap"):
            c["small"] = True
    c["n"] = len(c["ka"])
    return c


def name_proto(tok, n, fb):
    """Wire name token (`<j>`, `<j>.f<k>`, `x`) -> (protocol, fallback index) if it is a name of an installed
    protocol, else None."""
    j, _, f = tok.partition(".f")
    if not j.isdigit() or int(j) >= n:
        return None
    if f == "" and "." not in tok:
        return int(j), 0
    if f.isdigit() and 1 <= int(f) <= fb[int(j)]:
        return int(j), int(f)
    return None


def race_outcomes(o):
    """'ok/acc0/pC/mC*17 err/acc1/pC/mC*7' -> [(loop, p-messages, m-messages, count, stuck)]"""
    res = []
    for tok in o.split():
        if "*" not in tok:
            return None
        body, cnt = tok.rsplit("*", 1)
        f = body.split("/")
        if body == "inconclusive":
            continue
        if len(f) < 4 or not cnt.isdigit():
            return None
        res.append((f[0], f[2][1:], f[3][1:], int(cnt), "stuck" in f[4:]))
    return res


# ------------------------------------------------------------------------------------------ oracle C07

def oracle_c07(case, out):
    """Once the connection task has returned, every live protocol and the manager have exactly one closed report — a
    protocol (or the manager) that is busy gets it when it catches up, however long that takes; nobody is ever told twice;
    nobody is told before the task exists, nor (where no channel can be full) while it is still running; a protocol that
    was told `established` by an accept that is then abandoned (`loop=failed`: the connection is dropped without a task)
    must be told `closed` all the same."""
    bad = []

    def v(kind, msg, i):
        bad.append({"kind": kind, "msg": msg, "step": i, "op": case[i], "out": out[i] if i < len(out) else None})

    got = {}
    est = {}
    mgr = 0
    exited_at = None
    paused, dead = set(), set()
    mgr_paused = False
    can_fill = any(a.startswith(("cap=", "mcap=")) for a in case[0].split()[1:]) if case else False
    n = 0
    for i, op in enumerate(case):
        if i >= len(out):
            break
        o = out[i]
        t = op.split()
        if o.startswith("panic"):
            v("panic", "panic in the connection event loop: " + o, i)
            return bad
        if o in ("skipped", "bad-op", "inconclusive"):
            if o != "bad-op":
                return bad
            continue
        if t[0] == "arrange_race":
            outs = race_outcomes(o)
            if outs is None:
                continue
            for loop, p, m, cnt, stuck in outs:
                if loop in ("ok", "err") and (p != "C" or m != "C"):
                    v("closed-missing" if (p.count("C") < 1 or m.count("C") < 1) else "closed-twice",
                      f"{cnt} of the connections whose last holder let go while a remote substream arrived ended "
                      f"(start() returned {loop}) with protocol messages [{p or '-'}] and manager messages [{m or '-'}]: "
                      "not exactly one close report each", i)
                    break
            continue
        d = parse(o)
        if d is None:
            continue
        n = max(n, len(d["p"]))
        if t[0] == "fill":
            can_fill = True
        if t[0] == "pause" and d["ret"] == "ok" and len(t) == 2:
            if t[1] == "m":
                mgr_paused = True
            elif t[1].isdigit():
                paused.add(int(t[1]))
        if t[0] == "resume" and d["ret"] == "ok" and len(t) == 2:
            if t[1] == "m":
                mgr_paused = False
            elif t[1].isdigit():
                paused.discard(int(t[1]))
        dead |= d.get("dead", set())
        for k, msgs in d["p"].items():
            got[k] = got.get(k, 0) + msgs.count("C")
            est[k] = est.get(k, 0) + msgs.count("E")
            if got[k] > 1:
                v("closed-twice", f"protocol {k} was told {got[k]} times that the connection closed", i)
                return bad
        mgr += d.get("m", []).count("C")
        if mgr > 1:
            v("closed-twice", f"the manager was told {mgr} times that the connection closed", i)
            return bad
        told = mgr or any(got.values())
        if d["loop"] in ("parked", "accepting") and told:
            v("closed-early", "a close report was delivered although the connection task has not even been started", i)
            return bad
        if d["loop"] == "run" and told and not can_fill:
            # with room in every channel a report is not suspended: the task returns in the same poll
            v("closed-early", "a close report was delivered although the connection task is still running", i)
            return bad
        if d["loop"] in EXITED and exited_at is None:
            exited_at = i
        if exited_at is not None:
            # whoever is not paused has taken everything there is (run-like operations drain until nothing arrives)
            missing = [k for k in range(n) if k not in dead and k not in paused and got.get(k, 0) != 1]
            if missing:
                v("closed-missing-proto", f"the connection task has returned ({d['loop']}) but running protocol(s) {missing} "
                  "got no close report" + (" (after having been busy for a while)" if can_fill else ""), i)
                return bad
            if mgr != 1 and not mgr_paused:
                v("closed-missing-mgr", f"the connection task has returned ({d['loop']}) but the manager got no close report"
                  + (" (a protocol or the manager was busy for a while)" if can_fill else ""), i)
                return bad
        if d["loop"] == "failed":
            # the accept was abandoned: the negotiated connection is gone and no task will ever report it
            owed = [k for k in range(n) if k not in dead and k not in paused and est.get(k, 0) >= 1 and got.get(k, 0) != 1]
            if owed:
                v("established-not-closed", f"accepting the connection failed (the connection was dropped, no connection task "
                  f"exists) after protocol(s) {owed} had been told that it was established: they are never told that it closed", i)
                return bad
    return bad


# ------------------------------------------------------------------------------------------ oracle C06

def oracle_c06(case, out):
    """Capacity is released exactly when a counted connection closes: the transport manager releases the slot of a
    connection when — and only when — the connection's `ProtocolSet` tells it `ConnectionClosed`. So: once the connection
    task has returned, the manager has been told exactly once (a manager that is busy gets it when it catches up),
    WHATEVER became of the installed protocols meanwhile; it is never told twice (a second report would release the slot
    of whoever was given the id next... and is a double release) and never before the task exists."""
    bad = []

    def v(kind, msg, i):
        bad.append({"kind": kind, "msg": msg, "step": i, "op": case[i], "out": out[i] if i < len(out) else None})

    mgr = 0
    mgr_paused = False
    dead = set()
    for i, op in enumerate(case):
        if i >= len(out):
            break
        o = out[i]
        t = op.split()
        if o.startswith("panic") or o in ("skipped", "inconclusive"):
            return bad
        if o == "bad-op" or t[0] == "arrange_race":
            continue
        d = parse(o)
        if d is None:
            continue
        if t[0] in ("pause", "resume") and d["ret"] == "ok" and t[1:] == ["m"]:
            mgr_paused = t[0] == "pause"
        dead |= d.get("dead", set())
        mgr += d.get("m", []).count("C")
        if mgr > 1:
            v("released-twice", f"the manager was told {mgr} times that the connection closed: its slot is released twice", i)
            return bad
        if d["loop"] in ("parked", "accepting") and mgr:
            v("released-early", "the manager was told that the connection closed before its task was started", i)
            return bad
        if d["loop"] in EXITED and mgr != 1 and not mgr_paused:
            gone = f" (protocol(s) {sorted(dead)} had shut down before)" if dead else ""
            v("slot-leaked", f"the connection task has returned ({d['loop']}){gone} but the manager was never told that the "
              "connection closed: its slot in the connection limits is never released", i)
            return bad
    return bad


# ------------------------------------------------------------------------------------------ oracle C09

def oracle_c09(case, out):
    """(a) The loop never ends by the idle mechanism while a substream of a keep-alive protocol is open or being
    opened (inbound: from the moment the connection task accepted it, judged by the protocol it ends up proposing);
    (b) it does end once no strong sender is left. Judged only where no other termination cause (force close, remote
    close, a protocol shutting down) is around."""
    bad = []

    def v(kind, msg, i):
        bad.append({"kind": kind, "msg": msg, "step": i, "op": case[i], "out": out[i] if i < len(out) else None})

    if not case or not case[0].startswith(("conn", "arrange_race")):
        return bad
    if case[0].startswith("arrange_race"):
        if out:
            outs = race_outcomes(out[0]) or []
            for loop, p, m, cnt, stuck in outs:
                if loop == "run":
                    v("idle-not-closed", f"{cnt} connections without any strong sender left were not closed", 0)
                    break
        return bad
    co = conn_opts(case[0])
    ka, via, timeouts, n, fb = co["ka"], co["via"], co["sot"] is not None, co["n"], co["fb"]
    # inbound streams: target protocol (first proposal of a name — main or fallback — of an installed protocol,
    # anywhere in the case): the permit rule is per protocol, whichever of its names is negotiated
    target, opened = {}, 0
    for op in case:
        t = op.split()
        if t[0] == "remote_open" and len(t) == 3:
            if t[2] == "full" and name_proto(t[1], n, fb):
                target[opened] = name_proto(t[1], n, fb)[0]
            opened += 1
        elif t[0] == "remote_continue" and len(t) == 3 and t[1].isdigit():
            k = int(t[1])
            if k not in target and name_proto(t[2], n, fb):
                target[k] = name_proto(t[2], n, fb)[0]
    other_cause = False
    active = [not via] * n  # the protocols' handles (taken with the `established` event)
    paused_now = set()
    mgr_paused = False
    oi_total = 0            # inbound substreams delivered, all protocols
    any_uncertain = False
    uncertain = set()
    reset = set()
    proposal_known = {}
    n_open = 0
    received = [0] * n      # substreams delivered to protocol j
    oi = [0] * n            # ... of which inbound
    dropped = [0] * n
    failed = [0] * n
    cmds = [0] * n          # OpenSubstream commands sent by protocol j
    acc_before = 0
    prev = None
    for i, op in enumerate(case):
        if i >= len(out):
            break
        o = out[i]
        if o.startswith("panic") or o in ("skipped", "inconclusive"):
            return bad
        if o == "bad-op":
            continue
        d = parse(o)
        if d is None:
            continue
        t = op.split()
        if t[0] in ("force_close", "remote_close", "remote_goaway", "drop_rx") and d["ret"] == "ok":
            other_cause = True
        if t[0] == "remote_open" and d["ret"].startswith("s"):
            proposal_known[n_open] = len(t) == 3 and t[2] == "full"
            n_open += 1
        if t[0] == "remote_continue" and d["ret"] == "ok" and t[1].isdigit():
            proposal_known[int(t[1])] = True
        if t[0] == "remote_reset" and d["ret"] == "ok" and t[1].isdigit():
            k = int(t[1])
            reset.add(k)
            if proposal_known.get(k) and k in target:
                uncertain.add(target[k])      # may or may not have been delivered before
        if t[0] == "local_open" and d["ret"] == "ok":
            cmds[int(t[1])] += 1
        if t[0] == "burst" and d["ret"].startswith("ok") and t[1].isdigit() and int(t[1]) < n:
            cmds[int(t[1])] += int(re.match(r"ok(\d+)", d["ret"]).group(1))
        if t[0] == "drop_sub" and d["ret"] == "ok":
            dropped[int(t[1])] += 1
        if t[0] == "pause" and len(t) == 2:
            if t[1] == "m":
                mgr_paused = True
            elif t[1].isdigit() and int(t[1]) < n:
                uncertain.add(int(t[1]))
                any_uncertain = True
                paused_now.add(int(t[1]))
        if t[0] == "resume" and len(t) == 2:
            if t[1] == "m":
                mgr_paused = False
            elif t[1].isdigit():
                paused_now.discard(int(t[1]))
        if t[0] == "fill":
            any_uncertain = True
        for k, msgs in d["p"].items():
            if k < n and "E" in msgs:
                active[k] = True
        # a report may be waiting for somebody who is busy: the loop is then neither idle nor done
        blocked = bool(paused_now) or mgr_paused
        if t[0] == "remote_reset" and d["ret"] == "ok":
            any_uncertain = any_uncertain or bool(proposal_known.get(int(t[1]))) if t[1].isdigit() else any_uncertain
        if t[0] in ("downgrade", "drop_handle") and t[1].isdigit() and int(t[1]) < n and d["ret"] in ("ok", "none"):
            active[int(t[1])] = False
        if t[0] == "upgrade" and t[1].isdigit() and int(t[1]) < n:
            active[int(t[1])] = d["ret"] == "active"
        # state BEFORE this operation decides whether an exit during it is allowed
        if t[0] in RUNLIKE and prev is not None and prev["loop"] == "run" and d["loop"] in EXITED and not other_cause:
            for j in range(n):
                if ka[j] != "Y" or j in uncertain:
                    continue
                inbound = sum(1 for k, tj in target.items() if tj == j and k < acc_before and k not in reset)
                # an open that FAILED during this very run was over before the loop ended
                failed_now = d["p"].get(j, []).count("X")
                pending = inbound + cmds[j] - received[j] - failed[j] - failed_now
                if timeouts:
                    pending = 0     # a negotiation may have timed out without a message
                held = received[j] - dropped[j]
                if held > 0 or pending > 0:
                    what = (f"{held} open substream(s)" if held > 0 else f"{pending} substream(s) being opened")
                    v("closed-while-busy", f"the connection was closed by the idle mechanism (start() returned {d['loop']}) "
                      f"while keep-alive protocol {j} had {what}", i)
                    return bad
        # (c) nothing at all keeps the connection: every handle downgraded or dropped, every open answered, every
        # accepted inbound substream delivered or reset, no keep-alive protocol holds a substream (substreams held by
        # ping-like protocols do not count), nothing paused: this `run` must end the loop
        if t[0] in RUNLIKE and d["ret"] == "ok" and prev is not None and prev["loop"] == "run" and d["loop"] == "run" and not any_uncertain \
                and not other_cause and not any(active) and not blocked:
            live = [k for k in range(n_open) if k not in reset]
            all_answered = all(cmds[j] == failed[j] + (received[j] - oi[j]) for j in range(n))
            all_delivered = all(k in target for k in live) and oi_total == len(live) and acc_before == n_open
            none_held = all(received[j] - dropped[j] == 0 for j in range(n) if ka[j] == "Y")
            if all_answered and all_delivered and none_held:
                v("idle-not-closed", "every protocol has let go of the connection, no substream of a keep-alive protocol is "
                  "open or being opened and nothing is in flight, yet the connection task is still running after `run`", i)
                return bad
        if t[0] in RUNLIKE and d["ret"] == "ok" and prev is not None and prev["loop"] == "run" and prev.get("strong") == "n" \
                and d["loop"] == "run" and not blocked:
            v("idle-not-closed", "no strong sender of the command channel was left before `run`, yet the connection task "
              "is still running", i)
            return bad
        for k, msgs in d["p"].items():
            if k < n:
                received[k] += sum(1 for m in msgs if m in ("Oi", "Oo"))
                oi[k] += msgs.count("Oi")
                oi_total += msgs.count("Oi")
                failed[k] += msgs.count("X")
        if d.get("acc", "").isdigit():
            acc_before = int(d["acc"])
        prev = d
    return bad


# ------------------------------------------------------------------------------------------ oracle C08

TIMEOUT_MARGIN = 400


def oracle_c08(case, out):
    """The connection task's side of C08: "while a peer is connected a request to open a substream is accepted and
    answered at most once, with either the opened substream or a failure carrying the same identifier, and exactly once
    unless its connection terminates first".
    (a) every `SubstreamOpened(outbound)` / `SubstreamOpenFailure` a protocol receives carries the id of a request THAT
        protocol made and that has not been answered before;
    (b) a request that has been with a running connection task for longer than the configured substream open timeout
        (`sot=`; judged at a `sleep` of at least timeout + margin, where nobody was ever busy: no pause / fill in the
        case) has been answered — whatever the remote does (stalls the negotiation, never acknowledges the yamux
        stream) and however many requests are pending;
    (c) a substream is reported to the protocol that owns the negotiated name, under that name: an inbound substream
        arrives at the protocol one of whose names the remote proposed, with `fallback` telling which; never with a
        name the protocol does not have;
    (d) ORDER: "substream events refer to a peer that is connected" — per protocol the events of one connection are
        `E .. Oi/Oo/X .. C`: once a protocol has been told that the connection closed no substream event (opened or
        failed) of that connection reaches it, however full its channel was when the substream finished negotiating
        (the loop waits in the send of the report; it is not handed to somebody who delivers it later);
    (e) NOT LOST: an inbound substream proposing a name of a running protocol that was fully negotiated while the loop
        was running (a `run` after the proposal left the loop running; nobody else busy, no small timeout, not reset)
        is reported to that protocol — at the latest when it catches up — also when the connection ends afterwards
        (judged only for negotiations that ended before any operation that can end the connection)."""
    bad = []

    def v(kind, msg, i):
        bad.append({"kind": kind, "msg": msg, "step": i, "op": case[i], "out": out[i] if i < len(out) else None})

    if not case or not case[0].startswith("conn"):
        return bad
    co = conn_opts(case[0])
    n, fb, sot = co["n"], co["fb"], co["sot"]
    owner = {}            # request id -> protocol
    asked_at = {}         # request id -> step
    answered = {}         # request id -> step
    next_id = 1000
    busy_ever = False
    prev_loop = None
    # names proposed by the remote, per protocol: fallback index -> how often
    proposed = {}
    n_open = 0
    first_prop = {}
    for op in case:
        t = op.split()
        if t[0] == "remote_open" and len(t) == 3:
            if t[2] == "full" and name_proto(t[1], n, fb):
                first_prop[n_open] = name_proto(t[1], n, fb)
            n_open += 1
        elif t[0] == "remote_continue" and len(t) == 3 and t[1].isdigit():
            if int(t[1]) not in first_prop and name_proto(t[2], n, fb):
                first_prop[int(t[1])] = name_proto(t[2], n, fb)
    for (j, f) in first_prop.values():
        proposed.setdefault(j, {}).setdefault(f, 0)
        proposed[j][f] += 1
    got_in = {}
    closed_at = {}        # protocol -> step of its close report
    paused = set()
    mgr_paused = False
    dead = set()
    prop = {}             # remote stream -> (protocol, fallback) of its FIRST proposal of an installed name / None
    risk = set()          # busy protocols the loop may already be waiting for (a send to them is in progress)
    unsettled = {}        # remote stream -> protocol: proposed in full, no `run` since
    owed = {}             # protocol -> inbound substreams that must reach it (e)
    oi_count = {}
    exited = False
    cause_seen = False
    for i, op in enumerate(case):
        if i >= len(out):
            break
        o = out[i]
        if o.startswith("panic") or o in ("skipped", "inconclusive"):
            return bad
        if o == "bad-op":
            continue
        d = parse(o)
        if d is None:
            continue
        t = op.split()
        if t[0] in ("pause", "fill"):
            busy_ever = True
        # (d) order, (e) nothing lost
        if t[0] in ("pause", "resume") and len(t) == 2 and d["ret"] == "ok":
            if t[1] == "m":
                mgr_paused = t[0] == "pause"
            elif t[1].isdigit():
                (paused.add if t[0] == "pause" else paused.discard)(int(t[1]))
        dead |= d.get("dead", set())
        if t[0] == "resume" and len(t) == 2 and t[1].isdigit() and d["ret"] == "ok":
            risk.discard(int(t[1]))       # it has caught up: the loop is not waiting for it any more
        if t[0] in ("local_open", "burst") and len(t) >= 2 and t[1].isdigit() and int(t[1]) in paused:
            risk.add(int(t[1]))           # the answer may occupy the loop's one send to this protocol
        if t[0] in ("force_close", "remote_close", "remote_goaway", "drop_rx", "downgrade", "drop_handle"):
            # from here on the loop may be on an exit path (a `loop=run` afterwards can be a suspended close report)
            cause_seen = True
        sk = None
        if t[0] == "remote_open" and re.match(r"^s\d+$", d["ret"]) and len(t) == 3:
            sk = int(d["ret"][1:])
            prop[sk] = None
            if t[2] == "full":
                prop[sk] = name_proto(t[1], n, fb)
        elif t[0] == "remote_continue" and d["ret"] == "ok" and len(t) == 3 and t[1].isdigit() and prop.get(int(t[1]), 0) is None:
            sk = int(t[1])
            prop[sk] = name_proto(t[2], n, fb)
        if sk is not None and prop.get(sk):
            unsettled[sk] = prop[sk][0]
        if t[0] == "remote_reset" and t[1:2] and t[1].isdigit():
            unsettled.pop(int(t[1]), None)
        if t[0] == "run" and d["ret"] == "ok":
            if prev_loop == "run" and d["loop"] == "run" and sot is None and not d["stuck"] and not cause_seen:
                for k, j in sorted(unsettled.items()):
                    if j in dead:
                        continue
                    # certain only if the loop was not waiting in another send when the negotiation ended: nobody busy,
                    # or only the receiver itself with nothing else on its way to it
                    if not paused or (paused == {j} and j not in risk):
                        owed[j] = owed.get(j, 0) + 1
                    if j in paused:
                        risk.add(j)
            unsettled = {}
        elif t[0] in RUNLIKE:
            for j in unsettled.values():
                risk.add(j)
            unsettled = {}
        for k, raw in d["praw"].items():
            for m in raw:
                b = base(m)
                if b == "C":
                    closed_at.setdefault(k, i)
                elif b in ("Oi", "Oo", "X") and k in closed_at:
                    what = {"Oi": "an inbound substream", "Oo": "an opened outbound substream", "X": "an open failure"}[b]
                    v("substream-after-close", f"protocol {k} received `{m}` ({what} of this connection) AFTER it had been "
                      f"told at step {closed_at[k]} that the connection closed: the substream event refers to a peer the "
                      "protocol considers disconnected (the report of a negotiated substream must be queued before "
                      "anything else the connection task does)", i)
                    return bad
                if b == "Oi":
                    oi_count[k] = oi_count.get(k, 0) + 1
        if d["loop"] in EXITED:
            exited = True
        if exited and t[0] in RUNLIKE:
            lost = [k for k in sorted(owed) if k not in dead and k not in paused and k in closed_at
                    and oi_count.get(k, 0) < owed[k]]
            if lost:
                k = lost[0]
                v("substream-lost", f"{owed[k]} inbound substream(s) for protocol {k} finished negotiating while the "
                  f"connection task was running, but protocol {k} — which has caught up with its channel and has been told "
                  f"that the connection closed — received only {oi_count.get(k, 0)}: a negotiated substream was dropped "
                  "instead of being reported before the close", i)
                return bad
        k_new = 0
        if t[0] == "local_open" and d["ret"] == "ok":
            k_new = 1
        if t[0] == "burst" and d["ret"].startswith("ok"):
            k_new = int(re.match(r"ok(\d+)", d["ret"]).group(1))
        for _ in range(k_new):
            owner[next_id] = int(t[1])
            asked_at[next_id] = i
            next_id += 1
        for k, raw in d["praw"].items():
            for m in raw:
                b = base(m)
                if b in ("Oo", "X"):
                    mm = re.match(r"^(Oo|X)(\d+)", m)
                    if not mm:
                        v("answer-without-id", f"protocol {k} received the answer `{m}` without a request id", i)
                        return bad
                    rid = int(mm.group(2))
                    if rid not in owner:
                        v("answer-unknown-id", f"protocol {k} received `{m}`: no open request with id {rid} was accepted", i)
                        return bad
                    if owner[rid] != k:
                        v("answer-wrong-protocol", f"the answer `{m}` to request {rid} of protocol {owner[rid]} was "
                          f"delivered to protocol {k}", i)
                        return bad
                    if rid in answered:
                        v("answered-twice", f"request {rid} of protocol {k} was answered twice (`{m}`, first at step "
                          f"{answered[rid]})", i)
                        return bad
                    answered[rid] = i
                if b in ("Oi", "Oo"):
                    if m.endswith("!"):
                        v("reported-to-wrong-protocol", f"protocol {k} received `{m}`: the event names another protocol "
                          "than the one whose channel it arrived in", i)
                        return bad
                    fm = re.search(r"\.f(\d+|\?)", m)
                    f = 0 if not fm else (int(fm.group(1)) if fm.group(1).isdigit() else -1)
                    if f < 0 or f > fb[k]:
                        v("reported-unknown-name", f"protocol {k} received `{m}`: it has no such fallback name", i)
                        return bad
                    if b == "Oi":
                        got_in.setdefault(k, {}).setdefault(f, 0)
                        got_in[k][f] += 1
                        if got_in[k][f] > proposed.get(k, {}).get(f, 0):
                            name = f"{k}" if f == 0 else f"{k}.f{f}"
                            v("reported-under-wrong-name", f"protocol {k} received the inbound substream `{m}` but the "
                              f"remote proposed the name `{name}` only {proposed.get(k, {}).get(f, 0)} time(s) in this case "
                              "(a substream negotiated under one name was reported under another, or to another protocol)", i)
                            return bad
        # (b) answered within the configured timeout
        if (t[0] == "sleep" and sot is not None and len(t) == 2 and t[1].isdigit() and int(t[1]) >= sot + TIMEOUT_MARGIN
                and not busy_ever and prev_loop == "run" and d["loop"] == "run" and d["ret"] == "ok"):
            late = sorted(r for r in owner if asked_at[r] < i and r not in answered)
            dead = d.get("dead", set())
            late = [r for r in late if owner[r] not in dead]
            if late:
                v("open-never-answered", f"{len(late)} accepted open request(s) (ids {late[:4]}{'..' if len(late) > 4 else ''} of "
                  f"protocol(s) {sorted(set(owner[r] for r in late))}) have been with the running connection task for more "
                  f"than substream_open_timeout = {sot} ms (+{int(t[1]) - sot} ms) and were never answered — neither opened "
                  "nor failed — although the connection is still open", i)
                return bad
        prev_loop = d["loop"]
    return bad


def oracle(case, out):
    return oracle_c07(case, out) + oracle_c09(case, out) + oracle_c08(case, out)


def stats(case, out, acc, prefix="tcploop"):
    bump(acc, prefix + ":cases")
    if any(op.startswith("sleep ") and op[6:].isdigit() and 5000 <= int(op[6:]) <= 10000 for op in case):
        # which exit path the long hold is about (f-round: all of them in every quick run)
        path = ("error" if any(op.startswith("drop_rx") for op in case) else
                "force_close" if any(op.startswith("force_close") for op in case) else
                "remote_close" if "remote_close" in case else "remote_goaway" if "remote_goaway" in case else "idle")
        bump(acc, f"{prefix}:long-hold:{path}:" + ("mgr" if "pause m" in case else "proto"))
    if len(case) > 3 and case[1].startswith("pause ") and case[2].startswith("fill ") and case[1][6:] == case[2][5:] \
            and case[1][6:].isdigit() and case[3].startswith(("remote_open", "local_open", "drop_rx")):
        bump(acc, prefix + ":substream-negotiated-while-full")
        j = case[1][6:]
        for o in out:
            d = parse(o)
            if d and any(m in ("Oi", "Oo") for m in d["p"].get(int(j), [])) and "C" in d["p"].get(int(j), []):
                bump(acc, prefix + ":substream-then-close-in-one-drain")
                break
    for op, o in zip(case, out):
        t = op.split()[0]
        bump(acc, f"{prefix}:op:{t}")
        if t == "arrange_race":
            for loop, p, m, cnt, stuck in race_outcomes(o) or []:
                bump(acc, f"{prefix}:race:{loop}", cnt)
        elif t in RUNLIKE:
            d = parse(o)
            if d and d["loop"] in EXITED:
                bump(acc, f"{prefix}:exit:{d['loop']}")
            if d and d["loop"] == "accepting":
                bump(acc, prefix + ":accept-suspended")
            if d:
                for raw in d["praw"].values():
                    nx = sum(1 for m in raw if m.startswith("X"))
                    if nx:
                        bump(acc, prefix + ":open-failures", nx)
                    if nx > 256:
                        bump(acc, prefix + ":burst-beyond-ack-backlog")
                    if any(".f" in m for m in raw):
                        bump(acc, prefix + ":fallback-name-substreams", sum(1 for m in raw if ".f" in m))
        elif t == "burst" and ",clogged" in o.split()[0]:
            bump(acc, prefix + ":command-channel-clogged")
        if o.endswith(" stuck"):
            bump(acc, prefix + ":stuck")


def nontrivial(case, out):
    return any(" loop=ok" in o or " loop=err" in o or " loop=end" in o or "*" in o for o in out)


def matches_known(k, v):
    return False
