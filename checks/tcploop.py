"""Area `tcploop` — the REAL `TcpConnection::start` event loop driven over loopback TCP with adapter-owned event
sources (adapter /repo/src/verif/tcploop.rs, model Model/Conn/Permits.lean over Model/Conn/Loop.lean, driver
Driver/Tcploop.lean). Not a property of its own: C07 and C09 pull its cases in through the engine's `extra_cases`
mechanism and judge them with the property-level oracles below (`oracle_c07`, `oracle_c09`).

Checker mode: which ready branch `tokio::select!` takes is its RNG's choice, so every operation line is handed to the
model together with the implementation's observation; the driver explores every order of the enabled transitions and
accepts the observation iff some order yields it."""
from .common import bump

AREA = "tcploop"
ID = "TCPLOOP"
KEEP_PREFIX = 1
RACE_ROUNDS = {"quick": 40, "thorough": 160, "search": 40}


def model_lines(case, impl):
    res = []
    for i, op in enumerate(case):
        if impl is not None and i < len(impl):
            res.append(f"{op} -> {impl[i]}")
        else:
            res.append(op)
    return res


def normalize(line):
    return "panic" if line.startswith("panic") else line


# ------------------------------------------------------------------------------------------ generator

def kinds(rng):
    return rng.choice(["Y", "Y", "YN", "NY", "YY", "N", "YNY", "NN"])


def race_case(rng):
    """The C07-b1 arrangement from primitive operations (one connection; `select!` decides)."""
    ka = rng.choice(["Y", "Y", "YN", "N"])
    ops = [f"conn ka={ka}", f"remote_open {rng.randrange(len(ka))} {rng.choice(['hdr', 'full'])}"]
    for i in range(len(ka)):
        ops.append(rng.choice([f"downgrade {i}", f"drop_handle {i}"]))
    ops += ["run", "run"]
    return ops


def span_case(rng):
    """The C09-b2 shape: a substream (inbound or outbound) of some protocol is being negotiated while every
    protocol lets go of the connection; the negotiation finishes afterwards."""
    ka = kinds(rng)
    n = len(ka)
    j = rng.randrange(n)
    inbound = rng.random() < 0.7
    ops = [f"conn ka={ka}" + ("" if inbound else " remote=stall")]
    if inbound:
        ops += [f"remote_open {j} hdr", "run"]
    else:
        ops += [f"local_open {j}", "run"]
    order = list(range(n))
    rng.shuffle(order)
    for i in order:
        ops.append(rng.choice([f"downgrade {i}", f"downgrade {i}", f"drop_handle {i}"]))
        if rng.random() < 0.3:
            ops.append("run")
    ops += ["run", "run"]
    if inbound:
        ops += [f"remote_continue 0 {j}", "run", "run"]
        end = rng.choice(["drop_sub", "reset_late", "keep"])
        if end == "drop_sub":
            ops += [f"drop_sub {j}", "run"]
    else:
        ops += [rng.choice(["remote_close", "remote_goaway", f"force_close {j}", "run"]), "run"]
    return ops


def random_case(rng, length):
    ka = kinds(rng)
    n = len(ka)
    ops = [f"conn ka={ka} remote={rng.choice(['accept', 'accept', 'refuse', 'stall'])}"]
    opened = 0
    proposed = {}
    for _ in range(length):
        r = rng.random()
        i = rng.randrange(n)
        if r < 0.28:
            ops.append("run")
        elif r < 0.40:
            ops.append(f"downgrade {i}")
        elif r < 0.45:
            ops.append(f"upgrade {i}")
        elif r < 0.49:
            ops.append(f"drop_handle {i}")
        elif r < 0.58:
            ops.append(f"local_open {i}")
        elif r < 0.61:
            ops.append(f"force_close {i}")
        elif r < 0.75:
            how = rng.choice(["hdr", "full", "full"])
            name = rng.choice([str(i), str(i), "x"])
            ops.append(f"remote_open {name} {how}")
            proposed[opened] = how == "full" and name != "x"
            opened += 1
        elif r < 0.83 and opened:
            k = rng.randrange(opened)
            ops.append(f"remote_continue {k} {rng.choice([str(i), str(i), 'x'])}")
        elif r < 0.86 and opened:
            ops.append(f"remote_reset {rng.randrange(opened)}")
        elif r < 0.88:
            ops.append(rng.choice(["remote_close", "remote_goaway"]))
        elif r < 0.92:
            ops.append(f"drop_sub {i}")
        elif r < 0.95:
            ops.append(rng.choice([f"pause {i}", f"resume {i}"]))
        elif r < 0.96:
            ops.append(f"drop_rx {i}")
        elif r < 0.98:
            ops.append(f"remote_policy {rng.choice(['accept', 'refuse', 'stall'])}")
        else:
            ops.append("run")
    ops += ["run", "run"]
    return ops


def fixed_cases():
    return [
        # inbound keep-alive substream negotiated across the expiry of every handle, then dropped
        ["conn ka=Y", "remote_open 0 hdr", "run", "downgrade 0", "run", "run", "remote_continue 0 0", "run",
         "run", "drop_sub 0", "run"],
        ["conn ka=YN", "remote_open 0 hdr", "run", "downgrade 1", "downgrade 0", "run", "remote_continue 0 0", "run",
         "drop_sub 0", "run"],
        # ping-like protocol: the opening permit goes once the substream is delivered
        ["conn ka=N", "remote_open 0 full", "run", "downgrade 0", "run", "run"],
        # outbound open stalled by the remote: held until force-closed
        ["conn ka=Y remote=stall", "local_open 0", "run", "downgrade 0", "run", "force_close 0", "run"],
        # no-permit exit from primitive operations
        ["conn ka=Y", "remote_open 0 hdr", "downgrade 0", "run", "run"],
        # message in flight keeps the connection
        ["conn ka=YN", "pause 1", "remote_open 1 full", "run", "downgrade 0", "downgrade 1", "run", "resume 1", "run"],
        # a protocol that shut down gets an inbound substream: error exit, the others are told
        ["conn ka=YY", "drop_rx 1", "remote_open 1 full", "run", "run"],
        ["conn ka=Y remote=refuse", "local_open 0", "run", "remote_close", "run"],
        # graceful end of the remote (yamux go-away): the `None` arm of handle_yamux_substream
        ["conn ka=YN", "remote_goaway", "run", "run"],
        ["conn ka=Y", "remote_open 0 full", "run", "remote_goaway", "run"],
        ["conn ka=YYYYY"], ["run"], ["conn ka=Y", "bogus"],
    ]


def gen_cases(rng, tier, focus=None):
    """`focus`: "C07" / "C09" shifts the mix towards that property's shapes."""
    n_race = {"quick": 24, "thorough": 400, "search": 40}[tier]
    n_span = {"quick": 60, "thorough": 1500, "search": 100}[tier]
    n_rand = {"quick": 220, "thorough": 6000, "search": 300}[tier]
    if focus == "C09":
        n_race //= 3
    if focus == "C07":
        n_span //= 2
    cases = [list(c) for c in fixed_cases()]
    if focus != "C09":
        cases.append([f"arrange_race {RACE_ROUNDS[tier]}"])
    else:
        cases.append(["arrange_race 8"])
    cases += [race_case(rng) for _ in range(n_race)]
    cases += [span_case(rng) for _ in range(n_span)]
    cases += [random_case(rng, rng.choice([5, 8, 12, 16])) for _ in range(n_rand)]
    return cases


# ------------------------------------------------------------------------------------------ observations

def parse(o):
    """'<ret> loop=.. acc=.. strong=.. p0=.. m=.. [stuck]' -> dict or None."""
    t = o.split()
    if len(t) < 5 or not t[1].startswith("loop="):
        return None
    d = {"ret": t[0], "stuck": t[-1] == "stuck", "p": {}}
    for x in t[1:]:
        if "=" not in x:
            continue
        k, v = x.split("=", 1)
        if k[0] == "p" and k[1:].isdigit():
            d["p"][int(k[1:])] = [] if v in ("-", "x") else v.split(",")
            if v == "x":
                d.setdefault("dead", set()).add(int(k[1:]))
        elif k == "m":
            d["m"] = [] if v == "-" else v.split(",")
        else:
            d[k] = v
    return d


def race_outcomes(o):
    """'ok/acc0/pC/mC*17 err/acc1/pC/mC*7' -> [(loop, p-messages, m-messages, count, stuck)]"""
    res = []
    for tok in o.split():
        if "*" not in tok:
            return None
        body, cnt = tok.rsplit("*", 1)
        f = body.split("/")
        if body == "inconclusive":
            continue
        if len(f) < 4 or not cnt.isdigit():
            return None
        res.append((f[0], f[2][1:], f[3][1:], int(cnt), "stuck" in f[4:]))
    return res


# ------------------------------------------------------------------------------------------ oracle C07

def oracle_c07(case, out):
    """Once the loop has returned, every live protocol and the manager have exactly one closed report; nobody is ever
    told twice; nobody is told while the connection task is still running."""
    bad = []

    def v(kind, msg, i):
        bad.append({"kind": kind, "msg": msg, "step": i, "op": case[i], "out": out[i] if i < len(out) else None})

    got = {}
    mgr = 0
    exited_at = None
    paused, dead = set(), set()
    n = 0
    for i, op in enumerate(case):
        if i >= len(out):
            break
        o = out[i]
        t = op.split()
        if o.startswith("panic"):
            v("panic", "panic in the connection event loop: " + o, i)
            return bad
        if o in ("skipped", "bad-op", "inconclusive"):
            if o != "bad-op":
                return bad
            continue
        if t[0] == "arrange_race":
            outs = race_outcomes(o)
            if outs is None:
                continue
            for loop, p, m, cnt, stuck in outs:
                if loop in ("ok", "err") and (p != "C" or m != "C"):
                    v("closed-missing" if (p.count("C") < 1 or m.count("C") < 1) else "closed-twice",
                      f"{cnt} of the connections whose last holder let go while a remote substream arrived ended "
                      f"(start() returned {loop}) with protocol messages [{p or '-'}] and manager messages [{m or '-'}]: "
                      "not exactly one close report each", i)
                    break
            continue
        d = parse(o)
        if d is None:
            continue
        n = max(n, len(d["p"]))
        if t[0] == "pause" and d["ret"] == "ok":
            paused.add(int(t[1]))
        if t[0] == "resume" and d["ret"] == "ok":
            paused.discard(int(t[1]))
        dead |= d.get("dead", set())
        for k, msgs in d["p"].items():
            got[k] = got.get(k, 0) + msgs.count("C")
            if got[k] > 1:
                v("closed-twice", f"protocol {k} was told {got[k]} times that the connection closed", i)
                return bad
        mgr += d.get("m", []).count("C")
        if mgr > 1:
            v("closed-twice", f"the manager was told {mgr} times that the connection closed", i)
            return bad
        if d["loop"] == "run" and (mgr or any(got.values())):
            v("closed-early", "a close report was delivered although the connection task is still running", i)
            return bad
        if d["loop"] in ("ok", "err") and exited_at is None:
            exited_at = i
        if exited_at is not None:
            # channels never fill in this area (capacity 64), so the reports are there as soon as start() returned
            missing = [k for k in range(n) if k not in dead and k not in paused and got.get(k, 0) != 1]
            if missing:
                v("closed-missing-proto", f"start() returned ({d['loop']}) but running protocol(s) {missing} got no close report", i)
                return bad
            if mgr != 1:
                v("closed-missing-mgr", f"start() returned ({d['loop']}) but the manager got no close report", i)
                return bad
    return bad


# ------------------------------------------------------------------------------------------ oracle C09

def oracle_c09(case, out):
    """(a) The loop never ends by the idle mechanism while a substream of a keep-alive protocol is open or being
    opened (inbound: from the moment the connection task accepted it, judged by the protocol it ends up proposing);
    (b) it does end once no strong sender is left. Judged only where no other termination cause (force close, remote
    close, a protocol shutting down) is around."""
    bad = []

    def v(kind, msg, i):
        bad.append({"kind": kind, "msg": msg, "step": i, "op": case[i], "out": out[i] if i < len(out) else None})

    if not case or not case[0].startswith(("conn", "arrange_race")):
        return bad
    if case[0].startswith("arrange_race"):
        if out:
            outs = race_outcomes(out[0]) or []
            for loop, p, m, cnt, stuck in outs:
                if loop == "run":
                    v("idle-not-closed", f"{cnt} connections without any strong sender left were not closed", 0)
                    break
        return bad
    ka = ""
    for a in case[0].split()[1:]:
        if a.startswith("ka="):
            ka = a[3:]
    n = len(ka)
    # inbound streams: target protocol (first known-name proposal anywhere in the case)
    target, opened = {}, 0
    for op in case:
        t = op.split()
        if t[0] == "remote_open" and len(t) == 3:
            if t[2] == "full" and t[1].isdigit() and int(t[1]) < n:
                target[opened] = int(t[1])
            opened += 1
        elif t[0] == "remote_continue" and len(t) == 3 and t[1].isdigit():
            k = int(t[1])
            if k not in target and t[2].isdigit() and int(t[2]) < n:
                target[k] = int(t[2])
    other_cause = False
    active = [True] * n     # the protocols' handles (all take the connection at `conn`)
    paused_now = set()
    oi_total = 0            # inbound substreams delivered, all protocols
    any_uncertain = False
    uncertain = set()
    reset = set()
    proposal_known = {}
    n_open = 0
    received = [0] * n      # substreams delivered to protocol j
    oi = [0] * n            # ... of which inbound
    dropped = [0] * n
    failed = [0] * n
    cmds = [0] * n          # OpenSubstream commands sent by protocol j
    acc_before = 0
    prev = None
    for i, op in enumerate(case):
        if i >= len(out):
            break
        o = out[i]
        if o.startswith("panic") or o in ("skipped", "inconclusive"):
            return bad
        if o == "bad-op":
            continue
        d = parse(o)
        if d is None:
            continue
        t = op.split()
        if t[0] in ("force_close", "remote_close", "remote_goaway", "drop_rx") and d["ret"] == "ok":
            other_cause = True
        if t[0] == "remote_open" and d["ret"].startswith("s"):
            proposal_known[n_open] = len(t) == 3 and t[2] == "full"
            n_open += 1
        if t[0] == "remote_continue" and d["ret"] == "ok" and t[1].isdigit():
            proposal_known[int(t[1])] = True
        if t[0] == "remote_reset" and d["ret"] == "ok" and t[1].isdigit():
            k = int(t[1])
            reset.add(k)
            if proposal_known.get(k) and k in target:
                uncertain.add(target[k])      # may or may not have been delivered before
        if t[0] == "local_open" and d["ret"] == "ok":
            cmds[int(t[1])] += 1
        if t[0] == "drop_sub" and d["ret"] == "ok":
            dropped[int(t[1])] += 1
        if t[0] in ("pause",):
            uncertain.add(int(t[1]))
            any_uncertain = True
        if t[0] == "remote_reset" and d["ret"] == "ok":
            any_uncertain = any_uncertain or bool(proposal_known.get(int(t[1]))) if t[1].isdigit() else any_uncertain
        if t[0] in ("downgrade", "drop_handle") and t[1].isdigit() and int(t[1]) < n and d["ret"] in ("ok", "none"):
            active[int(t[1])] = False
        if t[0] == "upgrade" and t[1].isdigit() and int(t[1]) < n:
            active[int(t[1])] = d["ret"] == "active"
        # state BEFORE this operation decides whether an exit during it is allowed
        if t[0] == "run" and prev is not None and prev["loop"] == "run" and d["loop"] in ("ok", "err") and not other_cause:
            for j in range(n):
                if ka[j] != "Y" or j in uncertain:
                    continue
                inbound = sum(1 for k, tj in target.items() if tj == j and k < acc_before and k not in reset)
                # an open that FAILED during this very run was over before the loop ended
                failed_now = d["p"].get(j, []).count("X")
                pending = inbound + cmds[j] - received[j] - failed[j] - failed_now
                held = received[j] - dropped[j]
                if held > 0 or pending > 0:
                    what = (f"{held} open substream(s)" if held > 0 else f"{pending} substream(s) being opened")
                    v("closed-while-busy", f"the connection was closed by the idle mechanism (start() returned {d['loop']}) "
                      f"while keep-alive protocol {j} had {what}", i)
                    return bad
        # (c) nothing at all keeps the connection: every handle downgraded or dropped, every open answered, every
        # accepted inbound substream delivered or reset, no keep-alive protocol holds a substream (substreams held by
        # ping-like protocols do not count), nothing paused: this `run` must end the loop
        if t[0] == "run" and prev is not None and prev["loop"] == "run" and d["loop"] == "run" and not any_uncertain \
                and not other_cause and not any(active):
            live = [k for k in range(n_open) if k not in reset]
            all_answered = all(cmds[j] == failed[j] + (received[j] - oi[j]) for j in range(n))
            all_delivered = all(k in target for k in live) and oi_total == len(live) and acc_before == n_open
            none_held = all(received[j] - dropped[j] == 0 for j in range(n) if ka[j] == "Y")
            if all_answered and all_delivered and none_held:
                v("idle-not-closed", "every protocol has let go of the connection, no substream of a keep-alive protocol is "
                  "open or being opened and nothing is in flight, yet the connection task is still running after `run`", i)
                return bad
        if t[0] == "run" and prev is not None and prev["loop"] == "run" and prev.get("strong") == "n" and d["loop"] == "run":
            v("idle-not-closed", "no strong sender of the command channel was left before `run`, yet the connection task "
              "is still running", i)
            return bad
        for k, msgs in d["p"].items():
            if k < n:
                received[k] += sum(1 for m in msgs if m in ("Oi", "Oo"))
                oi[k] += msgs.count("Oi")
                oi_total += msgs.count("Oi")
                failed[k] += msgs.count("X")
        if d.get("acc", "").isdigit():
            acc_before = int(d["acc"])
        prev = d
    return bad


def oracle(case, out):
    return oracle_c07(case, out) + oracle_c09(case, out)


def stats(case, out, acc, prefix="tcploop"):
    bump(acc, prefix + ":cases")
    for op, o in zip(case, out):
        t = op.split()[0]
        bump(acc, f"{prefix}:op:{t}")
        if t == "arrange_race":
            for loop, p, m, cnt, stuck in race_outcomes(o) or []:
                bump(acc, f"{prefix}:race:{loop}", cnt)
        elif t == "run":
            d = parse(o)
            if d and d["loop"] != "run":
                bump(acc, f"{prefix}:exit:{d['loop']}")
        if o.endswith(" stuck"):
            bump(acc, prefix + ":stuck")


def nontrivial(case, out):
    return any(" loop=ok" in o or " loop=err" in o or "*" in o for o in out)


def matches_known(k, v):
    return False
