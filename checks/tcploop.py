"""Area `tcploop` — the REAL `TcpConnection::start` event loop driven over loopback TCP with adapter-owned event
sources (adapter /repo/src/verif/tcploop.rs, model Model/Conn/Permits.lean over Model/Conn/Loop.lean, driver
Driver/Tcploop.lean). Not a property of its own: C07 and C09 pull its cases in through the engine's `extra_cases`
mechanism and judge them with the property-level oracles below (`oracle_c07`, `oracle_c09`).

Checker mode: which ready branch `tokio::select!` takes is its RNG's choice, so every operation line is handed to the
model together with the implementation's observation; the driver explores every order of the enabled transitions and
accepts the observation iff some order yields it.

Since the c-round (seeded C07-c1, C07-c2, C09-c1): channels can be small and full (`cap=`, `mcap=`, `fill`, `pause`), real
time can pass with a channel held full (`sleep <ms>`; the configurable timeouts are small: `sot=<ms>`, and the transport of a
`via=accept` connection has connection_open_timeout = 1 s), connections can go through the REAL `TcpTransport::accept` future
(`via=accept`, `accept`; model Model/Conn/Accept.lean), and held substreams can be half-closed and read from (`half_close`,
`read_sub`, `remote_send`). Durations are never compared."""
from .common import bump

AREA = "tcploop"
ID = "TCPLOOP"
KEEP_PREFIX = 1
RACE_ROUNDS = {"quick": 40, "thorough": 160, "search": 40}


def model_lines(case, impl):
    res = []
    for i, op in enumerate(case):
        if impl is not None and i < len(impl):
            res.append(f"{op} -> {impl[i]}")
        else:
            res.append(op)
    return res


def normalize(line):
    return "panic" if line.startswith("panic") else line


# ------------------------------------------------------------------------------------------ generator

def kinds(rng):
    return rng.choice(["Y", "Y", "YN", "NY", "YY", "N", "YNY", "NN"])


def race_case(rng):
    """The C07-b1 arrangement from primitive operations (one connection; `select!` decides)."""
    ka = rng.choice(["Y", "Y", "YN", "N"])
    ops = [f"conn ka={ka}", f"remote_open {rng.randrange(len(ka))} {rng.choice(['hdr', 'full'])}"]
    for i in range(len(ka)):
        ops.append(rng.choice([f"downgrade {i}", f"drop_handle {i}"]))
    ops += ["run", "run"]
    return ops


def span_case(rng):
    """The C09-b2 shape: a substream (inbound or outbound) of some protocol is being negotiated while every
    protocol lets go of the connection; the negotiation finishes afterwards."""
    ka = kinds(rng)
    n = len(ka)
    j = rng.randrange(n)
    inbound = rng.random() < 0.7
    ops = [f"conn ka={ka}" + ("" if inbound else " remote=stall")]
    if inbound:
        ops += [f"remote_open {j} hdr", "run"]
    else:
        ops += [f"local_open {j}", "run"]
    order = list(range(n))
    rng.shuffle(order)
    for i in order:
        ops.append(rng.choice([f"downgrade {i}", f"downgrade {i}", f"drop_handle {i}"]))
        if rng.random() < 0.3:
            ops.append("run")
    ops += ["run", "run"]
    if inbound:
        ops += [f"remote_continue 0 {j}", "run", "run"]
        end = rng.choice(["drop_sub", "reset_late", "keep"])
        if end == "drop_sub":
            ops += [f"drop_sub {j}", "run"]
    else:
        ops += [rng.choice(["remote_close", "remote_goaway", f"force_close {j}", "run"]), "run"]
    return ops


RUNLIKE = ("run", "sleep", "resume", "accept", "drop_rx")
EXITED = ("ok", "err", "end")


def close_cause(rng, n, allow_idle=True):
    """Operations that end the connection: each is a different close path of the loop."""
    c = rng.choice(["remote_close", "remote_goaway", "force_close", "idle"] if allow_idle else
                   ["remote_close", "remote_goaway", "force_close"])
    if c == "force_close":
        return [f"force_close {rng.randrange(n)}"]
    if c == "idle":
        order = list(range(n))
        rng.shuffle(order)
        return [rng.choice([f"downgrade {i}", f"drop_handle {i}"]) for i in order]
    return [c]


def hold_case(rng, ms, sot=None):
    """The C07-c1 shape: the connection ends while one protocol's (or the manager's) channel is full and STAYS full
    for `ms` of real time; then the slow party catches up: every report must still arrive, exactly once. `ms` = 6000
    outlasts hard-coded bounds of a few seconds; with `sot` (the one timeout a TcpConnection takes from configuration)
    made small, 1.5 s outlasts a bound derived from configuration."""
    ka = rng.choice(["YY", "YN", "NY", "YYY", "Y"])
    n = len(ka)
    who = rng.choice(["proto", "proto", "proto", "mgr"])
    opts = (" cap=1" if who == "proto" else f" cap={rng.choice([1, 2])} mcap=1") + (f" sot={sot}" if sot else "")
    ops = [f"conn ka={ka}{opts}"]
    if who == "mgr":
        ops += ["pause m", "fill m"]
        ops += close_cause(rng, n) + ["run", f"sleep {ms}", "resume m", "run"]
        return ops
    slow = rng.randrange(n)
    if rng.random() < 0.5:
        ops += [f"pause {slow}", f"fill {slow}"]
        ops += close_cause(rng, n)
    else:
        # the channel is full of a substream the loop delivered (it holds permits: no idle close)
        ops += [f"pause {slow}", f"remote_open {slow} full", "run"]
        ops += close_cause(rng, n, allow_idle=False)
    ops += ["run", f"sleep {ms}", f"resume {slow}", "run"]
    return ops


def accept_hold_case(rng, ms):
    """The C07-c2 shape: a connection is being accepted (the REAL future of TcpTransport::accept, transport built with
    connection_open_timeout = 1 s) while one protocol's channel is full and stays full for `ms`; the others have been told
    `established` meanwhile. When the slow protocol catches up the connection must come up for everyone, and when it
    ends everyone must be told exactly once."""
    ka = rng.choice(["YY", "YN", "NY", "YYY", "YYN"])
    n = len(ka)
    slow = rng.randrange(n)
    ops = [f"conn ka={ka} cap={rng.choice([1, 1, 2])} via=accept", f"pause {slow}", f"fill {slow}", "accept"]
    others = [i for i in range(n) if i != slow]
    for _ in range(rng.randrange(3)):
        i = rng.choice(others)
        ops.append(rng.choice([f"downgrade {i}", f"local_open {i}", f"upgrade {i}", f"remote_open {i} full", "run"]))
    ops += [f"sleep {ms}", f"resume {slow}", "run"]
    ops += close_cause(rng, n) + ["run", "run"]
    return ops


def accept_case(rng):
    """Accept path without real-time waits: channels with room or full, resumed at once."""
    ka = kinds(rng)
    n = len(ka)
    ops = [f"conn ka={ka} cap={rng.choice([1, 2, 64])} via=accept"]
    for i in range(n):
        r = rng.random()
        if r < 0.3:
            ops += [f"pause {i}", f"fill {i}"]
        elif r < 0.4:
            ops += [f"pause {i}"]
        elif r < 0.45:
            ops += [f"drop_rx {i}"]
    ops.append("accept")
    for _ in range(rng.randrange(4)):
        i = rng.randrange(n)
        ops.append(rng.choice([f"downgrade {i}", f"local_open {i}", f"remote_open {i} full", "run", f"resume {i}",
                               f"drop_handle {i}", "sleep 5"]))
    for i in range(n):
        if rng.random() < 0.8:
            ops.append(f"resume {i}")
    ops += ["run"] + close_cause(rng, n) + ["run", "run"]
    return ops


def half_case(rng):
    """The C09-c1 shape: a protocol half-closes a substream it holds (Sink::poll_close), keeps the object and reads from
    it, while every handle is released (keep-alive expiry); the connection must stay until the object is dropped."""
    ka = kinds(rng)
    n = len(ka)
    j = rng.randrange(n)
    inbound = rng.random() < 0.6
    ops = [f"conn ka={ka}" + rng.choice(["", "", " cap=2"])]
    ops += [f"remote_open {j} full", "run"] if inbound else [f"local_open {j}", "run", "run"]
    pre = rng.random() < 0.5
    order = list(range(n))
    rng.shuffle(order)
    rel = []
    for i in order:
        rel.append(rng.choice([f"downgrade {i}", f"downgrade {i}", f"drop_handle {i}"]))
        if rng.random() < 0.3:
            rel.append("run")
    if pre:
        ops += rel + ["run", f"half_close {j}"]
    else:
        ops += [f"half_close {j}"] + (["run"] if rng.random() < 0.5 else []) + rel
    ops += ["run", "run"]
    if inbound and rng.random() < 0.5:
        ops += ["remote_send 0", "run"]
    ops += [f"read_sub {j}", "run"]
    end = rng.choice(["drop_sub", "drop_sub", "keep", "remote_close"])
    if end == "drop_sub":
        ops += [f"drop_sub {j}", "run"]
    elif end == "remote_close":
        ops += ["remote_close", "run"]
    return ops


def random_case(rng, length):
    ka = kinds(rng)
    n = len(ka)
    via = rng.random() < 0.15
    head = f"conn ka={ka} remote={rng.choice(['accept', 'accept', 'refuse', 'stall'])}"
    if rng.random() < 0.35:
        head += f" cap={rng.choice([1, 1, 2, 3])}"
    if rng.random() < 0.1:
        head += " mcap=1"
    if rng.random() < 0.05:
        head += " sot=3000"
    ops = [head + (" via=accept" if via else "")]
    accept_at = rng.randrange(0, 4) if via else -1
    opened = 0
    proposed = {}
    for step in range(length):
        if step == accept_at:
            ops.append("accept")
        r = rng.random()
        i = rng.randrange(n)
        if r < 0.10:
            ops.append(rng.choice([f"fill {i}", f"fill {i}", "fill m", "pause m", "resume m", f"half_close {i}",
                                   f"half_close {i}", f"read_sub {i}", f"remote_send {rng.randrange(opened + 1)}",
                                   f"sleep {rng.choice([1, 5, 20])}", f"pause {i}", f"resume {i}", f"resume {i}"]))
            continue
        r = (r - 0.10) / 0.90
        if r < 0.28:
            ops.append("run")
        elif r < 0.40:
            ops.append(f"downgrade {i}")
        elif r < 0.45:
            ops.append(f"upgrade {i}")
        elif r < 0.49:
            ops.append(f"drop_handle {i}")
        elif r < 0.58:
            ops.append(f"local_open {i}")
        elif r < 0.61:
            ops.append(f"force_close {i}")
        elif r < 0.75:
            how = rng.choice(["hdr", "full", "full"])
            name = rng.choice([str(i), str(i), "x"])
            ops.append(f"remote_open {name} {how}")
            proposed[opened] = how == "full" and name != "x"
            opened += 1
        elif r < 0.83 and opened:
            k = rng.randrange(opened)
            ops.append(f"remote_continue {k} {rng.choice([str(i), str(i), 'x'])}")
        elif r < 0.86 and opened:
            ops.append(f"remote_reset {rng.randrange(opened)}")
        elif r < 0.88:
            ops.append(rng.choice(["remote_close", "remote_goaway"]))
        elif r < 0.92:
            ops.append(f"drop_sub {i}")
        elif r < 0.95:
            ops.append(rng.choice([f"pause {i}", f"resume {i}"]))
        elif r < 0.96:
            ops.append(f"drop_rx {i}")
        elif r < 0.98:
            ops.append(f"remote_policy {rng.choice(['accept', 'refuse', 'stall'])}")
        else:
            ops.append("run")
    ops += ["run", "run"]
    return ops


def fixed_cases():
    return [
        # inbound keep-alive substream negotiated across the expiry of every handle, then dropped
        ["conn ka=Y", "remote_open 0 hdr", "run", "downgrade 0", "run", "run", "remote_continue 0 0", "run",
         "run", "drop_sub 0", "run"],
        ["conn ka=YN", "remote_open 0 hdr", "run", "downgrade 1", "downgrade 0", "run", "remote_continue 0 0", "run",
         "drop_sub 0", "run"],
        # ping-like protocol: the opening permit goes once the substream is delivered
        ["conn ka=N", "remote_open 0 full", "run", "downgrade 0", "run", "run"],
        # outbound open stalled by the remote: held until force-closed
        ["conn ka=Y remote=stall", "local_open 0", "run", "downgrade 0", "run", "force_close 0", "run"],
        # no-permit exit from primitive operations
        ["conn ka=Y", "remote_open 0 hdr", "downgrade 0", "run", "run"],
        # message in flight keeps the connection
        ["conn ka=YN", "pause 1", "remote_open 1 full", "run", "downgrade 0", "downgrade 1", "run", "resume 1", "run"],
        # a protocol that shut down gets an inbound substream: error exit, the others are told
        ["conn ka=YY", "drop_rx 1", "remote_open 1 full", "run", "run"],
        ["conn ka=Y remote=refuse", "local_open 0", "run", "remote_close", "run"],
        # graceful end of the remote (yamux go-away): the `None` arm of handle_yamux_substream
        ["conn ka=YN", "remote_goaway", "run", "run"],
        ["conn ka=Y", "remote_open 0 full", "run", "remote_goaway", "run"],
        # half-closed substream of a keep-alive protocol across the expiry of every handle, read from, then dropped
        ["conn ka=Y", "remote_open 0 full", "run", "half_close 0", "run", "downgrade 0", "run", "run", "remote_send 0",
         "run", "read_sub 0", "drop_sub 0", "run"],
        ["conn ka=YN", "local_open 0", "run", "run", "downgrade 1", "downgrade 0", "run", "half_close 0", "run", "run",
         "drop_sub 0", "run"],
        # ... of a ping-like protocol: never held the connection
        ["conn ka=N", "remote_open 0 full", "run", "half_close 0", "downgrade 0", "run"],
        # full channel: the close report waits, nothing is lost
        ["conn ka=YY cap=1", "pause 0", "fill 0", "remote_close", "run", "sleep 30", "resume 0", "run"],
        ["conn ka=Y mcap=1", "pause m", "fill m", "force_close 0", "run", "sleep 30", "resume m", "run"],
        # accept with a full channel: suspended, the others told; comes up when the slow protocol reads
        ["conn ka=YY cap=1 via=accept", "pause 0", "fill 0", "accept", "downgrade 1", "sleep 30", "resume 0", "run",
         "remote_close", "run"],
        ["conn ka=YN via=accept", "accept", "remote_open 1 full", "run", "remote_goaway", "run"],
        ["conn ka=Y via=accept", "run", "accept", "accept", "downgrade 0", "run"],
        ["conn ka=YYYYY"], ["run"], ["conn ka=Y", "bogus"], ["conn ka=Y cap=0"], ["conn ka=Y", "sleep 99999"],
    ]


def gen_cases(rng, tier, focus=None):
    """`focus`: "C07" / "C09" shifts the mix towards that property's shapes."""
    n_race = {"quick": 24, "thorough": 400, "search": 40}[tier]
    n_span = {"quick": 60, "thorough": 1500, "search": 100}[tier]
    n_rand = {"quick": 220, "thorough": 6000, "search": 300}[tier]
    if focus == "C09":
        n_race //= 3
    if focus == "C07":
        n_span //= 2
    cases = [list(c) for c in fixed_cases()]
    # real-time holds (kept few: each costs its wall time in one shard). C07: one 6 s hold per quick run (hard-coded
    # bounds), a few 1.5 s holds (bounds from configuration: substream_open_timeout / connection_open_timeout = 1 s).
    n_long = {"quick": 1, "thorough": 4, "search": 0}[tier]
    n_short = {"quick": 3, "thorough": 24, "search": 1}[tier]
    n_acc_hold = {"quick": 3, "thorough": 24, "search": 1}[tier]
    if focus == "C09":
        n_long, n_short, n_acc_hold = 0, 0, (1 if tier != "search" else 0)
    cases += [hold_case(rng, 6000) for _ in range(n_long)]
    cases += [hold_case(rng, 1500, sot=1000) for _ in range(n_short)]
    cases += [accept_hold_case(rng, 1500) for _ in range(n_acc_hold)]
    n_half = {"quick": 40, "thorough": 800, "search": 60}[tier]
    n_acc = {"quick": 30, "thorough": 600, "search": 40}[tier]
    if focus == "C07":
        n_half //= 4
    if focus == "C09":
        n_acc //= 3
    cases += [half_case(rng) for _ in range(n_half)]
    cases += [accept_case(rng) for _ in range(n_acc)]
    if focus != "C09":
        cases.append([f"arrange_race {RACE_ROUNDS[tier]}"])
    else:
        cases.append(["arrange_race 8"])
    cases += [race_case(rng) for _ in range(n_race)]
    cases += [span_case(rng) for _ in range(n_span)]
    cases += [random_case(rng, rng.choice([5, 8, 12, 16])) for _ in range(n_rand)]
    return cases


# ------------------------------------------------------------------------------------------ observations

def parse(o):
    """'<ret> loop=.. acc=.. strong=.. p0=.. m=.. [stuck]' -> dict or None."""
    t = o.split()
    if len(t) < 5 or not t[1].startswith("loop="):
        return None
    d = {"ret": t[0], "stuck": t[-1] == "stuck", "p": {}}
    for x in t[1:]:
        if "=" not in x:
            continue
        k, v = x.split("=", 1)
        if k[0] == "p" and k[1:].isdigit():
            d["p"][int(k[1:])] = [] if v in ("-", "x") else v.split(",")
            if v == "x":
                d.setdefault("dead", set()).add(int(k[1:]))
        elif k == "m":
            d["m"] = [] if v == "-" else v.split(",")
        else:
            d[k] = v
    return d


def race_outcomes(o):
    """'ok/acc0/pC/mC*17 err/acc1/pC/mC*7' -> [(loop, p-messages, m-messages, count, stuck)]"""
    res = []
    for tok in o.split():
        if "*" not in tok:
            return None
        body, cnt = tok.rsplit("*", 1)
        f = body.split("/")
        if body == "inconclusive":
            continue
        if len(f) < 4 or not cnt.isdigit():
            return None
        res.append((f[0], f[2][1:], f[3][1:], int(cnt), "stuck" in f[4:]))
    return res


# ------------------------------------------------------------------------------------------ oracle C07

def oracle_c07(case, out):
    """Once the connection task has returned, every live protocol and the manager have exactly one closed report — a
    protocol (or the manager) that is busy gets it when it catches up, however long that takes; nobody is ever told twice;
    nobody is told before the task exists, nor (where no channel can be full) while it is still running; a protocol that
    was told `established` by an accept that is then abandoned (`loop=failed`: the connection is dropped without a task)
    must be told `closed` all the same."""
    bad = []

    def v(kind, msg, i):
        bad.append({"kind": kind, "msg": msg, "step": i, "op": case[i], "out": out[i] if i < len(out) else None})

    got = {}
    est = {}
    mgr = 0
    exited_at = None
    paused, dead = set(), set()
    mgr_paused = False
    can_fill = any(a.startswith(("cap=", "mcap=")) for a in case[0].split()[1:]) if case else False
    n = 0
    for i, op in enumerate(case):
        if i >= len(out):
            break
        o = out[i]
        t = op.split()
        if o.startswith("panic"):
            v("panic", "panic in the connection event loop: " + o, i)
            return bad
        if o in ("skipped", "bad-op", "inconclusive"):
            if o != "bad-op":
                return bad
            continue
        if t[0] == "arrange_race":
            outs = race_outcomes(o)
            if outs is None:
                continue
            for loop, p, m, cnt, stuck in outs:
                if loop in ("ok", "err") and (p != "C" or m != "C"):
                    v("closed-missing" if (p.count("C") < 1 or m.count("C") < 1) else "closed-twice",
                      f"{cnt} of the connections whose last holder let go while a remote substream arrived ended "
                      f"(start() returned {loop}) with protocol messages [{p or '-'}] and manager messages [{m or '-'}]: "
                      "not exactly one close report each", i)
                    break
            continue
        d = parse(o)
        if d is None:
            continue
        n = max(n, len(d["p"]))
        if t[0] == "fill":
            can_fill = True
        if t[0] == "pause" and d["ret"] == "ok" and len(t) == 2:
            if t[1] == "m":
                mgr_paused = True
            elif t[1].isdigit():
                paused.add(int(t[1]))
        if t[0] == "resume" and d["ret"] == "ok" and len(t) == 2:
            if t[1] == "m":
                mgr_paused = False
            elif t[1].isdigit():
                paused.discard(int(t[1]))
        dead |= d.get("dead", set())
        for k, msgs in d["p"].items():
            got[k] = got.get(k, 0) + msgs.count("C")
            est[k] = est.get(k, 0) + msgs.count("E")
            if got[k] > 1:
                v("closed-twice", f"protocol {k} was told {got[k]} times that the connection closed", i)
                return bad
        mgr += d.get("m", []).count("C")
        if mgr > 1:
            v("closed-twice", f"the manager was told {mgr} times that the connection closed", i)
            return bad
        told = mgr or any(got.values())
        if d["loop"] in ("parked", "accepting") and told:
            v("closed-early", "a close report was delivered although the connection task has not even been started", i)
            return bad
        if d["loop"] == "run" and told and not can_fill:
            # with room in every channel a report is not suspended: the task returns in the same poll
            v("closed-early", "a close report was delivered although the connection task is still running", i)
            return bad
        if d["loop"] in EXITED and exited_at is None:
            exited_at = i
        if exited_at is not None:
            # whoever is not paused has taken everything there is (run-like operations drain until nothing arrives)
            missing = [k for k in range(n) if k not in dead and k not in paused and got.get(k, 0) != 1]
            if missing:
                v("closed-missing-proto", f"the connection task has returned ({d['loop']}) but running protocol(s) {missing} "
                  "got no close report" + (" (after having been busy for a while)" if can_fill else ""), i)
                return bad
            if mgr != 1 and not mgr_paused:
                v("closed-missing-mgr", f"the connection task has returned ({d['loop']}) but the manager got no close report"
                  + (" (a protocol or the manager was busy for a while)" if can_fill else ""), i)
                return bad
        if d["loop"] == "failed":
            # the accept was abandoned: the negotiated connection is gone and no task will ever report it
            owed = [k for k in range(n) if k not in dead and k not in paused and est.get(k, 0) >= 1 and got.get(k, 0) != 1]
            if owed:
                v("established-not-closed", f"accepting the connection failed (the connection was dropped, no connection task "
                  f"exists) after protocol(s) {owed} had been told that it was established: they are never told that it closed", i)
                return bad
    return bad


# ------------------------------------------------------------------------------------------ oracle C09

def oracle_c09(case, out):
    """(a) The loop never ends by the idle mechanism while a substream of a keep-alive protocol is open or being
    opened (inbound: from the moment the connection task accepted it, judged by the protocol it ends up proposing);
    (b) it does end once no strong sender is left. Judged only where no other termination cause (force close, remote
    close, a protocol shutting down) is around."""
    bad = []

    def v(kind, msg, i):
        bad.append({"kind": kind, "msg": msg, "step": i, "op": case[i], "out": out[i] if i < len(out) else None})

    if not case or not case[0].startswith(("conn", "arrange_race")):
        return bad
    if case[0].startswith("arrange_race"):
        if out:
            outs = race_outcomes(out[0]) or []
            for loop, p, m, cnt, stuck in outs:
                if loop == "run":
                    v("idle-not-closed", f"{cnt} connections without any strong sender left were not closed", 0)
                    break
        return bad
    ka = ""
    via = timeouts = False
    for a in case[0].split()[1:]:
        if a.startswith("ka="):
            ka = a[3:]
        via = via or a == "via=accept"
        timeouts = timeouts or a.startswith("sot=")
    n = len(ka)
    # inbound streams: target protocol (first known-name proposal anywhere in the case)
    target, opened = {}, 0
    for op in case:
        t = op.split()
        if t[0] == "remote_open" and len(t) == 3:
            if t[2] == "full" and t[1].isdigit() and int(t[1]) < n:
                target[opened] = int(t[1])
            opened += 1
        elif t[0] == "remote_continue" and len(t) == 3 and t[1].isdigit():
            k = int(t[1])
            if k not in target and t[2].isdigit() and int(t[2]) < n:
                target[k] = int(t[2])
    other_cause = False
    active = [not via] * n  # the protocols' handles (taken with the `established` event)
    paused_now = set()
    mgr_paused = False
    oi_total = 0            # inbound substreams delivered, all protocols
    any_uncertain = False
    uncertain = set()
    reset = set()
    proposal_known = {}
    n_open = 0
    received = [0] * n      # substreams delivered to protocol j
    oi = [0] * n            # ... of which inbound
    dropped = [0] * n
    failed = [0] * n
    cmds = [0] * n          # OpenSubstream commands sent by protocol j
    acc_before = 0
    prev = None
    for i, op in enumerate(case):
        if i >= len(out):
            break
        o = out[i]
        if o.startswith("panic") or o in ("skipped", "inconclusive"):
            return bad
        if o == "bad-op":
            continue
        d = parse(o)
        if d is None:
            continue
        t = op.split()
        if t[0] in ("force_close", "remote_close", "remote_goaway", "drop_rx") and d["ret"] == "ok":
            other_cause = True
        if t[0] == "remote_open" and d["ret"].startswith("s"):
            proposal_known[n_open] = len(t) == 3 and t[2] == "full"
            n_open += 1
        if t[0] == "remote_continue" and d["ret"] == "ok" and t[1].isdigit():
            proposal_known[int(t[1])] = True
        if t[0] == "remote_reset" and d["ret"] == "ok" and t[1].isdigit():
            k = int(t[1])
            reset.add(k)
            if proposal_known.get(k) and k in target:
                uncertain.add(target[k])      # may or may not have been delivered before
        if t[0] == "local_open" and d["ret"] == "ok":
            cmds[int(t[1])] += 1
        if t[0] == "drop_sub" and d["ret"] == "ok":
            dropped[int(t[1])] += 1
        if t[0] == "pause" and len(t) == 2:
            if t[1] == "m":
                mgr_paused = True
            elif t[1].isdigit() and int(t[1]) < n:
                uncertain.add(int(t[1]))
                any_uncertain = True
                paused_now.add(int(t[1]))
        if t[0] == "resume" and len(t) == 2:
            if t[1] == "m":
                mgr_paused = False
            elif t[1].isdigit():
                paused_now.discard(int(t[1]))
        if t[0] == "fill":
            any_uncertain = True
        for k, msgs in d["p"].items():
            if k < n and "E" in msgs:
                active[k] = True
        # a report may be waiting for somebody who is busy: the loop is then neither idle nor done
        blocked = bool(paused_now) or mgr_paused
        if t[0] == "remote_reset" and d["ret"] == "ok":
            any_uncertain = any_uncertain or bool(proposal_known.get(int(t[1]))) if t[1].isdigit() else any_uncertain
        if t[0] in ("downgrade", "drop_handle") and t[1].isdigit() and int(t[1]) < n and d["ret"] in ("ok", "none"):
            active[int(t[1])] = False
        if t[0] == "upgrade" and t[1].isdigit() and int(t[1]) < n:
            active[int(t[1])] = d["ret"] == "active"
        # state BEFORE this operation decides whether an exit during it is allowed
        if t[0] in RUNLIKE and prev is not None and prev["loop"] == "run" and d["loop"] in EXITED and not other_cause:
            for j in range(n):
                if ka[j] != "Y" or j in uncertain:
                    continue
                inbound = sum(1 for k, tj in target.items() if tj == j and k < acc_before and k not in reset)
                # an open that FAILED during this very run was over before the loop ended
                failed_now = d["p"].get(j, []).count("X")
                pending = inbound + cmds[j] - received[j] - failed[j] - failed_now
                if timeouts:
                    pending = 0     # a negotiation may have timed out without a message
                held = received[j] - dropped[j]
                if held > 0 or pending > 0:
                    what = (f"{held} open substream(s)" if held > 0 else f"{pending} substream(s) being opened")
                    v("closed-while-busy", f"the connection was closed by the idle mechanism (start() returned {d['loop']}) "
                      f"while keep-alive protocol {j} had {what}", i)
                    return bad
        # (c) nothing at all keeps the connection: every handle downgraded or dropped, every open answered, every
        # accepted inbound substream delivered or reset, no keep-alive protocol holds a substream (substreams held by
        # ping-like protocols do not count), nothing paused: this `run` must end the loop
        if t[0] in RUNLIKE and d["ret"] == "ok" and prev is not None and prev["loop"] == "run" and d["loop"] == "run" and not any_uncertain \
                and not other_cause and not any(active) and not blocked:
            live = [k for k in range(n_open) if k not in reset]
            all_answered = all(cmds[j] == failed[j] + (received[j] - oi[j]) for j in range(n))
            all_delivered = all(k in target for k in live) and oi_total == len(live) and acc_before == n_open
            none_held = all(received[j] - dropped[j] == 0 for j in range(n) if ka[j] == "Y")
            if all_answered and all_delivered and none_held:
                v("idle-not-closed", "every protocol has let go of the connection, no substream of a keep-alive protocol is "
                  "open or being opened and nothing is in flight, yet the connection task is still running after `run`", i)
                return bad
        if t[0] in RUNLIKE and d["ret"] == "ok" and prev is not None and prev["loop"] == "run" and prev.get("strong") == "n" \
                and d["loop"] == "run" and not blocked:
            v("idle-not-closed", "no strong sender of the command channel was left before `run`, yet the connection task "
              "is still running", i)
            return bad
        for k, msgs in d["p"].items():
            if k < n:
                received[k] += sum(1 for m in msgs if m in ("Oi", "Oo"))
                oi[k] += msgs.count("Oi")
                oi_total += msgs.count("Oi")
                failed[k] += msgs.count("X")
        if d.get("acc", "").isdigit():
            acc_before = int(d["acc"])
        prev = d
    return bad


def oracle(case, out):
    return oracle_c07(case, out) + oracle_c09(case, out)


def stats(case, out, acc, prefix="tcploop"):
    bump(acc, prefix + ":cases")
    for op, o in zip(case, out):
        t = op.split()[0]
        bump(acc, f"{prefix}:op:{t}")
        if t == "arrange_race":
            for loop, p, m, cnt, stuck in race_outcomes(o) or []:
                bump(acc, f"{prefix}:race:{loop}", cnt)
        elif t in RUNLIKE:
            d = parse(o)
            if d and d["loop"] in EXITED:
                bump(acc, f"{prefix}:exit:{d['loop']}")
            if d and d["loop"] == "accepting":
                bump(acc, prefix + ":accept-suspended")
        if o.endswith(" stuck"):
            bump(acc, prefix + ":stuck")


def nontrivial(case, out):
    return any(" loop=ok" in o or " loop=err" in o or " loop=end" in o or "*" in o for o in out)


def matches_known(k, v):
    return False
