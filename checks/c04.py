"""C04 — framed substream messages round-trip exactly within configured limits
(models: Model/Substream/{Codec,Sink}.lean, adapter: src/verif/c04.rs)."""
from .common import bump

ID = "C04"
AREA = "c04"
LEAN_PROPS = "Litep2pVerif.Props.C04"
THEOREMS = ["no_oob", "alloc_bound", "stream_roundtrip", "oversize_error", "malformed_len_error",
            "oversize_refused", "sink_stream", "flush_complete", "send_framed_complete",
            "sink_eq_send_framed", "flush_delivers",
            "tokio_uvi_roundtrip", "tokio_uvi_prefix_need_more", "tokio_uvi_max_rule", "tokio_uvi_alloc_bound",
            "tokio_identity_roundtrip"]
CONSTS = ["BACKPRESSURE_BOUNDARY", "SUBSTREAM_SIZE_VEC_LEN", "SUBSTREAM_INITIAL_READ_BUFFER"]
_SUB = "src/substream/mod.rs"
CONST_TABLE = [
    ("BACKPRESSURE_BOUNDARY", _SUB, r"const BACKPRESSURE_BOUNDARY: usize = ([^;]+);", 65536),
    ("SUBSTREAM_SIZE_VEC_LEN", _SUB, r"size_vec: BytesMut::zeroed\((\d+)\)", 10),
    # the anchor is the repaired constructor: the initial buffer is sized from the codec
    ("SUBSTREAM_INITIAL_READ_BUFFER", _SUB,
     r"read_buffer: BytesMut::zeroed\(match codec \{\s*ProtocolCodec::Identity\(payload_size\) => payload_size,\s*_ => (\d+),", 1024),
]
MANIFEST = {
    "text": "Lean 4 theorems about an operational model of Substream's Stream::poll_next (Identity/UnsignedVarint, "
            "read_payload_size, the unsigned-varint loops) and of its Sink (poll_ready/start_send/poll_flush) and send_framed over "
            "an abstract flow-controlled carrier: no_oob (no slice/debug-assert panic for any input, any carrier behaviour, any "
            "polling pattern, including polling after an error), alloc_bound, stream_roundtrip (every codec configuration, message "
            "list and fragmentation, with Pending anywhere), oversize_error / malformed_len_error / oversize_refused, sink_stream "
            "(bytes handed to the carrier followed by the bytes still queued are the concatenated frames of the accepted "
            "messages, for every history and every flow-control script), flush_complete, send_framed_complete, "
            "sink_eq_send_framed, flush_delivers (end to end); and about the tokio_util codecs of src/codec/ (UnsignedVarint over "
            "unsigned-varint's UviBytes, Identity): tokio_uvi_roundtrip (decode (encode x) = x, rest preserved), "
            "tokio_uvi_prefix_need_more (every proper prefix of a frame answers None, then the remainder yields the item), "
            "tokio_uvi_max_rule, tokio_uvi_alloc_bound (reserve requests and frames never exceed the declared maximum, in every "
            "reachable state), tokio_identity_roundtrip. Tie: the real Substream on both ends of an in-memory yamux "
            "connection (256 KiB window, messages up to 1 MiB, writer polled only by writer operations) against the model in "
            "checker mode, plus a property-level oracle.",
    "note": "Trusted: Lean kernel; axioms propext/Classical.choice/Quot.sound; the hand-written models and their tie (sampled "
            "runs through adapter src/verif/c04.rs); yamux/tokio are the carrier, not modelled (any accept/Pending/chunking "
            "behaviour is covered by the theorems; reliability and FIFO order of the carrier are assumed); unsigned-varint's "
            "loops are modelled exactly, `|`/`<<` on u64 as addition mod 2^64.",
    "technique": "Lean 4 proof (invariants, induction over carrier scripts and byte streams) + model/implementation "
                 "correspondence check in checker mode",
    "design_ref": "DESIGN.md §7 C04, §8 (b), (c)",
}
RULE = ("seeded cases: codec in Identity{1,10,1023,1024,1025,4096} / UnsignedVarint{none,0,10,71680}; messages of size 0, "
        "max, max±1, 65 KiB, 300 KiB–1 MiB through the sink (poll_ready/start_send/poll_flush, one real poll per op) or "
        "send_framed (background future), interleaved with reader polls, bursts of flushes without reads (flow-control stall), "
        "writer_stop after a completed flush, raw malformed/oversized/over-long length prefixes, polling after errors; run on "
        "the real Substream pair over in-memory yamux and on the Lean model (checker mode: the model must allow every "
        "observation given the number of bytes the carrier accepted). `tu` cases: the real codec::UnsignedVarint (new / "
        "with_max_size, max none/0/1/10/127/128/300/70000) and codec::Identity (1..1024) as tokio_util Encoder/Decoder: streams of "
        "valid frames at the size boundaries, over-long / non-minimal / oversized / huge announced prefixes, fed in random "
        "chunks and (one stream per run) cut at every offset; item lists through Encoder::encode; encode-then-decode with a "
        "fresh codec at EVERY split point of the produced bytes (rt); the associated functions UnsignedVarint::encode/decode "
        "and Identity::encode; peak heap per decode. non-trivial = at least one frame received and at least one "
        "of: stall (pending/notready), refusal, receiver error; distinct = distinct (ops, observations) transcripts by SHA-256")
TRUSTED_BASE = ["Lean 4.33 kernel", "axioms: propext, Classical.choice, Quot.sound only",
                "hand-written models Model/Substream/{Codec,Sink}.lean tied to substream/mod.rs by this correspondence run",
                "adapter /repo/src/verif/c04.rs (quiescence detection by byte counters), harness, verif.py, checks/c04.py",
                "yamux 0.13 + tokio duplex as the carrier: reliable, FIFO, accepts >= 1 byte of a non-empty buffer or returns Pending",
                "unsigned-varint 0.8 encode!/decode! loops transcribed by hand (u64 `|`/`<<` as addition mod 2^64)",
                "usize = u64 (64-bit target)",
                "hand-written model Model/Substream/TokioCodec.lean of unsigned-varint 0.8's UviBytes::{deserialise, serialise} "
                "and of codec::Identity, tied by the `tu` ops of this run; bytes::BytesMut (split_to/reserve/advance) is a byte "
                "list, its growth policy is outside the model (the oracle allows twice the declared maximum)"]
ASSUMPTIONS = ["src/codec/{unsigned_varint,identity}.rs have no caller in the default-feature build (QUIC/WebRTC substreams and "
               "tests only); they are public API and are driven directly. Identity::new(0) panics by contract (assert!) and is "
               "outside the quantifier; UnsignedVarint::encode asserts len <= u32::MAX (not driven)",
               "the carrier never returns Ok(0) for a non-empty write and delivers accepted bytes in order",
               "Identity(0) is outside the quantifier (a zero-length frame has no wire representation)",
               "UnsignedVarint(None): a peer can make the receiver allocate any announced size (no configured limit to check); "
               "the generator keeps announced sizes below 4 MiB there",
               "message lengths are below 2^64",
               "after a carrier error the sink may lose the frame in hand (theorems assume an error-free carrier)",
               "send_framed is not called while the sink holds unflushed data: it bypasses the sink's queue, so messages are "
               "reordered and, if a frame is partly written, the stream is corrupted (observed on the real code and reproduced "
               "by the model; treated as misuse of the two APIs, the oracle stops judging content from that point)"]
KEEP_PREFIX = 1

KIB = 1024
IDENT = [1, 10, 1023, 1024, 1025, 4096]
VARINT = ["none", 0, 10, 70 * KIB]
MOD = 1000003


def varint(n):
    out = []
    while True:
        b = n & 0x7F
        n >>= 7
        if n:
            out.append(b | 0x80)
        else:
            out.append(b)
            return bytes(out)


def codec_line(rng, kind, arg):
    pipe = rng.choice([4096, 65536, 65536, 1 << 20])
    return f"codec {kind} {arg} pipe={pipe}"


def sizes_for(rng, kind, arg):
    """Candidate message sizes: boundaries of the codec plus flow-control sized ones."""
    if kind == "identity":
        n = arg
        return [n, n, n, n, n, max(n - 1, 0), n + 1, 0]
    if arg == "none":
        return [0, 1, 5, 127, 128, 129, 1000, 16384, 65 * KIB, 70 * KIB, 300 * KIB, 300 * KIB, 600 * KIB, 1024 * KIB]
    m = arg
    return [0, m, m, m + 1, max(m - 1, 0), m // 2, m, 2 * m + 3]


def drain(rng, n):
    return ["recv"] * n


def gen_burst(rng):
    """Many small messages with an idle reader until the carrier's flow-control window (256 KiB) is exhausted in the
    middle of a message, then the reader drains: short writes of small buffers, window exhaustion at arbitrary offsets."""
    size = rng.choice([1000, 1000, 997, 1023, 1024, 1025, 500, 4000])
    ops = [f"codec varint {rng.choice([70000, 4096, size])}"]
    n = (256 * KIB) // (size + 2) + rng.randrange(-3, 25)
    api = rng.choice(["framed", "framed", "sink"])
    for i in range(n):
        ops.append(f"send {api} {size + rng.choice([0, 0, 0, -1, 1]) if size > 1 else size} {1 + i % 250}")
        if api == "sink" and rng.random() < 0.2:
            ops.append("flush")
    for _ in range(n + 10):
        ops.append("recv")
        if rng.random() < 0.15:
            ops.append("wait" if api == "framed" else "flush")
    ops += ["wait", "flush", "writer_stop"] + ["recv"] * 12
    return ops


def gen_case(rng):
    if rng.random() < 0.04:
        return gen_burst(rng)
    if rng.random() < 0.45:
        kind, arg = "identity", rng.choice(IDENT)
    else:
        kind, arg = "varint", rng.choice(VARINT)
    ops = [codec_line(rng, kind, arg)]
    sizes = sizes_for(rng, kind, arg)
    style = rng.choice(["sink", "sink", "framed", "mixed", "malformed", "stall"])
    nmsg = rng.choice([1, 2, 3, 5, 8])
    if style == "malformed" and kind == "varint":
        return ops + gen_malformed(rng, arg)
    sent_big = False
    for _ in range(nmsg):
        ln = rng.choice(sizes)
        fill = rng.randrange(1, 256)
        big = ln > 200 * KIB
        api = style if style in ("sink", "framed") else rng.choice(["sink", "framed"])
        if style == "stall":
            api = "sink"
        if api == "sink":
            ops.append(f"send sink {ln} {fill}")
            r = rng.random()
            if style == "stall" or r < 0.35:
                # several flushes in a row without the reader: the carrier's window runs out
                ops += ["flush"] * rng.choice([1, 2, 3])
                if big:
                    ops += ["flush", "flush"]
            elif r < 0.8:
                ops.append("flush")
            if big or style == "mixed" or rng.random() < 0.5:
                for _ in range(8 if big else 2 if style == "mixed" else 1):
                    ops += ["recv", "flush"]
        else:
            ops.append(f"send framed {ln} {fill}")
            for _ in range(6 if big else rng.choice([0, 1])):
                ops += ["recv", "wait"]
            ops.append("wait")
        sent_big = sent_big or big
        if rng.random() < 0.3:
            ops += drain(rng, rng.choice([1, 2]))
    # finish: flush until done with the reader draining, then stop the writer and read everything
    tail = rng.choice(["stop", "stop", "close", "none"])
    for _ in range(10 if sent_big else 3):
        ops += ["flush", "recv"]
    ops += ["wait", "flush"]
    if tail == "stop":
        ops.append("writer_stop")
    elif tail == "close":
        ops.append("close")
    ops += drain(rng, nmsg + 2)
    return ops


def gen_malformed(rng, arg):
    """Raw length prefixes from a scripted writer: oversized, over-long, non-minimal, truncated, then polls after the error."""
    ops = []
    m = None if arg == "none" else arg
    desync = False
    for _ in range(rng.choice([1, 2, 3])):
        if desync and m is None:
            # without a configured maximum, bytes after a framing error may announce any size
            # (UnsignedVarint(None) allocates what the peer announces): stop injecting
            break
        r = rng.random()
        desync = desync or r < 0.7
        if r < 0.25 and m is not None:
            ln = rng.choice([m + 1, m + 2, 2 * m + 5, 1 << 20, (1 << 32) + 7, (1 << 63) + 1])
            ops.append("raw " + (varint(ln) + bytes([1, 2, 3])).hex())
        elif r < 0.45:
            # ten or more continuation bytes: no terminator within usize_buffer
            k = rng.choice([10, 11, 12])
            ops.append("raw " + (bytes([0x80 | (rng.randrange(128) if m is not None else 0) for _ in range(k)]) + b"\x01").hex())
        elif r < 0.6:
            # non-minimal: a multi-byte prefix ending in 0x00
            k = rng.choice([1, 2, 5, 9])
            ops.append("raw " + (bytes([0x80] * k) + b"\x00" + b"\x05\x06").hex())
        elif r < 0.7:
            # ten-byte prefix whose last group overflows u64 (silently truncated by the decoder)
            top = rng.choice([0x01, 0x02, 0x7f])
            body = bytes([0x80 | rng.randrange(4)] + [0x80] * 8 + [top])
            if m is not None or top != 0x01:
                # value is (top << 63 mod 2^64) + small: only inject where it is refused or small
                if m is not None or (top & 1) == 0:
                    ops.append("raw " + body.hex())
        elif r < 0.85:
            # a valid small frame written raw, in two pieces
            ln = rng.choice([0, 1, 3, 10]) if m is None else rng.choice([0, min(3, m), m])
            ln = min(ln, 50)
            payload = bytes([rng.randrange(256) for _ in range(ln)])
            whole = varint(ln) + payload
            cut = rng.randrange(len(whole) + 1)
            if cut:
                ops.append("raw " + whole[:cut].hex())
            ops.append("recv")
            if cut < len(whole):
                ops.append("raw " + whole[cut:].hex())
        else:
            ln = rng.choice([0, 1, 5]) if m is None else rng.choice([0, m])
            ops.append(f"send sink {ln} {rng.randrange(1, 256)}")
            ops.append("flush")
        ops += ["recv"] * rng.choice([1, 2, 4, 12])
    ops += ["recv"] * 3
    return ops


# ---------------------------------------------------------------- the tokio_util codecs of src/codec/ (`tu` ops)
UVI_DEFAULT_MAX = 128 * 1024 * 1024
TU_MOD = 1000003


def tu_hash(b):
    h = 0
    for x in b:
        h = (h * 31 + x) % TU_MOD
    return f"{len(b)}:{h}"


def tu_item_bytes(s):
    if s == "-":
        return b""
    if "*" in s:
        n, f = s.split("*")
        return bytes([int(f)]) * int(n)
    return bytes.fromhex(s)


def tu_item(rng, lens):
    n = rng.choice(lens)
    if n > 24 or rng.random() < 0.3:
        return f"{n}*{rng.randrange(256)}"
    return bytes(rng.randrange(256) for _ in range(n)).hex() or "-"


def tu_chunks(rng, b):
    cuts = sorted(rng.randrange(len(b) + 1) for _ in range(rng.choice([0, 1, 2, 4]))) if b else []
    out, last = [], 0
    for c in cuts + [len(b)]:
        out.append(b[last:c].hex() or "-")
        last = c
    return ",".join(out)


def gen_tu_op(rng):
    r = rng.random()
    if r < 0.55:
        kind = rng.choice(["uvi", "uvi", "uviw"])
        m = rng.choice([0, 1, 10, 127, 128, 300, 70000] + ([] if kind == "uviw" else ["none"]))
        mm = UVI_DEFAULT_MAX if m == "none" else m
        lens = [0, 1, 2, mm, mm, mm + 1, max(mm - 1, 0), 127, 128] if mm <= 70000 else [0, 1, 5, 127, 128, 129, 300, 20000]
        lens = [x for x in lens if x <= 80000]
        op = rng.choice(["dec", "dec", "dec", "enc", "rt", "rt"])
        if op == "dec":
            stream = b""
            for _ in range(rng.choice([1, 2, 3, 5])):
                q = rng.random()
                if q < 0.7:
                    n = rng.choice([x for x in lens if x <= 2000] or [0])
                    stream += varint(n) + bytes(rng.randrange(256) for _ in range(n))
                elif q < 0.8:
                    stream += rng.choice([b"\x80" * 9 + b"\x01", b"\x80" * 10 + b"\x01", b"\xff" * 10, b"\x80\x00", b"\x81\x80\x00",
                                          b"\xff" * 9 + b"\x7f", b"\xff" * 9 + b"\x01"]) + b"\x01\x02"
                elif q < 0.9:
                    stream += varint(rng.choice([mm + 1, mm + 2, 2 * mm + 7, 2 ** 32, 2 ** 63 + 1])) + b"\x01\x02\x03"
                else:
                    # announced but not (yet) delivered: the decoder reserves the announced size
                    n = rng.choice([5, 300, 70000, 5 * 1024 * 1024, UVI_DEFAULT_MAX - 1, UVI_DEFAULT_MAX])
                    stream += varint(n) + b"\x07" * min(n, 3)
            return f"tu {kind} {m} dec {tu_chunks(rng, stream)}"
        items = ",".join(tu_item(rng, lens) for _ in range(rng.choice([1, 2, 3, 6])))
        if op == "rt":
            items = ",".join(tu_item(rng, [x for x in lens if x <= 150] or [0]) for _ in range(rng.choice([1, 2, 4])))
        return f"tu {kind} {m} {op} {items}"
    if r < 0.65:
        if rng.random() < 0.5:
            return f"tu uvi - henc {tu_item(rng, [0, 1, 127, 128, 300, 16384, 70000])}"
        n = rng.choice([0, 1, 5, 127, 128, 300])
        b = varint(n) + bytes(rng.randrange(256) for _ in range(n)) + bytes(rng.randrange(256) for _ in range(rng.choice([0, 0, 3])))
        if rng.random() < 0.4:
            b = b[:rng.randrange(len(b) + 1)]
        if rng.random() < 0.15:
            b = rng.choice([b"\x80" * 10 + b"\x01", b"\x80\x00", varint(UVI_DEFAULT_MAX + 1), varint(UVI_DEFAULT_MAX), b""])
        return f"tu uvi - hdec {b.hex() or '-'}"
    n = rng.choice([1, 2, 3, 32, 48, 1024])
    lens = [n, n, n, n - 1, n + 1, 0, 1, 2 * n]
    op = rng.choice(["dec", "dec", "enc", "rt", "rt", "henc"])
    if op == "henc":
        return f"tu id - henc {tu_item(rng, [0, 1, 5, 300])}"
    if op == "dec":
        total = rng.choice([0, 1, n - 1, n, n + 1, 2 * n, 3 * n + 1])
        return f"tu id {n} dec {tu_chunks(rng, bytes(rng.randrange(256) for _ in range(min(total, 3000))))}"
    return f"tu id {n} {op} " + ",".join(tu_item(rng, lens) for _ in range(rng.choice([1, 2, 4])))


def gen_tu_case(rng):
    return [gen_tu_op(rng) for _ in range(12)]


def tu_every_split(rng):
    """One stream of valid frames delivered in two chunks, cut at every offset."""
    msgs = [bytes(rng.randrange(256) for _ in range(n)) for n in (0, 3, 130, 1)]
    stream = b"".join(varint(len(m)) + m for m in msgs)
    return [f"tu uvi 300 dec {stream[:k].hex() or '-'},{stream[k:].hex() or '-'}" for k in range(len(stream) + 1)]


def tu_reference_frames(chunks, mm):
    """What a correct unsigned-varint frame decoder returns per chunk, for streams made of canonical frames within the
    limit (None: no opinion). A length prefix is consumed as soon as it is complete."""
    buf, res, pending = b"", [], None
    for c in chunks:
        buf += c
        while True:
            if pending is None:
                n, shift, k = 0, 0, 0
                while k < len(buf) and buf[k] >= 0x80 and k < 9:
                    n |= (buf[k] & 0x7F) << shift
                    shift += 7
                    k += 1
                if k >= len(buf):
                    res.append("n")
                    break
                if buf[k] >= 0x80 or (buf[k] == 0 and k > 0):
                    return None
                n |= buf[k] << shift
                if n > mm or n >= 2 ** 64:
                    return None
                pending, buf = n, buf[k + 1:]
            if len(buf) < pending:
                res.append("n")
                break
            res.append("f" + tu_hash(buf[:pending]))
            buf, pending = buf[pending:], None
    return res, len(buf)


def oracle_tu(i, op, o, bad):
    def v(kind, msg):
        bad.append({"kind": kind, "msg": msg, "step": i, "op": op[:300], "out": o[:300]})
    t = op.split()
    if len(t) != 5 or o in ("bad-op", "skipped"):
        return
    kind, arg, what, data = t[1:]
    f = dict(x.split("=", 1) for x in o.split() if "=" in x)
    if kind in ("uvi", "uviw"):
        mm = UVI_DEFAULT_MAX if arg in ("none", "-") else int(arg)
        fits = lambda b: len(b) <= mm
        frame = lambda b: varint(len(b)) + b
    else:
        mm = None if arg == "-" else int(arg)
        fits = lambda b: len(b) == mm and len(b) > 0
        frame = lambda b: b
    if what in ("enc", "rt"):
        items = [tu_item_bytes(x) for x in data.split(",")]
        got = f.get("r", "").split(",")
        want = ["ok" if fits(b) else "e" for b in items]
        if [("ok" if g == "ok" else "e") for g in got] != want:
            v("sender-limit", f"items of sizes {[len(b) for b in items]} under limit {mm}: encoder answered {got}")
            return
        acc = [b for b in items if fits(b)]
        if f.get("dst") != tu_hash(b"".join(frame(b) for b in acc)):
            v("wire-format", f"encoded bytes {f.get('dst')} are not the concatenated frames of the accepted items")
        if what == "rt":
            if f.get("dec", "") != ",".join("f" + tu_hash(b) for b in acc) or f.get("rem") != "0" or f.get("all") != "1":
                v("roundtrip", f"accepted {[tu_hash(b) for b in acc]}, decoded {f.get('dec')} rem={f.get('rem')} all={f.get('all')}")
    elif what == "dec":
        chunks = [tu_item_bytes(x) for x in data.split(",")]
        total = sum(len(c) for c in chunks)
        alloc = int(f.get("alloc", 0))
        limit = 2 * (total + (mm if kind != "id" else 0)) + 4096
        if alloc > limit:
            v("over-allocation", f"decoding {total} bytes under limit {mm} allocated {alloc} bytes")
        if kind != "id":
            ref = tu_reference_frames(chunks, mm)
            if ref is not None and (f.get("r", "").split(","), f.get("rem")) != (ref[0], str(ref[1])):
                v("roundtrip", f"a stream of valid frames decodes to {f.get('r')} rem={f.get('rem')}, expected {ref}")
        elif mm:
            buf = b"".join(chunks)
            frames = ["f" + tu_hash(buf[k:k + mm]) for k in range(0, len(buf) - mm + 1, mm)]
            if [x for x in f.get("r", "").split(",") if x != "n"] != frames or f.get("rem") != str(len(buf) % mm):
                v("roundtrip", f"fixed-size frames: got {f.get('r')} rem={f.get('rem')}, expected {frames}")
    elif what == "henc":
        b = tu_item_bytes(data)
        if o != "ok " + tu_hash(frame(b) if kind != "id" else b):
            v("wire-format", f"helper encode of {len(b)} bytes answered {o}")
    elif what == "hdec":
        ref = tu_reference_frames([tu_item_bytes(data)], mm)
        if ref is not None and ref[0][0] != "n":
            first = ref[0][0]
            if not o.startswith("ok " + first + " "):
                v("roundtrip", f"helper decode answered {o}, expected {first}")


def normalize(line):
    import re
    if line.startswith("panic"):
        return "panic"
    return re.sub(r" alloc=\d+", "", line)


def corpus():
    return [
        # §8-b: a fixed frame size above the initial read buffer
        ["codec identity 2048", "send sink 2048 7", "flush", "recv"],
        ["codec identity 1025", "send framed 1025 9", "recv", "recv"],
        # §8-c: 1 MiB through the sink; flushes without reads exhaust the window; the writer stops
        # only after a flush was reported complete
        ["codec varint none", "send sink 1048576 9", "flush", "flush", "flush", "recv", "flush", "recv", "flush",
         "recv", "flush", "recv", "flush", "recv", "flush", "recv", "flush", "recv", "flush", "writer_stop", "recv", "recv"],
        ["codec varint none", "send sink 1048576 9", "flush", "flush", "flush", "writer_stop", "recv", "recv"],
        ["codec varint none", "send sink 70000 1", "send sink 70000 2", "send sink 70000 3", "send sink 70000 4",
         "send sink 70000 5", "flush", "flush", "writer_stop", "recv", "recv", "recv", "recv", "recv", "recv"],
        # polling again after a length error (debug_assert_eq / size_vec index)
        ["codec varint 10", "raw 0b0102", "recv", "recv", "recv"],
        ["codec varint 10", "raw 80808080808080808080", "recv", "recv", "recv"],
        ["codec varint none", "raw 808000", "recv", "recv", "recv", "recv", "recv", "recv", "recv", "recv", "recv", "recv"],
        ["codec varint none", "send framed 300000 3", "recv", "wait", "recv", "send framed 0 0", "recv",
         "send sink 5 1", "send sink 0 1", "flush", "recv", "recv", "recv", "close", "recv"],
    ]


def gen_cases(rng, tier):
    n = {"quick": 300, "thorough": 20000, "search": 2000}[tier]
    for _ in range(n):
        yield gen_case(rng)
    # the tokio_util codecs of src/codec/ (stateless ops)
    if tier != "search":
        yield tu_every_split(rng)
    for _ in range({"quick": 40, "thorough": 1500, "search": 150}[tier]):
        yield gen_tu_case(rng)


def mutate_case(rng, case, n):
    for _ in range(n):
        c = list(case)
        for _ in range(rng.randrange(1, 4)):
            if len(c) < 2:
                break
            i = rng.randrange(1, len(c))
            r = rng.random()
            if r < 0.4:
                del c[i]
            elif r < 0.8:
                c.insert(i, rng.choice(case[1:]))
            else:
                c.insert(i, rng.choice(["recv", "flush", "flush"]))
        yield c


def model_lines(case, impl):
    """Checker mode: hand the implementation's observation to the model driver."""
    res = []
    for i, op in enumerate(case):
        o = impl[i] if impl is not None and i < len(impl) else ""
        res.append(f"{op} -> {o}" if o else op)
    return res


def parse_codec(line):
    t = line.split()
    if len(t) < 3 or t[0] != "codec":
        return None
    if t[1] == "identity":
        return ("identity", int(t[2]))
    return ("varint", None if t[2] == "none" else int(t[2]))


def acceptable(codec, ln):
    kind, arg = codec
    if kind == "identity":
        return ln == arg
    return arg is None or ln <= arg


def oracle(case, out):
    """The property on the implementation's observations only. Messages accepted by the sender are
    expected at the reader in order and intact; refused iff outside the codec's limits; once a flush
    / framed send was reported complete, a reader polled to quiescence (the writer is never polled by
    `recv`) must obtain every message sent before; errors, never panics. Raw injections make the
    stream content-unspecified from that point on (only `no panic` is checked then)."""
    bad = []

    def v(kind, msg, i):
        bad.append({"kind": kind, "msg": msg, "step": i, "op": case[i], "out": out[i] if i < len(out) else None})

    if not case:
        return bad
    for i, op in enumerate(case):
        if op.startswith("tu ") and i < len(out):
            if out[i].startswith("panic"):
                v("panic", f"panic in {op[:60]}: {out[i]}", i)
                return bad
            oracle_tu(i, op, out[i], bad)
    if case[0].startswith("tu "):
        return bad
    codec = parse_codec(case[0])
    if codec is None:
        return bad
    msgs = []            # accepted messages: dict(len, fill, api, done, got)
    framed_pending = None
    raw_seen = False
    reader_error = False
    for i, op in enumerate(case):
        if i >= len(out):
            break
        o = out[i].split()
        t = op.split()
        if not o:
            break
        if o[0] == "panic":
            v("panic", f"panic in {t[0]}: {out[i]}", i)
            break
        if o[0] in ("skipped", "bad-op"):
            break
        if t[0] == "raw":
            raw_seen = True
        elif t[0] == "send" and o[0] in ("ok", "refused", "pending"):
            ln, fill = int(t[2]), int(t[3])
            ok = acceptable(codec, ln)
            if o[0] == "refused" and ok:
                v("wrongly-refused", f"message of {ln} bytes within the limits of {codec} was refused", i)
            if o[0] in ("ok", "pending") and not ok:
                v("oversize-accepted", f"message of {ln} bytes outside the limits of {codec} was accepted", i)
            if o[0] in ("ok", "pending") and ok:
                m = {"len": ln, "fill": fill, "api": t[1], "done": False, "got": False}
                if t[1] == "framed":
                    if any(x["api"] == "sink" and not x["done"] for x in msgs):
                        # send_framed bypasses the sink's queue: with unflushed sink data the order (and, if a
                        # frame is partly written, the content) of the stream is unspecified from here on
                        raw_seen = True
                    if o[0] == "ok":
                        m["done"] = True
                    else:
                        framed_pending = m
                msgs.append(m)
        elif t[0] == "wait" and o[0] == "ok" and framed_pending is not None:
            framed_pending["done"] = True
            framed_pending = None
        elif t[0] == "flush" and o[0] == "ready":
            for x in msgs:
                if x["api"] == "sink":
                    x["done"] = True
        elif t[0] == "recv":
            if o[0] == "frame":
                if raw_seen or reader_error:
                    continue
                ln, first, sm = int(o[1]), int(o[2]), int(o[3])
                todo = [x for x in msgs if not x["got"]]
                if not todo:
                    v("spurious-frame", f"frame of {ln} bytes received but nothing (more) was sent", i)
                    break
                cands = todo[:1]
                hit = [x for x in cands if x["len"] == ln and (ln == 0 or x["fill"] == first)
                       and sm == (x["len"] * x["fill"]) % MOD]
                if not hit:
                    e = todo[0]
                    v("frame-mismatch", f"next message was sent as ({e['len']} bytes of {e['fill']}), received "
                                        f"({ln} bytes, first {first}, sum {sm})", i)
                    break
                hit[0]["got"] = True
            elif o[0] == "err":
                reader_error = True
                if not raw_seen:
                    v("receiver-error", f"receiver reported {out[i]} on a stream of accepted messages", i)
                    break
            elif o[0] in ("pending", "eof"):
                late = [x for x in msgs if x["done"] and not x["got"]]
                if not raw_seen and not reader_error and late:
                    v("flush-incomplete", f"send/flush was reported complete for a message of {late[0]['len']} bytes but the "
                                          f"reader, polled to quiescence, does not get it ({out[i]})", i)
                    break
    return bad


def stats(case, out, acc):
    c = parse_codec(case[0]) if case else None
    if c:
        bump(acc, f"codec:{c[0]}:{c[1]}")
    for op, o in zip(case, out):
        t = op.split()
        if t[0] == "tu" and len(t) == 5:
            bump(acc, f"op:tu:{t[1]}:{t[3]}")
            for cls in ("f", "n", "e:"):
                if any(x.startswith(cls) for x in o.split(" ")[0][2:].split(",")):
                    bump(acc, f"tu:{t[1]}:{t[3]}:{cls}")
            continue
        key = t[0] + (":" + t[1] if t[0] == "send" else "")
        bump(acc, "op:" + key)
        w = o.split()
        if w:
            bump(acc, f"{key}:{w[0] if w[0] != 'frame' else 'frame'}")
        if t[0] == "send":
            ln = int(t[2])
            bump(acc, "len:" + ("0" if ln == 0 else "<=1KiB" if ln <= 1024 else "<=64KiB" if ln <= 65536 else
                                "<=256KiB" if ln <= 262144 else ">256KiB"))
    bump(acc, "case-len:%d" % (10 * (len(case) // 10)))


def nontrivial(case, out):
    if case and case[0].startswith("tu "):
        return any("f" in o.split("rem=")[0] and "=" in o for o in out) and any("e:" in o or "n" in o for o in out)
    heads = [o.split()[0] for o in out if o]
    frame = "frame" in heads
    other = any(h in ("pending", "notready", "refused", "err") for h in heads[1:])
    return frame and other


def matches_known(k, v):
    return False

# ---------------------------------------------------------------- real nodes through the public API (engine: extra_cases)
# `Litep2p::new` (src/lib.rs), `ConfigBuilder` (src/config.rs) and the protocol / transport `Config` builders hand every
# constructed object its configuration; the `node` area (checks/node.py) builds real nodes, compares what the CONSTRUCTED
# objects hold (and what a connection's `ProtocolSet` answers per main / fallback name) with the wiring model
# (Model/Node/Wiring.lean) and judges this property's real-time scenarios (messages at / above the configured maximum on
# substreams negotiated under a FALLBACK name) at node level.
from . import node as _node  # noqa: E402
_node.install(globals())
