"""C17 — MemoryStore bounds and freshness (model: Model/Kad/Store.lean, adapter: src/verif/c17.rs)."""
from .common import peer_bytes, sha256_int, bump

ID = "C17"
AREA = "c17"
LEAN_PROPS = "Litep2pVerif.Props.C17"
THEOREMS = ["store_bounds", "default_config_bounds", "no_expired_record", "no_expired_provider", "ttl_monotone",
            "reannounce_in_place", "reannounce_renews_expiry", "providers_closest_step", "providers_closest", "record_store_refines_map", "put_then_get"]
CONSTS = ["DEFAULT_MAX_RECORDS", "DEFAULT_MAX_RECORD_SIZE_BYTES", "DEFAULT_MAX_PROVIDER_KEYS",
          "DEFAULT_MAX_PROVIDER_ADDRESSES", "DEFAULT_MAX_PROVIDERS_PER_KEY"]
MANIFEST = {
    "text": "Lean 4 theorems (store_bounds by induction over all operation histories and all configurations; "
            "default_config_bounds on the regenerated constants; no_expired_record/provider, ttl_monotone, reannounce_in_place, "
            "reannounce_renews_expiry (a re-announcement stores the new record as a whole: the provider stays returned, with "
            "the new addresses, until the LAST announcement's time + ttl and is not returned from then on), "
            "providers_closest_step; record_store_refines_map + put_then_get: the record half refines a finite map with an explicit "
            "admission rule, every key's content after put/get/provider operations) about an executable model of MemoryStore, plus a seeded correspondence run of the real "
            "MemoryStore against the model's executable definitions and a specification-level oracle. A pure data structure: "
            "proof over all histories is the right level.",
    "note": "Trusted: Lean kernel; axioms propext/Classical.choice/Quot.sound; the hand-written model and its tie (sampled "
            "differential runs through adapter src/verif/c17.rs); binary_search_by modelled by its spec on sorted input; SHA-256 "
            "and Instant outside the model.",
    "technique": "Lean 4 proof (invariant by induction over operations) + model/implementation correspondence check",
    "design_ref": "DESIGN.md §7 C17",
}
_CFG = "src/protocol/libp2p/kademlia/config.rs"
CONST_TABLE = [
    ("DEFAULT_MAX_RECORDS", _CFG, r"const DEFAULT_MAX_RECORDS: usize = ([^;]+);", 1024),
    ("DEFAULT_MAX_RECORD_SIZE_BYTES", _CFG, r"const DEFAULT_MAX_RECORD_SIZE_BYTES: usize = ([^;]+);", 66560),
    ("DEFAULT_MAX_PROVIDER_KEYS", _CFG, r"const DEFAULT_MAX_PROVIDER_KEYS: usize = ([^;]+);", 1024),
    ("DEFAULT_MAX_PROVIDER_ADDRESSES", _CFG, r"const DEFAULT_MAX_PROVIDER_ADDRESSES: usize = ([^;]+);", 30),
    ("DEFAULT_MAX_PROVIDERS_PER_KEY", _CFG, r"const DEFAULT_MAX_PROVIDERS_PER_KEY: usize = ([^;]+);", 20),
]
RULE = ("seeded operation histories (cfg; put/get/putprov/provs/putlocal/rmlocal/adv over 4 colliding keys, 8 providers, "
        "a logical clock the store reads through a cfg-guarded hook and `adv` moves; every 10th case announce -> part of the "
        "ttl passes -> re-announce with other addresses (remote provider or the local refresh) -> read between the first and "
        "the second expiry (boundaries included) -> read after the last expiry, and the same for a record's explicit expiry; "
        "expired/unexpired/no expiry, more keys and providers than the bounds; final sweep reading every key) run on "
        "the real MemoryStore and on the Lean model; a case is non-trivial if at least one put/putprov was accepted and "
        "one was refused or evicted; distinct = distinct (ops, observations) transcripts by SHA-256")
TRUSTED_BASE = ["Lean 4.33 kernel", "axioms: propext, Classical.choice, Quot.sound only",
                "hand-written model Model/Kad/Store.lean tied to store.rs by this correspondence run",
                "adapter /repo/src/verif/c17.rs, harness, verif.py, checks/c17.py",
                "std binary_search_by modelled by its specification on strictly sorted input (sortedness is a proved invariant)",
                "SHA-256/XOR distance computed outside the model (Python hashlib) and passed as an input",
                "std::time::Instant::now() inside store.rs reads crate::verif::store_now under --cfg litep2p_verif (one `use … as std` "
                "line in store.rs; the real clock unless the c17 adapter pinned a logical instant): logical time starts at 1000, "
                "moves only by `adv`, future = hours, past = milliseconds"]
ASSUMPTIONS = ["HashMap iteration order is never observable through the MemoryStore API",
               "every clock read of MemoryStore is a textual `std::time::Instant::now()` in store.rs (the hook shadows the name)"]
KEEP_PREFIX = 1
NOW = 1000
LOCAL = 0

KEYS = ["0a", "0b0c", "ff", "00"]


def dist(peer, keyhex):
    return sha256_int(peer_bytes(peer)) ^ sha256_int(bytes.fromhex(keyhex))


def gen_case(rng, n_ops):
    perkey = rng.choice([1, 1, 2, 2, 3, 3, 0])
    cfg = [rng.choice([0, 1, 2, 3]), rng.choice([0, 1, 2, 4, 8]), rng.choice([0, 1, 2, 3]),
           rng.choice([0, 1, 2, 3]), perkey, rng.choice([0, 48, 48, 48])]
    ops = ["cfg " + " ".join(map(str, cfg))]
    tag = 0
    prev = {}
    for _ in range(n_ops):
        k = rng.choice(KEYS)
        r = rng.random()
        if r < 0.30:
            exp = rng.choice(["none", "none", 995, 999, 1000, 1001, 1002, 1003, 1004])
            if prev.get(k) and rng.random() < 0.3:
                vlen, t = rng.choice(prev[k])       # republish a byte-identical value
            else:
                tag += 1
                vlen, t = rng.choice([0, 1, 1, 2, 3, 4, 7, 8, 9]), tag
            prev.setdefault(k, []).append((vlen, t))
            ops.append(f"put {k} {vlen} {t} {exp}")
        elif r < 0.45:
            ops.append(f"get {k}")
        elif r < 0.80:
            p = rng.randrange(1, 9)
            ops.append(f"putprov {k} {p} {rng.choice([0, 1, 2, 3, 4])} d={dist(p, k):x}")
        elif r < 0.88:
            ops.append(f"provs {k}")
        elif r < 0.93:
            ops.append(f"putlocal {k} d={dist(LOCAL, k):x}")
        elif r < 0.97:
            ops.append(f"rmlocal {k} d={dist(LOCAL, k):x}")
        else:
            ops.append(f"adv {rng.choice([1, 1, 2, 3, 24, 47, 48, 49])}")
    for k in KEYS:
        ops.append(f"get {k}")
    for k in KEYS:
        ops.append(f"provs {k}")
    return ops


def gen_expiry_case(rng, variant):
    """Freshness over elapsed time: announce, let part of the TTL pass, re-announce (same provider, other addresses),
    read after the FIRST announcement's expiry but before the second's, read after the second's. `variant` picks the
    announcer (remote / local refresh) and the boundary (exactly at the first expiry / one unit before the second)."""
    ttl = rng.choice([2, 5, 10, 48])
    perkey = rng.choice([1, 2, 3])
    cfg = [rng.choice([1, 2, 3]), 8, rng.choice([1, 2, 3]), rng.choice([2, 3, 4]), perkey, ttl]
    ops = ["cfg " + " ".join(map(str, cfg))]
    k = rng.choice(KEYS)
    local = variant % 2 == 1
    p = LOCAL if local else rng.randrange(1, 9)

    def ann(na):
        return f"putlocal {k} d={dist(LOCAL, k):x}" if local else f"putprov {k} {p} {na} d={dist(p, k):x}"
    a1 = rng.choice([0, 1, 2])
    a2 = rng.choice([x for x in [0, 1, 2, 3] if x != a1] + [a1])      # (sometimes the very same announcement again)
    others = [q for q in range(1, 9) if q != p]
    if rng.random() < 0.5:
        q = rng.choice(others)
        ops.append(f"putprov {k} {q} 1 d={dist(q, k):x}")
    ops.append(ann(a1))
    a = rng.randrange(1, ttl)
    ops.append(f"adv {a}")
    if rng.random() < 0.4:
        ops.append(f"provs {k}")
    if rng.random() < 0.3:
        k2 = rng.choice(KEYS)
        q = rng.choice(others)
        ops.append(f"putprov {k2} {q} 2 d={dist(q, k2):x}")
    ops.append(ann(a2))
    b = [ttl - a, ttl - 1, rng.randrange(ttl - a, ttl)][(variant // 2) % 3]
    ops.append(f"adv {b}")
    ops.append(f"provs {k}")          # first expiry passed, second not: still provided, new addresses
    if rng.random() < 0.5:            # a third announcement renews once more
        ops.append(ann(a1))
        ops.append(f"adv {ttl - 1}")
        ops.append(f"provs {k}")
        ops.append("adv 1")
    else:
        c = ttl - b - 1
        if c > 0:
            ops.append(f"adv {c}")
            ops.append(f"provs {k}")
        ops.append("adv 1")
    ops.append(f"provs {k}")          # the last expiry has passed
    # the record half: expiry is explicit in the record; the clock now moves
    kr = rng.choice(KEYS)
    e = rng.randrange(2, 6)
    ops.append(f"put {kr} 3 7 {NOW + 3 * ttl + e}")
    ops.append(f"adv {e - 1}")
    ops.append(f"get {kr}")
    ops.append(f"put {kr} 2 9 {NOW + 3 * ttl + e + 2}")
    ops.append("adv 1")
    ops.append(f"get {kr}")
    ops.append("adv 2")
    ops.append(f"get {kr}")
    for kk in KEYS:
        ops.append(f"get {kk}")
    for kk in KEYS:
        ops.append(f"provs {kk}")
    return ops


def gen_cases(rng, tier):
    n = {"quick": 1500, "thorough": 60000, "search": 6000}[tier]
    for i in range(n):
        if i % 10 == 9:
            yield gen_expiry_case(rng, i // 10)
        else:
            yield gen_case(rng, rng.choice([4, 8, 15, 25, 40]))


def mutate_case(rng, case, n):
    for _ in range(n):
        c = list(case)
        for _ in range(rng.randrange(1, 4)):
            i = rng.randrange(1, len(c))
            if rng.random() < 0.5:
                del c[i]
            else:
                c.insert(i, rng.choice(case[1:]))
        yield c


def parse_provs(s):
    s = s.strip()[1:-1]
    if not s:
        return []
    res = []
    for item in s.split(","):
        p, a = item.split(":")
        res.append((int(p), [] if a == "" else [int(x) for x in a.split("+")]))
    return res


def oracle(case, out):
    """Property-level checks on the implementation's observations, against a specification-level
    reference (sets and sorted lists), independent of the Lean model."""
    bad = []
    cfg = None
    puts = {}               # key -> list of (step, vlen, tag, exp) in order
    seen = {}               # key -> (step of the last get that returned a record, its expiry)
    ref = {}                # key -> list of (dist, peer, addrs, expired?)
    local_keys = set()
    final_some = 0
    now = NOW               # the logical clock (moved by `adv`)
    last_ann = {}           # (key, peer) -> clock reading of the last accepted announcement

    def v(kind, msg, i):
        bad.append({"kind": kind, "msg": msg, "step": i, "op": case[i], "out": out[i] if i < len(out) else None})

    n_final = 2 * len(KEYS)
    has_sweep = (len(case) > n_final and [c.split()[0] for c in case[-n_final:]] == ["get"] * len(KEYS) + ["provs"] * len(KEYS)
                 and len({c.split()[1] for c in case[-len(KEYS):]}) == len(KEYS))
    for i, op in enumerate(case):
        if i >= len(out):
            break
        o = out[i]
        t = op.split()
        if o.startswith("panic"):
            if "rmlocal" != t[0]:
                v("panic", f"panic in {t[0]}: {o}", i)
            # remove_local_provider's debug_assert is outside the property's statement
            break
        if o == "skipped":
            break
        if t[0] == "cfg":
            cfg = list(map(int, t[1:]))
            recs, size, pkeys, paddrs, perkey, ttl = cfg
            now = NOW
        elif t[0] == "adv":
            now += int(t[1])
        elif t[0] == "put":
            puts.setdefault(t[1], []).append((i, int(t[2]), int(t[3]), None if t[4] == "none" else int(t[4])))
        elif t[0] == "get":
            if o != "none":
                _, vlen, tag, exp = o.split()[:4]
                if "corrupt" in o:
                    v("record-corrupt", "record value altered", i)
                if int(vlen) >= size:
                    v("record-size", f"stored value of {vlen} bytes with max_record_size {size}", i)
                k = t[1]
                e = None if exp == "none" else int(exp)
                if not any(p[1] == int(vlen) and (p[2] == int(tag) or int(vlen) == 0) and p[3] == e for p in puts.get(k, [])):
                    v("record-unknown", "get returned a record (value, expiry) that was never put under this key", i)
                if e is not None and e <= now:
                    v("expired-record", f"get returned a record expired at {exp} (now {now})", i)
                if k in seen:
                    j0, e0 = seen[k]
                    # a stored unexpired record with expiry e0 may only give way to one expiring earlier via an
                    # intermediate record without expiry
                    via_none = any(j0 < p[0] < i and p[3] is None and p[1] < size for p in puts[k])
                    if e0 is not None and e is not None and e < e0 and not via_none:
                        v("ttl-regress", f"record expiring at {e0} replaced by one expiring at {e}", i)
                seen[k] = (i, e)
                if has_sweep and i >= len(case) - n_final:
                    final_some += 1
            else:
                k = t[1]
                if k in seen:
                    j0, e0 = seen[k]
                    via_none = any(j0 < p[0] < i and p[3] is None and p[1] < size for p in puts.get(k, []))
                    if e0 is not None and e0 > now and not via_none:
                        v("record-lost", f"unexpired record (expires {e0}) disappeared without having been replaced "
                          "by a record without expiry", i)
                seen.pop(k, None)
        elif t[0] in ("putprov", "putlocal"):
            k = t[1]
            if t[0] == "putprov":
                p, na = int(t[2]), int(t[3])
            else:
                p, na = LOCAL, 0
            d = dist(p, k)
            entry = (d, p, list(range(min(na, paddrs))), now + ttl)      # reference rule: expiry = LAST announcement + ttl
            if k not in ref:
                expect = len(ref) < pkeys
                if expect:
                    ref[k] = [entry]
            else:
                lst = [e for e in ref[k] if e[1] != p] + [entry]
                lst.sort()
                lst = lst[:max(perkey, 0)] if perkey >= 1 else lst
                expect = entry in lst
                if perkey >= 1:
                    ref[k] = lst
                else:
                    ref = None
            if ref is None:
                break       # per-key bound 0 is outside the quantifier; stop the reference here
            if o != str(expect).lower():
                v("provider-accept", f"{t[0]} answered {o}, the keep-the-closest specification says {expect}", i)
                break
            if expect:
                last_ann[(k, p)] = now
            if t[0] == "putlocal" and expect:
                local_keys.add(k)
        elif t[0] == "rmlocal":
            k = t[1]
            if k in local_keys:
                local_keys.discard(k)
                if k in ref:
                    ref[k] = [e for e in ref[k] if e[1] != LOCAL]
                    if not ref[k]:
                        del ref[k]
        elif t[0] == "provs":
            k = t[1]
            got = parse_provs(o)
            if ttl == 0 and got:
                v("expired-provider", "get_providers returned a provider whose TTL is 0", i)
            for p, _ in got:
                la = last_ann.get((k, p))
                if la is not None and la + ttl <= now and ttl != 0:
                    v("expired-provider", f"get_providers returned provider {p} last announced at {la} with ttl {ttl} (now {now})", i)
            if perkey >= 1 and len(got) > perkey:
                v("providers-per-key", f"{len(got)} providers with bound {perkey}", i)
            ds = [dist(p, k) for p, _ in got]
            if any(a >= b for a, b in zip(ds, ds[1:])):
                v("providers-unsorted", "providers not strictly sorted by distance", i)
            for p, a in got:
                if len(a) > paddrs:
                    v("provider-addresses", f"{len(a)} addresses with bound {paddrs}", i)
            if ref is not None:
                live = [e for e in ref.get(k, []) if e[3] > now]
                want = [(e[1], e[2]) for e in live]
                if got != want:
                    stored = [(e[1], e[2]) for e in ref.get(k, [])]
                    if sorted(p for p, _ in got) != sorted(p for p, _ in want) and all(g in stored for g in got):
                        v("provider-expiry", f"providers {got} at {now}; a provider expires at (its LAST announcement + ttl {ttl}): "
                          f"{[(e[1], e[3]) for e in ref.get(k, [])]} -> {want}", i)
                    else:
                        v("providers-closest", f"providers {got}, specification (closest {perkey}) says {want}", i)
                if k in ref:
                    if live:
                        ref[k] = live
                    else:
                        del ref[k]
    if cfg and has_sweep and len(out) >= len(case) and not any(o.startswith("panic") or o == "skipped" for o in out):
        if final_some > cfg[0]:
            v("record-count", f"{final_some} records readable with max_records {cfg[0]}", len(case) - 1)
        nonempty = sum(1 for i in range(len(case) - len(KEYS), len(case)) if out[i] != "[]")
        if nonempty > cfg[2]:
            v("provider-keys", f"{nonempty} provider keys with bound {cfg[2]}", len(case) - 1)
    return bad


def stats(case, out, dist_acc):
    for op, o in zip(case, out):
        t = op.split()[0]
        bump(dist_acc, "op:" + t)
        if t == "provs" and any(c.startswith("adv") for c in case):
            bump(dist_acc, "provs-after-adv:" + ("empty" if o == "[]" else "some"))
        if t in ("putprov", "putlocal"):
            bump(dist_acc, f"{t}:{o}")
        if t == "get":
            bump(dist_acc, "get:" + o.split()[0])
        if o.startswith("panic"):
            bump(dist_acc, "panic")
    bump(dist_acc, "case-len:%d" % (10 * (len(case) // 10)))


def nontrivial(case, out):
    acc = any(o == "true" for o in out)
    rej = any(o == "false" for o in out)
    some = any(o.startswith("some") for o in out)
    return acc and (rej or some)


def matches_known(k, v):
    return False

# ---------------------------------------------------------------- real nodes through the public API (engine: extra_cases)
# `Litep2p::new` (src/lib.rs), `ConfigBuilder` (src/config.rs) and the protocol / transport `Config` builders hand every
# constructed object its configuration; the `node` area (checks/node.py) builds real nodes, compares what the CONSTRUCTED
# objects hold (and what a connection's `ProtocolSet` answers per main / fallback name) with the wiring model
# (Model/Node/Wiring.lean).
from . import node as _node  # noqa: E402
_node.install(globals())
