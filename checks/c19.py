"""C19 — decoders of remote-controlled bytes never panic / over-allocate; encoders round-trip.
Model: Generated/Schemas.lean (translated from /repo's .proto files by tools/proto2lean.py on every run) over
Model/Wire/Protobuf.lean; Model/Wire/{Schemas,KadMessage,KadEncoders,MultihashAccept}.lean; adapter: /repo/src/verif/c19*.rs."""
import re
from .common import peer_bytes, bump

ID = "C19"
AREA = "c19"
LEAN_PROPS = "Litep2pVerif.Props.C19"
THEOREMS = ["readVarint_consumes", "readVarint_writeVarint", "readKey_writeKey", "bytes_field_roundtrip",
            "kad_alloc_bound", "identify_alloc_bound", "bitswap_alloc_bound", "noise_alloc_bound", "key_alloc_bound",
            "kad_peers_bounded",
            "kad_roundtrip", "identify_roundtrip", "bitswap_roundtrip", "noise_payload_roundtrip", "public_key_roundtrip",
            "webrtc_message_roundtrip",
            "kad_request_encoding", "kad_request_roundtrip", "kad_find_node_roundtrip", "kad_put_value_roundtrip",
            "kad_get_record_roundtrip", "kad_find_node_response_roundtrip", "kad_put_value_response_roundtrip",
            "kad_get_value_response_roundtrip", "kad_add_provider_roundtrip", "kad_get_providers_request_roundtrip",
            "kad_get_providers_response_roundtrip",
            "identify_no_panic", "identify_event_bounded", "identify_event_identity", "identify_own_roundtrip",
            "identify_inbound_prefix"]
RULE = ("valid protobuf encodings of every message kind (kademlia, identify, bitswap, noise handshake payload, public key) "
        "built by an independent Python encoder, then mutated (bit flips, truncation at every offset, splices, extreme length "
        "prefixes, overlong/overflowing varints, wrong wire types, unknown fields, groups nested up to and beyond the recursion "
        "limit, invalid UTF-8) plus random noise; each real decoder runs under catch_unwind with a counting allocator and is "
        "compared field by field with the Lean model; structured random messages of every schema (extreme i32 values, empty and "
        "default-valued nested messages, long repeated fields, non-ASCII strings; a few that are not values of the Rust types) "
        "are encoded by prost and by the model's generated encoder and compared byte for byte, then decoded and compared with "
        "the value (oracle); the library's own Kademlia encoders are compared byte for byte with the model's and "
        "round-tripped through from_bytes. The identify protocol OBJECT (src/protocol/libp2p/identify.rs, real run() loop on a "
        "paused clock, real Substream over an in-memory pipe): idout = answers on our outbound substream (valid messages over "
        "an address pool with trailing /p2p of the remote, of us, of a third peer, relayed, leading /p2p, empty and invalid "
        "addresses; payloads of 4095/4096/4097/8192 bytes; mutated payloads and frames; extreme, over-long and non-minimal "
        "length prefixes) delivered in 1-4 chunks with pauses that stay below / reach / exceed the 10 s timeout, closed or reset "
        "anywhere, one valid answer cut at every offset; idin = our own message for random configurations (0-200 protocols, "
        "so that it exceeds the frame limit; listen/public address sets; peer connected or not) through carriers holding "
        "0/1/5/100/2^20 unread bytes with reads and pauses (send timeout); idrt = our message fed, cut at a random offset, to "
        "a second node's outbound handler. Non-trivial = input decodes successfully at the protobuf level with at least one "
        "field, or is rejected after at least one field was read, or an encoder produced bytes; distinct by SHA-256 of "
        "(op, observation)")
TRUSTED_BASE = ["Lean 4.33 kernel", "axioms: propext, Classical.choice, Quot.sound only",
                "tools/proto2lean.py: the translator from /repo's .proto files (list read from build.rs) to the Lean "
                "structures, decoders, encoders and their generated proofs; it transcribes prost's rules (prost 0.13.5, "
                "prost-derive 0.13.5, prost-build 0.14.4; each rule cited file:line in the module doc). prost's runtime and "
                "code generator are NOT verified: the transcription is tied to the real prost by this differential run "
                "(decoders field by field, encoders byte for byte)",
                "hand-written wire primitives Model/Wire/Protobuf.lean (varint, key, skip_field, UTF-8) and models of "
                "KademliaMessage::from_bytes / KademliaPeer::try_from / record_from_schema and of the nine KademliaMessage "
                "encoders (Model/Wire/KadMessage.lean, KadEncoders.lean), tied by this differential run",
                "adapters /repo/src/verif/c19*.rs, harness counting allocator, verif.py, checks/c19.py",
                "hand-written model of identify's handlers Model/Wire/IdentifyProto.lean (on top of the C04 frame-reader model "
                "and the generated Identify schema), tied by this differential run; the in-memory pipe of src/verif/io.rs and "
                "tokio's paused clock stand for the transport and for time (whole seconds)",
                "third-party parsers are parameters of the model and only sampled for panic/allocation: multiaddr, cid, "
                "ed25519-dalek point decompression"]
ASSUMPTIONS = ["frames handed to these decoders were already bounded by the substream codec (C04) / noise frame size (C02); for "
               "identify the frame reader itself is part of the model (identify_event_bounded starts from raw substream bytes)",
               "identify: what `Multiaddr::try_from` and the trailing component say about an address is a parameter (`info`); the "
               "order of the listen addresses in our own message is the HashSet's (compared as a set); the peer of an identify "
               "event is the peer the connection was authenticated for (C01) — identify.rs does not look at the message's "
               "publicKey field, and the model says so",
               "allocation is measured as the peak of live heap bytes during the call (harness global allocator)",
               "round-trip theorems quantify over well-formed values (X.WF, decidable): what the Rust types guarantee — i32/u32 "
               "ranges, UTF-8 strings, lengths and nested encodings below 2^64; `encoded_len` is modelled as the length of the "
               "encoding; the order in which a peer's address store yields several addresses and the TTL computed from the "
               "clock are inputs of the Kademlia encoder models"]
MANIFEST = {
    "text": "Lean 4 theorems about a model of the protobuf codecs litep2p feeds with remote bytes, whose schemas (structures, "
            "merge_field, encode_raw) are regenerated from the crate's .proto files on every run: total functions (no panic "
            "value exists), allocation bounded by the input length for every schema (kad/identify/bitswap/noise/key_alloc_bound), "
            "number of peers taken from a message bounded by the replication factor, decode(encode m) = m for every well-formed "
            "value of every translated message (kad/identify/bitswap/noise_payload/public_key/webrtc_message_roundtrip), and "
            "from_bytes-level round trips of the nine hand-written Kademlia encoders; for the identify protocol object (frame "
            "reader + timeout + decoder + address filters + event): identify_no_panic (no bytes, fragmentation or timing make "
            "the handler panic), identify_event_bounded (everything an IdentifyEvent holds on to is at most IDENTIFY_PAYLOAD_SIZE "
            "bytes), identify_event_identity (peer = the connection's peer, reported listen addresses never name another peer, "
            "the observed address never names anybody but us), identify_own_roundtrip (our own message, in any two-piece "
            "fragmentation, yields exactly our configuration at the remote handler) and identify_inbound_prefix (a message above "
            "the limit never reaches the wire); tied to prost and to KademliaMessage by a "
            "differential mutation fuzz of the decoders under catch_unwind with a counting allocator and a byte-for-byte "
            "comparison of the encoders. Partial: the internals of prost/multiaddr/cid are compared and sampled, not proved; "
            "other decoders of the property (multistream, frame lengths, peer ids, bitswap prefixes) are covered by "
            "C03/C04/C18/C20 models.",
    "note": "Trusted: Lean kernel, the three standard axioms, the .proto→Lean translator (prost's rules transcribed, not "
            "prost itself), the hand-written wire primitives and their sampled tie, the counting allocator. Third-party "
            "parsers are parameters.",
    "technique": "Lean 4 proof (totality, size invariants by induction on the input, generic per-field round-trip lemmas "
                 "instantiated by generated proofs) + differential mutation fuzzing of real decoders and encoders against the model",
    "design_ref": "DESIGN.md §7 C19",
}
_IDF = "src/protocol/libp2p/identify.rs"
CONST_TABLE = [
    ("IDENTIFY_PAYLOAD_SIZE", _IDF, r"const IDENTIFY_PAYLOAD_SIZE: usize = ([^;]+);", 4096),
    ("IDENTIFY_READ_TIMEOUT_SECS", _IDF, r"tokio::time::timeout\(Duration::from_secs\((\d+)\), substream\.next\(\)\)", 10),
    ("IDENTIFY_SEND_TIMEOUT_SECS", _IDF, r"tokio::time::timeout\(Duration::from_secs\((\d+)\), substream\.send_framed", 10),
    ("IDENTIFY_DEFAULT_AGENT", _IDF, r'const DEFAULT_AGENT: &str = "([^"]*)";', b"litep2p/1.0.0", "bytes"),
]
KEEP_PREFIX = 0
ALLOC_FACTOR = 160
ALLOC_CONST = 1 << 18


# ---------------------------------------------------------------- independent protobuf encoder
def uv(n):
    out = bytearray()
    while True:
        b = n & 0x7F
        n >>= 7
        if n:
            out.append(b | 0x80)
        else:
            out.append(b)
            return bytes(out)


def key(tag, wt):
    return uv(tag << 3 | wt)


def f_bytes(tag, b):
    return key(tag, 2) + uv(len(b)) + b


def f_var(tag, n):
    return key(tag, 0) + uv(n & (2 ** 64 - 1))


ADDRS = [bytes.fromhex("047f00000106 1f90".replace(" ", "")), bytes.fromhex("040a000001060001"),
         bytes.fromhex("29" + "00" * 15 + "01" + "060002"), bytes.fromhex("3603612e62060050"),
         b"", bytes.fromhex("ffff"), bytes.fromhex("047f"), bytes.fromhex("047f0000010600"),
         bytes.fromhex("047f00000106 1f90".replace(" ", "")) + bytes.fromhex("a503") + uv(38) + peer_bytes(7)]


def rand_bytes(rng, n):
    return bytes(rng.randrange(256) for _ in range(n))


def peer_id_bytes(rng):
    r = rng.random()
    if r < 0.6:
        return peer_bytes(rng.randrange(1, 50))
    if r < 0.75:
        return bytes([0x12, 0x20]) + rand_bytes(rng, 32)
    if r < 0.8:
        return bytes([0x12, rng.randrange(0, 65)]) + rand_bytes(rng, rng.randrange(0, 66))
    if r < 0.85:
        return bytes([0x00, 43]) + rand_bytes(rng, 43)
    if r < 0.9:
        return bytes([0x92, 0x00, 0x20]) + rand_bytes(rng, 32)
    return rand_bytes(rng, rng.randrange(0, 40))


def kad_peer(rng):
    out = b""
    if rng.random() < 0.95:
        out += f_bytes(1, peer_id_bytes(rng))
    for _ in range(rng.choice([0, 1, 2, 3, 3, 70]) if rng.random() < 0.97 else 0):
        out += f_bytes(2, rng.choice(ADDRS) if rng.random() < 0.8 else rand_bytes(rng, rng.randrange(0, 12)))
    if rng.random() < 0.8:
        out += f_var(3, rng.choice([0, 1, 2, 3, 4, 2 ** 31, 2 ** 32 + 1, 2 ** 64 - 1]))
    return out


def kad_record(rng):
    out = b""
    if rng.random() < 0.9:
        out += f_bytes(1, rand_bytes(rng, rng.randrange(0, 6)))
    if rng.random() < 0.9:
        out += f_bytes(2, rand_bytes(rng, rng.randrange(0, 20)))
    if rng.random() < 0.3:
        out += f_bytes(5, rng.choice([b"2024", "é→😀".encode(), b"\xff\xfe", b"\xed\xa0\x80", b"\xc0\x80", b""]))
    if rng.random() < 0.5:
        out += f_bytes(666, peer_id_bytes(rng) if rng.random() < 0.8 else b"")
    if rng.random() < 0.5:
        out += f_var(777, rng.choice([0, 1, 3600, 2 ** 32 - 1, 2 ** 32, 2 ** 40 + 5]))
    return out


def kad_message(rng):
    parts = []
    if rng.random() < 0.95:
        parts.append(f_var(1, rng.choice([0, 1, 2, 3, 4, 4, 5, 6, 2 ** 31, 2 ** 64 - 1])))
    if rng.random() < 0.7:
        parts.append(f_var(10, rng.choice([10, 0, 2 ** 64 - 1])))
    if rng.random() < 0.8:
        parts.append(f_bytes(2, rand_bytes(rng, rng.randrange(0, 8))))
    for _ in range(rng.choice([0, 1, 1, 2])):
        parts.append(f_bytes(3, kad_record(rng)))
    for _ in range(rng.choice([0, 1, 2, 5, 25])):
        parts.append(f_bytes(8, kad_peer(rng)))
    for _ in range(rng.choice([0, 0, 1, 3, 22])):
        parts.append(f_bytes(9, kad_peer(rng)))
    if rng.random() < 0.3:
        rng.shuffle(parts)
    return b"".join(parts)


def identify_message(rng):
    parts = []
    strs = [b"/ipfs/id/1.0.0", b"litep2p/1.0.0", "ü".encode(), b"\xff", b""]
    if rng.random() < 0.7:
        parts.append(f_bytes(5, rng.choice(strs)))
    if rng.random() < 0.7:
        parts.append(f_bytes(6, rng.choice(strs)))
    if rng.random() < 0.7:
        parts.append(f_bytes(1, rand_bytes(rng, rng.randrange(0, 40))))
    for _ in range(rng.choice([0, 1, 3, 40])):
        parts.append(f_bytes(2, rng.choice(ADDRS)))
    if rng.random() < 0.6:
        parts.append(f_bytes(4, rng.choice(ADDRS)))
    for _ in range(rng.choice([0, 1, 3, 30])):
        parts.append(f_bytes(3, rng.choice(strs)))
    if rng.random() < 0.3:
        rng.shuffle(parts)
    return b"".join(parts)


def bitswap_message(rng):
    parts = []
    for _ in range(rng.choice([0, 1, 1, 2])):
        wl = b""
        for _ in range(rng.choice([0, 1, 3, 30])):
            e = f_bytes(1, rand_bytes(rng, rng.randrange(0, 40)))
            if rng.random() < 0.6:
                e += f_var(2, rng.choice([1, 0, 2 ** 31, 2 ** 64 - 1]))
            if rng.random() < 0.4:
                e += f_var(3, rng.choice([0, 1, 2, 256]))
            if rng.random() < 0.6:
                e += f_var(4, rng.choice([0, 1, 2, 2 ** 32]))
            if rng.random() < 0.4:
                e += f_var(5, rng.choice([0, 1, 7]))
            wl += f_bytes(1, e)
        if rng.random() < 0.5:
            wl += f_var(2, rng.choice([0, 1]))
        parts.append(f_bytes(1, wl))
    for _ in range(rng.choice([0, 0, 2])):
        parts.append(f_bytes(2, rand_bytes(rng, rng.randrange(0, 10))))
    for _ in range(rng.choice([0, 1, 3])):
        parts.append(f_bytes(3, f_bytes(1, rand_bytes(rng, rng.randrange(0, 6))) + f_bytes(2, rand_bytes(rng, rng.randrange(0, 64)))))
    for _ in range(rng.choice([0, 1, 3])):
        parts.append(f_bytes(4, f_bytes(1, rand_bytes(rng, rng.randrange(0, 40))) + f_var(2, rng.choice([0, 1, 2, 2 ** 63]))))
    if rng.random() < 0.4:
        parts.append(f_var(5, rng.choice([0, 5, 2 ** 31 - 1, 2 ** 31])))
    if rng.random() < 0.3:
        rng.shuffle(parts)
    return b"".join(parts)


def noise_message(rng):
    parts = []
    if rng.random() < 0.85:
        parts.append(f_bytes(1, key_message(rng) if rng.random() < 0.8 else rand_bytes(rng, rng.randrange(0, 40))))
    if rng.random() < 0.85:
        parts.append(f_bytes(2, rand_bytes(rng, rng.choice([0, 63, 64, 65]))))
    for _ in range(rng.choice([0, 0, 1, 2])):
        ext = b""
        for _ in range(rng.choice([0, 1, 3])):
            ext += f_bytes(1, rand_bytes(rng, rng.randrange(0, 34)))
        for _ in range(rng.choice([0, 1, 3])):
            ext += f_bytes(2, rng.choice([b"/yamux/1.0.0", b"\xff", b""]))
        parts.append(f_bytes(4, ext))
    return b"".join(parts)


def key_message(rng):
    parts = []
    if rng.random() < 0.9:
        parts.append(f_var(1, rng.choice([1, 1, 1, 0, 2, 3, 4, 2 ** 32 + 1])))
    if rng.random() < 0.9:
        parts.append(f_bytes(2, rng.choice([rand_bytes(rng, 32), rand_bytes(rng, 32), rand_bytes(rng, 31), rand_bytes(rng, 33), b"",
                                            (rng.randrange(2 ** 255)).to_bytes(32, "little")])))
    if rng.random() < 0.2:
        parts.reverse()
    return b"".join(parts)


BUILDERS = {"kad": kad_message, "identify": identify_message, "bitswap": bitswap_message, "noise": noise_message, "key": key_message}


def junk_field(rng):
    r = rng.random()
    tag = rng.choice([7, 11, 15, 100, 2 ** 28, 2 ** 29 - 1])
    if r < 0.2:
        return f_var(tag, rng.randrange(2 ** 64))
    if r < 0.35:
        return key(tag, 5) + rand_bytes(rng, 4)
    if r < 0.5:
        return key(tag, 1) + rand_bytes(rng, 8)
    if r < 0.65:
        return f_bytes(tag, rand_bytes(rng, rng.randrange(0, 9)))
    if r < 0.9:
        depth = rng.choice([1, 2, 3, 50, 98, 99, 100, 101, 150])
        inner = rng.choice([b"", f_var(1, 5), f_bytes(2, b"ab")])
        return key(tag, 3) * depth + inner + key(tag, 4) * depth
    return key(tag, rng.choice([3, 4, 6, 7]))


def mutate(rng, b):
    b = bytearray(b)
    r = rng.random()
    if r < 0.2 and b:
        for _ in range(rng.randrange(1, 4)):
            i = rng.randrange(len(b))
            b[i] ^= 1 << rng.randrange(8)
    elif r < 0.35 and b:
        b = b[:rng.randrange(len(b))]
    elif r < 0.5:
        i = rng.randrange(len(b) + 1)
        b[i:i] = junk_field(rng)
    elif r < 0.6 and b:
        i = rng.randrange(len(b))
        b[i:i + 1] = rng.choice([b"\xff\xff\xff\xff\x0f", b"\xff\xff\xff\xff\xff\xff\xff\xff\xff\x01",
                                 b"\xff\xff\xff\xff\xff\xff\xff\xff\xff\x02", b"\x80\x80\x80\x80\x80\x80\x80\x80\x80\x80\x01",
                                 b"\x80\x00", b"\xff\xff\xff\x7f"])
    elif r < 0.7 and len(b) > 2:
        i, j = sorted((rng.randrange(len(b)), rng.randrange(len(b))))
        b[i:i] = b[i:j]
    elif r < 0.8:
        b += rand_bytes(rng, rng.randrange(1, 6))
    elif r < 0.9 and b:
        i = rng.randrange(len(b))
        b[i] = rng.choice([0x0B, 0x0C, 0x1D, 0x19, 0x0A, 0x08, 0x00])
    return bytes(b)


def hx(b):
    return b.hex() if b else "-"


RT_KINDS = ["findnode", "putvalue", "getrecord", "findnode_resp", "putvalue_resp", "getvalue_resp", "addprovider",
            "getproviders", "getproviders_resp"]


def rt_op(rng):
    k = rng.choice(RT_KINDS)
    kh = lambda: hx(rand_bytes(rng, rng.randrange(1, 6)))
    vh = lambda: hx(rand_bytes(rng, rng.randrange(0, 12)))
    peer = lambda: f"{rng.randrange(1, 30)}:{rng.choice([0, 1, 2, 5])}:{rng.randrange(0, 4)}"
    peers = lambda: ",".join(peer() for _ in range(rng.choice([1, 2, 5, 21]))) if rng.random() < 0.85 else "-"
    rec = lambda: f"{kh()} {vh()} {rng.choice(['-', str(rng.randrange(1, 30))])} {rng.choice([0, 1])}"
    if k in ("findnode", "getrecord", "getproviders"):
        return f"rt {k} {kh()}"
    if k == "putvalue":
        return f"rt {k} {rec()}"
    if k == "findnode_resp":
        return f"rt {k} {kh()} {peers()}"
    if k == "putvalue_resp":
        return f"rt {k} {kh()} {vh()}"
    if k == "getvalue_resp":
        return f"rt {k} {kh()} {peers()}" + (f" {rec()}" if rng.random() < 0.6 else "")
    if k == "addprovider":
        return f"rt {k} {kh()} {peer()}"
    return f"rt {k} {peers()} {peers()}"


# ---------------------------------------------------------------- structured messages for the encoders
I32S = [0, 0, 1, 2, 3, 4, 5, 10, -1, -5, 2 ** 31 - 1, -2 ** 31, 127, 128, 300]
UTF8S = [b"", b"/ipfs/id/1.0.0", b"litep2p/1.0.0", "\u00fc\u2192\U0001f600".encode(), b"a", b"/yamux/1.0.0"]
NOT_UTF8 = [b"\xff", b"\xc0\x80", b"\xed\xa0\x80", b"ab\x80"]


def s_b(b):
    return b.hex() if b else "-"


def s_ob(o):
    return "none" if o is None else s_b(o)


def s_lb(l):
    return "+".join(s_b(x) for x in l) if l else "*"


def d_lb(l):
    return "[" + ";".join(s_b(x) for x in l) + "]"


def some(rng, p, f):
    return f() if rng.random() < p else None


def g_bytes(rng, hi=8):
    return rand_bytes(rng, rng.randrange(0, hi)) if rng.random() < 0.85 else b""


def g_str(rng, bad):
    if bad and rng.random() < 0.5:
        return rng.choice(NOT_UTF8)
    return rng.choice(UTF8S)


def g_i32(rng, bad):
    if bad and rng.random() < 0.5:
        return rng.choice([2 ** 31, -2 ** 31 - 1, 2 ** 40])
    return rng.choice(I32S)


def enc_kad(rng, bad):
    """(spec, expected dump) of a random schema::kademlia::Message."""
    def peer():
        idb = peer_id_bytes(rng) if rng.random() < 0.8 else b""
        addrs = [rng.choice(ADDRS) for _ in range(rng.choice([0, 1, 2, 3]))]
        conn = rng.choice([0, 1, 2, 3, 3, -1, 7]) if not bad else g_i32(rng, bad)
        return (f"{s_b(idb)}/{'+'.join(s_b(a) for a in addrs)}/{conn}",
                f"{{id={s_b(idb)},addrs={d_lb(addrs)},conn={conn}}}")
    ty, clr, key = g_i32(rng, bad), rng.choice([10, 10, 0, -1, 2 ** 31 - 1]), g_bytes(rng)
    if rng.random() < 0.5:
        k, v, tr, pub = g_bytes(rng), g_bytes(rng, 20), (g_str(rng, bad) if rng.random() < 0.4 else b""), \
            (peer_id_bytes(rng) if rng.random() < 0.5 else b"")
        ttl = rng.choice([0, 1, 3600, 2 ** 32 - 1] + ([2 ** 32] if bad else []))
        rec_s, rec_d = f"{s_b(k)},{s_b(v)},{s_b(tr)},{s_b(pub)},{ttl}", f"{{k={s_b(k)},v={s_b(v)},tr={s_b(tr)},pub={s_b(pub)},ttl={ttl}}}"
    else:
        rec_s, rec_d = "none", "none"
    closer = [peer() for _ in range(rng.choice([0, 1, 2, 3, 22]))]
    prov = [peer() for _ in range(rng.choice([0, 0, 1, 3]))]
    spec = f"{ty} {clr} {s_b(key)} {rec_s} {';'.join(p[0] for p in closer) or '*'} {';'.join(p[0] for p in prov) or '*'}"
    dump = (f"ok type={ty} clr={clr} key={s_b(key)} rec={rec_d} closer=[{','.join(p[1] for p in closer)}] "
            f"prov=[{','.join(p[1] for p in prov)}]")
    return spec, dump


def enc_identify(rng, bad):
    pv, av = some(rng, 0.7, lambda: g_str(rng, bad)), some(rng, 0.7, lambda: g_str(rng, bad))
    pk = some(rng, 0.7, lambda: g_bytes(rng, 40))
    la = [rng.choice(ADDRS) for _ in range(rng.choice([0, 1, 3, 30]))]
    oa = some(rng, 0.6, lambda: rng.choice(ADDRS))
    pr = [g_str(rng, bad) for _ in range(rng.choice([0, 1, 3, 20]))]
    spec = f"{s_ob(pv)} {s_ob(av)} {s_ob(pk)} {s_lb(la)} {s_ob(oa)} {s_lb(pr)}"
    dump = f"ok pv={s_ob(pv)} av={s_ob(av)} pk={s_ob(pk)} la={d_lb(la)} oa={s_ob(oa)} pr={d_lb(pr)}"
    return spec, dump


def enc_bitswap(rng, bad):
    if rng.random() < 0.7:
        es = []
        for _ in range(rng.choice([0, 1, 3, 25])):
            b, p, c, w, d = g_bytes(rng, 40), g_i32(rng, bad), rng.choice([0, 1]), rng.choice([0, 1, 1, 2, -1]), rng.choice([0, 1])
            es.append((f"{s_b(b)}/{p}/{c}/{w}/{d}", f"{{b={s_b(b)},p={p},c={c},w={w},s={d}}}"))
        full = rng.choice([0, 1])
        wl_s, wl_d = f"{full}:{';'.join(e[0] for e in es) or '*'}", f"{{entries=[{','.join(e[1] for e in es)}],full={full}}}"
    else:
        wl_s, wl_d = "none", "none"
    blocks = [g_bytes(rng, 10) for _ in range(rng.choice([0, 0, 2]))]
    payload = [(g_bytes(rng, 6), g_bytes(rng, 64)) for _ in range(rng.choice([0, 1, 3]))]
    pres = [(g_bytes(rng, 40), rng.choice([0, 1, 1, 2, -1])) for _ in range(rng.choice([0, 1, 3]))]
    pend = g_i32(rng, bad)
    spec = (f"{wl_s} {s_lb(blocks)} {';'.join(f'{s_b(p)}/{s_b(d)}' for p, d in payload) or '*'} "
            f"{';'.join(f'{s_b(c)}/{t}' for c, t in pres) or '*'} {pend}")
    dump = (f"ok wl={wl_d} blocks={d_lb(blocks)} payload=[{','.join(f'{{p={s_b(p)},d={s_b(d)}}}' for p, d in payload)}] "
            f"pres=[{','.join(f'{{c={s_b(c)},t={t}}}' for c, t in pres)}] pb={pend}")
    return spec, dump


def enc_noise(rng, bad):
    k = some(rng, 0.85, lambda: g_bytes(rng, 40))
    sg = some(rng, 0.85, lambda: rand_bytes(rng, rng.choice([0, 63, 64, 65])))
    if rng.random() < 0.6:
        ch = [g_bytes(rng, 34) for _ in range(rng.choice([0, 1, 3]))]
        sm = [g_str(rng, bad) for _ in range(rng.choice([0, 1, 3]))]
        ext_s, ext_d = f"{s_lb(ch)},{s_lb(sm)}", f"{{ch={d_lb(ch)},sm={d_lb(sm)}}}"
    else:
        ext_s, ext_d = "none", "none"
    return f"{s_ob(k)} {s_ob(sg)} {ext_s}", f"ok key={s_ob(k)} sig={s_ob(sg)} ext={ext_d}"


def enc_key(rng, bad):
    t, d = g_i32(rng, bad), g_bytes(rng, 40)
    return f"{t} {s_b(d)}", f"ok type={t} data={s_b(d)}"


ENC_BUILDERS = {"kad": enc_kad, "identify": enc_identify, "bitswap": enc_bitswap, "noise": enc_noise, "key": enc_key}


def encpb_op(rng):
    schema = rng.choice(list(ENC_BUILDERS))
    spec, _dump = ENC_BUILDERS[schema](rng, rng.random() < 0.06)
    return f"encpb {schema} {spec}"


class NotAValue(Exception):
    """The spec does not denote a value of the Rust type (integer outside i32/u32, string not UTF-8)."""


def p_b(x):
    return "-" if x == "-" else bytes.fromhex(x).hex()


def p_str(x):
    if x != "-":
        try:
            bytes.fromhex(x).decode("utf-8")
        except UnicodeDecodeError:
            raise NotAValue(x)
    return p_b(x)


def p_i32(x):
    if not -2 ** 31 <= int(x) < 2 ** 31:
        raise NotAValue(x)
    return str(int(x))


def p_list(x, item, sep="+"):
    return [] if x in ("*", "") else [item(y) for y in x.split(sep)]


def p_opt(x, item):
    return "none" if x == "none" else item(x)


def expected_encpb(op):
    """The dump the encoding must decode to, computed from the op alone (None: not a value of the Rust type)."""
    t = op.split()
    schema, a = t[1], t[2:]
    try:
        if schema == "kad":
            def peer(x):
                i, addrs, c = x.split("/")
                return f"{{id={p_b(i)},addrs=[{';'.join(p_list(addrs, p_b))}],conn={p_i32(c)}}}"
            rec = "none"
            if a[3] != "none":
                k, v, tr, pub, ttl = a[3].split(",")
                if not 0 <= int(ttl) < 2 ** 32:
                    raise NotAValue(ttl)
                rec = f"{{k={p_b(k)},v={p_b(v)},tr={p_str(tr)},pub={p_b(pub)},ttl={int(ttl)}}}"
            return (f"ok type={p_i32(a[0])} clr={p_i32(a[1])} key={p_b(a[2])} rec={rec} "
                    f"closer=[{','.join(p_list(a[4], peer, ';'))}] prov=[{','.join(p_list(a[5], peer, ';'))}]")
        if schema == "identify":
            return (f"ok pv={p_opt(a[0], p_str)} av={p_opt(a[1], p_str)} pk={p_opt(a[2], p_b)} la=[{';'.join(p_list(a[3], p_b))}] "
                    f"oa={p_opt(a[4], p_b)} pr=[{';'.join(p_list(a[5], p_str))}]")
        if schema == "bitswap":
            def entry(x):
                b, p, c, w, d = x.split("/")
                return f"{{b={p_b(b)},p={p_i32(p)},c={int(c)},w={p_i32(w)},s={int(d)}}}"
            wl = "none"
            if a[0] != "none":
                full, es = a[0].split(":")
                wl = f"{{entries=[{','.join(p_list(es, entry, ';'))}],full={int(full)}}}"
            block = lambda x: "{p=%s,d=%s}" % tuple(p_b(y) for y in x.split("/"))
            pres = lambda x: "{c=%s,t=%s}" % (p_b(x.split("/")[0]), p_i32(x.split("/")[1]))
            return (f"ok wl={wl} blocks=[{';'.join(p_list(a[1], p_b))}] payload=[{','.join(p_list(a[2], block, ';'))}] "
                    f"pres=[{','.join(p_list(a[3], pres, ';'))}] pb={p_i32(a[4])}")
        if schema == "noise":
            ext = "none"
            if a[2] != "none":
                ch, sm = a[2].split(",")
                ext = f"{{ch=[{';'.join(p_list(ch, p_b))}],sm=[{';'.join(p_list(sm, p_str))}]}}"
            return f"ok key={p_opt(a[0], p_b)} sig={p_opt(a[1], p_b)} ext={ext}"
        if schema == "key":
            return f"ok type={p_i32(a[0])} data={p_b(a[1])}"
    except (NotAValue, ValueError, IndexError):
        return None
    return None


def kenc_op(rng):
    """The hand-written Kademlia encoders with deterministic inputs: expiry 0 (none) / 2 (past ⇒ ttl 1) / 3 (far ⇒
    u32::MAX); providers with at most one address (a `ContentProvider` rebuilds the address map)."""
    k = rng.choice(RT_KINDS)
    kh = lambda: hx(rand_bytes(rng, rng.randrange(1, 6)))
    vh = lambda: hx(rand_bytes(rng, rng.randrange(0, 12)))
    peer = lambda maxa=5: f"{rng.randrange(1, 30)}:{rng.choice([a for a in [0, 1, 2, 5] if a <= maxa])}:{rng.randrange(0, 4)}"
    peers = lambda maxa=5: ",".join(peer(maxa) for _ in range(rng.choice([1, 2, 5, 21]))) if rng.random() < 0.85 else "-"
    rec = lambda: f"{kh()} {vh()} {rng.choice(['-', str(rng.randrange(1, 30))])} {rng.choice([0, 2, 3])}"
    if k in ("findnode", "getrecord", "getproviders"):
        return f"enc {k} {kh()}"
    if k == "putvalue":
        return f"enc {k} {rec()}"
    if k == "findnode_resp":
        return f"enc {k} {kh()} {peers()}"
    if k == "putvalue_resp":
        return f"enc {k} {kh()} {vh()}"
    if k == "getvalue_resp":
        return f"enc {k} {kh()} {peers()}" + (f" {rec()}" if rng.random() < 0.6 else "")
    if k == "addprovider":
        return f"enc {k} {kh()} {peer(1)}"
    return f"enc {k} {peers(1)} {peers()}"


# ---------------------------------------------------------------- the identify protocol object (idout / idin / idrt)
LOCAL_IDS = {1: bytes.fromhex("0024080112208a88e3dd7409f195fd52db2d3cba5d72ca6709bf1d94121bf3748801b40f6f5c"),
             2: bytes.fromhex("0024080112208139770ea87d175f56a35466c34c7ecccb8d8a91b4ee37a25df60f5b8fc9b394"),
             3: bytes.fromhex("002408011220ed4928c628d1c2c6eae90338905995612959273a5c63f93636c14614ac8737d1"),
             4: bytes.fromhex("002408011220ca93ac1705187071d67b83c7ff0efe8108e8ec4530575d7726879333dbdabe7c")}
IDENTIFY_MAX = 4096
IDENTIFY_TIMEOUT = 10
DEFAULT_AGENT = b"litep2p/1.0.0"
BASES = [bytes.fromhex("047f000001061f90"), bytes.fromhex("040a000001060001"), bytes.fromhex("29" + "00" * 15 + "01" + "060002"),
         bytes.fromhex("3603612e62060050"), bytes.fromhex("047f00000191021f90cc03")]


def p2p(idb):
    return uv(421) + uv(len(idb)) + idb


def addr_class(a, ids):
    """Classification of an address built by `id_addr`: x invalid, e empty, n no trailing /p2p, or the peer id bytes.
    None: not one of ours."""
    if a == b"":
        return "e"
    if a in (bytes.fromhex("ffff"), bytes.fromhex("047f"), bytes.fromhex("047f0000010600")):
        return "x"
    for base in BASES:
        if a == base:
            return "n"
        for idb in ids:
            if a == base + p2p(idb):
                return idb
            if a == base + p2p(idb) + uv(290) + p2p(ids[0]):      # relayed: /p2p/<relay>/p2p-circuit/p2p/<first id>
                return ids[0]
            if a == p2p(idb) + base:
                return "n"
    return None


def id_addr(rng, ids, valid_only=False):
    """An address: plain, with a trailing /p2p of one of `ids`, relayed, with a leading /p2p, empty, invalid."""
    base = rng.choice(BASES)
    r = rng.random()
    if r < 0.3:
        return base
    if r < 0.7:
        return base + p2p(rng.choice(ids))
    if r < 0.78:
        return base + p2p(rng.choice(ids)) + uv(290) + p2p(ids[0])
    if r < 0.85:
        return p2p(rng.choice(ids)) + base
    if valid_only:
        return base
    return rng.choice([b"", bytes.fromhex("ffff"), bytes.fromhex("047f"), bytes.fromhex("047f0000010600")])


def id_message(rng, ids, big=None):
    """(payload, fields) of an identify message; `big`: pad the agent string so that the payload has that length."""
    strs = [b"/ipfs/id/1.0.0", b"/ipfs/kad/1.0.0", b"litep2p/1.0.0", "ü".encode(), b"", b"/a"]
    f = {"pv": None, "av": None, "pk": None, "la": [], "oa": None, "pr": []}
    if rng.random() < 0.8:
        f["pv"] = rng.choice(strs)
    if rng.random() < 0.8:
        f["av"] = rng.choice(strs)
    if rng.random() < 0.7:
        f["pk"] = rng.choice(ids)[2:] if rng.random() < 0.7 else rand_bytes(rng, rng.randrange(0, 40))
    f["la"] = [id_addr(rng, ids) for _ in range(rng.choice([0, 1, 2, 4, 12]))]
    if rng.random() < 0.75:
        f["oa"] = id_addr(rng, ids)
    f["pr"] = [rng.choice(strs) for _ in range(rng.choice([0, 1, 3, 8]))]

    def enc():
        out = b""
        if f["pk"] is not None:
            out += f_bytes(1, f["pk"])
        out += b"".join(f_bytes(2, a) for a in f["la"])
        out += b"".join(f_bytes(3, a) for a in f["pr"])
        if f["oa"] is not None:
            out += f_bytes(4, f["oa"])
        if f["pv"] is not None:
            out += f_bytes(5, f["pv"])
        if f["av"] is not None:
            out += f_bytes(6, f["av"])
        return out
    if big is not None:
        f["av"] = b""
        n = big - len(enc())
        # the length prefix of the agent string grows with it
        for pad in range(max(0, n - 3), n + 1):
            f["av"] = b"a" * pad
            if len(enc()) == big:
                break
    return enc(), f


def chunked(rng, b, waits=True):
    """Script that delivers `b` in pieces, with pauses."""
    cuts = sorted(rng.randrange(len(b) + 1) for _ in range(rng.choice([0, 0, 1, 2, 3]))) if b else []
    steps, last = [], 0
    budget = rng.choice([0, 0, 4, 9, 9, 10, 11, 25]) if waits else 0
    for c in cuts + [len(b)]:
        steps.append("w:" + hx(b[last:c]))
        last = c
        if budget and rng.random() < 0.6:
            t = rng.randrange(1, budget + 1)
            budget -= t
            steps.append(f"t:{t}")
    return steps


def idout_op(rng):
    i, j = rng.randrange(1, 30), rng.choice([1, 2, 3])
    ids = [peer_bytes(i), LOCAL_IDS[j], peer_bytes(i + 1)]
    r = rng.random()
    big = rng.choice([IDENTIFY_MAX - 1, IDENTIFY_MAX, IDENTIFY_MAX + 1, 2 * IDENTIFY_MAX]) if r < 0.12 else None
    payload, _ = id_message(rng, ids, big)
    if 0.12 <= r < 0.3:
        for _ in range(rng.choice([1, 1, 2])):
            payload = mutate(rng, payload)
    frame = uv(len(payload)) + payload
    if 0.3 <= r < 0.42:
        frame = mutate(rng, frame)
    elif 0.42 <= r < 0.47:
        frame = rng.choice([b"\xff" * 10, b"\x80" * 9 + b"\x01", b"\x80\x00", uv(2 ** 63) + b"xx", uv(IDENTIFY_MAX + 1) + payload,
                            uv(len(payload) + 5) + payload, b"\x00" + payload])
    steps = chunked(rng, frame)
    tail = rng.random()
    if tail < 0.35:
        steps.append("c")
    elif tail < 0.45:
        steps.insert(rng.randrange(len(steps) + 1), rng.choice(["c", "r"]))
    elif tail < 0.55:
        steps += ["t:9", "t:1"]
    return f"idout local={j} peer={i} " + " ".join(steps)


def id_config(rng, a_id, b_id, small_set=False):
    """Arguments describing a local node (key number 1..3) answering peer `b`."""
    ids = [a_id, b_id, peer_bytes(40)]
    strs = [b"/ipfs/id/1.0.0", b"/ipfs/kad/1.0.0", b"/a", "ü→".encode(), b"litep2p/9"]
    pv = rng.choice(strs + [b""])
    agent = rng.choice(strs + [None, None, b""])
    nprot = rng.choice([0, 1, 3, 3, 10, 40, 200, 400])
    protos = [rng.choice(strs) + (b"/%d" % k if rng.random() < 0.7 else b"") for k in range(nprot)]
    nl = rng.choice([0, 1] if small_set else [0, 1, 2, 4, 9])
    listen = [id_addr(rng, ids, True) for _ in range(nl)]
    public = [] if small_set else [id_addr(rng, ids, True) for _ in range(rng.choice([0, 0, 1, 3]))]
    if small_set and listen:
        public = [listen[0]] * rng.choice([0, 1])
    conn = rng.choice([0, 1, 1, 1, 2])
    ep = id_addr(rng, ids, True)
    return (f"conn={conn} ep={hx(ep)} pv={hx(pv)} agent={'none' if agent is None else hx(agent)} "
            f"protos={s_lb(protos)} listen={s_lb(listen)} public={s_lb(public)}")


def idin_op(rng):
    j, i = rng.choice([1, 2, 3]), rng.randrange(1, 30)
    cap = rng.choice([0, 1, 5, 100, 1 << 20, 1 << 20])
    cfg = id_config(rng, LOCAL_IDS[j], peer_bytes(i), small_set=cap < (1 << 20))
    steps = []
    if cap < (1 << 20):
        budget = rng.choice([4, 9, 10, 12])
        for _ in range(rng.choice([1, 2, 4])):
            if rng.random() < 0.5:
                steps.append(f"rd:{rng.choice([1, 3, 50, 5000])}")
            elif budget:
                t = rng.randrange(1, budget + 1)
                budget -= t
                steps.append(f"t:{t}")
    return f"idin local={j} peer={i} {cfg} cap={cap} " + " ".join(steps)


def idrt_op(rng):
    j, b = rng.sample([1, 2, 3, 4], 2)
    cfg = id_config(rng, LOCAL_IDS[j], LOCAL_IDS[b])
    return f"idrt local={j} peer={b} {cfg} split={rng.choice([0, 1, 2, 3, 50, 100000])}"


def gen_identify_case(rng, n):
    return [rng.choice([idout_op, idout_op, idout_op, idin_op, idrt_op])(rng) for _ in range(n)]


def identify_truncations(rng):
    """One valid answer cut at every offset, closed / left open / timed out afterwards."""
    i, j = 5, 2
    ids = [peer_bytes(i), LOCAL_IDS[j], peer_bytes(i + 1)]
    payload, _ = id_message(rng, ids)
    frame = (uv(len(payload)) + payload)[:300]
    ops = []
    for k in range(len(frame) + 1):
        ops.append(f"idout local={j} peer={i} w:{hx(frame[:k])} " + rng.choice(["c", "", "t:10", "r"]))
    return ops


def parse_frame(b):
    """(payload, rest) of one unsigned-varint frame, or None."""
    n, shift = 0, 0
    for k, x in enumerate(b[:10]):
        n |= (x & 0x7F) << shift
        shift += 7
        if x < 0x80:
            if (x == 0 and k > 0) or len(b) - k - 1 < n:      # non-minimal prefix / incomplete
                return None
            return b[k + 1:k + 1 + n], b[k + 1 + n:]
    return None


def parse_fields(b):
    """[(tag, bytes)] of a message made of length-delimited fields only, or None."""
    out, k = [], 0
    while k < len(b):
        key, shift = 0, 0
        while True:
            if k >= len(b) or shift > 63:
                return None
            x = b[k]
            k += 1
            key |= (x & 0x7F) << shift
            shift += 7
            if x < 0x80:
                break
        if key & 7 != 2:
            return None
        ln, shift = 0, 0
        while True:
            if k >= len(b) or shift > 63:
                return None
            x = b[k]
            k += 1
            ln |= (x & 0x7F) << shift
            shift += 7
            if x < 0x80:
                break
        if k + ln > len(b):
            return None
        out.append((key >> 3, b[k:k + ln]))
        k += ln
    return out


def strict_identify(payload):
    """Fields of a canonical identify message (known tags in prost's order, valid UTF-8), or None."""
    fs = parse_fields(payload)
    if fs is None or [t for t, _ in fs] != sorted(t for t, _ in fs) or any(t not in (1, 2, 3, 4, 5, 6) for t, _ in fs):
        return None
    for t in (1, 4, 5, 6):
        if sum(1 for x, _ in fs if x == t) > 1:
            return None
    try:
        for t, v in fs:
            if t in (3, 5, 6):
                v.decode("utf-8")
    except UnicodeDecodeError:
        return None
    one = lambda t: next((v for x, v in fs if x == t), None)
    return {"pk": one(1), "la": [v for x, v in fs if x == 2], "pr": [v for x, v in fs if x == 3], "oa": one(4), "pv": one(5),
            "av": one(6)}


def canon_sent(h):
    """`sent <hex>`: the listen addresses (a HashSet on the sender's side) in sorted order."""
    if h == "-":
        return h
    try:
        b = bytes.fromhex(h)
    except ValueError:
        return h
    fr = parse_frame(b)
    if fr is None or fr[1]:
        return h
    fs = parse_fields(fr[0])
    if fs is None:
        return h
    las = sorted(v for t, v in fs if t == 2)
    out, done = b"", False
    for t, v in fs:
        if t == 2:
            if not done:
                out += b"".join(f_bytes(2, a) for a in las)
                done = True
        else:
            out += f_bytes(t, v)
    return (uv(len(out)) + out).hex()


def kvs(t):
    return dict(x.split("=", 1) for x in t if "=" in x)


def un_b(x):
    return b"" if x == "-" else bytes.fromhex(x)


def un_lb(x):
    return [] if x in ("*", "") else [un_b(y) for y in x.split("+")]


def parse_event(body):
    """Fields of an `event …` observation."""
    d = kvs(body.split())
    lst = lambda x: [] if x == "[]" else [un_b(y) for y in x[1:-1].split(";")]
    opt = lambda x: None if x == "none" else un_b(x)
    return {"peer": d["peer"], "pv": opt(d["pv"]), "av": opt(d["av"]), "pr": lst(d["pr"]), "oa": un_b(d["oa"]), "la": lst(d["la"])}


def keep_addr(a, ids, owner):
    """identify's rule for one address (None: address not classifiable here)."""
    c = addr_class(a, ids)
    if c is None:
        return None
    return c == "n" or c == owner


def idout_expect(t):
    """The event a well-formed answer must produce, from the op alone; None when this oracle has no opinion
    (malformed bytes, timeouts, early close)."""
    a = kvs(t)
    i, j = int(a["peer"]), int(a["local"])
    ids = [peer_bytes(i), LOCAL_IDS[j], peer_bytes(i + 1)]
    data, waited = b"", 0
    for s in (x for x in t[1:] if "=" not in x):
        if s in ("c", "r"):
            break
        k, v = s.split(":")
        if k == "t":
            waited += int(v)
            if waited >= IDENTIFY_TIMEOUT - 1:
                return None
        else:
            data += un_b(v)
            if re.match(rb"[\x80-\xff]*\x00", data) and data[0] >= 0x80:
                return None                       # non-minimal length prefix
            fr = parse_frame(data)
            if fr is not None:
                if len(fr[0]) > IDENTIFY_MAX:
                    return None
                m = strict_identify(fr[0])
                if m is None:
                    return None
                la = [x for x in m["la"] if keep_addr(x, ids, ids[0])]
                if any(keep_addr(x, ids, ids[0]) is None for x in m["la"]):
                    return None
                oa = b""
                if m["oa"] is not None:
                    k = keep_addr(m["oa"], ids, ids[1])
                    if k is None:
                        return None
                    oa = m["oa"] if k else b""
                return {"peer": "remote", "pv": m["pv"], "av": m["av"], "pr": sorted(set(m["pr"])), "oa": oa, "la": la}
    return None


def own_expect(a, j, remote_id):
    """(fields of the identify message node `j` must send, its encoded length)."""
    cfg_la = sorted(set(un_lb(a["listen"]) + un_lb(a["public"])))
    m = {"pk": LOCAL_IDS[j][2:], "la": cfg_la, "pr": un_lb(a["protos"]),
         "oa": un_b(a["ep"]) if a.get("conn", "1") == "1" else None, "pv": un_b(a["pv"]),
         "av": DEFAULT_AGENT if a["agent"] == "none" else un_b(a["agent"])}
    ln = len(f_bytes(1, m["pk"])) + sum(len(f_bytes(2, x)) for x in m["la"]) + sum(len(f_bytes(3, x)) for x in m["pr"]) + \
        (len(f_bytes(4, m["oa"])) if m["oa"] is not None else 0) + len(f_bytes(5, m["pv"])) + len(f_bytes(6, m["av"]))
    return m, ln


def identify_oracle(i, op, t, body, alloc, bad):
    def v(kind, msg):
        bad.append({"kind": kind, "msg": msg, "step": i, "op": op[:400], "out": body[:400]})
    a = kvs(t)
    notes = dict(re.findall(r" (#\w+) ([0-9a-f]*)", body))
    j = int(a["local"])
    if t[0] in ("idout", "idin") and notes.get("#local") != LOCAL_IDS[j].hex():
        v("harness-drift", f"local peer id of key {j} is {notes.get('#local')}, the generator assumes {LOCAL_IDS[j].hex()}")
        return
    main = re.sub(r" #\w+( [^# ]*)?", "", body).strip()
    if t[0] == "idout":
        n = sum(len(un_b(s[2:])) for s in t if s.startswith("w:"))
        if alloc is not None and alloc > ALLOC_FACTOR * n + ALLOC_CONST:
            v("over-allocation", f"{n} bytes on the identify substream made the node allocate {alloc} bytes")
        ids = [peer_bytes(int(a["peer"])), LOCAL_IDS[j], peer_bytes(int(a["peer"]) + 1)]
        if main.startswith("event"):
            e = parse_event(main)
            size = len(e["pv"] or b"") + len(e["av"] or b"") + sum(len(x) for x in e["pr"]) + len(e["oa"]) + sum(len(x) for x in e["la"])
            if size > IDENTIFY_MAX:
                v("event-unbounded", f"the event holds {size} bytes, more than the {IDENTIFY_MAX}-byte frame limit")
            if e["peer"] != "remote":
                v("identity", f"the identified peer {e['peer']} is not the peer of the connection")
            for x in e["la"]:
                c = addr_class(x, ids)
                if c in ("x", "e") or (isinstance(c, bytes) and c != ids[0]):
                    v("identity", f"listen address {x.hex()} (class {c if isinstance(c, str) else c.hex()}) was reported for peer {ids[0].hex()}")
            c = addr_class(e["oa"], ids) if e["oa"] else "n"
            if c == "x" or (isinstance(c, bytes) and c != ids[1]):
                v("identity", f"observed address {e['oa'].hex()} names another peer than the local one")
        want = idout_expect(t)
        if want is not None:
            if not main.startswith("event"):
                v("valid-answer-dropped", f"a well-formed identify answer delivered in time produced {main[:60]}")
            elif parse_event(main) != want:
                v("event-mismatch", f"event {parse_event(main)} differs from the message sent {want}")
    elif t[0] == "idin":
        m, ln = own_expect(a, j, None)
        sent = un_b(main.split()[1]) if len(main.split()) > 1 else b""
        steps = [s for s in t[1:] if "=" not in s]
        if ln > IDENTIFY_MAX:
            if sent:
                v("oversize-sent", f"an identify message of {ln} bytes (limit {IDENTIFY_MAX}) was put on the wire")
        elif int(a.get("cap", 1 << 20)) >= (1 << 20) and not steps:
            fr = parse_frame(sent)
            got = strict_identify(fr[0]) if fr and not fr[1] else None
            if got is None:
                v("encoder-roundtrip", f"own identify message is not one well-formed frame: {sent[:40].hex()}")
            else:
                got["la"] = sorted(got["la"])
                if got != m:
                    v("encoder-roundtrip", f"own identify message decodes to {got}, configured {m}")
    elif t[0] == "idrt":
        b = int(a["peer"])
        m, ln = own_expect(a, j, LOCAL_IDS[b])
        ev = main.split(" ==> ", 1)[1] if " ==> " in main else main
        if ln > IDENTIFY_MAX:
            if ev.startswith("event"):
                v("oversize-sent", f"an identify message of {ln} bytes (limit {IDENTIFY_MAX}) was delivered")
            return
        if not ev.startswith("event"):
            v("encoder-roundtrip", f"own identify message was not understood by the remote handler: {ev[:60]}")
            return
        e = parse_event(ev)
        ids = [LOCAL_IDS[j], LOCAL_IDS[b], peer_bytes(40)]
        la = sorted(x for x in m["la"] if keep_addr(x, ids, ids[0]))
        oa = m["oa"] if m["oa"] is not None and keep_addr(m["oa"], ids, ids[1]) else b""
        want = {"peer": "remote", "pv": m["pv"], "av": m["av"], "pr": sorted(set(m["pr"])), "oa": oa, "la": la}
        e["la"] = sorted(e["la"])
        if e != want:
            v("encoder-roundtrip", f"own identify message arrives as {e}, configured {want}")



def gen_enc_case(rng, n):
    return [encpb_op(rng) if rng.random() < 0.7 else kenc_op(rng) for _ in range(n)]


def gen_case(rng, n):
    ops = []
    for _ in range(n):
        r = rng.random()
        if r < 0.12:
            ops.append(rt_op(rng))
            continue
        schema = rng.choice(list(BUILDERS))
        b = BUILDERS[schema](rng) if rng.random() < 0.93 else rand_bytes(rng, rng.randrange(0, 30))
        for _ in range(rng.choice([0, 0, 1, 1, 2, 3])):
            b = mutate(rng, b)
        if schema == "kad" and rng.random() < 0.6:
            ops.append(f"kad {hx(b)} {rng.choice([0, 1, 3, 20, 20, 20])}")
        elif schema == "key" and rng.random() < 0.6:
            ops.append(f"key {hx(b)}")
        else:
            ops.append(f"pb {schema} {hx(b)}")
    return ops


def truncations(rng):
    """Truncation at every offset of one valid encoding per schema."""
    for schema, build in BUILDERS.items():
        b = build(rng)[:400]
        ops = [f"pb {schema} {hx(b[:i])}" for i in range(len(b) + 1)]
        if schema == "kad":
            ops += [f"kad {hx(b[:i])} 20" for i in range(len(b) + 1)]
        yield ops


def gen_cases(rng, tier):
    n = {"quick": 120, "thorough": 6000, "search": 600}[tier]
    if tier != "search":
        for c in truncations(rng):
            yield c
    for _ in range(n):
        yield gen_case(rng, 25)
    # encoders: prost's on structured random messages of every schema, the hand-written Kademlia ones
    for _ in range({"quick": 60, "thorough": 2500, "search": 200}[tier]):
        yield gen_enc_case(rng, 20)
    # the real Identify protocol object: answers on the outbound substream, our own message, round trips
    if tier != "search":
        yield identify_truncations(rng)
    for _ in range({"quick": 40, "thorough": 1500, "search": 150}[tier]):
        yield gen_identify_case(rng, 12)


_ALLOC = re.compile(r" alloc=(\d+)$")


def split_alloc(o):
    m = _ALLOC.search(o)
    return (o[:m.start()], int(m.group(1))) if m else (o, None)


def normalize(line):
    if line.startswith("panic"):
        return "panic"
    line, _ = split_alloc(line)
    if line.startswith(("event", "noevent", "noopen", "sent")):
        line = re.sub(r" #\w+( [^# ]*)?", "", line).strip()
        if line.startswith("sent"):
            head, sep, ev = line.partition(" ==> ")
            t = head.split()
            head = "sent " + canon_sent(t[1] if len(t) > 1 else "-")
            if ev.startswith("event"):          # the order of the listen addresses is the sender's HashSet order
                e = parse_event(ev)
                ev = re.sub(r" la=\[[^\]]*\]", " la=[" + ";".join(sorted(hx(x) for x in e["la"])) + "]", ev)
            line = head + sep + ev
        return line
    line = re.sub(r" #in .*$", "", line)
    if line.startswith("ok ") and " => " in line:      # rt: compare the decoded part only
        line = line.split(" => ", 1)[1]
    line = re.sub(r" #addrs .*$", "", line) if line.startswith("ok pv=") else line
    return line


def model_lines(case, impl):
    out = []
    for i, op in enumerate(case):
        o = impl[i] if impl and i < len(impl) else ""
        o, _ = split_alloc(o)
        t = op.split()
        if t[0] in ("idout", "idin", "idrt"):
            notes = re.findall(r" (#\w+)( [^# ]*)?", o)
            out.append(op + "".join(f" {k}{v.rstrip()}" for k, v in notes))
        elif t[0] == "kad":
            tbl = o.split(" #addrs ", 1)[1] if " #addrs " in o else ""
            out.append(f"{op} #addrs {tbl}".rstrip())
        elif t[0] == "rt":
            if o.startswith("ok ") and " => " in o:
                h = o.split()[1]
                tbl = o.split(" #addrs ", 1)[1] if " #addrs " in o else ""
                out.append(f"kad {h} 20 #addrs {tbl}".rstrip())
            else:
                out.append(op)
        elif t[0] == "enc":
            # the encoder's inputs as bytes, reported by the adapter (peer ids, address order, computed ttl)
            out.append("kenc " + o.split(" #in ", 1)[1] if " #in " in o else op)
        elif t[0] == "key":
            p = "1" if o.startswith("ok ") else ("0" if o == "err invalid" else "-")
            out.append(f"{op} #point {p}")
        else:
            out.append(op)
    return out


def expected_rt(op):
    """What the encoded value must decode to (property: encoders round-trip)."""
    t = op.split()
    kind, a = t[1], t[2:]

    def peers(spec, cap=20):
        if spec == "-":
            return "[]"
        items = []
        for s in spec.split(",")[:cap]:
            i, n, c = s.split(":")
            items.append(f"{peer_bytes(int(i)).hex()}/{n}/{c}")
        return "[" + ",".join(items) + "]"

    def rec(r):
        k, v, p, e = r
        pub = "-" if p == "-" else peer_bytes(int(p)).hex()
        return f"{{k={k},v={v},pub={pub},exp={e}}}"
    if kind == "findnode":
        return f"findnode target={a[0]} peers=[]"
    if kind == "putvalue":
        return f"putvalue rec={rec(a)}"
    if kind == "getrecord":
        return f"getrecord key={a[0]} rec=none peers=[]"
    if kind == "findnode_resp":
        return f"findnode target={a[0]} peers={peers(a[1])}"
    if kind == "putvalue_resp":
        return f"putvalue rec={{k={a[0]},v={a[1]},pub=-,exp=0}}"
    if kind == "getvalue_resp":
        r = rec(a[2:]) if len(a) == 6 else "none"
        return f"getrecord key={a[0]} rec={r} peers={peers(a[1])}"
    if kind == "addprovider":
        i, n, c = a[1].split(":")
        return f"addprovider key={a[0]} providers=[{peer_bytes(int(i)).hex()}/{n}/2]"
    if kind == "getproviders":
        return f"getproviders key={a[0]} peers=[] providers=[]"
    if kind == "getproviders_resp":
        prov = a[0]
        if prov != "-":
            prov = ",".join(":".join(s.split(":")[:2] + ["0"]) for s in prov.split(","))
        return f"getproviders key=none peers={peers(a[1])} providers={peers(prov)}"
    return None


def dedup_peers_ok(op):
    """The round-trip expectation assumes distinct peers (duplicates are legal and kept)."""
    return True


def oracle(case, out):
    bad = []
    for i, op in enumerate(case):
        if i >= len(out):
            break
        o = out[i]
        if o == "skipped":
            break
        if o.startswith("panic"):
            bad.append({"kind": "panic", "msg": f"decoder panicked: {o[:120]}", "step": i, "op": op[:200], "out": o[:200]})
            break
        body, alloc = split_alloc(o)
        t = op.split()
        if t[0] in ("pb", "kad", "key") and alloc is not None:
            n = 0 if t[-1 if t[0] != "kad" else 1] == "-" else len(t[2 if t[0] == "pb" else 1]) // 2
            if alloc > ALLOC_FACTOR * n + ALLOC_CONST:
                bad.append({"kind": "over-allocation", "msg": f"decoding {n} bytes allocated {alloc} bytes", "step": i,
                            "op": op[:200], "out": o[:200]})
        if t[0] in ("idout", "idin", "idrt") and body != "bad-op":
            identify_oracle(i, op, t, body, alloc, bad)
        if t[0] == "encpb":
            want = expected_encpb(op)
            if want is not None:
                if " ==> " not in body:
                    bad.append({"kind": "encoder-roundtrip", "msg": f"encoding a valid {t[1]} message answered {body[:120]}",
                                "step": i, "op": op[:300], "out": o[:300]})
                elif body.split(" ==> ", 1)[1] != want:
                    bad.append({"kind": "encoder-roundtrip", "step": i, "op": op[:300], "out": o[:300],
                                "msg": f"encoded {t[1]} message decodes to {body.split(' ==> ', 1)[1][:200]}, expected {want[:200]}"})
        if t[0] == "rt":
            want = expected_rt(op)
            got = body.split(" => ", 1)[1] if " => " in body else body
            got = re.sub(r" #addrs .*$", "", got)
            if want is not None and got != want:
                bad.append({"kind": "encoder-roundtrip", "msg": f"encoded value decodes to {got[:200]}, expected {want[:200]}",
                            "step": i, "op": op, "out": o[:300]})
    return bad


def stats(case, out, acc):
    for op, o in zip(case, out):
        t = op.split()
        kind = t[0] + (":" + t[1] if t[0] in ("pb", "rt", "encpb", "enc") else "")
        body, alloc = split_alloc(o)
        if t[0] in ("idout", "idin", "idrt"):
            cls = "event" if "event peer=" in body else "nothing-sent" if body.startswith("sent - ") else \
                "sent" if body.startswith("sent") else "noevent"
            bump(acc, f"{kind}:{cls}")
            if alloc is not None:
                acc["max_alloc_identify"] = max(acc.get("max_alloc_identify", 0), alloc)
            continue
        res = "ok" if body.startswith("ok") or (t[0] == "kad" and not body.startswith("none")) else "rejected"
        bump(acc, f"{kind}:{res}")
        if alloc is not None:
            acc["max_alloc"] = max(acc.get("max_alloc", 0), alloc)
            n = max(1, len(t[-1]) // 2)
            acc["max_alloc_ratio_x100"] = max(acc.get("max_alloc_ratio_x100", 0), (100 * alloc) // (n + 1024))


def nontrivial(case, out):
    return any(o.startswith("ok ") or o.startswith(("findnode", "getrecord", "putvalue", "addprovider", "getproviders")) for o in out) \
        and any(o.startswith(("err", "none")) for o in out) \
        or any(" ==> ok" in o or " #in " in o for o in out) \
        or (any(o.startswith(("event", "sent")) for o in out) and any(o.startswith(("noevent", "sent - ")) for o in out))


def matches_known(k, v):
    return False


# ---------------------------------------------------------------- other areas' decoders (engine: extra_cases)
def _mss_payloads(rng):
    from . import c03
    names = [b"/a", b"/proto/1.0.0", b"/ipfs/kad/1.0.0", b"/" + b"n" * 126, b"/" + b"m" * 127, b"/" + b"q" * 300]
    sup = [rng.choice(names) for _ in range(rng.randrange(1, 4))]
    main = rng.choice(names)
    msgs = [c03.enc_msg(("header",)), c03.enc_msg(("proto", main)), c03.enc_msg(("na",)), c03.enc_msg(("ls",)),
            c03.enc_msg(("protos", sup))]
    return c03, names, sup, main, msgs


def extra_cases(rng, tier):
    """Malformed streams for the decoders modelled under other properties: multistream messages and the
    message-based negotiation payloads (C03), substream length prefixes (C04), bitswap prefixes (C20)."""
    n = {"quick": 40, "thorough": 1500, "search": 100}[tier]
    c03, names, sup, main, msgs = _mss_payloads(rng)
    hx3, hl3 = c03.hx, c03.hl
    cases = []
    # every truncation of every message kind, and of two-message negotiation payloads, for both roles
    for m in msgs:
        cases.append([f"dec {hx3(m[:i])}" for i in range(len(m) + 1)])
    pay = c03.frame(msgs[0]) + c03.frame(c03.enc_msg(("proto", sup[0])))
    for hr in (0, 1):
        cases.append([f"wlisten hr={hr} sup={hl3(sup)} payload={hx3(pay[:i])}" for i in range(len(pay) + 1)])
    for resp in (pay, c03.frame(msgs[0]) + c03.frame(msgs[2]), c03.frame(c03.enc_msg(("proto", sup[0])))):
        ops = []
        for i in range(len(resp) + 1):
            ops += [f"wpropose main={hx3(sup[0])} fb={hl3(names[:2])}", f"wresp {hx3(resp[:i])}"]
        cases.append(ops)
    for _ in range(n):
        ops = []
        for _ in range(12):
            c03_, names, sup, main, msgs = _mss_payloads(rng)
            parts = [c03.frame(rng.choice(msgs)) for _ in range(rng.randrange(0, 4))]
            b = b"".join(parts)
            for _ in range(rng.choice([0, 1, 1, 2])):
                b = mutate(rng, b)
            r = rng.random()
            if r < 0.35:
                m = rng.choice(msgs)
                for _ in range(rng.choice([0, 1, 2])):
                    m = mutate(rng, m)
                ops.append(f"dec {hx3(m[:16383])}")
            elif r < 0.7:
                ops.append(f"wlisten hr={rng.choice([0, 1])} sup={hl3(sup)} payload={hx3(b)}")
            else:
                ops += [f"wpropose main={hx3(main)} fb={hl3(sup)}", f"wresp {hx3(b)}"]
        cases.append(ops)
    # encoder/decoder agreement at the frame-size limit and elsewhere: the C03 area's own generator (names up to and
    # beyond MAX_FRAME_SIZE, every message kind), judged by the C03 oracle as well
    for _ in range({"quick": 150, "thorough": 3000, "search": 300}[tier]):
        cases.append(c03.gen_case(rng))
    # the library's own `ls` response at the unsigned-varint width boundaries of the per-name prefix:
    # `encoded_len` (the outer WebRTC frame prefix) must agree with `encode` (seeded change C19-c2)
    for ln in (126, 127, 128, 16383):
        m = ("protos", [b"/" + b"v" * (ln - 1)] * rng.choice([1, 2]) + [b"/a"])
        cases.append([f"enc {c03.show_msg(m)}", f"dec {hx3(c03.enc_msg(m))}", f"wenc {c03.show_msg(m)} 0",
                      f"wenc {c03.show_msg(m)} 1"])
    yield "C03", cases
    # substream length prefixes (the sender is a scripted raw writer)
    c4 = []
    prefixes = [b"\x05hello", b"\x00", b"\x0b" + b"x" * 11, b"\x80\x01" + b"y" * 128, b"\xff\xff\x03", b"\xff\xff\xff\xff\x0f",
                b"\x80" * 9 + b"\x01", b"\x80" * 10 + b"\x01", b"\xff" * 10, b"\x80\x00", b"\xf1\xa2\x04" + b"z" * 70001]
    for _ in range(max(6, n // 4)):
        codec = rng.choice(["varint 10", "varint 10", "varint 70000", "varint 0", "identity 5", "identity 1"])
        ops = [f"codec {codec}"]
        for _ in range(rng.randrange(1, 4)):
            b = rng.choice(prefixes)
            if rng.random() < 0.5:
                b = mutate(rng, b[:64]) + b[64:]
            ops += [f"raw {b.hex()}", "recv", "recv"]
        c4.append(ops)
    yield "C04", c4
    # Noise frames: maximum-size frames whose length prefix sits at the very end of the reader's read-ahead window, and
    # tampered frames (the frame-length decoder of the Noise transport, C02's area)
    from . import c02
    n2 = {"quick": 14, "thorough": 400, "search": 40}[tier]
    yield "C02", [c02.gen_window_edge(rng) for _ in range(n2)] + [c02.gen_case(rng, "tamper") for _ in range(n2)]
    # bitswap prefixes: random noise and mutated valid prefixes
    c20 = []
    for _ in range(max(4, n // 8)):
        ops = []
        for _ in range(20):
            b = uv(rng.choice([0, 1, 1, 2])) + uv(rng.choice([0x55, 0x70, 2 ** 40])) + uv(rng.choice([0x12, 0x13, 0xb220, 0])) + \
                uv(rng.choice([32, 64, 255, 256, 2 ** 32]))
            for _ in range(rng.choice([0, 1, 2])):
                b = mutate(rng, b)
            ops.append(f"prefix_dec {hx(b[:40])}")
        c20.append(ops)
    # whole inbound blocks and messages chosen by the remote (prefix + data): the handler recomputes the digest the
    # prefix names — announced digest lengths below / above the hasher's output included (seeded change C19-d2)
    from . import c20 as c20p
    for _ in range(max(6, n // 4)):
        ops = []
        for _ in range(12):
            ops += c20p.op_inbound(rng) if rng.random() < 0.7 else c20p.op_message(rng)
        c20.append(ops)
    yield "C20", c20


def oracle_extra(xpid, case, out):
    bad = []
    if xpid == "C03":
        from . import c03
        bad += [dict(v, msg="(multistream area) " + v["msg"]) for v in c03.oracle(case, out)]
    for i, op in enumerate(case):
        if i >= len(out):
            break
        o = out[i]
        if o == "skipped":
            break
        if o.startswith("panic"):
            bad.append({"kind": "panic", "msg": f"{xpid} decoder panicked on {op[:80]}: {o[:120]}", "step": i, "op": op[:300],
                        "out": o[:200]})
            break
    return bad


def stats_extra(xpid, case, out, acc):
    for op, o in zip(case, out):
        res = "err" if ("err" in o[:12] or o.startswith(("none", "dropped"))) else "ok"
        bump(acc, f"extra:{xpid}:{op.split()[0]}:{res}")

# ---------------------------------------------------------------- real nodes through the public API (engine: extra_cases)
# `Litep2p::new` (src/lib.rs), `ConfigBuilder` (src/config.rs) and the protocol / transport `Config` builders hand every
# constructed object its configuration; the `node` area (checks/node.py) builds real nodes, compares what the CONSTRUCTED
# objects hold (and what a connection's `ProtocolSet` answers per main / fallback name) with the wiring model
# (Model/Node/Wiring.lean) and judges this property's real-time scenarios (frames above the configured limit on substreams
# negotiated under a FALLBACK name are refused) at node level.
from . import node as _node  # noqa: E402
_node.install(globals())
