#!/usr/bin/env python3
"""Entry point of the litep2p verification machinery (see DESIGN.md §2).

  ./verif.py setup                          build everything from files on disk (offline)
  ./verif.py check <ID> [--tier quick|thorough] [--seed N]
  ./verif.py replay <file>                  re-run one recorded case against the current tree
  ./verif.py lock                           re-approve the statements of the property theorems

A check has three stages:
  1. proof      regenerate Generated/Consts.lean from /repo, `lake build` the property module,
                audit axioms / forbidden tokens / statement hashes;
  2. tie        rebuild the Rust harness against /repo's working tree (--cfg litep2p_verif), run the
                same seeded operation sequences through the real component and through the Lean
                model's executable definitions, compare every observation;
  3. oracle     evaluate the property itself on the implementation's observations.
Exit 0 iff all three are clean (known findings are printed and tolerated). Otherwise a concrete
failing input is searched for, shrunk and written as a replay file, and the check prints
`VIOLATION property=<id> replay=<path>[ no-failing-input-found]` and exits 1.
"""
import argparse, hashlib, importlib, json, os, random, re, shutil, subprocess, sys, time

ROOT = os.path.dirname(os.path.abspath(__file__))
LEAN = os.path.join(ROOT, "lean")
HARNESS = os.path.join(ROOT, "harness")
REPO = os.environ.get("VERIF_REPO", os.path.normpath(os.path.join(ROOT, "..", "repo")))
OUT = os.path.join(ROOT, "out")
EVID = os.path.join(ROOT, "evidence")
DRIVER = os.path.join(LEAN, ".lake", "build", "bin", "model_driver")
# VERIF_HARNESS_BIN: an already built harness (tools/coverage.sh uses an instrumented one); never set by MANIFEST commands
HARNESS_BIN = os.environ.get("VERIF_HARNESS_BIN") or os.path.join(HARNESS, "target", "debug", "harness")
ALLOWED_AXIOMS = {"propext", "Classical.choice", "Quot.sound"}
FORBIDDEN = re.compile(r"\bsorry\b|\badmit\b|^axiom |native_decide|bv_decide|implemented_by|\bunsafe |maxHeartbeats 0", re.M)
NCPU = os.cpu_count() or 4

sys.path.insert(0, ROOT)
sys.path.insert(0, os.path.join(ROOT, "tools"))
import extract_consts  # noqa: E402
import proto2lean  # noqa: E402


def env_offline():
    e = dict(os.environ)
    e.update({"CARGO_NET_OFFLINE": "true", "CARGO_TARGET_DIR": os.path.join(HARNESS, "target")})
    return e


def sh(cmd, cwd=None, timeout=None, env=None, input=None):
    p = subprocess.run(cmd, cwd=cwd, capture_output=True, text=True, timeout=timeout, env=env, input=input)
    return p.returncode, p.stdout, p.stderr


def load_plugin(pid):
    return importlib.import_module("checks." + pid.lower())


# ------------------------------------------------------------------ proof stage

def strip_comments(src):
    src = re.sub(r"/-.*?-/", "", src, flags=re.S)
    src = re.sub(r"--.*", "", src)
    return src


def lean_cone(module):
    """Files of our project transitively imported by `module`."""
    seen, todo = [], [module]
    while todo:
        m = todo.pop()
        path = os.path.join(LEAN, m.replace(".", "/") + ".lean")
        if not os.path.exists(path) or path in seen:
            continue
        seen.append(path)
        for imp in re.findall(r"^import\s+(\S+)", open(path).read(), flags=re.M):
            if imp.startswith("Litep2pVerif") or imp.startswith("Driver"):
                todo.append(imp)
    return seen


def statement_hashes(props_module, theorems):
    """sha256 of each property theorem's statement text (from `theorem name` to `:= by`/`:=`)."""
    path = os.path.join(LEAN, props_module.replace(".", "/") + ".lean")
    src = open(path).read()
    res = {}
    for t in theorems:
        m = re.search(r"^theorem\s+" + re.escape(t) + r"\b(.*?):=\s*(by\b|\n|fun\b|⟨)", src, flags=re.S | re.M)
        if not m:
            res[t] = None
            continue
        text = re.sub(r"\s+", " ", m.group(1)).strip()
        res[t] = hashlib.sha256(text.encode()).hexdigest()[:16]
    return res


def proof_stage(plug, tier, log):
    """Returns dict(ok, obligations, discharged, axioms, problems, ...)."""
    t0 = time.time()
    problems = []
    gen_main()
    vals, missing = extract_consts.generate()
    for m in missing:
        if plug.ID in m["props"]:
            problems.append(f"constant anchor lost: {m['name']} in {m['file']}: {m['error']}")
    # the protobuf schemas of the wire model are re-translated from /repo's .proto files on every run; a property
    # whose import cone contains the generated files depends on the translation succeeding
    proto_info, proto_err = proto2lean.generate()
    uses_proto = any(os.path.normpath(f) in (os.path.normpath(proto2lean.OUT_SCHEMAS), os.path.normpath(proto2lean.OUT_SIZES),
                                             os.path.normpath(proto2lean.OUT_ROUNDTRIP)) for f in lean_cone(plug.LEAN_PROPS))
    if proto_err and uses_proto:
        problems.append("schema translation (.proto → Lean) failed: " + proto_err)
    mods = [plug.LEAN_PROPS]
    if tier == "thorough":
        # rebuild the property's own import cone from clean
        for f in lean_cone(plug.LEAN_PROPS):
            rel = os.path.relpath(f, LEAN)[:-5]
            for ext in (".olean", ".ilean", ".trace", ".olean.hash", ".ilean.hash"):
                p = os.path.join(LEAN, ".lake", "build", "lib", "lean", rel + ext)
                if os.path.exists(p):
                    os.remove(p)
    rc, so, se = sh(["lake", "build"] + mods + ["model_driver"], cwd=LEAN, timeout=3000)
    text = so + se
    log.write(text)
    if rc != 0:
        # try to name the failing declarations
        errs = re.findall(r"error: (\S+\.lean:\d+:\d+: .*)", text)
        problems.append("lake build failed: " + "; ".join(errs[:5]))
    # `#print axioms` output appears only when the module is (re)elaborated; to read it on a cached
    # build, run lean on the props file directly (cheap: dependencies are compiled).
    props_path = os.path.join(LEAN, plug.LEAN_PROPS.replace(".", "/") + ".lean")
    rc2, so2, se2 = sh(["lake", "env", "lean", props_path], cwd=LEAN, timeout=3000)
    atext = so2 + se2
    log.write(atext)
    axioms = {}
    for m in re.finditer(r"'([\w.']+)' depends on axioms: \[([^\]]*)\]", atext):
        axioms[m.group(1).split(".")[-1]] = [a.strip() for a in m.group(2).split(",") if a.strip()]
    for m in re.finditer(r"'([\w.']+)' does not depend on any axioms", atext):
        axioms[m.group(1).split(".")[-1]] = []
    if rc2 != 0:
        errs = re.findall(r"(\S+\.lean:\d+:\d+: error: .*)", atext)
        problems.append("property module does not check: " + "; ".join(errs[:5]))
    discharged = 0
    for t in plug.THEOREMS:
        if t not in axioms:
            problems.append(f"theorem {t} missing from axiom audit (not proved)")
            continue
        bad = [a for a in axioms[t] if a not in ALLOWED_AXIOMS]
        if bad:
            problems.append(f"theorem {t} depends on disallowed axioms {bad}")
            continue
        discharged += 1
    for f in lean_cone(plug.LEAN_PROPS):
        hits = FORBIDDEN.findall(strip_comments(open(f).read()))
        if hits:
            problems.append(f"forbidden token {hits[0]!r} in {os.path.relpath(f, LEAN)}")
    hashes = statement_hashes(plug.LEAN_PROPS, plug.THEOREMS)
    lock_path = os.path.join(ROOT, "locks", plug.ID + ".json")
    lock = json.load(open(lock_path)) if os.path.exists(lock_path) else {}
    for t, h in hashes.items():
        want = lock.get(t)
        if h is None:
            problems.append(f"statement of {t} not found in {plug.LEAN_PROPS}")
        elif want is None:
            problems.append(f"statement of {t} is not in statements.lock (run ./verif.py lock)")
        elif want != h:
            problems.append(f"statement of {t} changed (hash {h} != locked {want})")
    checker = None
    if tier == "thorough" and rc == 0:
        rc3, so3, se3 = sh(["lake", "env", "leanchecker", plug.LEAN_PROPS], cwd=LEAN, timeout=3000)
        checker = rc3
        log.write(so3 + se3)
        if rc3 != 0:
            problems.append("leanchecker rejected " + plug.LEAN_PROPS)
    return {"ok": not problems, "obligations": len(plug.THEOREMS), "discharged": discharged,
            "axioms": axioms, "problems": problems, "consts": vals, "statement_hashes": hashes,
            "leanchecker_rc": checker, "wall_s": round(time.time() - t0, 2),
            "schemas": ({"error": proto_err} if proto_err else proto_info) if uses_proto else None}


# ------------------------------------------------------------------ tie stage

def build_harness(log):
    if os.environ.get("VERIF_HARNESS_BIN"):
        return True, ""
    lock_src = os.path.join(REPO, "Cargo.lock")
    lock_dst = os.path.join(HARNESS, "Cargo.lock")
    if not os.path.exists(lock_dst):
        shutil.copy(lock_src, lock_dst)
    rc, so, se = sh(["cargo", "build", "--offline"], cwd=HARNESS, env=env_offline(), timeout=3000)
    log.write(so + se)
    if rc != 0:
        errs = re.findall(r"^(error.*)$", se, flags=re.M)
        return False, "; ".join(errs[:5]) or "cargo build failed"
    return True, ""


def run_lines(binary, area, lines, timeout=600):
    inp = "\n".join(lines) + "\n"
    try:
        p = subprocess.run([binary, area], input=inp, capture_output=True, text=True, timeout=timeout)
    except subprocess.TimeoutExpired:
        return None, "timeout"
    if p.returncode != 0:
        return p.stdout.split("\n"), f"exit {p.returncode}: {p.stderr[-400:]}"
    out = p.stdout.split("\n")
    if out and out[-1] == "":
        out.pop()
    return out, None


def flatten(cases):
    lines = []
    for c in cases:
        lines.append("case")
        lines.extend(c)
    return lines


def unflatten(cases, out):
    """Split the output stream back into per-case lists."""
    res, i = [], 0
    for c in cases:
        seg = out[i:i + 1 + len(c)]
        i += 1 + len(c)
        res.append(seg[1:] if seg else [])
    return res


def run_sharded(binary, area, cases, shards, to_model=None):
    """Run `cases` through `binary` in parallel shards; returns per-case outputs (None = crashed)."""
    from concurrent.futures import ThreadPoolExecutor
    n = max(1, min(shards, len(cases)))
    chunks = [cases[i::n] for i in range(n)]
    idx = [list(range(len(cases)))[i::n] for i in range(n)]

    def work(ch):
        out, err = run_lines(binary, area, flatten(ch))
        if out is None:
            return [None] * len(ch), err
        per = unflatten(ch, out)
        return per, err

    results = [None] * len(cases)
    errs = []
    with ThreadPoolExecutor(n) as ex:
        for ids, (per, err) in zip(idx, ex.map(work, chunks)):
            if err:
                errs.append(err)
            for i, o in zip(ids, per):
                results[i] = o
    return results, errs


def default_norm(line):
    return "panic" if line.startswith("panic") else line


def compare(plug, case, impl, model):
    """First differing step or None."""
    norm = getattr(plug, "normalize", default_norm)
    if impl is None or model is None:
        return {"step": -1, "op": None, "impl": impl, "model": model}
    for i, op in enumerate(case):
        a = impl[i] if i < len(impl) else "<missing>"
        b = model[i] if i < len(model) else "<missing>"
        if norm(a) != norm(b):
            return {"step": i, "op": op, "impl": a, "model": b}
    return None


def model_ops(plug, case, impl):
    """Lines handed to the model: the plugin may fold the implementation's observations in
    (checker mode)."""
    f = getattr(plug, "model_lines", None)
    return f(case, impl) if f else case


def run_both(plug, cases, shards):
    impl, errs = run_sharded(HARNESS_BIN, plug.AREA, cases, shards)
    mcases = [model_ops(plug, c, i) for c, i in zip(cases, impl)]
    model, merrs = run_sharded(DRIVER, plug.AREA, mcases, shards)
    return impl, model, errs + merrs


def ddmin(case, pred, keep_prefix=1, budget=200):
    """Delta-debug the op list (the first `keep_prefix` lines stay)."""
    head, ops = case[:keep_prefix], case[keep_prefix:]
    n, calls = 2, 0
    while len(ops) >= 2 and calls < budget:
        chunk = max(1, len(ops) // n)
        reduced = False
        for i in range(0, len(ops), chunk):
            cand = ops[:i] + ops[i + chunk:]
            calls += 1
            if pred(head + cand):
                ops, n, reduced = cand, max(n - 1, 2), True
                break
        if not reduced:
            if n >= len(ops):
                break
            n = min(len(ops), n * 2)
    return head + ops


def load_known():
    """known_findings.json plus per-property fragments in known_findings.d/ (never written at run time)."""
    res = {"known": [], "fixed": []}
    paths = [os.path.join(ROOT, "known_findings.json")]
    d = os.path.join(ROOT, "known_findings.d")
    if os.path.isdir(d):
        paths += [os.path.join(d, f) for f in sorted(os.listdir(d)) if f.endswith(".json")]
    for p in paths:
        if os.path.exists(p):
            j = json.load(open(p))
            res["known"] += j.get("known", [])
            res["fixed"] += j.get("fixed", [])
    return res


def write_replay(pid, seed, payload):
    os.makedirs(OUT, exist_ok=True)
    path = os.path.join(OUT, f"{pid}-{seed}-{int(time.time())}.replay.json")
    json.dump(payload, open(path, "w"), indent=1)
    return path


def check(pid, tier, seed):
    t0 = time.time()
    plug = load_plugin(pid)
    os.makedirs(OUT, exist_ok=True)
    os.makedirs(EVID, exist_ok=True)
    log = open(os.path.join(OUT, f"{pid}.{tier}.log"), "w")
    known = [k for k in load_known().get("known", []) if k["property"] == pid]
    known_hit = {}
    violations = []          # (kind, description, replay payload)

    pr = proof_stage(plug, tier, log)

    ok_build, build_err = build_harness(log)
    rng = random.Random(seed)
    corpus = plug.corpus() if hasattr(plug, "corpus") else []
    corpus += load_corpus(pid)
    cases = list(corpus) + list(plug.gen_cases(rng, tier))
    shards = NCPU if tier == "thorough" else min(NCPU, 8)
    tie = {"cases": len(cases), "corpus_cases": len(corpus), "mismatches": 0, "first_mismatch": None,
           "errors": []}
    oracle_fail = []
    dist = {}
    nontrivial = set()
    samples = []
    impl = model = None
    if not ok_build:
        tie["errors"].append("harness build failed: " + build_err)
    elif not os.path.exists(DRIVER):
        tie["errors"].append("model driver not built")
    else:
        impl, model, errs = run_both(plug, cases, shards)
        tie["errors"] += errs
        for ci, c in enumerate(cases):
            d = compare(plug, c, impl[ci], model[ci])
            if d is not None:
                tie["mismatches"] += 1
                if tie["first_mismatch"] is None:
                    tie["first_mismatch"] = {"case_index": ci, "case": c, **d}
            if impl[ci] is not None:
                for v in plug.oracle(c, impl[ci]):
                    oracle_fail.append((ci, v))
                plug.stats(c, impl[ci], dist)
                if plug.nontrivial(c, impl[ci]):
                    nontrivial.add(hashlib.sha256(("\n".join(c) + "\n".join(impl[ci])).encode()).hexdigest())
        for ci in range(min(3, len(cases))):
            k = len(corpus) + ci if len(corpus) + ci < len(cases) else ci
            samples.append({"ops": cases[k][:12], "impl": (impl[k] or [])[:12]})

    # ---- extra areas: a plugin may fuzz the decoding ops of OTHER properties' areas (C19 does); those cases run
    # through that area's adapter and model with that plugin's comparison rules, and are judged by this plugin's
    # `oracle_extra`. A violating case is recorded with its own area for replay.
    extra_total = 0
    if ok_build and os.path.exists(DRIVER) and hasattr(plug, "extra_cases"):
        for xpid, xcases in plug.extra_cases(random.Random(seed + 17), tier):
            xplug = load_plugin(xpid)
            ximpl, xmodel, xerrs = run_both(xplug, xcases, shards)
            tie["errors"] += xerrs
            extra_total += len(xcases)
            for c, i, m in zip(xcases, ximpl, xmodel):
                d = compare(xplug, c, i, m)
                if d is not None:
                    tie["mismatches"] += 1
                    if tie["first_mismatch"] is None:
                        tie["first_mismatch"] = {"case_index": -1, "case": c, "area": xplug.AREA, "impl_out": i, "model_out": m, **d}
                if i is not None:
                    for v in plug.oracle_extra(xpid, c, i):
                        v["area"] = xplug.AREA
                        v["case"] = c
                        oracle_fail.append((-1, v))
                    plug.stats_extra(xpid, c, i, dist)
                    nontrivial.add(hashlib.sha256((xpid + "\n".join(c) + "\n".join(i)).encode()).hexdigest())
            if xcases and ximpl and ximpl[0] is not None:
                samples.append({"area": xplug.AREA, "ops": xcases[0][:6], "impl": ximpl[0][:6]})
    tie["cases"] += extra_total

    # ---- decision
    def classify(v):
        for k in known:
            if plug.matches_known(k, v):
                return k
        return None

    new_oracle = []
    for ci, v in oracle_fail:
        k = classify(v)
        if k:
            known_hit.setdefault(k["id"], (k, cases[ci] if ci >= 0 else v.get("case"), v))
        else:
            new_oracle.append((ci, v))

    broken = (not pr["ok"]) or tie["mismatches"] > 0 or tie["errors"]
    searched = 0
    if new_oracle and new_oracle[0][0] == -1:
        ci, v = new_oracle[0]
        case, area = v.pop("case"), v["area"]
        o, _ = run_lines(HARNESS_BIN, area, flatten([case]))
        violations.append(("oracle", v["msg"], {"property": pid, "kind": "implementation-violates-property",
                           "area": area, "violation": v, "case": case,
                           "impl": unflatten([case], o or [])[0], "seed": seed}))
    elif new_oracle:
        ci, v = new_oracle[0]
        case = cases[ci]

        def still(c):
            o, e = run_lines(HARNESS_BIN, plug.AREA, flatten([c]))
            if o is None:
                return False
            per = unflatten([c], o)[0]
            return any(classify(x) is None and x["kind"] == v["kind"] for x in plug.oracle(c, per))
        small = ddmin(case, still, keep_prefix=getattr(plug, "KEEP_PREFIX", 1))
        o, _ = run_lines(HARNESS_BIN, plug.AREA, flatten([small]))
        violations.append(("oracle", v["msg"], {"property": pid, "kind": "implementation-violates-property",
                           "area": plug.AREA, "violation": v, "case": small,
                           "impl": unflatten([small], o or [])[0], "seed": seed}))
    elif broken:
        # SEARCH: the proof or the correspondence no longer checks; look for a concrete input on
        # which the property itself fails on the implementation.
        found = None
        if ok_build:
            extra = []
            fm = tie["first_mismatch"]
            if fm:
                base = fm["case"]
                extra += [base[:k] for k in range(2, len(base) + 1)]
                extra += list(plug.mutate_case(rng, base, 200)) if hasattr(plug, "mutate_case") else []
            extra += list(plug.gen_cases(random.Random(seed + 1), "search"))
            searched = len(extra)
            im, _ = run_sharded(HARNESS_BIN, plug.AREA, extra, NCPU)
            for c, o in zip(extra, im):
                if o is None:
                    continue
                bad = [x for x in plug.oracle(c, o) if classify(x) is None]
                if bad:
                    found = (c, bad[0])
                    break
        what = []
        if not pr["ok"]:
            what += ["proof: " + p for p in pr["problems"]]
        if tie["mismatches"]:
            fm = tie["first_mismatch"]
            what.append(f"correspondence {plug.AREA}: model and implementation differ at step {fm['step']} "
                        f"op={fm['op']!r} impl={fm['impl']!r} model={fm['model']!r} "
                        f"({tie['mismatches']} of {tie['cases']} cases)")
        what += ["tie: " + e for e in tie["errors"]]
        if found:
            c, v = found

            def still2(cc):
                o, e = run_lines(HARNESS_BIN, plug.AREA, flatten([cc]))
                if o is None:
                    return False
                per = unflatten([cc], o)[0]
                return any(classify(x) is None and x["kind"] == v["kind"] for x in plug.oracle(cc, per))
            small = ddmin(c, still2, keep_prefix=getattr(plug, "KEEP_PREFIX", 1))
            o, _ = run_lines(HARNESS_BIN, plug.AREA, flatten([small]))
            violations.append(("search", v["msg"], {"property": pid, "kind": "implementation-violates-property",
                               "area": plug.AREA, "violation": v, "case": small,
                               "impl": unflatten([small], o or [])[0], "broken": what, "seed": seed}))
        else:
            payload = {"property": pid, "kind": "no-failing-input-found", "area": plug.AREA,
                       "no_longer_checks": what, "searched_cases": searched, "seed": seed}
            if tie["first_mismatch"]:
                fm = tie["first_mismatch"]
                if fm["case_index"] >= 0:
                    payload.update({"case": fm["case"], "diverges_at": fm["step"], "impl": impl[fm["case_index"]],
                                    "model": model[fm["case_index"]]})
                else:
                    payload.update({"case": fm["case"], "diverges_at": fm["step"], "area": fm["area"],
                                    "impl": fm["impl_out"], "model": fm["model_out"]})
            violations.append(("unproved", "; ".join(what)[:300], payload))

    for kid, (k, c, v) in known_hit.items():
        print(f"KNOWN-FINDING: property={pid} {k['id']}: {k['what']}")

    wall = round(time.time() - t0, 2)
    evidence = {
        "property_id": pid, "tier": tier, "seed": seed, "level": "proof",
        "coverage": {
            "obligations": pr["obligations"], "discharged": pr["discharged"],
            "checker_cmd": f"cd lean && lake build {plug.LEAN_PROPS} && lake env lean {plug.LEAN_PROPS.replace('.', '/')}.lean  # #print axioms audit"
                           + (" && lake env leanchecker " + plug.LEAN_PROPS if tier == "thorough" else ""),
            "trusted_base": plug.TRUSTED_BASE,
            "theorems": {t: pr["axioms"].get(t) for t in plug.THEOREMS},
            "statement_hashes": pr["statement_hashes"],
            "generated_consts": {k: v for k, v in pr["consts"].items() if k in getattr(plug, "CONSTS", [])},
            "translated_schemas": pr.get("schemas"),
            "leanchecker_rc": pr["leanchecker_rc"],
            "proof_problems": pr["problems"],
            "evaluations": len(cases), "distinct_nontrivial": len(nontrivial),
            "rule": plug.RULE,
            "samples": samples or [{"note": "harness did not run"}],
            "traces_validated_against_impl": (len(cases) - tie["mismatches"]) if impl is not None else 0,
            "model_disagreements": tie["mismatches"],
            "implementation_vs_property_failures": len(oracle_fail),
            "known_findings_reproduced": sorted(known_hit),
            "input_distribution": dist,
            "search_cases": searched,
            "exhaustive": False,
        },
        "assumptions": plug.ASSUMPTIONS,
        "wall_s": wall,
        "violations": len(violations),
    }
    json.dump(evidence, open(os.path.join(EVID, f"{pid}.json"), "w"), indent=1)
    log.close()
    if violations:
        kind, msg, payload = violations[0]
        path = write_replay(pid, seed, payload)
        tail = " no-failing-input-found" if payload["kind"] == "no-failing-input-found" else ""
        print(f"# {pid}: {msg}")
        print(f"VIOLATION property={pid} replay={path}{tail}")
        return 1
    print(f"{pid} {tier}: proof {pr['discharged']}/{pr['obligations']} theorems, "
          f"{len(cases)} cases agree with the model ({len(nontrivial)} distinct non-trivial), "
          f"oracle clean, {wall}s")
    return 0


def load_corpus(pid):
    d = os.path.join(ROOT, "corpus", pid)
    res = []
    if os.path.isdir(d):
        for f in sorted(os.listdir(d)):
            if f.endswith(".case"):
                lines = [l.rstrip("\n") for l in open(os.path.join(d, f)) if l.strip() and not l.startswith("#")]
                res.append(lines)
    return res


def replay(path):
    payload = json.load(open(path))
    pid = payload["property"]
    plug = load_plugin(pid)
    print(json.dumps({k: payload[k] for k in payload if k not in ("case", "impl", "model")}, indent=1))
    if "case" not in payload:
        print("no concrete case recorded (see no_longer_checks)")
        return 0
    log = open(os.path.join(OUT, f"{pid}.replay.log"), "w")
    ok, err = build_harness(log)
    if not ok:
        print("harness build failed:", err)
        return 2
    case = payload["case"]
    area = payload.get("area", plug.AREA)
    if area != plug.AREA:
        plug = load_plugin(area.upper())
    o, e = run_lines(HARNESS_BIN, area, flatten([case]))
    impl = unflatten([case], o or [])[0]
    m, e2 = run_lines(DRIVER, area, flatten([model_ops(plug, case, impl)]))
    model = unflatten([case], m or [])[0]
    for i, op in enumerate(case):
        a = impl[i] if i < len(impl) else "<missing>"
        b = model[i] if i < len(model) else "<missing>"
        flag = "" if default_norm(a) == default_norm(b) else "   <-- differs"
        print(f"{op:50s} impl={a!s:30s} model={b!s}{flag}")
    bad = plug.oracle(case, impl) + [{"kind": "panic", "msg": o} for o in impl if str(o).startswith("panic")]
    print("oracle:", bad if bad else "property holds on this case")
    return 1 if bad else 0


def plugin_ids():
    return sorted(f[:-3].upper() for f in os.listdir(os.path.join(ROOT, "checks")) if re.fullmatch(r"c\d+\.py", f))


def lock(only=None):
    os.makedirs(os.path.join(ROOT, "locks"), exist_ok=True)
    for pid in plugin_ids():
        if only and pid != only.upper():
            continue
        plug = load_plugin(pid)
        h = statement_hashes(plug.LEAN_PROPS, plug.THEOREMS)
        json.dump(h, open(os.path.join(ROOT, "locks", pid + ".json"), "w"), indent=1, sort_keys=True)
        print("locked", pid, len(h))


def gen_main():
    """Regenerate lean/Driver/Main.lean from the driver modules present."""
    d = os.path.join(LEAN, "Litep2pVerif", "Driver")
    # one driver per area: the property areas `CNN` plus shared areas used by several properties through
    # `extra_cases` (e.g. `Tcploop`); `Loop.lean` is the generic read-eval-print loop
    areas = sorted(f[:-5] for f in os.listdir(d) if re.fullmatch(r"[A-Z][A-Za-z0-9]*\.lean", f) and f != "Loop.lean")
    lines = ["-- GENERATED by verif.py (gen_main) from Litep2pVerif/Driver/*.lean — do not edit.",
             "import Litep2pVerif.Driver.Loop"]
    lines += [f"import Litep2pVerif.Driver.{a}" for a in areas]
    lines += ["open Litep2pVerif.Driver", "", "def main (args : List String) : IO UInt32 := do",
              "  let stdin ← IO.getStdin", "  let stdout ← IO.getStdout", "  match args with"]
    for a in areas:
        lines.append(f'  | ["{a.lower()}"] => loop {a}.init {a}.step stdin stdout {a}.init false; return 0')
    lines += ['  | _ => IO.eprintln "usage: model_driver <area>"; return 2', ""]
    text = "\n".join(lines)
    path = os.path.join(LEAN, "Driver", "Main.lean")
    if not os.path.exists(path) or open(path).read() != text:
        open(path, "w").write(text)


def setup():
    gen_main()
    extract_consts.generate()
    _, proto_err = proto2lean.generate()
    if proto_err:
        print("schema translation failed:", proto_err)
    rc, so, se = sh(["lake", "build"], cwd=LEAN, timeout=7200)
    sys.stdout.write(so[-3000:] + se[-3000:])
    if rc != 0:
        return rc
    log = open(os.path.join(OUT, "setup.log"), "w") if os.path.isdir(OUT) or not os.makedirs(OUT) else None
    ok, err = build_harness(log)
    print("harness build:", "ok" if ok else err)
    return 0 if ok else 1


def main():
    ap = argparse.ArgumentParser()
    sub = ap.add_subparsers(dest="cmd", required=True)
    sub.add_parser("setup")
    lk = sub.add_parser("lock")
    lk.add_argument("pid", nargs="?")
    c = sub.add_parser("check")
    c.add_argument("pid")
    c.add_argument("--tier", default=os.environ.get("VERIF_TIER", "quick"))
    c.add_argument("--seed", type=int, default=int(os.environ.get("VERIF_SEED", "1")))
    r = sub.add_parser("replay")
    r.add_argument("path")
    a = ap.parse_args()
    if a.cmd == "setup":
        sys.exit(setup())
    if a.cmd == "lock":
        lock(a.pid)
        sys.exit(0)
    if a.cmd == "check":
        sys.exit(check(a.pid.upper(), a.tier, a.seed))
    if a.cmd == "replay":
        sys.exit(replay(a.path))


if __name__ == "__main__":
    main()
