import Litep2pVerif.Common.Parse
import Litep2pVerif.Model.Service.KeepAlive
/-!
Line-protocol driver for the keep-alive model (C09): several protocols' `TransportService`s, the
connection tasks' command channels and the messages in flight (`Model/Service/KeepAlive.lean`),
under logical time in milliseconds.
-/
namespace Litep2pVerif.Driver.C09
open Litep2pVerif Litep2pVerif.Service Litep2pVerif.Service.KA Parse

structure DState where
  sys : Sys := {}
  used : List Nat := []

def init : DState := {}

def showEv : Ev → String
  | .established p => s!"est:{p}"
  | .closed p => s!"closed:{p}"
  | .subOpened p (some sid) => s!"sub:{p}:out{sid}"
  | .subOpened p none => s!"sub:{p}:in"
  | .subFailed sid => s!"fail:{sid}"
  | .dialFailure p => s!"dialfail:{p}"

def insertBy {α : Type} (key : α → Nat) (x : α) : List α → List α
  | [] => [x]
  | y :: ys => if key x ≤ key y then x :: y :: ys else y :: insertBy key x ys

def sortBy {α : Type} (key : α → Nat) (l : List α) : List α := l.foldr (insertBy key) []

def showHandle (h : Handle) : String := toString h.id ++ (if h.active then "+" else "-")

def showSvc (i : Nat) (s : Svc) : String :=
  let conns := sortBy (fun (e : Nat × KCtx) => e.1) s.conns
  let la := sortBy (fun (e : Nat × Nat) => e.1) s.tr.last
  s!"c{i}=[" ++ joinWith "," (conns.map fun (p, ctx) =>
      s!"{p}:" ++ showHandle ctx.primary ++ "/" ++
      (match ctx.secondary with | some h => showHandle h | none => "-")) ++
  s!"] la{i}=[" ++ joinWith "," (la.map fun (c, t) => s!"{c}@{t}") ++ s!"] tm{i}={s.tr.timers.length}"

def showState (s : Sys) : String :=
  let svcs := joinWith " " ((List.range s.svcs.length).filterMap fun i => (s.svcs[i]?).map (showSvc i))
  let alive := (sortBy (fun (t : Nat × Nat) => t.1) s.tasks).filter (fun t => !(exits s t.1))
  svcs ++ " alive=[" ++ joinWith "," (alive.map fun t => toString t.1) ++ s!"] nsub={s.nextSub}"

/-- Drain every protocol in turn; `(state, text per protocol, index of the protocol that hit the
debug_assert)`. -/
def nextAll : Nat → Nat → Sys → List String → Sys × List String × Option Nat
  | 0, _, s, acc => (s, acc, none)
  | fuel + 1, i, s, acc =>
    if i ≥ s.svcs.length then (s, acc, none) else
    let r := s.drain i
    let text := s!"e{i}=[" ++ joinWith "," (r.2.1.map showEv) ++ "]"
    if r.2.2 then (r.1, [text], some i) else nextAll fuel (i + 1) r.1 (acc ++ [text])

/-- `*` = the lowest substream id under negotiation on connection `c`. -/
def pickSid (s : Sys) (c : Nat) (tok : String) : Option Nat :=
  if tok = "*" then
    ((s.nego.filter (fun x => x.conn == c)).map (·.sid)).foldl
      (fun acc x => match acc with | none => some x | some a => some (min a x)) none
  else tok.toNat?

def step (st : DState) (line : String) : DState × String :=
  let s := st.sys
  match tokens line with
  | "cfg" :: timeout :: kinds =>
    match timeout.toNat? with
    | some T =>
      if kinds.isEmpty || kinds.length > 4 || !s.svcs.isEmpty || kinds.any (fun k => k != "Y" && k != "N") then
        (st, "bad-op")
      else ({ st with sys := { s with svcs := kinds.map fun k => { ka := k == "Y", T := T } } }, "ok")
    | none => (st, "bad-op")
  | toks =>
    if s.svcs.isEmpty then (st, "bad-op") else
    match toks with
    | ["est", p, c] =>
      match p.toNat?, c.toNat? with
      | some p, some c =>
        if st.used.contains c then (st, "bad-op")
        else ({ sys := s.established p c, used := c :: st.used }, "ok")
      | _, _ => (st, "bad-op")
    | ["closed", p, c] =>
      match p.toNat?, c.toNat? with
      | some p, some c =>
        if peerOf s c == some p then ({ st with sys := s.closed p c }, "ok") else (st, "bad-op")
      | _, _ => (st, "bad-op")
    | ["open", i, p] =>
      match i.toNat?, p.toNat? with
      | some i, some p =>
        if i ≥ s.svcs.length then (st, "bad-op") else
        let r := s.open i p
        ({ st with sys := r.1 }, match r.2 with
          | .ok (sid, c) => s!"ok {sid} {c}"
          | .error .peerDoesNotExist => "err no-peer"
          | .error .connectionClosed => "err closed"
          | .error .channelClogged => "err clogged")
      | _, _ => (st, "bad-op")
    | ["recv", c] =>
      match c.toNat? with
      | some c =>
        if (peerOf s c).isNone then (st, "gone") else
        let r := s.recv c
        ({ st with sys := r.1 }, match r.2 with
          | .cmd cmd => s!"open {cmd.sid} {cmd.proto} " ++ (if cmd.ka then "Y" else "N")
          | .empty => "empty"
          | .none_ => "none")
      | none => (st, "bad-op")
    | ["subopen", c, sid] =>
      match c.toNat? with
      | some c =>
        match pickSid s c sid with
        | some sid =>
          match s.subOpen c sid with
          | some s' => ({ st with sys := s' }, s!"ok {sid}")
          | none => (st, "unknown")
        | none => (st, if sid = "*" || sid.toNat?.isSome then "unknown" else "bad-op")
      | none => (st, "bad-op")
    | ["subfail", c, sid] =>
      match c.toNat? with
      | some c =>
        match pickSid s c sid with
        | some sid =>
          match s.subFail c sid with
          | some s' => ({ st with sys := s' }, s!"ok {sid}")
          | none => (st, "unknown")
        | none => (st, if sid = "*" || sid.toNat?.isSome then "unknown" else "bad-op")
      | none => (st, "bad-op")
    | ["subin", c, i] =>
      match c.toNat?, i.toNat? with
      | some c, some i =>
        if i ≥ s.svcs.length || (peerOf s c).isNone then (st, "unknown") else
        let r := s.subInbound c i
        ({ st with sys := r.1 }, if r.2 then "ok" else "err no-permit")
      | _, _ => (st, "bad-op")
    | ["dropsub", i, k] =>
      match i.toNat?, k.toNat? with
      | some i, some k =>
        match s.dropSub i k with
        | some s' => ({ st with sys := s' }, "ok")
        | none => (st, "unknown")
      | _, _ => (st, "bad-op")
    | ["adv", ms] =>
      match ms.toNat? with
      | some ms => ({ st with sys := s.advance ms }, "ok")
      | none => (st, "bad-op")
    | ["next"] =>
      let (s', texts, bug) := nextAll (s.svcs.length + 1) 0 s []
      match bug with
      | some _ => ({ st with sys := s' }, "panic debug-assert " ++ joinWith " " texts)
      | none => ({ st with sys := s' }, joinWith " " texts ++ " " ++ showState s')
    | _ => (st, "bad-op")

end Litep2pVerif.Driver.C09
