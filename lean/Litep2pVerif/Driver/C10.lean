import Litep2pVerif.Common.Parse
import Litep2pVerif.Generated.Consts
import Litep2pVerif.Model.Addr.Manager
import Litep2pVerif.Model.Addr.Listener
/-!
Line-protocol driver for the address-book model (C10).

Addresses are multiaddr strings with `P<n>` in place of peer ids (`P0` = local peer). The parser
covers the grammar emitted by `checks/c10.py` (canonical textual IP forms); it computes the IP
attributes (`is_unspecified`, `is_loopback`, `IpNetwork::is_global`) that the model takes as data.

Checker mode: an op line may end in ` -> <observation of the implementation>`. Where the real code
depends on hash-map iteration order (eviction victim among equal minima, order of equal scores in
`addresses(limit)`, order in which `add_known_address` inserts), the driver permutes the model's
association list (a permutation never changes what the model store *is*) so that the model's
deterministic functions follow the implementation's choice if that choice is allowed; otherwise
the model's own answer is printed and the comparison fails.
-/
namespace Litep2pVerif.Driver.C10
open Litep2pVerif Litep2pVerif.Addr Parse

/-! ## Scores from the regenerated constants -/

def scores : Scores :=
  { established := (Consts.ADDR_CONNECTION_ESTABLISHED : Int)
    failure := -(Consts.ADDR_CONNECTION_FAILURE_NEG : Int)
    addressFailure := I32_MIN
    bonus := (Consts.ADDR_PUBLIC_ADDRESS_BONUS : Int) }

/-! ## Address text -/

def strNat (s : String) : Nat := s.toList.foldl (fun acc c => acc * 256 + c.toNat % 256) 1

def ip4Global (a b c d : Nat) : Bool :=
  if a = 192 ∧ b = 0 ∧ c = 0 ∧ (d = 9 ∨ d = 10) then true
  else
    !(a = 0) && !(a = 10) && !(a = 172 ∧ 16 ≤ b ∧ b ≤ 31) && !(a = 192 ∧ b = 168) &&
    !(a = 192 ∧ b = 0 ∧ c = 0) && !(a = 100 ∧ 64 ≤ b ∧ b ≤ 127) && !(a = 127) &&
    !(a = 169 ∧ b = 254) && !(a = 255 ∧ b = 255 ∧ c = 255 ∧ d = 255) &&
    !(a = 192 ∧ b = 0 ∧ c = 2) && !(a = 198 ∧ b = 51 ∧ c = 100) && !(a = 203 ∧ b = 0 ∧ c = 113) &&
    !(a = 198 ∧ (b = 18 ∨ b = 19)) && !(240 ≤ a)

def parseIp4 (s : String) : Option Ip :=
  match (s.splitOn ".").map String.toNat? with
  | [some a, some b, some c, some d] =>
    if a < 256 ∧ b < 256 ∧ c < 256 ∧ d < 256 then
      let v := ((a * 256 + b) * 256 + c) * 256 + d
      some ⟨v, v == 0, a == 127, ip4Global a b c d⟩
    else none
  | _ => none

def hexGroups (s : String) : Option (List Nat) :=
  if s.isEmpty then some []
  else (s.splitOn ":").mapM (fun g => if g.isEmpty ∨ g.length > 4 then none else hexNat? g)

def ip6Global (segs : List Nat) : Bool :=
  let s0 := segs.headD 0
  let s1 := (segs.drop 1).headD 0
  let v := segs.foldl (fun acc g => acc * 65536 + g) 0
  if s0 / 256 = 255 then s0 % 16 = 14          -- multicast: global scope only
  else !(v = 1) && !(s0 / 64 = 0xfe80 / 64) && !(s0 / 64 = 0xfec0 / 64) && !(s0 / 512 = 0xfc00 / 512) &&
    !(v = 0) && !(s0 = 0x2001 ∧ s1 = 0xdb8)

def parseIp6 (s : String) : Option Ip :=
  let segs? : Option (List Nat) :=
    match s.splitOn "::" with
    | [whole] => (hexGroups whole).bind (fun g => if g.length = 8 then some g else none)
    | [l, r] =>
      match hexGroups l, hexGroups r with
      | some gl, some gr =>
        if gl.length + gr.length ≤ 7 then some (gl ++ List.replicate (8 - gl.length - gr.length) 0 ++ gr) else none
      | _, _ => none
    | _ => none
  segs?.map fun segs =>
    let v := segs.foldl (fun acc g => acc * 65536 + g) 0
    ⟨v, v == 0, v == 1, ip6Global segs⟩

def parsePeerTok (s : String) : Option Nat :=
  if s.startsWith "P" then (s.drop 1).toString.toNat? else none

/-- Tags of `other` protocols that take one argument. -/
def argTags : List String := ["sctp", "memory", "dnsaddr", "dccp", "onion", "unix", "ip6zone", "sni", "certhash"]

/-- Components with the text of each (table of first appearances). -/
abbrev Names := List (Comp × String)

partial def parseComps : List String → Option (List (Comp × String))
  | [] => some []
  | tag :: rest =>
    let one (c : Comp) (txt : String) (more : List String) : Option (List (Comp × String)) :=
      (parseComps more).map (fun l => (c, txt) :: l)
    match tag, rest with
    | "ip4", a :: more => (parseIp4 a).bind fun ip => one (.ip4 ip) ("/ip4/" ++ a) more
    | "ip6", a :: more => (parseIp6 a).bind fun ip => one (.ip6 ip) ("/ip6/" ++ a) more
    | "dns", h :: more => one (.dns (strNat h)) ("/dns/" ++ h) more
    | "dns4", h :: more => one (.dns4 (strNat h)) ("/dns4/" ++ h) more
    | "dns6", h :: more => one (.dns6 (strNat h)) ("/dns6/" ++ h) more
    | "tcp", p :: more => p.toNat?.bind fun p' => one (.tcp p') ("/tcp/" ++ p) more
    | "udp", p :: more => p.toNat?.bind fun p' => one (.udp p') ("/udp/" ++ p) more
    | "p2p", p :: more => (parsePeerTok p).bind fun q => one (.p2p q) ("/p2p/" ++ p) more
    | "ws", more => one .ws "/ws" more
    | "wss", more => one .wss "/wss" more
    | "quic-v1", more => one .quicV1 "/quic-v1" more
    | t, more =>
      if t.isEmpty then none
      else if ["ip4", "ip6", "dns", "dns4", "dns6", "tcp", "udp", "p2p"].contains t then none   -- argument missing
      else if argTags.contains t then
        match more with
        | a :: more' => one (.other (strNat (t ++ "/" ++ a))) ("/" ++ t ++ "/" ++ a) more'
        | [] => none
      else one (.other (strNat t)) ("/" ++ t) more

def parseAddr (s : String) : Option (List (Comp × String)) :=
  match s.splitOn "/" with
  | "" :: toks => if toks.isEmpty then none else parseComps toks
  | _ => none

/-- Ports chosen by the operating system are written `@k`; the driver represents `@k` as `portBase + k`. -/
def portBase : Nat := 100000

def showPort (p : Nat) : String := if portBase ≤ p then "@" ++ toString (p - portBase) else toString p

def renderComp (names : Names) (c : Comp) : String :=
  match c with
  | .tcp p => "/tcp/" ++ showPort p
  | .udp p => "/udp/" ++ showPort p
  | .p2p q => "/p2p/P" ++ toString q
  | .ws => "/ws"
  | .wss => "/wss"
  | .quicV1 => "/quic-v1"
  | c => match names.find? (fun e => e.1 == c) with
    | some e => e.2
    | none => "/?"

def renderAddr (names : Names) (a : Multiaddr) : String := String.join (a.map (renderComp names))

/-! ## State -/

structure State where
  mgr : Option Mgr := none
  names : Names := []
  /-- Listener part: listeners of the last `bind` and its `DialAddresses`. -/
  bound : List Bound := []
  dialAddrs : Dial := .noReuse
  /-- Number of `@k` ports known so far. -/
  nports : Nat := 0
  /-- `PublicAddresses` of the manager. -/
  pub : List Multiaddr := []

def init : State := {}

/-- Parse an address token, recording the text of its components. -/
def State.addr (st : State) (tok : String) : Option (State × Multiaddr) :=
  (parseAddr tok).map fun l =>
    ({ st with names := l.foldl (fun ns e => if ns.any (fun x => x.1 == e.1) then ns else ns ++ [e]) st.names },
     l.map (·.1))

def insertSorted (s : String) : List String → List String
  | [] => [s]
  | x :: xs => if s < x then s :: x :: xs else x :: insertSorted s xs

def sortStrings (l : List String) : List String := l.foldr insertSorted []

def showRec (names : Names) (r : Rec) : String := renderAddr names r.addr ++ "=" ++ toString r.score

def showStoreRecs (names : Names) (rs : List Rec) : String :=
  "[" ++ ",".intercalate (sortStrings (rs.map (showRec names))) ++ "]"

def showStore (st : State) (m : Mgr) (peer : Nat) : String :=
  match lookupCtx peer m.peers with
  | none => "none"
  | some c => showStoreRecs st.names c.store.recs

def showAddrs (names : Names) (as : List Multiaddr) : String :=
  "[" ++ ",".intercalate (as.map (renderAddr names)) ++ "]"

/-! ## Hints from the implementation's observation (checker mode) -/

/-- Items of a bracketed list `[a,b,c]`. -/
def bracketItems (s : String) : Option (List String) :=
  if s.startsWith "[" ∧ s.endsWith "]" then
    let inner := ((s.drop 1).toString.dropEnd 1).toString
    some (if inner.isEmpty then [] else inner.splitOn ",")
  else none

/-- The store part (`… | [a=1,b=2]`) of an observation, as rendered items. -/
def hintStore (obs : Option String) : Option (List String) :=
  obs.bind fun o => match o.splitOn " | " with
    | [_, s] => bracketItems s
    | _ => none

/-- Move the first record satisfying `p` to the front (a permutation). -/
def toFront (p : Rec → Bool) (rs : List Rec) : List Rec :=
  match rs.find? p with
  | some r => r :: rs.erase r
  | none => rs

def minScore (rs : List Rec) : Option Int := (minRec rs).map (·.score)

/-- Records of minimal score that the implementation's resulting store no longer contains:
candidates for the eviction victim. -/
def victims (names : Names) (rs : List Rec) (target : List String) : List Rec :=
  match minScore rs with
  | none => []
  | some m => rs.filter (fun r => r.score == m && !target.contains (showRec names r))

/-- Permute the store so that `minRec` picks a victim consistent with the implementation. -/
def guideStore (names : Names) (target : Option (List String)) (s : Store) : Store :=
  match target with
  | none => s
  | some t =>
    match victims names s.recs t with
    | v :: _ => { s with recs := toFront (fun r => r == v) s.recs }
    | [] => s

def guideMgr (m : Mgr) (names : Names) (target : Option (List String)) (peer : Nat) : Mgr :=
  match lookupCtx peer m.peers with
  | none => m
  | some c => { m with peers := setCtx peer { c with store := guideStore names target c.store } m.peers }

/-- Permute the store so that the stable sort yields the implementation's selection `sel`
(rendered addresses, in order) if that selection is a possible one. -/
def guideSelection (names : Names) (sel : Option (List String)) (s : Store) : Store :=
  match sel with
  | none => s
  | some l =>
    let picked := l.filterMap (fun t => s.recs.find? (fun r => renderAddr names r.addr == t))
    if picked.length = l.length then
      { s with recs := picked ++ s.recs.filter (fun r => !picked.contains r) }
    else s

def permutations : List Multiaddr → List (List Multiaddr)
  | [] => [[]]
  | x :: xs => (permutations xs).flatMap (fun p => (List.range (p.length + 1)).map (fun i => p.insertIdx i x))

/-- All stores reachable by inserting `rs` in this order, trying every eviction victim that is
consistent with the target (`fuel` bounds the search). -/
def insertAllGuided (names : Names) (sc : Scores) (target : List String) : List Rec → Store → List Store
  | [], s => [s]
  | r :: rs, s =>
    let cands :=
      if hasAddr s.recs r.addr || decide (s.recs.length < s.cap) then [s]
      else
        let vs := match victims names s.recs target with
          | [] => (match minScore s.recs with
                   | some m => s.recs.filter (fun (x : Rec) => x.score == m)
                   | none => [])
          | vs => vs
        if vs.isEmpty then [s] else vs.map (fun v => { s with recs := toFront (fun x => x == v) s.recs })
    cands.flatMap (fun s' => insertAllGuided names sc target rs (insert sc s' r))

/-- Search an insertion order (and victims) of `add_known_address` matching the implementation. -/
def searchAddKnown (names : Names) (sc : Scores) (target : Option (List String)) (s : Store)
    (as : List Multiaddr) : Store :=
  let dflt := extend sc s (as.filterMap Rec.fromMultiaddr)
  match target with
  | none => dflt
  | some t =>
    let want := sortStrings t
    let perms := if as.length ≤ 5 then permutations as else [as]
    let all := perms.flatMap (fun p => insertAllGuided names sc t (p.filterMap Rec.fromMultiaddr) s)
    match all.find? (fun s' => sortStrings (s'.recs.map (showRec names)) == want) with
    | some s' => s'
    | none => dflt


/-! ## Listener part (`bind`, `localdial`, `accept`, `dns`, `resolve`) -/

/-- Replace `/tcp/@k` and `/udp/@k` by the driver's numeric form; `none` if `k` is not a known port. -/
def substPorts (nports : Nat) (s : String) : Option String :=
  let rec go : List String → Option (List String)
    | [] => some []
    | t :: rest =>
      if t.startsWith "@" then
        match (t.drop 1).toString.toNat? with
        | some k => if k < nports then (go rest).map (fun r => toString (portBase + k) :: r) else none
        | none => none
      else (go rest).map (fun r => t :: r)
  (go (s.splitOn "/")).map (fun l => "/".intercalate l)

def State.laddr (st : State) (tok : String) : Option (State × Multiaddr) :=
  (substPorts st.nports tok).bind st.addr

def laddrsOf (st : State) : List String → Option (State × List Multiaddr)
  | [] => some (st, [])
  | t :: ts =>
    match st.laddr t with
    | none => none
    | some (st', a) => (laddrsOf st' ts).map fun (st'', as) => (st'', a :: as)

/-- Text of an IP address (from the table of first appearances). -/
def ipText (names : Names) (ip : IpAddr) : String :=
  match ip with
  | .v4 a => if a.val == 0 then "0.0.0.0" else
      match names.find? (fun e => e.1 == Comp.ip4 a) with
      | some e => (e.2.drop 5).toString
      | none => "?"
  | .v6 a => if a.val == 0 then "::" else
      match names.find? (fun e => e.1 == Comp.ip6 a) with
      | some e => (e.2.drop 5).toString
      | none => "?"

def showSock (names : Names) (s : SockAddr) : String :=
  match s.ip with
  | .v4 _ => ipText names s.ip ++ ":" ++ showPort s.port
  | .v6 _ => "[" ++ ipText names s.ip ++ "]:" ++ showPort s.port

/-- Parse a bare IP address, recording its text. -/
def State.ip (st : State) (txt : String) : Option (State × IpAddr) :=
  let reg (st : State) (c : Comp) (t : String) : State :=
    { st with names := if st.names.any (fun x => x.1 == c) then st.names else st.names ++ [(c, t)] }
  if txt.contains ':' then (parseIp6 txt).map fun ip => (reg st (.ip6 ip) ("/ip6/" ++ txt), .v6 ip)
  else (parseIp4 txt).map fun ip => (reg st (.ip4 ip) ("/ip4/" ++ txt), .v4 ip)

def ipsOf (st : State) : List String → Option (State × List IpAddr)
  | [] => some (st, [])
  | t :: ts =>
    match st.ip t with
    | none => none
    | some (st', a) => (ipsOf st' ts).map fun (st'', as) => (st'', a :: as)

/-- `key=value` fields of an observation. -/
def obsField (obs : Option String) (key : String) : Option String :=
  obs.bind fun o => (o.splitOn " ").findSome? fun t =>
    if t.startsWith (key ++ "=") then some (t.drop (key.length + 1)).toString else none

/-- `ip:port` / `[ip]:port` as text pair. -/
def splitSock (s : String) : Option (String × String) :=
  if s.startsWith "[" then
    match (s.drop 1).toString.splitOn "]:" with
    | [ip, p] => some (ip, p)
    | _ => none
  else match s.splitOn ":" with
    | [ip, p] => some (ip, p)
    | _ => none

def parsePortTok (p : String) : Option Nat :=
  if p.startsWith "@" then (p.drop 1).toString.toNat?.map (portBase + ·) else p.toNat?

/-- The operating system's answers, reconstructed from the observed list of bound sockets: each
bind attempt (in order) succeeded iff the next observed socket is the one it asked for. -/
def osFrom (targets : List SockAddr) (seen : List (IpAddr × Nat)) : List (Option Nat) :=
  match targets, seen with
  | [], _ => []
  | _ :: ts, [] => none :: osFrom ts []
  | t :: ts, (ip, p) :: more =>
    if ip == t.ip && (t.port == 0 || t.port == p) then some p :: osFrom ts more
    else none :: osFrom ts ((ip, p) :: more)

def showBind (st : State) (bs : List Bound) (d : Dial) (ifacesTxt : String) : String :=
  let back := (reportedAddrs bs).map fun m =>
    match tcpParse m with
    | .ok ⟨.ip4 i, p, none⟩ => showSock st.names ⟨.v4 i, p⟩
    | .ok ⟨.ip6 i, p, none⟩ => showSock st.names ⟨.v6 i, p⟩
    | .ok ⟨_, _, some _⟩ => "peer"
    | .ok _ => "dns"
    | .error _ => "err"
  "bound=[" ++ ",".intercalate (bs.map (fun b => showSock st.names b.sock)) ++ "] listen=" ++
    showAddrs st.names (reportedAddrs bs) ++ " back=[" ++ ",".intercalate back ++ "] dial=" ++
    (match d with
     | .noReuse => "noreuse"
     | .reuse l => "reuse:[" ++ ",".intercalate (l.map (showSock st.names)) ++ "]") ++
    " ifaces=" ++ ifacesTxt

def stepListener (st : State) (ts : List String) (obs : Option String) : Option (State × String) :=
  match ts with
  | "bind" :: rest =>
    let flags := rest.takeWhile (fun t => !t.startsWith "/")
    let addrToks := rest.drop flags.length
    match arg? "reuse" flags, arg? "nodelay" flags, laddrsOf st addrToks with
    | some reuse, some _, some (st, addrs) =>
      -- observed environment: bound sockets and interface addresses
      let boundToks := ((obsField obs "bound").bind bracketItems).getD []
      let ifTxt := (obsField obs "ifaces").getD "-"
      let ifToks : Option (List String) := bracketItems ifTxt
      let (st, seen) := boundToks.foldl (fun (acc : State × List (IpAddr × Nat)) t =>
        match splitSock t with
        | some (ipT, pT) =>
          match acc.1.ip ipT, parsePortTok pT with
          | some (st', ip), some p => (st', acc.2 ++ [(ip, p)])
          | _, _ => acc
        | none => acc) (st, [])
      let (st, ifaces) : State × Option (List IpAddr) := match ifToks with
        | none => (st, none)
        | some toks => match ipsOf st toks with
          | some (st', l) => (st', some l)
          | none => (st, some [])
      let targets := addrs.filterMap bindTarget
      let os := osFrom targets seen
      let bs := bindAll ifaces os addrs
      let d := dialAddresses (reuse == "1") bs
      let newPorts := seen.foldl (fun n e => if portBase ≤ e.2 then max n (e.2 - portBase + 1) else n) st.nports
      let st := { st with bound := bs, dialAddrs := d, nports := newPorts }
      some (st, showBind st bs d ifTxt)
    | _, _, _ => some (st, "bad-op")
  | ["localdial", ipT] =>
    match st.ip ipT with
    | none => some (st, "bad-op")
    | some (st, ip) =>
      match localDial st.dialAddrs ip with
      | .ok none => some (st, "ok none")
      | .ok (some s) => some (st, "ok " ++ showSock st.names s)
      | .error _ => some (st, "err")
  | ["accept", k] =>
    match k.toNat? with
    | none => some (st, "bad-op")
    | some k =>
      match (reportedSockets st.bound)[k]? with
      | none => some (st, "none")
      | some s => some (st, "ok " ++ showSock st.names s ++ " peer=1")
  | ["dns", _, "fail"] => some (st, "ok")
  | ["dns", _, a, aaaa] =>
    let okA := a == "-" || (a.splitOn ",").all (fun x => (parseIp4 x).isSome)
    let okB := aaaa == "-" || (aaaa.splitOn ",").all (fun x => x.contains ':' && (parseIp6 x).isSome)
    some (st, if okA && okB then "ok" else "bad-op")
  | ["resolve", a] =>
    match st.laddr a with
    | none => some (st, "bad-op")
    | some (st, a) =>
      match tcpParse a with
      | .error _ => some (st, "err parse")
      | .ok p =>
        let kind := match p.host with
          | .ip4 _ => "socket" | .ip6 _ => "socket" | .dns _ => "dns" | .dns4 _ => "dns4" | .dns6 _ => "dns6"
        let ansTxt := (obsField obs "ans").getD (if kind == "socket" then "-" else "fail")
        let (st, answer) : State × Option (List IpAddr) := match bracketItems ansTxt with
          | none => (st, none)
          | some toks => match ipsOf st toks with
            | some (st', l) => (st', some l)
            | none => (st, none)
        let res := match lookupIp p.host p.port answer with
          | .ok s => "ok " ++ showSock st.names s
          | .error .resolve => "err resolve"
          | .error .mismatch => "err mismatch"
        some (st, kind ++ " ans=" ++ ansTxt ++ " " ++ res)
  | _ => none

/-! ## Steps -/

def parseScore (s : String) : Option Int :=
  if s = "max" then some I32_MAX
  else if s = "min" then some I32_MIN
  else s.toInt?.bind fun v => if I32_MIN ≤ v ∧ v ≤ I32_MAX then some v else none

def parseConn (s : String) : Option Nat :=
  if s.startsWith "c" then (s.drop 1).toString.toNat? else none

def presetPeers : List Nat := [1, 2, 3, 4]

def showEv : EvOut → String
  | .ok => "ok"
  | .invalidState => "err"
  | .bug => "panic debug-assert"

def addrsOf (st : State) : List String → Option (State × List Multiaddr)
  | [] => some (st, [])
  | t :: ts =>
    match st.addr t with
    | none => none
    | some (st', a) => (addrsOf st' ts).map fun (st'', as) => (st'', a :: as)

def stepOpMgr (st : State) (ts : List String) (obs : Option String) : State × String :=
  match ts, st.mgr with
  | "cfg" :: rest, _ =>
    match arg? "tcp" rest, arg? "maxout" rest, arg? "cap" rest with
    | some tcp, some mo, some cap =>
      let mo? : Option (Option Nat) := if mo = "none" then some none else mo.toNat?.map some
      let cap? : Option (Option Nat) :=
        if cap = "default" then some none else cap.toNat?.bind fun n => if 1 ≤ n then some (some n) else none
      match mo?, cap? with
      | some maxOut, some capo =>
        let m := Mgr.init 0 (tcp == "1") maxOut Consts.ADDR_MAX_ADDRESSES scores
        let m := match capo with
          | none => m
          | some n => { m with peers := presetPeers.map (fun p => (p, ⟨.disconnected, ⟨[], n⟩⟩)) }
        ({ st with mgr := some m, names := [], pub := [] }, "ok")
      | _, _ => (st, "bad-op")
    | _, _, _ => (st, "bad-op")
  | _, none => (st, "bad-op")
  | ["listen", a], some m =>
    match st.addr a with
    | none => (st, "bad-op")
    | some (st, a) =>
      match m.registerListen a with
      | none => (st, "panic assert")
      | some m' => ({ st with mgr := some m' }, "ok")
  | ["supported", a], some m =>
    match st.addr a with
    | none => (st, "bad-op")
    | some (st, a) => (st, toString (supportedTransport m.tcp a))
  | ["islocal", a], some m =>
    match st.addr a with
    | none => (st, "bad-op")
    | some (st, a) => (st, toString (isLocalAddress m.listen a))
  | ["parse", a], some _ =>
    match st.addr a with
    | none => (st, "bad-op")
    | some (st, a) =>
      match tcpParse a with
      | .error _ => (st, "err invalid-protocol")
      | .ok p =>
        let kind := match p.host with
          | .ip4 _ => "ip4" | .ip6 _ => "ip6" | .dns _ => "dns" | .dns4 _ => "dns4" | .dns6 _ => "dns6"
        (st, "ok " ++ kind ++ " " ++ toString p.port ++ " " ++
          (match p.peer with | some q => "P" ++ toString q | none => "none"))
  | "addknown" :: p :: addrs, some m =>
    match parsePeerTok p, addrsOf st addrs with
    | some peer, some (st, as) =>
      let adm := admitted m.tcp m.listen peer as
      let store' := searchAddKnown st.names m.sc (hintStore obs) (m.ctx peer).store adm
      let m' := m.modify peer (fun c => { c with store := store' })
      ({ st with mgr := some m' }, toString adm.length ++ " | " ++ showStore st m' peer)
    | _, _ => (st, "bad-op")
  | ["insert", p, a, s], some m =>
    match parsePeerTok p, st.addr a, parseScore s with
    | some peer, some (st, a), some score =>
      let m' := (guideMgr m st.names (hintStore obs) peer).rawInsert peer ⟨a, score⟩
      if insertPanics (m.ctx peer).store ⟨a, score⟩ then (st, "panic expect")
      else ({ st with mgr := some m' }, "ok | " ++ showStore st m' peer)
    | _, _, _ => (st, "bad-op")
  | ["list", p, lim], some m =>
    let lim? : Option (Option Nat) := if lim = "max" then some none else lim.toNat?.map some
    match parsePeerTok p, lim? with
    | some peer, some limit =>
      match lookupCtx peer m.peers with
      | none => (st, "none")
      | some c =>
        let s := guideSelection st.names (obs.bind bracketItems) c.store
        (st, showAddrs st.names (addresses s limit))
    | _, _ => (st, "bad-op")
  | ["store", p], some m =>
    match parsePeerTok p with
    | some peer => (st, showStore st m peer)
    | none => (st, "bad-op")
  | ["scorefail", a, e], some m =>
    let e? : Option Bool := if e = "addrerr" then some true else if e = "timeout" then some false else none
    match st.addr a, e? with
    | some (st, a), some ae =>
      match lastP2p a with
      | none => (st, "ok | -")
      | some owner =>
        let m' := (guideMgr m st.names (hintStore obs) owner).updateOnDialFailure a ae
        ({ st with mgr := some m' }, "ok | " ++ showStore st m' owner)
    | _, _ => (st, "bad-op")
  | ["established", p, a, role], some m =>
    let l? : Option Bool := if role = "listener" then some true else if role = "dialer" then some false else none
    match parsePeerTok p, st.addr a, l? with
    | some peer, some (st, a), some listener =>
      let m' := (guideMgr m st.names (hintStore obs) peer).updateOnEstablished peer a listener
      ({ st with mgr := some m' }, "ok | " ++ showStore st m' peer)
    | _, _, _ => (st, "bad-op")
  | ["dial", p], some m =>
    match parsePeerTok p with
    | some peer =>
      -- selection hint: `open cN [a,b] | store`
      let sel : Option (List String) := obs.bind fun o =>
        match (o.splitOn " | ").headD "" |>.splitOn " " with
        | ["open", _, l] => bracketItems l
        | _ => none
      let m0 := match lookupCtx peer m.peers with
        | none => m
        | some c => { m with peers := setCtx peer { c with store := guideSelection st.names sel c.store } m.peers }
      let (m', out) := m0.dial peer
      let head := match out with
        | .limit => "err limit"
        | .self => "err self"
        | .inProgress => "inprogress"
        | .noAddress => "err no-address"
        | .started c (some as) => "open c" ++ toString c ++ " " ++ showAddrs st.names as
        | .started c none => "noopen c" ++ toString c
      ({ st with mgr := some m' }, head ++ " | " ++ showStore st m' peer)
    | none => (st, "bad-op")
  | ["opened", c, a], some m =>
    match parseConn c, st.addr a with
    | some conn, some (st, a) =>
      match lookupPending conn m.pending with
      | none => (st, "panic debug-assert")
      | some owner =>
        let (m', out) := (guideMgr m st.names (hintStore obs) owner).onConnectionOpened conn a
        match out with
        | .bug => ({ st with mgr := some m' }, "panic expect")
        | o => ({ st with mgr := some m' }, showEv o ++ " | " ++ showStore st m' owner)
    | _, _ => (st, "bad-op")
  | ["openfail", c], some m =>
    match parseConn c with
    | some conn =>
      let (m', out) := m.onOpenFailure conn
      ({ st with mgr := some m' }, showEv out)
    | none => (st, "bad-op")
  | ["dialfailed", c], some m =>
    match parseConn c with
    | some conn =>
      let (m', out) := m.onDialFailure conn
      ({ st with mgr := some m' }, showEv out)
    | none => (st, "bad-op")
  | ["occupy"], some m => ({ st with mgr := some m.occupy }, "ok")
  | ["hdial", p], some m =>
    match parsePeerTok p with
    | some peer =>
      let sel : Option (List String) := obs.bind fun o =>
        match (o.splitOn " | ").headD "" |>.splitOn " " with
        | ["ok", "open", _, l] => bracketItems l
        | _ => none
      let m0 := match lookupCtx peer m.peers with
        | none => m
        | some c => { m with peers := setCtx peer { c with store := guideSelection st.names sel c.store } m.peers }
      let (m', g, r) := m0.handleDial peer
      let head := match g with
        | .self => "err self"
        | .noAddress => "err no-address"
        | .inProgress => "ok"
        | .queued => "ok"
      let did := match r with
        | some (.started c (some as)) => "open c" ++ toString c ++ " " ++ showAddrs st.names as
        | some (.started c none) => "noopen c" ++ toString c
        | _ => "idle"
      ({ st with mgr := some m' }, head ++ " " ++ did ++ " | " ++ showStore st m' peer)
    | none => (st, "bad-op")
  | ["hdialaddr", a], some _ =>
    match st.addr a with
    | none => (st, "bad-op")
    | some (st, a) =>
      match lastP2p a with
      | some _ => (st, "ok queued=1")
      | none => (st, "err peer-id-missing queued=0")
  | ["pubadd", a], some m =>
    match (if a == "-" then some (st, []) else st.addr a) with
    | none => (st, "bad-op")
    | some (st, a) =>
      let (set, r) := publicAdd m.localPeer st.pub a
      let head := match r with
        | .ok true => "ok new"
        | .ok false => "ok known"
        | .error .empty => "err empty"
        | .error .differentPeer => "err different-peer"
      ({ st with pub := set }, head ++ " | [" ++ ",".intercalate (sortStrings (set.map (renderAddr st.names))) ++ "]")
  | ["pubrm", a], some _ =>
    match (if a == "-" then some (st, []) else st.addr a) with
    | none => (st, "bad-op")
    | some (st, a) =>
      let (set, r) := publicRemove st.pub a
      ({ st with pub := set }, toString r ++ " | [" ++ ",".intercalate (sortStrings (set.map (renderAddr st.names))) ++ "]")
  | ["listening"], some m =>
    (st, "[" ++ ",".intercalate ((sortStrings (m.listen.map (renderAddr st.names))).eraseDups) ++ "]")
  | "bulk" :: kind :: items, some m =>
    let parseItem (st : State) (item : String) : Option (State × Rec) :=
      match item.splitOn "=" with
      | [a] => (st.addr a).map fun (st', a') => (st', ⟨a', 0⟩)
      | [a, sc] => match st.addr a, parseScore sc with
        | some (st', a'), some v => some (st', ⟨a', v⟩)
        | _, _ => none
      | _ => none
    let rec go (st : State) : List String → Option (State × List Rec)
      | [] => some (st, [])
      | i :: is => match parseItem st i with
        | none => none
        | some (st', r) => (go st' is).map fun (st'', rs) => (st'', r :: rs)
    match go st items with
    | none => (st, "bad-op")
    | some (st, recs) =>
      let recs? : Option (List Rec) :=
        if kind == "multiaddr" then some (recs.filterMap (fun r => Rec.fromMultiaddr r.addr))
        else if kind == "raw" then some (recs.map (fun r => { r with score := 0 }))
        else if kind == "record" || kind == "ref" then some recs
        else none
      match recs? with
      | none => (st, "bad-op")
      | some rs =>
        let store := extend m.sc ⟨[], Consts.ADDR_MAX_ADDRESSES⟩ rs
        (st, showStoreRecs st.names store.recs ++ " ord=1")
  | _, _ => (st, "bad-op")

def stepOp (st : State) (ts : List String) (obs : Option String) : State × String :=
  match stepListener st ts obs with
  | some r => r
  | none => stepOpMgr st ts obs

def step (st : State) (line : String) : State × String :=
  match line.splitOn " -> " with
  | [op] => stepOp st (tokens op) none
  | [op, obs] => stepOp st (tokens op) (some obs)
  | _ => (st, "bad-op")

end Litep2pVerif.Driver.C10
