import Litep2pVerif.Common.Parse
import Litep2pVerif.Model.Conn.Loop
/-! Line-protocol driver for the C07 models: S1 operations on the `ProtocolSet` model, and `s2`
scenario lines for which the loop / manager / accept models predict the observation of two real
nodes. -/
namespace Litep2pVerif.Driver.C07
open Litep2pVerif Litep2pVerif.Conn Parse

structure State where
  ps : Option PSet := none

def init : State := {}

def showCall : Call → String
  | .idle => "idle"
  | .protoSends _ _ _ => "blocked"
  | .mgrSend _ => "blocked"
  | .result _ true => "ok"
  | .result _ false => "err"

def showChan (c : Chan) : String := if c.alive then toString c.queue.length else "x"

def snapshot (ps : PSet) : String :=
  "call=" ++ showCall ps.call ++ " q=" ++ joinWith "," (ps.chans.map showChan) ++ " m=" ++ showChan ps.mgr

def letter : Msg → String
  | .established => "E" | .closed => "C" | .substreamOpened => "O" | .openFailure => "X" | .filler => "F"

def inFlight (ps : PSet) : Bool :=
  match ps.call with
  | .protoSends _ _ _ => true
  | .mgrSend _ => true
  | _ => false

def s1 (ps : PSet) (ts : List String) : Option (PSet × String) :=
  match ts with
  | ["drop_receiver", i] =>
    match i.toNat? with
    | some i => if i < ps.chans.length then some (envStep ps (.drop i), "ok") else some (ps, "none")
    | none => some (ps, "none")
  | ["fill_channel", i] =>
    match i.toNat? with
    | some i => if i < ps.chans.length then some (envStep ps (.fill i), "ok") else some (ps, "none")
    | none => some (ps, "none")
  | ["recv", i] =>
    match i.toNat? with
    | some i =>
      match ps.chans[i]? with
      | some c =>
        match (if c.alive then c.queue.head? else none) with
        | some m =>
          let ps := if m = .established then { ps with held := ps.held + 1 } else ps
          some (envStep ps (.recv i), letter m)
        | none => some (ps, "none")
      | none => some (ps, "none")
    | none => some (ps, "none")
  | ["drop_mgr"] => some (envStep ps .dropMgr, "ok")
  | ["fill_mgr"] => some (envStep ps .fillMgr, "ok")
  | ["recv_mgr"] =>
    match (if ps.mgr.alive then ps.mgr.queue.head? else none) with
    | some m => some (envStep ps .recvMgr, letter m)
    | none => some (ps, "none")
  | ["release"] => some ({ ps with held := 0 }, "ok")
  | ["permit"] => if inFlight ps then some (ps, "busy") else some (ps, if tryGetPermit ps then "some" else "none")
  | ["report_established"] => if inFlight ps then some (ps, "busy") else some (startCall ps .established, "started")
  | ["report_closed"] => if inFlight ps then some (ps, "busy") else some (startCall ps .closed, "started")
  | ["report_substream_failure", i] =>
    match i.toNat? with
    | some i => if inFlight ps then some (ps, "busy") else some (startCall ps (.substream i false), "started")
    | none => if inFlight ps then some (ps, "busy") else some (startCall ps (.substream 1000 false), "started")
  | _ => none

/-! ### S2: prediction for a two-node scenario -/

def fresh3 (dead : Option Nat) : PSet :=
  let ps : PSet := { chans := List.replicate 3 { cap := 64 }, order := [0, 1, 2], mgr := { cap := 64 } }
  match dead with
  | some d => envStep ps (.drop d)
  | none => ps

def appLetters (evs : List AppEv) : String :=
  String.join (evs.map fun e => match e with | .established _ => "E" | .closed _ => "C")

def dash (s : String) : String := if s.isEmpty then "-" else s

def s2 (cause : String) (dead : Option Nat) (before : Bool) (via : Nat) : String :=
  let ps0 := fresh3 (if before then dead else none)
  let (ps1, loop?, res) := accept ps0
  let (m1, app1) := mgrStep (.disconnected none) (.transportEstablished 1 (res == some true))
  match loop? with
  | none =>
    "A=" ++ dash (appLetters app1) ++ " unestablished"
  | some loop =>
    let told1 := fun (i : Nat) => if ps1.log.contains (.proto i .established) then "E" else ""
    let loop := match dead, before with
      | some d, false => { loop with ps := envStep loop.ps (.drop d) }
      | _, _ => loop
    let labels : List LoopEv := match cause with
      | "remote_drop" => [.yamuxEof]
      | "force_close" => [.cmdForceClose]
      | "keepalive" => [.cmdNone]
      | "dead_substream" => match dead with
        | some d => [.yamuxStream true, .negotiated (.ok d)]
        | none => []
      | "live_substream" => [.yamuxStream true, .negotiated (.ok via), .yamuxEof]
      | _ => []
    let s := run loop (labels.map .loop)
    let live := if cause = "live_substream" then
        (if s.ps.log.contains (.proto via .substreamOpened) then "ok" else "none") else "skip"
    let told2 := fun (i : Nat) => if s.ps.log.contains (.proto i .closed) then "C" else ""
    let (m2, app2) := if s.ps.log.contains .mgr then mgrStep m1 (.connClosed 1) else (m1, [])
    let first := "A=" ++ dash (appLetters (app1 ++ app2)) ++
      " P0=" ++ dash (told1 0 ++ told2 0) ++ " P1=" ++ dash (told1 1 ++ told2 1) ++ " P2=" ++ dash (told1 2 ++ told2 2)
    let redial := match m2.canDial with
      | .alreadyConnected => "already"
      | _ => "attempted"
    let live3 := [0, 1, 2].filter fun i => some i ≠ dead
    let survivor := if live3.contains via then via else live3.headD 0
    let q := fun (i : Nat) (e : String) => if told2 i = "C" then dash e else "?"
    if redial = "attempted" then
      let (psb, loopb?, resb) := accept (fresh3 dead)
      let a2 := if resb == some true then "E" else "-"
      let e := fun (i : Nat) => if psb.log.contains (.proto i .established) then "E" else ""
      let sub := match loopb? with
        | some lb =>
          let sb := run lb [.loop .cmdOpen, .loop (.negotiated (.ok survivor))]
          if sb.ps.log.contains (.proto survivor .substreamOpened) && sb.exited.isNone then "ok" else "none"
        | none => "none"
      first ++ " live=" ++ live ++ " redial=" ++ redial ++ " A2=" ++ a2 ++
        " Q0=" ++ q 0 (e 0) ++ " Q1=" ++ q 1 (e 1) ++ " Q2=" ++ q 2 (e 2) ++ " sub=" ++ sub
    else
      first ++ " live=" ++ live ++ " redial=" ++ redial ++ " A2=-" ++
        " Q0=" ++ q 0 "" ++ " Q1=" ++ q 1 "" ++ " Q2=" ++ q 2 "" ++ " sub=none"

def step (st : State) (line : String) : State × String :=
  -- checker mode: `… -> <implementation's observation>`; only `inconclusive` is taken over
  let (line, impl) := match line.splitOn " -> " with
    | [l, o] => (l, o)
    | _ => (line, "")
  let ts := tokens line
  match ts with
  | ["protocols", n, cap, mcap] =>
    match n.toNat?, cap.toNat?, mcap.toNat? with
    | some n, some cap, some mcap =>
      if n ≤ 8 then
        let ps : PSet := { chans := List.replicate n { cap := max cap 1 }, order := List.range n,
                           mgr := { cap := max mcap 1 } }
        ({ ps := some ps }, "ok " ++ snapshot ps)
      else (st, "bad-op")
    | _, _, _ => (st, "bad-op")
  | "s2" :: rest =>
    if impl = "inconclusive" then (st, "inconclusive") else
    let cause := (arg? "cause" rest).getD "remote_drop"
    let dead := ((arg? "dead" rest).bind String.toNat?).filter (· < 3)
    let before := (arg? "when" rest) = some "before"
    let via := (((arg? "via" rest).bind String.toNat?).filter (· < 3)).getD 0
    (st, s2 cause dead before via)
  | _ =>
    match st.ps with
    | none => (st, "bad-op")
    | some ps =>
      match s1 ps ts with
      | some (ps', ret) => ({ ps := some ps' }, ret ++ " " ++ snapshot ps')
      | none => (st, "bad-op")

end Litep2pVerif.Driver.C07
