import Litep2pVerif.Common.Parse
import Litep2pVerif.Model.Substream.Sink
/-!
Line-protocol driver for the substream framing model (C04), in *checker mode*: the carrier (yamux
flow control) is nondeterministic, so every line carries the implementation's observation
(`<op> -> <result> w=<bytes the carrier accepted>`). The driver turns `w` and the claimed result into
a script of inner poll results, runs the model's step on it and prints what the model produces; the
line agrees with the implementation iff the model allows the observation. Reads are deterministic:
`recv` polls to quiescence, so everything the carrier accepted is available to the reader.
-/
namespace Litep2pVerif.Driver.C04
open Litep2pVerif Litep2pVerif.Substream Parse

structure State where
  codec : Option Codec := none
  w : WState := WState.init
  r : RState := ⟨0, [], 0, none, []⟩
  /-- accepted by the carrier, not yet consumed by the reader -/
  wire : Bytes := []
  closed : Bool := false
  /-- `send_framed` in progress: buffers not yet written -/
  framed : Option (List Bytes) := none
  stopped : Bool := false
  /-- some byte was handed to the carrier: the yamux stream is open at the reader's end (the
  adapter's reader exists from then on; before, `recv` answers `pending`) -/
  started : Bool := false

def init : State := {}

/-- Inner-write script that hands exactly `w` bytes of the buffers (in order) to the carrier and is
`Pending` afterwards; `true` if every buffer was written completely. -/
def mkEvs : List Bytes → Nat → List WrEv × Bool
  | [], _ => ([], true)
  | f :: fs, w =>
    if f.length ≤ w then
      let (evs, all) := mkEvs fs (w - f.length)
      (.accept (f.length - 1) :: evs, all)
    else if 0 < w then ([.accept (w - 1), .pending], false)
    else ([.pending], false)

def framesOf (st : WState) : List Bytes :=
  (match st.frame with | some f => [f] | none => []) ++ st.frames

def showOut : Out → String
  | .frame bs => "frame " ++ toString bs.length ++ " " ++ toString (bs.headD 0) ++ " " ++
      toString (bs.foldl (fun a b => (a + b) % 1000003) 0)
  | .err .readFailure => "err read-failure"
  | .err .io => "err io"
  | .eof => "eof"
  | .pending => "pending"
  | .panic msg => "panic " ++ msg

def withW (s : String) (n : Nat) : String := s ++ " w=" ++ toString n

/-- Advance a `send_framed` in progress by `w` bytes. Returns the new state, the bytes written and
whether all buffers are written. -/
def advanceFramed (st : State) (bufs : List Bytes) (w : Nat) : State × Nat × Bool :=
  let (evs, _) := mkEvs (bufs.filter (fun b => !b.isEmpty)) w
  match writeAlls evs bufs with
  | (.done, out, _, _) => ({ st with wire := st.wire ++ out, framed := some [] }, out.length, true)
  | (_, out, rest, _) => ({ st with wire := st.wire ++ out, framed := some rest }, out.length, false)

def finishFramed (st : State) (claimed : String) (written : Nat) (allWritten : Bool) : State × String :=
  if allWritten then
    match flushAll (if claimed = "ok" then [.ready] else []) with
    | .ok => ({ st with framed := none }, withW "ok" written)
    | _ => (st, withW "pending" written)
  else (st, withW "pending" written)

/-- A writer operation while `send_framed` runs in the background: refused with `busy`; the future
still makes progress (`w`). -/
def busy (st : State) (w : Nat) : State × String :=
  match st.framed with
  | some bufs => let (s, n, _) := advanceFramed st bufs w; (s, withW "busy" n)
  | none => (st, "busy w=0")

def markStarted (st : State) : State := { st with started := st.started || !st.wire.isEmpty }

def stepCore (st : State) (line : String) : State × String :=
  let (opPart, obsPart) := match line.splitOn " -> " with
    | [a, b] => (a, b)
    | _ => (line, "")
  let ts := tokens opPart
  let obs := tokens obsPart
  let claimed := obs.headD ""
  let w := ((arg? "w" obs).bind String.toNat?).getD 0
  match ts, st.codec with
  | "codec" :: kind :: arg :: _, _ =>
    let codec? : Option Codec :=
      if kind = "identity" then arg.toNat?.map Codec.identity
      else if kind = "varint" then (if arg = "none" then some (.varint none) else arg.toNat?.map (fun m => .varint (some m)))
      else none
    match codec? with
    | some c => ({ codec := some c, r := RState.init c }, "ok w=0")
    | none => (st, "bad-op")
  | ["recv"], some codec =>
    -- a `send_framed` future in the background makes progress while the reader is polled
    let (st, written) := match st.framed with
      | some bufs => let (s, n, _) := advanceFramed st bufs w; (s, n)
      | none => (st, 0)
    let st := markStarted st
    if !st.started then (st, withW "pending" written) else
    let car : Carrier := (if st.wire.isEmpty then [] else [.data st.wire]) ++ (if st.closed then [.eof] else [])
    let (out, r', car') := pollNext codec st.r car
    ({ st with r := r', wire := carBytes car' }, withW (showOut out) written)
  | ["writer_stop"], some _ =>
    if st.framed.isSome then busy st w else ({ st with stopped := true }, "ok w=0")
  | ["wait"], some _ =>
    if st.stopped then (st, "stopped w=0") else
    match st.framed with
    | none => (st, "idle w=0")
    | some bufs =>
      let (st, written, all) := advanceFramed st bufs w
      finishFramed st claimed written all
  | "send" :: "sink" :: len :: fill :: [], some codec =>
    if st.stopped then (st, "stopped w=0") else if st.framed.isSome then busy st w else
    match len.toNat?, fill.toNat? with
    | some len, some fill =>
      let (evs, _) := mkEvs (framesOf st.w) w
      match pollReady st.w evs (if claimed = "notready" then .pending else .ready) with
      | (.ready, w', out) =>
        match startSend codec w' (List.replicate len fill) with
        | (.ok, w'') => ({ st with w := w'', wire := st.wire ++ out }, withW "ok" out.length)
        | (.refused, w'') => ({ st with w := w'', wire := st.wire ++ out }, withW "refused" out.length)
      | (.pending, w', out) => ({ st with w := w', wire := st.wire ++ out }, withW "notready" out.length)
      | (.err, w', out) => ({ st with w := w', wire := st.wire ++ out }, withW "err" out.length)
    | _, _ => (st, "bad-op")
  | ["flush"], some _ =>
    if st.stopped then (st, "stopped w=0") else if st.framed.isSome then busy st w else
    let (evs, _) := mkEvs (framesOf st.w) w
    match pollFlush evs st.w (if claimed = "ready" then .ready else .pending) with
    | (o, w', out) =>
      ({ st with w := w', wire := st.wire ++ out },
        withW (match o with | .ready => "ready" | .pending => "pending" | .err => "err") out.length)
  | "send" :: "framed" :: len :: fill :: [], some codec =>
    if st.stopped then (st, "stopped w=0") else if st.framed.isSome then busy st w else
    match len.toNat?, fill.toNat? with
    | some len, some fill =>
      match framedBufs codec (List.replicate len fill) with
      | none => (st, "refused w=0")
      | some bufs =>
        let (st, written, all) := advanceFramed st bufs w
        finishFramed st claimed written all
    | _, _ => (st, "bad-op")
  | ["raw", hex], some _ =>
    if st.stopped then (st, "stopped w=0") else if st.framed.isSome then busy st w else
    match hexBytes? hex with
    | some bs => ({ st with wire := st.wire ++ bs }, withW "ok" bs.length)
    | none => (st, "bad-op")
  | ["close"], some _ =>
    if st.stopped then (st, "stopped w=0") else if st.framed.isSome then busy st w else
    ({ st with closed := true }, "ok w=0")
  | _, _ => (st, "bad-op")

def step (st : State) (line : String) : State × String :=
  let (st', o) := stepCore st line
  (markStarted st', o)

end Litep2pVerif.Driver.C04
