import Litep2pVerif.Common.Parse
import Litep2pVerif.Model.Substream.Sink
import Litep2pVerif.Model.Substream.TokioCodec
/-!
Line-protocol driver for the substream framing model (C04), in *checker mode*: the carrier (yamux
flow control) is nondeterministic, so every line carries the implementation's observation
(`<op> -> <result> w=<bytes the carrier accepted>`). The driver turns `w` and the claimed result into
a script of inner poll results, runs the model's step on it and prints what the model produces; the
line agrees with the implementation iff the model allows the observation. Reads are deterministic:
`recv` polls to quiescence, so everything the carrier accepted is available to the reader.
-/
namespace Litep2pVerif.Driver.C04
open Litep2pVerif Litep2pVerif.Substream Parse

structure State where
  codec : Option Codec := none
  w : WState := WState.init
  r : RState := ⟨0, [], 0, none, []⟩
  /-- accepted by the carrier, not yet consumed by the reader -/
  wire : Bytes := []
  closed : Bool := false
  /-- `send_framed` in progress: buffers not yet written -/
  framed : Option (List Bytes) := none
  stopped : Bool := false
  /-- some byte was handed to the carrier: the yamux stream is open at the reader's end (the
  adapter's reader exists from then on; before, `recv` answers `pending`) -/
  started : Bool := false

def init : State := {}

/-- Inner-write script that hands exactly `w` bytes of the buffers (in order) to the carrier and is
`Pending` afterwards; `true` if every buffer was written completely. -/
def mkEvs : List Bytes → Nat → List WrEv × Bool
  | [], _ => ([], true)
  | f :: fs, w =>
    if f.length ≤ w then
      let (evs, all) := mkEvs fs (w - f.length)
      (.accept (f.length - 1) :: evs, all)
    else if 0 < w then ([.accept (w - 1), .pending], false)
    else ([.pending], false)

def framesOf (st : WState) : List Bytes :=
  (match st.frame with | some f => [f] | none => []) ++ st.frames

def showOut : Out → String
  | .frame bs => "frame " ++ toString bs.length ++ " " ++ toString (bs.headD 0) ++ " " ++
      toString (bs.foldl (fun a b => (a + b) % 1000003) 0)
  | .err .readFailure => "err read-failure"
  | .err .io => "err io"
  | .eof => "eof"
  | .pending => "pending"
  | .panic msg => "panic " ++ msg

def withW (s : String) (n : Nat) : String := s ++ " w=" ++ toString n

/-- Advance a `send_framed` in progress by `w` bytes. Returns the new state, the bytes written and
whether all buffers are written. -/
def advanceFramed (st : State) (bufs : List Bytes) (w : Nat) : State × Nat × Bool :=
  let (evs, _) := mkEvs (bufs.filter (fun b => !b.isEmpty)) w
  match writeAlls evs bufs with
  | (.done, out, _, _) => ({ st with wire := st.wire ++ out, framed := some [] }, out.length, true)
  | (_, out, rest, _) => ({ st with wire := st.wire ++ out, framed := some rest }, out.length, false)

def finishFramed (st : State) (claimed : String) (written : Nat) (allWritten : Bool) : State × String :=
  if allWritten then
    match flushAll (if claimed = "ok" then [.ready] else []) with
    | .ok => ({ st with framed := none }, withW "ok" written)
    | _ => (st, withW "pending" written)
  else (st, withW "pending" written)

/-- A writer operation while `send_framed` runs in the background: refused with `busy`; the future
still makes progress (`w`). -/
def busy (st : State) (w : Nat) : State × String :=
  match st.framed with
  | some bufs => let (s, n, _) := advanceFramed st bufs w; (s, withW "busy" n)
  | none => (st, "busy w=0")

def markStarted (st : State) : State := { st with started := st.started || !st.wire.isEmpty }

/-! ### The `tokio_util` codecs of `src/codec/` (`tu` ops, stateless) -/

def tuHash (bs : Bytes) : String :=
  toString bs.length ++ ":" ++ toString (bs.foldl (fun h b => (h * 31 + b) % 1000003) 0)

def tuErr : CodecErr → String
  | .other => "e:Other"
  | .permissionDenied => "e:PermissionDenied"
  | .invalidData => "e:InvalidData"

def tuRes : DecRes → String
  | .frame f => "f" ++ tuHash f
  | .needMore => "n"
  | .err e => tuErr e

def tuHex? (s : String) : Option Bytes := if s = "-" then some [] else hexBytes? s

def tuItem? (s : String) : Option Bytes :=
  match s.splitOn "*" with
  | [len, fill] =>
    match len.toNat?, fill.toNat? with
    | some len, some fill => if len ≤ 2 ^ 24 ∧ fill < 256 then some (List.replicate len fill) else none
    | _, _ => none
  | _ => tuHex? s

def tuList? (f : String → Option Bytes) (s : String) : Option (List Bytes) := (s.splitOn ",").mapM f

/-- `Encoder::encode` of every item into one buffer: per-item results and the buffer. -/
def tuEncodeAll (enc : Bytes → Bytes → Option Bytes) (errName : String) : List Bytes → Bytes → List String × Bytes
  | [], dst => ([], dst)
  | item :: rest, dst =>
    match enc item dst with
    | some dst' => let (rs, d) := tuEncodeAll enc errName rest dst'; ("ok" :: rs, d)
    | none => let (rs, d) := tuEncodeAll enc errName rest dst; (errName :: rs, d)

/-- What a fresh decoder yields (frames and errors; bytes left) when `bytes` arrive cut after `k`. -/
def tuSplit {σ : Type} (d : Dec σ) (init : σ) (bytes : Bytes) (k : Nat) : List String × Nat :=
  let (rs, _, buf, _) := feed d [bytes.take k, bytes.drop k] init [] 0
  ((rs.filter (fun r => r != .needMore)).map tuRes, buf.length)

def tuRoundtrip {σ : Type} (d : Dec σ) (init : σ) (res : List String) (dst : Bytes) : String :=
  let first := tuSplit d init dst 0
  let bad := (List.range (dst.length + 1)).find? (fun k => 0 < k ∧ tuSplit d init dst k != first)
  "r=" ++ joinWith "," res ++ " dst=" ++ tuHash dst ++ " dec=" ++ joinWith "," first.1 ++ " rem=" ++ toString first.2 ++
    " all=" ++ (match bad with | none => "1" | some k => "0:" ++ toString k)

def tuDecodeOut {σ : Type} (d : Dec σ) (init : σ) (chunks : List Bytes) : String :=
  let (rs, _, buf, _) := feed d chunks init [] 0
  "r=" ++ joinWith "," (rs.map tuRes) ++ " rem=" ++ toString buf.length

def tuStep (kind arg op data : String) : String :=
  if kind = "uvi" ∨ kind = "uviw" then
    if op = "henc" ∧ kind = "uvi" then
      match tuItem? data with
      | none => "bad-op"
      | some item =>
        match uviHelperEncode item with
        | .error m => "panic " ++ m
        | .ok (some out) => "ok " ++ tuHash out
        | .ok none => tuErr .permissionDenied
    else if op = "hdec" ∧ kind = "uvi" then
      match tuHex? data with
      | none => "bad-op"
      | some bs =>
        match uviHelperDecode bs with
        | .ok (f, rest) => "ok f" ++ tuHash f ++ " rem=" ++ toString rest.length
        | .error e => tuErr e
    else
      let max? : Option (Option Nat) := if arg = "none" then some none else arg.toNat?.map some
      match max? with
      | none => "bad-op"
      | some max =>
        if kind = "uviw" ∧ max.isNone then "bad-op" else
        let st := UviState.new max
        if op = "dec" then
          match tuList? tuHex? data with
          | some chunks => tuDecodeOut uviDec st chunks
          | none => "bad-op"
        else if op = "enc" ∨ op = "rt" then
          match tuList? tuItem? data with
          | some items =>
            let (rs, dst) := tuEncodeAll (uviEncode st) (tuErr .permissionDenied) items []
            if op = "enc" then "r=" ++ joinWith "," rs ++ " dst=" ++ tuHash dst else tuRoundtrip uviDec st rs dst
          | none => "bad-op"
        else "bad-op"
  else if kind = "id" then
    if op = "henc" then
      match tuItem? data with
      | some item => "ok " ++ tuHash item
      | none => "bad-op"
    else
      match arg.toNat? with
      | none => "bad-op"
      | some n =>
        match idNew n with
        | .error m => "panic " ++ m
        | .ok n =>
          if op = "dec" then
            match tuList? tuHex? data with
            | some chunks => tuDecodeOut (idDec n) () chunks
            | none => "bad-op"
          else if op = "enc" ∨ op = "rt" then
            match tuList? tuItem? data with
            | some items =>
              let (rs, dst) := tuEncodeAll (idEncode n) (tuErr .invalidData) items []
              if op = "enc" then "r=" ++ joinWith "," rs ++ " dst=" ++ tuHash dst else tuRoundtrip (idDec n) () rs dst
            | none => "bad-op"
          else "bad-op"
  else "bad-op"

def stepCore (st : State) (line : String) : State × String :=
  let (opPart, obsPart) := match line.splitOn " -> " with
    | [a, b] => (a, b)
    | _ => (line, "")
  let ts := tokens opPart
  let obs := tokens obsPart
  let claimed := obs.headD ""
  let w := ((arg? "w" obs).bind String.toNat?).getD 0
  match ts, st.codec with
  | ["tu", kind, arg, op, data], _ => (st, tuStep kind arg op data)
  | "codec" :: kind :: arg :: _, _ =>
    let codec? : Option Codec :=
      if kind = "identity" then arg.toNat?.map Codec.identity
      else if kind = "varint" then (if arg = "none" then some (.varint none) else arg.toNat?.map (fun m => .varint (some m)))
      else none
    match codec? with
    | some c => ({ codec := some c, r := RState.init c }, "ok w=0")
    | none => (st, "bad-op")
  | ["recv"], some codec =>
    -- a `send_framed` future in the background makes progress while the reader is polled
    let (st, written) := match st.framed with
      | some bufs => let (s, n, _) := advanceFramed st bufs w; (s, n)
      | none => (st, 0)
    let st := markStarted st
    if !st.started then (st, withW "pending" written) else
    let car : Carrier := (if st.wire.isEmpty then [] else [.data st.wire]) ++ (if st.closed then [.eof] else [])
    let (out, r', car') := pollNext codec st.r car
    ({ st with r := r', wire := carBytes car' }, withW (showOut out) written)
  | ["writer_stop"], some _ =>
    if st.framed.isSome then busy st w else ({ st with stopped := true }, "ok w=0")
  | ["wait"], some _ =>
    if st.stopped then (st, "stopped w=0") else
    match st.framed with
    | none => (st, "idle w=0")
    | some bufs =>
      let (st, written, all) := advanceFramed st bufs w
      finishFramed st claimed written all
  | "send" :: "sink" :: len :: fill :: [], some codec =>
    if st.stopped then (st, "stopped w=0") else if st.framed.isSome then busy st w else
    match len.toNat?, fill.toNat? with
    | some len, some fill =>
      let (evs, _) := mkEvs (framesOf st.w) w
      match pollReady st.w evs (if claimed = "notready" then .pending else .ready) with
      | (.ready, w', out) =>
        match startSend codec w' (List.replicate len fill) with
        | (.ok, w'') => ({ st with w := w'', wire := st.wire ++ out }, withW "ok" out.length)
        | (.refused, w'') => ({ st with w := w'', wire := st.wire ++ out }, withW "refused" out.length)
      | (.pending, w', out) => ({ st with w := w', wire := st.wire ++ out }, withW "notready" out.length)
      | (.err, w', out) => ({ st with w := w', wire := st.wire ++ out }, withW "err" out.length)
    | _, _ => (st, "bad-op")
  | ["flush"], some _ =>
    if st.stopped then (st, "stopped w=0") else if st.framed.isSome then busy st w else
    let (evs, _) := mkEvs (framesOf st.w) w
    match pollFlush evs st.w (if claimed = "ready" then .ready else .pending) with
    | (o, w', out) =>
      ({ st with w := w', wire := st.wire ++ out },
        withW (match o with | .ready => "ready" | .pending => "pending" | .err => "err") out.length)
  | "send" :: "framed" :: len :: fill :: [], some codec =>
    if st.stopped then (st, "stopped w=0") else if st.framed.isSome then busy st w else
    match len.toNat?, fill.toNat? with
    | some len, some fill =>
      match framedBufs codec (List.replicate len fill) with
      | none => (st, "refused w=0")
      | some bufs =>
        let (st, written, all) := advanceFramed st bufs w
        finishFramed st claimed written all
    | _, _ => (st, "bad-op")
  | ["raw", hex], some _ =>
    if st.stopped then (st, "stopped w=0") else if st.framed.isSome then busy st w else
    match hexBytes? hex with
    | some bs => ({ st with wire := st.wire ++ bs }, withW "ok" bs.length)
    | none => (st, "bad-op")
  | ["close"], some _ =>
    if st.stopped then (st, "stopped w=0") else if st.framed.isSome then busy st w else
    ({ st with closed := true }, "ok w=0")
  | _, _ => (st, "bad-op")

def step (st : State) (line : String) : State × String :=
  let (st', o) := stepCore st line
  (markStarted st', o)

end Litep2pVerif.Driver.C04
