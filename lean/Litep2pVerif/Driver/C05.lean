import Litep2pVerif.Common.Parse
import Litep2pVerif.Model.Manager.Proto
import Litep2pVerif.Model.Manager.Facade
/-! Line-protocol driver for the connection-manager model (C05, C06). Same label discipline as the
adapter `src/verif/c05.rs`: `as=cK` names the id of the attempt an operation starts; the first use
of an unknown label in an event takes a fresh id from the shared counter. -/
namespace Litep2pVerif.Driver.C05
open Litep2pVerif Litep2pVerif.Manager Parse

structure State where
  ps : Option PS := none
  /-- automatic labels `q1, q2, ..` for attempts started by queued commands -/
  auto : Nat := 0
  labels : List (String × Nat) := []
  names : List (Nat × String) := []
  /-- peers mentioned so far (the model's peer map is a total function) -/
  seen : List Nat := []
  /-- facade level: events are printed as `Litep2p::next_event` hands them to the user -/
  facade : Bool := false
  /-- the substream-id counter (`next_substream_id`): a counter of its own, advanced by `substream` only — connection
  ids never come from it (`Manager.step .alloc` / `dial` / `dialAddress` take them from `Mgr.nextConn`) -/
  nextSub : Nat := 0

def init : State := {}

def lookupLabel (l : String) : List (String × Nat) → Option Nat
  | [] => none
  | (k, v) :: t => if k = l then some v else lookupLabel l t

def bind (st : State) (l : String) (c : Nat) : State :=
  { st with labels := (l, c) :: st.labels.filter (fun x => x.1 ≠ l),
            names := (c, l) :: st.names.filter (fun x => x.1 ≠ c) }

def connName (st : State) (c : Nat) : String :=
  match alookup c st.names with
  | some l => l
  | none => "c?"

/-! ### Addresses -/

def parseComp (s : String) : Option Proto :=
  match s.splitOn "." with
  | [k] =>
    match k with
    | "ws" => some .ws | "wss" => some .wss | "quicV1" => some .quicV1
    | "ip4" => some (.ip4 0) | "ip6" => some (.ip6 0) | "tcp" => some (.tcp 0) | "udp" => some (.udp 0)
    | "dns" => some (.dns 0) | "dns4" => some (.dns4 0) | "dns6" => some (.dns6 0)
    | "p2p" => some (.p2p 0) | "other" => some (.other 0)
    | _ => none
  | [k, a] =>
    match a.toNat? with
    | none => none
    | some n =>
      match k with
      | "ip4" => some (.ip4 n) | "ip6" => some (.ip6 n) | "dns" => some (.dns n)
      | "dns4" => some (.dns4 n) | "dns6" => some (.dns6 n) | "tcp" => some (.tcp n)
      | "udp" => some (.udp n) | "p2p" => some (.p2p n) | "other" => some (.other n)
      -- `/dnsaddr/<name>`: a component no transport of the node dials (not `ip4|ip6|dns|dns4|dns6`)
      | "dnsaddr" => some (.other (200 + n))
      | "ws" => some .ws | "wss" => some .wss | "quicV1" => some .quicV1
      | _ => none
  | _ => none

def parseAddr (s : String) : Option Multiaddr :=
  if s = "-" then some [] else (s.splitOn "/").mapM parseComp

def showComp : Proto → String
  | .ip4 n => s!"ip4.{n}" | .ip6 n => s!"ip6.{n}" | .dns n => s!"dns.{n}" | .dns4 n => s!"dns4.{n}"
  | .dns6 n => s!"dns6.{n}" | .tcp n => s!"tcp.{n}" | .udp n => s!"udp.{n}" | .ws => "ws"
  | .wss => "wss" | .quicV1 => "quicV1" | .p2p n => s!"p2p.{n}" | .other n => s!"other.{n}"

def showAddr (a : Multiaddr) : String :=
  if a.isEmpty then "-" else joinWith "/" (a.map showComp)

def insertSorted (s : String) : List String → List String
  | [] => [s]
  | x :: t => if s < x then s :: x :: t else x :: insertSorted s t

def sortStrings (l : List String) : List String := l.foldr insertSorted []

def peersOfAddr (a : Multiaddr) : List Nat :=
  a.filterMap (fun c => match c with | .p2p p => some p | _ => none)

def parseKind : String → DialErr
  | "a" => .address | "n" => .negotiation | _ => .timeout

def showKind : DialErr → String
  | .timeout => "t" | .address => "a" | .negotiation => "n"

def parseErrs (ts : List String) : Option (List (Multiaddr × DialErr)) :=
  match arg?' ts with
  | none => some []
  | some v =>
    ((v.splitOn ",").filter (fun s => !s.isEmpty)).mapM (fun item =>
      match item.splitOn "=" with
      | [a, k] => (parseAddr a).map (fun a => (a, parseKind k))
      | _ => none)
where
  arg?' (ts : List String) : Option String :=
    ts.findSome? (fun t => if t.startsWith "errs=" then some (t.drop 5).toString else none)

/-! ### Observation -/

def showCall (st : State) : Call → String
  | .dial c a => s!"dial:{connName st c}:{showAddr a}"
  | .open c as => s!"open:{connName st c}:{joinWith "|" (sortStrings (as.map showAddr))}"
  | .negotiate c => s!"negotiate:{connName st c}"
  | .cancel c => s!"cancel:{connName st c}"
  | .accept c => s!"accept:{connName st c}"
  | .reject c => s!"reject:{connName st c}"
  | .acceptPending c => s!"acceptp:{connName st c}"
  | .rejectPending c => s!"rejectp:{connName st c}"

def showEv (st : State) : Ev → String
  | .established p ep =>
    s!"est:{p}:{connName st ep.conn}:{if ep.isListener then "listener" else "dialer"}:{showAddr ep.addr}"
  | .closed p c => s!"closed:{p}:{connName st c}"
  | .dialFailure c a e => s!"dialfail:{connName st c}:{showAddr a}:{showKind e}"
  | .openFailure c errs =>
    s!"openfail:{connName st c}:{joinWith "|" (errs.map fun x => showAddr x.1 ++ "=" ++ showKind x.2)}"

def showErrs (errs : List (Multiaddr × DialErr)) : String :=
  joinWith "|" (errs.map fun x => showAddr x.1 ++ "=" ++ showKind x.2)

/-- A `Litep2pEvent` (no connection id on failures). -/
def showUEv (st : State) : UEv → String
  | .established p ep =>
    s!"est:{p}:{connName st ep.conn}:{if ep.isListener then "listener" else "dialer"}:{showAddr ep.addr}"
  | .closed p c => s!"closed:{p}:{connName st c}"
  | .dialFailure a e => s!"udialfail:{showAddr a}:{showKind e}"
  | .listDialFailures errs => s!"ulist:{showErrs errs}"

/-- What the poller of the node sees: the manager's events, or (facade level) their translation
by `Litep2p::next_event`. -/
def showEvents (st : State) (evs : List Ev) : List String :=
  if st.facade then (facadeEvents evs).map (showUEv st) else evs.map (showEv st)

def showState (st : State) : PeerState → Option String
  | .disconnected none => none
  | .disconnected (some d) => some s!"D({connName st d.conn})"
  | .dialing d => some s!"G({connName st d.conn})"
  | .opening _ c _ => some s!"O({connName st c})"
  | .connected r none => some s!"C({connName st r.conn})"
  | .connected r (some (.secondary x)) => some s!"C({connName st r.conn}+{connName st x.conn})"
  | .connected r (some (.dialing x)) => some s!"C({connName st r.conn}~{connName st x.conn})"

def insertNat (n : Nat) : List Nat → List Nat
  | [] => [n]
  | x :: t => if n < x then n :: x :: t else if n = x then x :: t else x :: insertNat n t

def dash (l : List String) : String := if l.isEmpty then "-" else joinWith " " l

def showRes : Res → String
  | .none => "-" | .ok => "ok" | .count n => s!"n={n}" | .conn c => s!"conn={c}"
  | .err .connectionLimit => "err:limit" | .err .triedToDialSelf => "err:self"
  | .err .alreadyConnected => "err:connected" | .err .noAddressAvailable => "err:noaddr"
  | .err .peerIdMissing => "err:nopeerid" | .err .transportNotSupported => "err:unsupported"

def showSlot (st : State) : Slot → String
  | .fill => "fill"
  | .ev e =>
    match e.kind with
    | .est => s!"est:{e.peer}:{connName st e.conn}"
    | .df => s!"df:{e.peer}:{if e.addrs.isEmpty then "-" else joinWith "|" (e.addrs.map showAddr)}"

def observe (st : State) (ps : PS) (res : String) (out : Out) : String :=
  if out.panic then "panic debug-assert" else
  let g := ps.g
  let states := st.seen.filterMap (fun p => (showState st (stateOf g.m p)).map (fun s => s!"{p}:{s}"))
  let base := s!"{res} ; calls={dash (out.calls.map (showCall st))} ; ev={dash (showEvents st out.events)} ; st={dash states} ; pend={g.m.pending.length} acc={g.m.pendingAccept.length} lim={g.m.limits.incoming.length}/{g.m.limits.outgoing.length} oe={g.m.openingErrors.length}"
  if ps.order.isEmpty then base
  else
    let lens := (List.range ps.order.length).map (fun j => toString (ps.chans j).length)
    s!"{base} ; susp={if ps.todo.isEmpty then "-" else "y"} cmd={ps.cmds.length} ch={joinWith "," lens}"

/-- Resolve a label; an unknown one takes a fresh id (`In.alloc`). -/
def connOf (st : State) (ps : PS) (l : String) : State × PS × Nat :=
  match lookupLabel l st.labels with
  | some c => (st, ps, c)
  | none =>
    let c := ps.g.m.nextConn
    (bind st l c, { ps with g := (gstep ps.g .alloc).1 }, c)

def see (st : State) (ps : List Nat) : State :=
  { st with seen := ps.foldl (fun acc p => insertNat p acc) st.seen }

/-- All address lists of `open` calls in the implementation's observation (checker mode). -/
def choicesOf (obs : String) : List (List Multiaddr) :=
  (tokens obs).flatMap (fun t =>
    let t := if t.startsWith "calls=" then (t.drop 6).toString else t
    if t.startsWith "open:" then
      match t.splitOn ":" with
      | [_, _, addrs] => [(addrs.splitOn "|").filterMap parseAddr]
      | _ => []
    else [])

/-- The address store's answer for a queued `DialPeer`: the candidate that is a legal answer. -/
def pickChoice (ps : PS) (cands : List (List Multiaddr)) : List Multiaddr :=
  match ps.cmds, ps.g.m.limits.onDialAddress with
  | .dialPeer _ _ p :: _, some cap =>
    (cands.find? (fun c => validChoice (ps.g.m.peers p).addresses cap c)).getD []
  | _, _ => []

/-- Poll the manager until nothing more happens: resume a blocked send when there is room, take
queued commands. Accumulates calls, returned events and panics. -/
def settle (cands : List (List Multiaddr)) : Nat → PS → Out → PS × Out
  | 0, ps, acc => (ps, acc)
  | fuel + 1, ps, acc =>
    if !ps.todo.isEmpty then
      let (ps', o) := resume ps
      if o.busy then (ps, acc)
      else settle cands fuel ps' { acc with events := acc.events ++ o.out.events }
    else if !ps.cmds.isEmpty then
      let (ps', o) := runCmd ps (pickChoice ps cands)
      settle cands fuel ps' { acc with calls := acc.calls ++ o.out.calls, events := acc.events ++ o.out.events,
                                        panic := acc.panic || o.out.panic }
    else (ps, acc)

/-- Name the attempts started in this operation: the `as=` label for the first one, `q1, q2, ..`
for the others. -/
def nameCalls (st : State) (label : Option String) (calls : List Call) : State :=
  let started := calls.filterMap (fun c => match c with
    | .dial c _ => some c | .open c _ => some c | _ => none)
  let st1 := match label, started with
    | some l, c :: _ => if (alookup c st.names).isSome then st else bind st l c
    | _, _ => st
  started.foldl (fun st c =>
    if (alookup c st.names).isSome then st
    else bind { st with auto := st.auto + 1 } s!"q{st.auto + 1}" c) st1

/-- Finish an operation: settle, name, print. -/
def finish (st : State) (ps : PS) (res : String) (out : Out) (label : Option String) (obs : String) :
    State × String :=
  let (ps', out') := settle (choicesOf obs) 64 ps out
  let st1 := nameCalls st label out'.calls
  ({ st1 with ps := some ps' }, observe st1 ps' res out')

/-- Run one model input and print. `label` = `as=` argument. -/
def run (st : State) (ps : PS) (i : In) (label : Option String) (obs : String := "") : State × String :=
  let (ps', o) := pstep ps (.base i)
  if o.busy then ({ st with ps := some ps }, "busy")
  else finish st ps' (showRes o.out.res) o.out label obs

def showHRes : Option (Option HErr) → String
  | some none => "ok"
  | some (some .self) => "err:self"
  | some (some .noaddr) => "err:noaddr"
  | some (some .connected) => "err:connected"
  | some (some .nopeerid) => "err:nopeerid"
  | none => "-"

/-- `order=1,0` of the implementation's answer to `protocols`, if it is a permutation of `0..n-1`. -/
def orderOf (n : Nat) (obs : String) : List Nat :=
  match (tokens obs).findSome? (fun t => if t.startsWith "order=" then some (t.drop 6).toString else none) with
  | none => List.range n
  | some v =>
    match (v.splitOn ",").mapM (fun x => x.toNat?) with
    | some l => if l.length = n ∧ l.Nodup ∧ l.all (· < n) then l else List.range n
    | none => List.range n

def limit? (s : String) : Option (Option Nat) :=
  if s = "none" then some none else s.toNat?.map some

/-- In checker mode the `dial` line carries the implementation's observation; the addresses of its
`open` call are the address store's choice. -/
def choiceOf (obs : String) : List Multiaddr :=
  match (tokens obs).findSome? (fun t =>
      if t.startsWith "calls=open:" then some (t.drop 11).toString
      else if t.startsWith "open:" then some (t.drop 5).toString else none) with
  | none => []
  | some rest =>
    match rest.splitOn ":" with
    | [_, addrs] => (addrs.splitOn "|").filterMap parseAddr
    | _ => []

def isProtoOp : List String → Bool
  | "pdial" :: _ => true
  | "pdialaddr" :: _ => true
  | "pfill" :: _ => true
  | "pdrain" :: _ => true
  | "protocols" :: _ => true
  | _ => false

def proto? (ps : PS) (j : String) : Option Nat :=
  match j.toNat? with
  | some j => if j < ps.order.length then some j else none
  | none => none

def step (st : State) (line : String) : State × String :=
  let (opPart, obsPart) := match line.splitOn " -> " with
    | [a, b] => (a, b)
    | _ => (line, "")
  let ts := tokens opPart
  let label := arg? "as" ts
  match ts, st.ps with
  | ["limits", a, b], _ =>
    match limit? a, limit? b with
    | some a, some b => ({ ps := some { g := G.init ⟨a, b⟩ }, facade := false }, "ok")
    | _, _ => (st, "bad-op")
  | _, none => (st, "bad-op")
  | ["protocols", n, cap], some ps =>
    match n.toNat?, (if cap.startsWith "cap=" then (cap.drop 4).toString.toNat? else none) with
    | some n, some cap =>
      if !ps.order.isEmpty || !ps.todo.isEmpty || n = 0 || n > 3 || cap = 0 || cap > 8 then (st, "bad-op")
      else
        let order := orderOf n obsPart
        ({ st with ps := some { ps with cap := cap, order := order } },
          s!"ok order={joinWith "," (order.map toString)}")
    | _, _ => (st, "bad-op")
  | ["pdial", j, p], some ps =>
    match proto? ps j, p.toNat? with
    | some j, some p =>
      let (ps', o) := pstep ps (.pdial j p)
      finish (see st [p]) ps' (showHRes o.hres) {} none obsPart
    | _, _ => (st, "bad-op")
  | ["pdialaddr", j, a], some ps =>
    match proto? ps j, parseAddr a with
    | some j, some a =>
      let (ps', o) := pstep ps (.pdialAddr j a)
      finish (see st (peersOfAddr a)) ps' (showHRes o.hres) {} none obsPart
    | _, _ => (st, "bad-op")
  | ["pfill", j], some ps =>
    match proto? ps j with
    | some j =>
      let (ps', o) := pstep ps (.pfill j)
      finish st ps' s!"n={o.filled}" {} none obsPart
    | none => (st, "bad-op")
  | ["pdrain", j], some ps =>
    match proto? ps j with
    | some j =>
      let (ps', o) := pstep ps (.pdrain j)
      finish st ps' s!"got={if o.got.isEmpty then "-" else joinWith "," (o.got.map (showSlot st))}" {} none obsPart
    | none => (st, "bad-op")
  | ts, some ps =>
    -- the application and the scripted environment wait while the manager is blocked
    if !ps.todo.isEmpty then (st, "busy")
    else
    match ts with
    -- the address store of a peer, read-only
    | ["scores", p] =>
      match p.toNat? with
      | some p =>
        let shown := sortStrings (((ps.g.m.peers p).addresses).map (fun r => s!"{showAddr r.addr}={r.score}"))
        (st, s!"sc={if shown.isEmpty then "-" else joinWith "," shown}")
      | none => (st, "bad-op")
    -- a protocol opens a substream: the id comes from the substream counter, the manager is not involved
    | ["substream", p] =>
      match p.toNat? with
      | some p =>
        if p = 0 || p > 64 then (st, "bad-op")
        else ({ st with nextSub := st.nextSub + 1 }, s!"sub={st.nextSub}")
      | none => (st, "bad-op")
    | ["addknown", p, as] =>
      match p.toNat?, (as.splitOn ",").mapM parseAddr with
      | some p, some as => run (see st [p]) ps (.addKnown p as) none
      | _, _ => (st, "bad-op")
    | "dial" :: p :: _ =>
      match p.toNat? with
      | some p => run (see st [p]) ps (.dial p (choiceOf obsPart)) label
      | none => (st, "bad-op")
    -- facade level: `Litep2p::dial` / `dial_address` forward to the manager (`facadeDial`,
    -- `facadeDialAddress` are `dial`, `dialAddress`), `fnext` polls once more
    | ["facade"] => ({ st with facade := true }, "ok")
    | "fdial" :: p :: _ =>
      match p.toNat? with
      | some p => run (see st [p]) ps (.dial p (choiceOf obsPart)) label
      | none => (st, "bad-op")
    | "fdialaddr" :: a :: _ =>
      match parseAddr a with
      | some a => run (see st (peersOfAddr a)) ps (.dialAddress a) label
      | none => (st, "bad-op")
    | ["fnext"] => finish st ps "-" {} none obsPart
    | "dialaddr" :: a :: _ =>
      match parseAddr a with
      | some a => run (see st (peersOfAddr a)) ps (.dialAddress a) label
      | none => (st, "bad-op")
    | "ev" :: "established" :: p :: c :: a :: dir :: rest =>
      match p.toNat?, parseAddr a, (if dir = "dialer" then some false else if dir = "listener" then some true else none) with
      | some p, some a, some isL =>
        let (st1, ps1, c) := connOf st ps c
        run (see st1 (p :: peersOfAddr a)) ps1 (.evEstablished p ⟨isL, a, c⟩ (!rest.contains "acceptfail")) none
      | _, _, _ => (st, "bad-op")
    | "ev" :: "opened" :: c :: a :: rest =>
      match parseAddr a, parseErrs rest with
      | some a, some errs =>
        let (st1, ps1, c) := connOf st ps c
        run (see st1 (peersOfAddr a ++ (errs.map (fun e => peersOfAddr e.1)).flatten)) ps1 (.evOpened c a errs) none
      | _, _ => (st, "bad-op")
    | "ev" :: "openfail" :: c :: rest =>
      match parseErrs rest with
      | some errs =>
        let (st1, ps1, c) := connOf st ps c
        run (see st1 ((errs.map (fun e => peersOfAddr e.1)).flatten)) ps1 (.evOpenFailure c errs) none
      | none => (st, "bad-op")
    | ["ev", "dialfail", c, a, k] =>
      match parseAddr a with
      | some a =>
        let (st1, ps1, c) := connOf st ps c
        run (see st1 (peersOfAddr a)) ps1 (.evDialFailure c a (parseKind k)) none
      | none => (st, "bad-op")
    | ["ev", "pendingin", c] =>
      let (st1, ps1, c) := connOf st ps c
      run st1 ps1 (.evPendingInbound c) none
    | ["ev", "closed", p, c] =>
      match p.toNat? with
      | some p =>
        let (st1, ps1, c) := connOf st ps c
        run (see st1 [p]) ps1 (.evClosed p c) none
      | none => (st, "bad-op")
    | ["accepted", c, how] =>
      if how = "ok" && anyFull ps then (st, "busy")
      else
        let (st1, ps1, c) := connOf st ps c
        run st1 ps1 (.acceptResult c (how = "ok")) none
    | _ => (st, "bad-op")

end Litep2pVerif.Driver.C05
