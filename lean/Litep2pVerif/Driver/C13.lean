import Litep2pVerif.Common.Parse
import Litep2pVerif.Model.ReqResp.Ledger
import Litep2pVerif.Model.ReqResp.Handle
import Litep2pVerif.Generated.Consts
/-!
Line-protocol driver for the request-response model (C13).

The protocol model (`Model/ReqResp/Ledger.lean`) is composed with a deterministic model of what the
adapter `src/verif/c13.rs` puts around the real protocol: the real `TransportService`
(primary/secondary connection per peer), the real `TransportManagerHandle::dial` over the scripted
view of the transport manager (`mgr` ops), the real `RequestResponseHandle` (`Model/ReqResp/Handle.lean`:
command channel, pending responses, event conversion), the harness-owned connections (alive or dead command
channel), the pending substream-open commands, the responder ends of the substreams (with the
`Substream` codec's verdicts: response / eof / read failure / too large), logical-time timers and
the remote requesters of inbound substreams. This environment is only used here; the theorems
quantify over every environment.
-/
namespace Litep2pVerif.Driver.C13
open Litep2pVerif Litep2pVerif.ReqResp Parse

/-- Responder end of the substream of request `r<k>`. -/
structure Responder where
  k : Nat
  sid : Sid
  fut : Fut
  attached : Bool       -- the request was written, the far end exists

structure InboundEnd where
  peer : Peer
  rid : Option Rid      -- id the protocol allocated
  payload : Payload
  written : Nat         -- bytes of the framed request written so far
  got : Option Payload  -- response frame received by the remote
  eof : Bool            -- the protocol's side closed or dropped the substream
  answered : Bool       -- the user used up the response channel
  delivered : Bool      -- RequestReceived was handed to the user
  remoteClosed : Bool := false   -- the remote closed its side (`drop`)
  fb : Option Nat := none        -- fallback protocol the remote negotiated the substream with

structure State where
  cfg : Bool := false
  max : Nat := 0
  timeout : Nat := 0
  now : Nat := 0
  s : ReqResp.State := {}
  /-- `TransportService.connections`: peer ↦ (primary, secondary). -/
  svc : List (Peer × (Nat × Option Nat)) := []
  /-- harness connections `(peer, conn)` ↦ command channel alive. -/
  conns : List ((Peer × Nat) × Bool) := []
  nextSid : Nat := 0
  /-- unanswered substream-open commands. -/
  opens : List (Sid × Peer) := []
  /-- `r<k>` ↦ request id (`none`: the command channel was clogged). -/
  sends : List (Option Rid) := []
  /-- the transport manager's view of the peers, as scripted by `mgr <p> <view>`. -/
  mgr : List (Peer × String) := []
  /-- the manager does not read its command channel, which is full (`mgr clog`). -/
  clog : Bool := false
  /-- the manager's command receiver is gone (`mgr gone`). -/
  gone : Bool := false
  /-- `DialPeer` commands sent during the current operation. -/
  dialCmds : Nat := 0
  /-- number of entries of the model's call log already turned into harness state. -/
  absorbed : Nat := 0
  /-- the user's handle. -/
  h : Handle := { capacity := Consts.RR_COMMAND_CHANNEL_SIZE }
  /-- request ↦ fallback protocol its substream was negotiated with. -/
  negotiated : List (Rid × Nat) := []
  inbounds : List (Option InboundEnd) := []
  responders : List Responder := []
  timers : List (Fut × Nat) := []
  /-- request futures whose write cannot finish (nobody reads the far end and the request exceeds the
  flow-control window): they only end by the first-stage timeout. -/
  stalled : List Fut := []

def init : State := {}

/-- yamux receive window: what can be written on a substream nobody reads. -/
def window : Nat := 262144

def varintLen (n : Nat) : Nat := if n < 128 then 1 else 1 + varintLen (n / 128)
decreasing_by omega

def checksumAux (fill : Nat) : Nat → Nat → Nat → Nat
  | 0, _, acc => acc
  | n + 1, j, acc => checksumAux fill n (j + 1) ((acc + (j % 251 + 1) * ((fill + j) % 256)) % 65521)

def showPayload (p : Payload) : String :=
  toString p.len ++ ":" ++ toString (checksumAux p.fill p.len 0 0)

def insertSorted (x : String) : List String → List String
  | [] => [x]
  | y :: ys => if x < y then x :: y :: ys else y :: insertSorted x ys

def sortStrings (l : List String) : List String := l.foldr insertSorted []

def joinOrDash (l : List String) : String := if l.isEmpty then "-" else joinWith "," l

def listIndex? (r : Rid) : List (Option Rid) → Nat → Option Nat
  | [], _ => none
  | x :: xs, i => if x = some r then some i else listIndex? r xs i.succ

def inboundIndex? (r : Rid) : List (Option InboundEnd) → Nat → Option Nat
  | [], _ => none
  | x :: xs, i => if (x.bind (·.rid)) = some r then some i else inboundIndex? r xs i.succ

def nameOf (st : State) (r : Rid) : String :=
  match listIndex? r st.sends 0 with
  | some k => "r" ++ toString k
  | none =>
    match inboundIndex? r st.inbounds 0 with
    | some k => "i" ++ toString k
    | none => "?" ++ toString r

def dialErrWord : DialErr → String
  | .noAddress => "no-address" | .alreadyConnected => "already-connected" | .clogged => "clogged"
  | .triedToDialSelf => "self" | .taskClosed => "task-closed" | .other => "other"

def subErrWord : SubErr → String
  | .closed => "closed" | .clogged => "clogged" | .noPeer => "no-peer" | .readFailure => "read-failure"
  | .negotiationTimeout => "negotiation-timeout" | .negotiation => "negotiation" | .io => "io"
  | .yamux => "yamux" | .writeFailure => "write-failure" | _ => "other"

def errorWord : RrError → String
  | .rejected .connectionClosed => "conn-closed"
  | .rejected .substreamClosed => "substream-closed"
  | .rejected (.dialFailed none) => "dial-failed"
  | .rejected (.dialFailed (some e)) => "dial-failed:" ++ dialErrWord e
  | .rejected (.substreamOpenError e) => "open-error:" ++ subErrWord e
  | .canceled => "canceled" | .timeout => "timeout" | .notConnected => "not-connected"
  | .tooLargePayload => "too-large" | .unsupportedProtocol => "unsupported"

def fbWord : Option Nat → String
  | some n => ":fb" ++ toString n
  | none => ""

/-- What the user reads from the handle. -/
def showUserEvent (st : State) : UserEvent → String
  | .requestReceived p fb r req => "req:" ++ nameOf st r ++ ":" ++ toString p ++ ":" ++ showPayload req ++ fbWord fb
  | .responseReceived _ r fb resp => "resp:" ++ nameOf st r ++ ":" ++ showPayload resp ++ fbWord fb
  | .requestFailed _ r e => "failed:" ++ nameOf st r ++ ":" ++ errorWord e

/-- The fallback protocol the substream behind a model event was negotiated with. -/
def eventFallback (st : State) : Event → Option Nat
  | .requestReceived _ r _ => (st.inbounds.findSome? fun x => x.bind fun e => if e.rid = some r then some e.fb else none).join
  | .responseReceived _ r _ => (st.negotiated.find? (·.1 == r)).map (·.2)
  | .requestFailed _ _ _ => none

/-- Capacity of the transport manager's command channel in the adapter (as in `TransportManager::new`). -/
def mgrChannel : Nat := 256

def mgrViews : List String := ["unknown", "noaddr", "disconnected", "redial", "dialing", "opening", "connected"]

/-- The manager's view of `p`: peers 1..3 start with a dialable address, the others are unknown. -/
def mgrView (st : State) (p : Peer) : String :=
  match st.mgr.find? (·.1 == p) with
  | some e => e.2
  | none => if 1 ≤ p ∧ p ≤ 3 then "disconnected" else "unknown"

/-- `TransportManagerHandle::dial` over the scripted view: the answer, and whether a `DialPeer`
command went into the manager's channel. Peer 0 is the local node. -/
def dialAnswer (st : State) (p : Peer) : Except DialErr Unit × Bool :=
  if p = 0 then (.error .triedToDialSelf, false) else
  let v := mgrView st p
  if v = "unknown" || v = "noaddr" then (.error .noAddress, false)
  else if v = "connected" then (.error .alreadyConnected, false)
  else if v = "dialing" || v = "opening" || v = "redial" then (.ok (), false)
  else if st.gone then (.error .taskClosed, false)
  else if st.clog || st.dialCmds ≥ mgrChannel then (.error .clogged, false)
  else (.ok (), true)

def connAlive (st : State) (p : Peer) (c : Nat) : Bool :=
  (st.conns.find? (fun e => e.1 == (p, c))).any (·.2)

/-- `TransportService::open_substream` towards `p`: the `i`-th call of this step. -/
def openAnswer (st : State) (p : Peer) (i : Nat) : Except SubErr Sid :=
  match alFind p st.svc with
  | none => .error .noPeer
  | some (primary, _) => if connAlive st p primary then .ok (st.nextSid + i) else .error .closed

/-- Record the calls the protocol made during a step (new substream-open commands). -/
def absorbCalls (st : State) : State :=
  let new := st.s.calls.drop st.absorbed
  new.foldl (fun st c => match c with
    | .openSubstream p (.ok sid) => { st with nextSid := st.nextSid + 1, opens := st.opens ++ [(sid, p)] }
    | _ => st) { st with absorbed := st.s.calls.length }

/-- The calls of the current operation that show up at the harness: `DialPeer` commands that reached
the manager's channel (`cmds` of the `Ok` answers, the first ones) and substream-open commands. -/
def showCalls (cmds : Nat) : List Call → List String
  | [] => []
  | .dial p (.ok _) :: rest =>
    if cmds > 0 then ("dial:" ++ toString p) :: showCalls (cmds - 1) rest else showCalls cmds rest
  | .openSubstream p (.ok sid) :: rest => ("open:" ++ toString p ++ ":s" ++ toString sid) :: showCalls cmds rest
  | _ :: rest => showCalls cmds rest

/-- Run protocol inputs, then print `res;calls;events` for everything since `old`: the user drains
the handle (`Handle.poll` per event; `none` would be the `From` impl's panic). -/
def finish (st : State) (old : ReqResp.State) (res : String) : State × String :=
  let st := absorbCalls st
  let calls := showCalls st.dialCmds (st.s.calls.drop old.calls.length)
  let polled := (st.s.log.drop old.log.length).foldl (fun (acc : Handle × List String × Bool) ev =>
      let r := acc.1.poll (ev.toInner (eventFallback st ev))
      match r.2 with
      | some u => (r.1, acc.2.1 ++ [showUserEvent st u], acc.2.2)
      | none => (r.1, acc.2.1, true)) (st.h, [], false)
  let st := { st with h := polled.1.drained, dialCmds := 0 }
  let events := sortStrings polled.2.1
  let out := res ++ ";" ++ joinOrDash calls ++ ";" ++ joinOrDash events
  (st, if st.s.panicked then "panic debug-assert" else if polled.2.2 then "panic unhandled event" else out)

def proto (st : State) (i : Input) : State := { st with s := step st.s i }

def futPending (st : State) (f : Fut) : Bool := st.s.pendingInbound.contains f

/-- The future of an outbound request completes. -/
def completeFut (st : State) (f : Fut) (res : FutResult) : State :=
  if futPending st f then
    let st := match res with
      | .response p => proto st (.responderWrites f.sid p)
      | _ => st
    proto st (.futureDone f res)
  else st

def remoteView (e : InboundEnd) : String :=
  (match e.got with | some p => showPayload p | none => "nothing") ++ (if e.eof then ".eof" else "")

def setInbound (st : State) (k : Nat) (e : InboundEnd) : State :=
  { st with inbounds := st.inbounds.set k (some e) }

/-- The protocol's read of inbound request `k` makes progress after the remote wrote or closed. -/
def progressInbound (st : State) (k : Nat) (e : InboundEnd) (closed : Bool) : State :=
  match e.rid with
  | none => st
  | some rid =>
    let f : InFut := ⟨e.peer, rid⟩
    if !st.s.pendingInboundRequests.contains f then st
    else
      let prefixLen := varintLen e.payload.len
      let full := prefixLen + e.payload.len
      let verdict : Option (Option Payload) :=
        if e.written ≥ prefixLen ∧ e.payload.len > st.max then some none     -- read failure
        else if e.written ≥ full then some (some e.payload)
        else if closed then some none
        else none
      match verdict with
      | none => st
      | some none => setInbound (proto st (.inboundRead f none)) k { e with eof := true }
      | some (some p) =>
        let st := proto st (.inboundRead f (some p))
        -- handed to the user iff the protocol pushed the response future
        if st.s.pendingOutboundResponses.contains f then setInbound st k { e with delivered := true }
        else setInbound st k { e with eof := true }

/-- One request handed to the protocol: the service's answers come from the environment. -/
def sendOne (st : State) (p : Peer) (req : Request) (opts : DialOptions) : State :=
  let rid := st.s.nextRid
  let st := { st with sends := st.sends ++ [some rid] }
  -- `dial` is only called for a peer the protocol has not registered, with `DialOptions::Dial`
  let calls := (alFind p st.s.peers).isNone && opts == .dial
  let d := dialAnswer st p
  let st := if calls && d.2 then { st with dialCmds := st.dialCmds + 1 } else st
  absorbCalls { st with s := step st.s (.send p req opts d.1 (openAnswer st p 0)) }

def showIds (st : State) (l : List Rid) : String :=
  joinWith "+" (sortStrings (l.map (nameOf st)))

def showState (st : State) : String :=
  let s := st.s
  let peers := sortStrings (s.peers.map fun e =>
    toString e.1 ++ ":[" ++ showIds st e.2.active ++ "]:[" ++ showIds st e.2.activeInbound ++ "]")
  let dials := sortStrings (s.pendingDials.map fun e =>
    toString e.1 ++ ":[" ++ joinWith "+" (e.2.map fun c => nameOf st c.rid) ++ "]")
  let out := sortStrings (s.pendingOutbound.map fun e =>
    "s" ++ toString e.1 ++ ":" ++ toString e.2.peer ++ ":" ++ nameOf st e.2.rid)
  "peers=" ++ joinWith "," peers ++ " dials=" ++ joinWith "," dials ++ " outbound=" ++ joinWith "," out ++
  " cancels=[" ++ showIds st s.pendingCancels ++ "] futures=" ++ toString s.pendingInbound.length ++
  " inreqs=" ++ toString s.pendingInboundRequests.length ++ " outresps=" ++ toString s.pendingOutboundResponses.length

def index? (pre : Char) (t : String) : Option Nat :=
  match t.toList with
  | c :: rest => if c = pre then (String.ofList rest).toNat? else none
  | [] => none

def withRemote (st : State) (k : Nat) (res : String) : String :=
  match st.inbounds[k]? with
  | some (some e) => if res = "none" then res else res ++ ":remote=" ++ remoteView e
  | _ => res

def stepCfg (st : State) (line : String) : State × String :=
  let ts := tokens line
  match ts with
  | "cfg" :: rest =>
    match (arg? "max" rest).bind (·.toNat?), (arg? "timeout" rest).bind (·.toNat?), arg? "inmax" rest with
    | some mx, some t, some im =>
      let inmax : Option (Option Nat) := if im = "none" then some none else im.toNat?.map some
      match inmax with
      | some inmax => ({ cfg := true, max := mx, timeout := t, s := ReqResp.init inmax }, "ok")
      | none => (st, "bad-op")
    | _, _, _ => (st, "bad-op")
  | _ => (st, "bad-op")

def stepOp (st : State) (ts : List String) : State × String :=
  let old := st.s
  match ts with
  | "send" :: p :: len :: fill :: mode :: rest =>
    -- `async`: `send_request` instead of `try_send_request` (the channel has room: same effect)
    if !(rest.isEmpty || rest = ["async"]) then (st, "bad-op") else
    match p.toNat?, len.toNat?, fill.toNat?, (if mode = "dial" then some DialOptions.dial else if mode = "reject" then some .reject else none) with
    | some p, some len, some fill, some opts =>
      let k := st.sends.length
      finish (sendOne st p ⟨⟨len, fill⟩, none⟩ opts) old ("r" ++ toString k)
    | _, _, _, _ => (st, "bad-op")
  | "sendfb" :: p :: len :: fill :: mode :: fbn :: flen :: ffill :: rest =>
    if !(rest.isEmpty || rest = ["async"]) then (st, "bad-op") else
    match p.toNat?, len.toNat?, fill.toNat?, (if mode = "dial" then some DialOptions.dial else if mode = "reject" then some .reject else none),
      fbn.toNat?, flen.toNat?, ffill.toNat? with
    | some p, some len, some fill, some opts, some fbn, some flen, some ffill =>
      let k := st.sends.length
      finish (sendOne st p ⟨⟨len, fill⟩, some (fbn, ⟨flen, ffill⟩)⟩ opts) old ("r" ++ toString k)
    | _, _, _, _, _, _, _ => (st, "bad-op")
  | "burst" :: p :: count :: mode :: rest =>
    -- `count` `try_send_request`s back to back: the command channel takes what fits, the rest is
    -- refused after its id has been allocated; then the protocol handles the accepted ones in order
    if !(rest.isEmpty || rest = ["fb"]) then (st, "bad-op") else
    match p.toNat?, count.toNat?, (if mode = "dial" then some DialOptions.dial else if mode = "reject" then some .reject else none) with
    | some p, some count, some opts =>
      if count > 10000 then (st, "bad-op") else
      let r := st.h.trySendMany st.s.nextRid (fun rid => .sendRequest p rid ⟨1, 0⟩ opts) count
      let accepted := r.2.2
      let st := (List.range accepted).foldl (fun st j =>
        sendOne st p ⟨⟨1, j⟩, if rest.isEmpty then none else some (1, ⟨2, j⟩)⟩ opts) st
      let st := (List.range (count - accepted)).foldl (fun st _ =>
        { st with sends := st.sends ++ [none], s := step st.s .clogged }) st
      finish st old ("burst:ok=" ++ toString accepted ++ ":clogged=" ++ toString (count - accepted))
    | _, _, _ => (st, "bad-op")
  | ["cancel", r] =>
    match ((index? 'r' r).bind (st.sends[·]?)).join with
    | some rid =>
      let st := proto st (.cancel rid)
      -- an effective cancel completes the future at once
      let st := if st.s.cancelSent.length > old.cancelSent.length then
          match st.s.pendingInbound.find? (·.rid == rid) with
          | some f => if st.stalled.contains f then st else completeFut st f (.error .canceled)
          | none => st
        else st
      finish st old "ok"
    | none => finish st old "none"
  | ["mgr", "clog"] => finish { st with clog := true } old "ok"
  | ["mgr", "unclog"] => finish { st with clog := false } old "ok"
  | ["mgr", "gone"] => finish { st with gone := true } old "ok"
  | ["mgr", p, view] =>
    match p.toNat? with
    | some p =>
      if mgrViews.contains view then
        finish { st with mgr := (p, view) :: st.mgr.filter (·.1 != p) } old "ok"
      else (st, "bad-op")
    | none => (st, "bad-op")
  | "ev" :: "established" :: p :: c :: rest =>
    match p.toNat?, c.toNat? with
    | some p, some c =>
      if st.conns.any (fun e => e.1 == (p, c)) || (st.conns.filter (fun e => e.1.1 == p)).length ≥ 2 then
        finish st old "none"
      else
        let st := { st with conns := st.conns ++ [((p, c), rest.head? != some "dead")] }
        match alFind p st.svc with
        | some (primary, none) => finish { st with svc := alModify p (fun _ => (primary, some c)) st.svc } old "ok"
        | some (_, some _) => finish st old "ok"
        | none =>
          let st := { st with svc := (p, (c, none)) :: st.svc }
          finish (proto st (.connectionEstablished p (openAnswer st p))) old "ok"
    | _, _ => (st, "bad-op")
  | ["ev", "closed", p, c] =>
    match p.toNat?, c.toNat? with
    | some p, some c =>
      if !st.conns.any (fun e => e.1 == (p, c)) then finish st old "none"
      else
        let st := { st with conns := st.conns.filter (fun e => e.1 != (p, c)) }
        match alFind p st.svc with
        | none => finish st old "ok"
        | some (primary, secondary) =>
          if primary = c then
            match secondary with
            | none => finish (proto { st with svc := (alTake p st.svc).2 } (.connectionClosed p)) old "ok"
            | some c2 => finish { st with svc := alModify p (fun _ => (c2, none)) st.svc } old "ok"
          else finish { st with svc := alModify p (fun _ => (primary, none)) st.svc } old "ok"
    | _, _ => (st, "bad-op")
  | ["ev", "conndead", p, c] =>
    match p.toNat?, c.toNat? with
    | some p, some c =>
      if connAlive st p c then
        finish { st with conns := st.conns.map (fun e => if e.1 == (p, c) then (e.1, false) else e) } old "ok"
      else finish st old "none"
    | _, _ => (st, "bad-op")
  | ["ev", "dialfail", p] =>
    match p.toNat? with
    | some p => finish (proto st (.dialFailure p)) old "ok"
    | none => (st, "bad-op")
  | "ev" :: kind :: r :: rest =>
    if kind != "subopen" && kind != "subfail" then (st, "bad-op") else
    match index? 'r' r with
    | none => (st, "bad-op")
    | some k =>
      let target := (st.sends[k]?).join.bind fun rid =>
        (st.s.pendingOutbound.find? (fun e => e.2.rid == rid)).bind fun e =>
          (st.opens.find? (fun o => o.1 == e.1)).map fun o => (e.1, o.2, e.2)
      match target with
      | none => finish st old "none"
      | some (sid, p, ctx) =>
        let st := { st with opens := st.opens.filter (fun o => o.1 != sid) }
        if kind = "subopen" then
          -- `fb=<n>`: the substream was negotiated with fallback protocol `n`;
          -- `noread`: nobody ever reads the far end
          let fb := (arg? "fb" rest).bind (·.toNat?)
          let noread := rest.contains "noread"
          let st := proto st (.outboundSubstream p sid fb)
          let st := match fb with
            | some n => { st with negotiated := (ctx.rid, n) :: st.negotiated.filter (·.1 != ctx.rid) }
            | none => st
          let f : Fut := ⟨p, ctx.rid, sid⟩
          let pl := ctx.request.payloadFor fb
          if rest.contains "broken" then
            -- the connection under the substream is gone: the write fails (the size check comes first)
            let st := { st with responders := st.responders.filter (·.k != k) }
            let o : FutOutcome := if pl.len ≤ st.max then .sendError .io else .sendTooLarge
            finish (completeFut st f o.result) old "opened:broken"
          else
          if pl.len ≤ st.max then
            if noread then
              let st := { st with
                responders := st.responders.filter (·.k != k)
                timers := st.timers ++ [(f, st.now + st.timeout)]
                stalled := if varintLen pl.len + pl.len > window then f :: st.stalled else st.stalled }
              finish st old "opened:unread"
            else
            let st := { st with
              responders := ⟨k, sid, f, true⟩ :: st.responders.filter (·.k != k)
              timers := st.timers ++ [(f, st.now + st.timeout)] }
            finish st old ("opened:" ++ showPayload pl)
          else
            let st := { st with responders := ⟨k, sid, f, false⟩ :: st.responders.filter (·.k != k) }
            finish (completeFut st f (.error .tooLargePayload)) old (if noread then "opened:unread" else "opened:nothing")
        else
          let err : SubErr := match rest.head? with
            | some "unsupported" => .unsupported
            | some "notconn" => .notConnected
            | some "notconn-yamux" => .yamuxNotConnected
            | some "notconn-neg" => .negotiationNotConnected
            | some "notconn-ms" => .msNotConnected
            | some "reset" => .io
            | some "reset-yamux" => .yamux
            | some "reset-neg" => .negotiation
            | some "reset-ms" => .negotiation
            | some "clogged" => .clogged
            | some "timeout" => .negotiationTimeout
            | _ => .closed
          finish (proto st (.substreamOpenFailure sid err)) old "ok"
  | op :: r :: rest =>
    if op = "respond" || op = "reject" || op = "close" then
      match index? 'r' r with
      | none => (st, "bad-op")
      | some k =>
        let verdict : Option FutResult :=
          match op, rest with
          | "respond", [len, fill] =>
            match len.toNat?, fill.toNat? with
            | some len, some fill =>
              some (if len ≤ st.max then .response ⟨len, fill⟩ else .error (.rejected (.substreamOpenError .readFailure)))
            | _, _ => none
          | "reject", [] => some (.error (.rejected .substreamClosed))
          | "close", [atTok, len, fill] =>
            match (arg? "at" [atTok]).bind (·.toNat?), len.toNat?, fill.toNat? with
            | some atN, some len, some fill =>
              let pre := varintLen len
              some (if atN ≥ pre ∧ len > st.max then .error (.rejected (.substreamOpenError .readFailure))
                    else if atN ≥ pre + len then .response ⟨len, fill⟩
                    else .error (.rejected .substreamClosed))
            | _, _, _ => none
          | _, _ => none
        match verdict with
        | none => (st, "bad-op")
        | some v =>
          match st.responders.find? (fun r => r.k == k && r.attached) with
          | none => finish st old "none"
          | some r =>
            let st := { st with responders := st.responders.filter (·.k != k) }
            finish (completeFut st r.fut v) old "ok"
    else if op = "inbound" then
      match r.toNat?, rest with
      | some p, len :: fill :: more =>
        match len.toNat?, fill.toNat? with
        | some len, some fill =>
          let k := st.inbounds.length
          -- the substream arrives over the peer's lowest-numbered connection
          if !st.conns.any (fun e => e.1.1 == p) then
            finish { st with inbounds := st.inbounds ++ [none] } old ("i" ++ toString k ++ ":no-connection")
          else
            let hold := more.contains "hold"
            let fbIn := (arg? "fb" more).bind (·.toNat?)
            let payload : Payload := ⟨len, fill⟩
            let written := if hold then 1 else varintLen len + len
            let before := st.s
            let st := proto st (.inboundSubstream p)
            let accepted := st.s.pendingInboundRequests.length > before.pendingInboundRequests.length
            let rid := if st.s.nextRid > before.nextRid then some before.nextRid else none
            let e : InboundEnd := ⟨p, rid, payload, written, none, !accepted, false, false, false, fbIn⟩
            let st := { st with inbounds := st.inbounds ++ [some e] }
            let st := if accepted then progressInbound st k e false else st
            let (st, o) := finish st old ("i" ++ toString k)
            (st, if o.startsWith "panic" then o else
              match o.splitOn ";" with
              | res :: tail => joinWith ";" (withRemote st k res :: tail)
              | [] => o)
        | _, _ => (st, "bad-op")
      | _, _ => (st, "bad-op")
    else if op = "answer" && (rest.length = 2 || rest.length = 3 && rest[2]? = some "feedback") || op = "refuse" && rest.isEmpty then
      match index? 'i' r with
      | none => (st, "bad-op")
      | some k =>
        match st.inbounds[k]? with
        | some (some e) =>
          match e.rid with
          | none => finish st old "none"
          | some rid =>
            let f : InFut := ⟨e.peer, rid⟩
            let payload? : Option Payload := match rest with
              | len :: fill :: _ => match len.toNat?, fill.toNat? with
                | some len, some fill => some ⟨len, fill⟩
                | _, _ => none
              | _ => none
            if op = "answer" && payload?.isNone then (st, "bad-op") else
            -- `send_response{,_with_feedback}` / `reject_request` use up the pending response, if any
            let hr := if op = "answer" then st.h.sendResponse rid else st.h.rejectRequest rid
            let st := { st with h := hr.1 }
            let effective := hr.2 && st.s.pendingOutboundResponses.contains f
            let got := if op = "answer" && effective then payload?.filter (·.len ≤ st.max) else none
            let st :=
              if effective then
                setInbound (proto st (.responseDone f)) k { e with answered := true, got := got, eof := true }
              else st
            -- the feedback channel fires once the response has been written, and is dropped otherwise
            let word := if rest.length = 3 then (if got.isSome then "ok:feedback=sent" else "ok:feedback=dropped") else "ok"
            let (st, o) := finish st old word
            (st, match o.splitOn ";" with
              | res :: tail => joinWith ";" (withRemote st k res :: tail)
              | [] => o)
        | _ => finish st old "none"
    else (st, "bad-op")
  | _ => (st, "bad-op")

def stepInboundOps (st : State) (ts : List String) : Option (State × String) :=
  let old := st.s
  match ts with
  | [op, i] =>
    if op = "feed" || op = "drop" || op = "remote" then
      match index? 'i' i with
      | none => some (st, "bad-op")
      | some k =>
        match st.inbounds[k]? with
        | some (some e) =>
          if op = "remote" then
            let (st, o) := finish st old (remoteView e)
            some (st, o)
          else
            let full := varintLen e.payload.len + e.payload.len
            if op = "feed" && (e.written ≥ full || e.remoteClosed) then some (finish st old "none") else
            let e := if op = "feed" then { e with written := full } else { e with remoteClosed := true }
            let st := setInbound st k e
            let st := progressInbound st k e (op = "drop")
            let (st, o) := finish st old "ok"
            some (st, match o.splitOn ";" with
              | res :: tail => joinWith ";" (withRemote st k res :: tail)
              | [] => o)
        | _ => some (finish st old "none")
    else none
  | _ => none

def step (st : State) (line : String) : State × String :=
  let ts := tokens line
  match ts with
  | "cfg" :: _ => stepCfg st line
  | _ =>
    if !st.cfg then (st, "bad-op") else
    match ts with
    | ["state"] => (st, showState st)
    | ["advance", n] =>
      match n.toNat? with
      | some n =>
        let old := st.s
        let st := { st with now := st.now + n }
        let due := st.timers.filter (fun t => t.2 ≤ st.now)
        let st := { st with timers := st.timers.filter (fun t => t.2 > st.now) }
        let st := due.foldl (fun st t => completeFut st t.1 (.error .timeout)) st
        finish st old "ok"
      | none => (st, "bad-op")
    | _ =>
      match stepInboundOps st ts with
      | some r => r
      | none => stepOp st ts

end Litep2pVerif.Driver.C13
