import Litep2pVerif.Common.Parse
import Litep2pVerif.Model.Node.Wiring
/-!
Line-protocol driver of the wiring model (area `node`, adapter `/repo/src/verif/node.rs`).

* `node <i> <config…>`: prints the registration record `Node.new` predicts — compared exactly with the record of the
  real node.
* every other operation (real sockets, real time) arrives with the implementation's observation (`op -> obs`,
  checker mode). The driver decides `bad-op` from the configurations alone, checks the configuration-determined part
  of the observation (identify's protocol list is exactly the registered main names; an idle close never comes
  before the smaller of the two configured keep-alive timeouts minus the establishment skew) and echoes it;
  otherwise it prints what it allows.
-/
namespace Litep2pVerif.Driver.Node
open Litep2pVerif Litep2pVerif.Node Parse

structure NodeSt where
  cfg : Config
  res : NewResult
  deriving Inhabited

structure State where
  nodes : List NodeSt := []
  /-- some operation other than the first connection attempt happened (closes are then not judged) -/
  disturbed : Bool := false
  /-- accepted dials so far -/
  dials : Nat := 0

def init : State := {}

def insertSorted (s : String) : List String → List String
  | [] => [s]
  | x :: t => if s < x then s :: x :: t else x :: insertSorted s t

def sortStrings (l : List String) : List String := l.foldr insertSorted []

def dedupSorted : List String → List String
  | a :: b :: t => if a = b then dedupSorted (b :: t) else a :: dedupSorted (b :: t)
  | l => l

def showCodec : Codec → String
  | .identity n => s!"id{n}"
  | .varint (some n) => s!"uv{n}"
  | .varint none => "uv-"
  | .unspecified => "un"

def parseCodec (s : String) : Option Codec :=
  if s = "un" then some .unspecified
  else if s = "uv-" then some (.varint none)
  else if s.startsWith "uv" then ((s.drop 2).toString.toNat?).map fun n => .varint (some n)
  else if s.startsWith "id" then ((s.drop 2).toString.toNat?).map .identity
  else none

def namesOf (s : String) : List String :=
  if s = "-" || s.isEmpty then [] else s.splitOn "+"

def showNames (l : List String) : String := if l.isEmpty then "-" else joinWith "+" l

def optNat? (s : String) : Option (Option Nat) :=
  if s = "-" then some none else s.toNat?.map some

def isHex (s : String) : Bool := s.length % 2 == 0 && s.toList.all fun c => (hexDigit? c).isSome

/-- `Option`-sequencing of a list. -/
def allSome {α : Type} : List (Option α) → Option (List α)
  | [] => some []
  | none :: _ => none
  | some x :: t => (allSome t).map (x :: ·)

def parseNotifBase (name mx hs fb mode : String) : Option NotifCfg :=
  if name.isEmpty || !(mode = "a" || mode = "y" || mode = "n") || !(hs = "-" || isHex hs) then none
  else mx.toNat?.map fun m =>
    { name := name, max := m, handshake := if hs = "-" then "-" else hs.toLower, fallback := namesOf fb,
      mode := mode.toList.headD 'a' }

/-- Channel size of the extended notification form: `-` = setter not called, else 1..100000. -/
def chanSize? (s : String) : Option (Option Nat) :=
  if s = "-" then some none else ((s.toNat?).filter (fun n => 1 ≤ n && n ≤ 100000)).map some

def parseNotif (part : String) : Option NotifCfg :=
  match part.splitOn ":" with
  | [name, mx, hs, fb, mode] => parseNotifBase name mx hs fb mode
  | [name, mx, hs, fb, mode, sy, asy, dial] =>
    match parseNotifBase name mx hs fb mode, chanSize? sy, chanSize? asy,
          (if dial = "-" then some none else if dial = "0" then some (some false) else if dial = "1" then some (some true)
           else none : Option (Option Bool)) with
    | some p, some sy, some asy, some d => some { p with sync := sy, async := asy, dial := d }
    | _, _, _, _ => none
  | _ => none

def parseRr (part : String) : Option RrCfg :=
  match part.splitOn ":" with
  | [name, mx, to, fb, mi] =>
    if name.isEmpty then none else
    match mx.toNat?, to.toNat?, optNat? mi with
    | some m, some t, some i => some ⟨name, m, t, namesOf fb, i⟩
    | _, _, _ => none
  | _ => none

def parseUser (part : String) : Option UserCfg :=
  match part.splitOn ":" with
  | [name, codec] => if name.isEmpty then none else (parseCodec codec).map fun c => ⟨name, c⟩
  | _ => none

def parseKadSet (item : String) : Option KadSet :=
  match item.splitOn "~" with
  | [k, v] =>
    let mode : Option Bool := if v = "m" then some false else if v = "a" then some true else none
    let num := (v.toNat?).filter (· ≤ 1000000000)
    if k = "upd" then mode.map .updateMode
    else if k = "val" then mode.map .validationMode
    else if k = "rf" then num.map .replication
    else if k = "ttl" then num.map .recordTtl
    else if k = "mr" then num.map .maxRecords
    else if k = "mrs" then num.map .maxRecordSize
    else if k = "mpk" then num.map .maxProviderKeys
    else if k = "mpa" then num.map .maxProviderAddresses
    else if k = "mppk" then num.map .maxProvidersPerKey
    else if k = "pri" then num.map .providerRefresh
    else if k = "pttl" then num.map .providerTtl
    else none
  | _ => none

def parseKad (part : String) : Option KadCfg :=
  match part.splitOn ":" with
  | [names, mx] => (optNat? mx).map fun m => { names := if names = "d" then [] else namesOf names, max := m }
  | [names, mx, opts] =>
    match optNat? mx, allSome ((opts.splitOn "/").map parseKadSet) with
    | some m, some sets => some { names := if names = "d" then [] else namesOf names, max := m, sets := sets }
    | _, _ => none
  | _ => none

def parseTcpSet (item : String) : Option TcpSet :=
  match item.splitOn "~" with
  | [k, v] =>
    let rng := fun (lo hi : Nat) => (v.toNat?).filter (fun n => lo ≤ n && n ≤ hi)
    if k = "nd" then (rng 0 1).map fun n => .nodelay (n == 1)
    else if k = "ru" then (rng 0 1).map fun n => .reusePort (n == 1)
    else if k = "nra" then (rng 1 64).map .readAhead
    else if k = "nwb" then (rng 1 64).map .writeBuffer
    else if k = "cot" then (rng 1 3600000).map .connectionOpen
    else if k = "sot" then (rng 1 3600000).map .substreamOpen
    else if k = "yms" then (rng 1 4096).map .yamuxStreams
    else if k = "tmpd" then (rng 1 1000).map .parallelDials
    else none
  | _ => none

/-- Protocol version / user agent words of the adapter. -/
def isWord (s : String) : Bool :=
  !s.isEmpty && s.toList.all fun c => c.isAlphanum || c = '/' || c = '.' || c = '_'


def listenCount (st : State) (j : Nat) : Nat :=
  match st.nodes[j]? with
  | some { res := .ok w, .. } => w.listen.length
  | _ => 0

/-- Address kind token of the adapter; `none` = the adapter cannot build such an address for node `j`. `r<k>` is the
reported listen address: the same as `l<k>` in the model. -/
def parseKind (st : State) (j : Nat) (s : String) : Option AddrKind :=
  let nth := fun (t : String) => (t.toNat?).filter (· < listenCount st j)
  let port := fun (t : String) (lo : Nat) => (t.toNat?).filter (fun k => lo ≤ k && k ≤ 9)
  if s = "x" then some .closed
  else if s.startsWith "x" then (port (s.drop 1).toString 2).map .closedPort
  else if s.startsWith "d" then (port (s.drop 1).toString 1).map .dns
  else if s = "q" then some .quic
  else if s.startsWith "l" then (nth (s.drop 1).toString).map .listen
  else if s.startsWith "r" then (nth (s.drop 1).toString).map .listen
  else if s.startsWith "n" then (nth (s.drop 1).toString).map .noPeer
  else if s.startsWith "w" then (nth (s.drop 1).toString).map .wrongPeer
  else none

/-- Kinds of `dialaddr` / `addknown` only: `hn<k>` / `hf<k>` / `hs<k>` = `/dns` / `/dns4` / `/dns6` + `/localhost/tcp/<port of
listen address k of node j>/p2p/<j>`; everything else as `parseKind`. -/
def dialKindOk (st : State) (j : Nat) (s : String) : Bool :=
  if s.startsWith "hn" || s.startsWith "hf" || s.startsWith "hs" then
    (((s.drop 2).toString.toNat?).filter (· < listenCount st j)).isSome
  else (parseKind st j s).isSome

def parseKnown (st : State) (part : String) : Option (Nat × List AddrKind) :=
  match part.splitOn ":" with
  | [j, kinds] =>
    match (j.toNat?).filter (· < st.nodes.length) with
    | some j => (allSome ((kinds.splitOn "+").map (parseKind st j))).map fun ks => (j, ks)
    | none => none
  | _ => none

def parseListen (s : String) : Option (List Nat) :=
  if s = "0" then some [] else
  allSome (s.toList.map fun c =>
    if '1' ≤ c ∧ c ≤ '4' then some (c.toNat - '0'.toNat) else none)

/-- `node <i> k=v…` → configuration (`none` = `bad-op`). The last occurrence of a key wins, as in the adapter. -/
def parseConfig (st : State) (args : List String) : Option Config :=
  if args.any (fun a => !(a.contains '=')) then none else
  let get := fun k => arg? k args.reverse
  let opt := fun {α : Type} (k : String) (f : String → Option α) => match get k with
    | none => some none
    | some v => (f v).map some
  let lst := fun {α : Type} (k : String) (f : String → Option α) => match get k with
    | none => some []
    | some v => allSome ((v.splitOn ",").map f)
  match opt "ka" String.toNat?,
        opt "lim" (fun v => match v.splitOn "/" with
          | [a, b] => match optNat? a, optNat? b with
            | some a, some b => some (a, b)
            | _, _ => none
          | _ => none),
        parseListen ((get "listen").getD "1"),
        lst "notif" parseNotif, lst "rr" parseRr, lst "user" parseUser, lst "kad" parseKad,
        (match get "ping" with
          | none => some none
          | some "0" => some none
          | some v => v.toNat?.map some),
        opt "known" (fun v => allSome ((v.splitOn ",").map (parseKnown st))),
        (match opt "mpd" (fun v => (v.toNat?).filter (· ≤ 1000)), opt "pingf" String.toNat?,
               (match get "tcpc" with
                 | none => some []
                 | some v => allSome ((v.splitOn "/").map parseTcpSet)),
               (match get "idv" with
                 | none => some "/verif/1"
                 | some v => if isWord v then some v else none),
               (match get "ida" with
                 | none => some (some "verif")
                 | some v => if v = "-" then some none else if isWord v then some (some v) else none) with
          | some mpd, some pf, some tcps, some idv, some ida => some (mpd, pf, tcps, idv, ida)
          | _, _, _, _, _ => none) with
  | some ka, some lim, some listen, some notif, some rr, some user, some kad, some ping, some known,
    some (mpd, pf, tcps, idv, ida) =>
    some { keepAliveMs := ka, limits := lim, tcp := (get "tcp").map (· != "0") |>.getD true, listen := listen,
           notif := notif, rr := rr, user := user, kad := kad, ping := ping,
           identify := get "identify" = some "1", bitswap := get "bitswap" = some "1",
           known := known, customExecutor := get "exec" = some "custom",
           maxParallelDials := mpd, tcpSets := tcps, pingFailures := pf, idVersion := idv, idAgent := ida }
  | _, _, _, _, _, _, _, _, _, _ => none

def showOpt : Option Nat → String
  | none => "-"
  | some n => toString n

def showKind (j : Nat) : AddrKind → String
  | .listen k => s!"{j}.{k}/p{j}"
  | .closed => s!"x/p{j}"
  | .closedPort k => s!"x{k}/p{j}"
  | .dns k => s!"d{k}/p{j}"
  | .noPeer k => s!"{j}.{k}"
  | .wrongPeer k => s!"{j}.{k}/p?"
  | .quic => s!"q/p{j}"

/-- Known addresses merged per peer (one `PeerContext` per peer, a `HashMap` of addresses), empty ones left out. -/
def showKnown (known : List (Nat × List AddrKind)) : String :=
  let peers := (known.map (·.1)).eraseDups
  let per := peers.filterMap fun j =>
    let addrs := dedupSorted (sortStrings ((known.filter (·.1 = j)).flatMap fun (_, ks) => ks.map (showKind j)))
    if addrs.isEmpty then none else some s!"{j}:{joinWith "+" addrs}"
  joinWith ";" (sortStrings per)

def showBool (b : Bool) : String := if b then "true" else "false"

def showMode (auto : Bool) : String := if auto then "Automatic" else "Manual"

def showNote (ch : Nat) : Note → String
  | .notif name sy asy auto dial hs =>
    s!"notif|{name},sync={sy},async={asy},auto={showBool auto},dial={showBool dial},hs={hs},cap={ch}/{ch}"
  | .rr name t mi => s!"rr|{name},to={t},maxin={showOpt mi},cap={ch}/{ch}"
  | .ping i f => s!"ping|int={i},mf={f},cap={ch}"
  | .kad h =>
    s!"kad|rf={h.replication}/{h.replication},pf={Consts.NODE_KAD_PARALLELISM_FACTOR},ttl={h.recordTtlMs}," ++
    s!"upd={showMode h.updateAuto},val={showMode h.validationAuto},mr={h.store.maxRecords},mrs={h.store.maxRecordSize}," ++
    s!"mpk={h.store.maxProviderKeys},mpa={h.store.maxProviderAddresses},mppk={h.store.maxProvidersPerKey}," ++
    s!"pri={h.store.providerRefreshMs},pttl={h.store.providerTtlMs}"
  | .identify v a => s!"identify|pv={v},ua={a},own=true,cap={ch}"
  | .bitswap => s!"bitswap|cap={ch}/{ch}"

def showTcp (t : TcpHeld) : String :=
  s!"mpd={t.maxParallelDials},reuse={showBool t.reusePort},nodelay={showBool t.nodelay},nra={t.readAhead}," ++
  s!"nwb={t.writeBuffer},cot={t.connectionOpenMs},sot={t.substreamOpenMs},left=0,yms={t.yamuxStreams},ymsame=true"

/-- `pset`, `tcp`, `cfg`: what a connection's `ProtocolSet` answers per name, what the transport and the protocol
objects hold. -/
def heldRecord (w : Wired) (b : Built) : String :=
  let names := dedupSorted (sortStrings (w.regs.flatMap Registration.claims))
  let pset := names.map fun n =>
    let codec := match protocolCodec w.regs n with
      | some c => showCodec c
      | none => "panic"
    let ka := match nameKeepAlive w.regs n with
      | some true => "Y"
      | some false => "N"
      | none => "?"
    s!"{n}>{codec}>{ka}"
  let cfg := sortStrings ((notes b).map (showNote Consts.NODE_DEFAULT_CHANNEL_SIZE))
  s!" pset=[{joinWith ";" pset}] tcp=[{showTcp (tcpHeld b)}] cfg=[{joinWith ";" cfg}]"

def record (i : Nat) (w : Wired) (custom : Bool) : String :=
  let listen := joinWith "," (w.listen.map fun (o, own) => s!"{o}:{if own then "own" else "other"}")
  let idx := List.range w.listen.length
  let mlisten := joinWith "," (sortStrings (idx.map (fun k => s!"{i}.{k}") ++ idx.map (fun k => s!"{i}.{k}/p{i}")))
  let regs := sortStrings (w.regs.map fun r =>
    s!"{r.name}|{showCodec r.codec}|{if r.keepAlive then "Y" else "N"}|{showNames r.fallback}")
  let names := dedupSorted (sortStrings (w.regs.flatMap Registration.claims))
  let svc := sortStrings (w.regs.map fun r =>
    s!"{r.name}|{r.keepAliveMs}|{if r.keepAlive then "Y" else "N"}|{showNames r.fallback}|own")
  s!"ok id=ok listen=[{listen}] mlisten=[{mlisten}] lim={showOpt w.limits.1}/{showOpt w.limits.2} " ++
  s!"known=[{showKnown w.known}] tr=[tcp] exec={if custom then toString w.spawned else "-"} " ++
  s!"regs=[{joinWith ";" regs}] names=[{joinWith "," names}] svc=[{joinWith ";" svc}]"

def built (st : State) (s : String) : Option (Nat × Wired × Config) :=
  match s.toNat? with
  | some i => match st.nodes[i]? with
    | some { res := .ok w, cfg := c } => some (i, w, c)
    | _ => none
  | none => none

def peerIx (st : State) (s : String) : Option Nat := (s.toNat?).filter (· < st.nodes.length)

def hasNotif (c : Config) (p : String) : Bool := (build c).notif.any (·.name = p)
def hasRr (c : Config) (p : String) : Bool := (build c).rr.any (·.name = p)
def hasUser (c : Config) (p : String) : Bool := (build c).user.any (·.name = p)

def keepAliveOf (c : Config) : Nat := (build c).keepAliveMs

/-- Tokens of `src=[a,b]` groups of an `events` observation. -/
def eventTokens (obs : String) : List (String × List String) :=
  (tokens obs).filterMap fun g => match g.splitOn "=[" with
    | [src, rest] => some (src, ((rest.dropEnd 1).toString.splitOn ",").filter (!·.isEmpty))
    | _ => none

/-- Establishment skew tolerated between the two ends (ms). -/
def skewMs : Nat := 250

/-- What the wiring model says about one event token seen by node `i`; `none` = fine. -/
def checkToken (st : State) (i : Nat) (src tok : String) : Option String :=
  if src = "id" then
    match tok.splitOn "|" with
    | [who, protos, _] =>
      match ((who.drop 1).toString.toNat?).bind (fun j => st.nodes[j]?) with
      | some { res := .ok w, .. } =>
        let want := showNames (sortStrings w.identifyProtocols)
        if protos = want then none else some s!"identify-protocols:{want}"
      | _ => none
    | _ => none
  else if src = "app" && tok.startsWith "C" && !st.disturbed && st.nodes.length = 2 then
    match tok.splitOn "@", st.nodes with
    | [_, ms], [a, b] =>
      let t := min (keepAliveOf a.cfg) (keepAliveOf b.cfg)
      let limited := a.cfg.limits.isSome || b.cfg.limits.isSome
      match ms.toNat? with
      | some ms => if !limited && ms + skewMs < t then some s!"closed-before-keep-alive:{t}" else none
      | none => none
    | _, _ => let _ := i; none
  else none

/-- A second accepted dial means several connections: which one closed when is not judged. -/
def dialed (st : State) (obs : String) : State :=
  if obs = "ok" then { st with dials := st.dials + 1, disturbed := st.disturbed || st.dials ≥ 1 } else st

def step (st : State) (line : String) : State × String :=
  let (line, impl) := match line.splitOn " -> " with
    | [l] => (l, none)
    | l :: rest => (l, some (joinWith " -> " rest))
    | [] => (line, none)
  let echo := impl.getD "?"
  let len? := fun (s : String) => (s.toNat?).filter (· ≤ 1048576)
  let tag? := fun (s : String) => (s.toNat?).filter (· ≤ 255)
  match tokens line with
  | "node" :: i :: args =>
    match (i.toNat?).filter (fun i => i = st.nodes.length && i < 3), parseConfig st args with
    | some i, some cfg =>
      let res := Node.new cfg
      let st' := { st with nodes := st.nodes ++ [⟨cfg, res⟩], disturbed := st.disturbed }
      (st', match res with
        | .ok w => record i w cfg.customExecutor ++ heldRecord w (build cfg)
        | .noTransport => "err:Other"
        | .panic => "panic duplicate protocol name")
    | _, _ => (st, "bad-op")
  | ["dial", i, j] =>
    match built st i, peerIx st j with
    | some _, some _ => (dialed st echo, echo)
    | _, _ => (st, "bad-op")
  | ["dialaddr", i, j, kind] =>
    match built st i, (peerIx st j).filter (fun j => dialKindOk st j kind) with
    | some _, some _ => (dialed st echo, echo)
    | _, _ => (st, "bad-op")
  | ["addknown", i, j, kinds] =>
    match built st i, peerIx st j with
    | some _, some j =>
      if ((kinds.splitOn "+").all fun k => dialKindOk st j k) then ({ st with disturbed := true }, echo) else (st, "bad-op")
    | _, _ => (st, "bad-op")
  | ["pubaddr", i, k] =>
    match built st i, tag? k with
    | some _, some _ => (st, echo)
    | _, _ => (st, "bad-op")
  | ["bw", i] => if (built st i).isSome then (st, echo) else (st, "bad-op")
  | ["scores", i, j] =>
    match built st i, peerIx st j with
    | some _, some _ => (st, echo)
    | _, _ => (st, "bad-op")
  | ["listen", i] =>
    match built st i with
    | some (i, w, _) =>
      (st, "listen=[" ++ joinWith "," ((List.range w.listen.length).map fun k => s!"{i}.{k}/p{i}") ++ "]")
    | none => (st, "bad-op")
  | [op, i, p, j] =>
    if op = "open_notif" || op = "close_notif" then
      match built st i, peerIx st j with
      | some (_, _, c), some _ => ({ st with disturbed := true }, if hasNotif c p then echo else "noproto")
      | _, _ => (st, "bad-op")
    else if op = "open_sub" || op = "close" then
      match built st i, peerIx st j with
      | some (_, _, c), some _ => ({ st with disturbed := true }, if hasUser c p then echo else "noproto")
      | _, _ => (st, "bad-op")
    else if op = "reject" || op = "cancel" then
      match built st i, j.toNat? with
      | some (_, _, c), some _ => ({ st with disturbed := true }, if hasRr c p then echo else "noproto")
      | _, _ => (st, "bad-op")
    else (st, "bad-op")
  | ["notify", i, p, j, len, tag] =>
    match built st i, peerIx st j, len? len, tag? tag with
    | some (_, _, c), some _, some _, some _ => ({ st with disturbed := true }, if hasNotif c p then echo else "noproto")
    | _, _, _, _ => (st, "bad-op")
  | "request" :: i :: p :: j :: len :: tag :: rest =>
    let okRest := rest.all fun a => a = "dial" || (a.startsWith "fb=" && match ((a.drop 3).toString.splitOn ":") with
      | [_, l] => (len? l).isSome
      | _ => false)
    match built st i, peerIx st j, len? len, tag? tag with
    | some (_, _, c), some _, some _, some _ =>
      if okRest then ({ st with disturbed := true }, if hasRr c p then echo else "noproto") else (st, "bad-op")
    | _, _, _, _ => (st, "bad-op")
  | ["respond", i, p, k, len, tag] =>
    match built st i, (if k = "n" then some 0 else k.toNat?), len? len, tag? tag with
    | some (_, _, c), some _, some _, some _ => ({ st with disturbed := true }, if hasRr c p then echo else "noproto")
    | _, _, _, _ => (st, "bad-op")
  | ["drop_subs", i, p] =>
    match built st i with
    | some (_, _, c) => ({ st with disturbed := true }, if hasUser c p then echo else "noproto")
    | none => (st, "bad-op")
  | ["wait", ms] => if ((ms.toNat?).filter (· ≤ 4000)).isSome then (st, "ok") else (st, "bad-op")
  | ["settle"] => (st, "ok")
  | ["settle", q] => if ((q.toNat?).filter (fun q => 20 ≤ q && q ≤ 2000)).isSome then (st, "ok") else (st, "bad-op")
  | ["await", i, _, _, ms] =>
    if (peerIx st i).isSome && ((ms.toNat?).filter (· ≤ 4000)).isSome then (st, echo) else (st, "bad-op")
  | ["events", i] =>
    match peerIx st i with
    | some i =>
      let problems := (eventTokens echo).flatMap fun (src, toks) => toks.filterMap (checkToken st i src)
      (st, if problems.isEmpty then echo else "model-disallows " ++ joinWith " " problems)
    | none => (st, "bad-op")
  | _ => (st, "bad-op")

end Litep2pVerif.Driver.Node
