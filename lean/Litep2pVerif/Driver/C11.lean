import Litep2pVerif.Common.Parse
import Litep2pVerif.Model.Notif.Sys
import Litep2pVerif.Model.Notif.Handshake
import Litep2pVerif.Model.Notif.Handle
/-!
Line-protocol driver of the notification model (C11). The driver plays the same environment as the
adapter src/verif/c11.rs: the transport, the remote end of every in-memory pipe, the user of the handle,
and the scheduler (protocol loop with its biased order of sources, then the connection tasks, until
nothing is runnable; `hold p` / `unhold p` keep the tasks of a peer from being polled for a while — a held task is
an ordinary not-yet-scheduled task of the transition system: no label of it is taken, nothing else is assumed). The per-peer protocol state is changed only through `PeerSys.step`, i.e. every run
of the driver is an execution of the transition system the theorems quantify over.
-/
namespace Litep2pVerif.Driver.C11
open Litep2pVerif Litep2pVerif.Notif Parse
open Litep2pVerif.NotifHs (HsState)
open Litep2pVerif.NotifHandle (Cmd BatchRes)

structure PipeSt where
  peer : Nat
  inbound : Bool
  toLocal : List (List Nat) := []
  remoteClosed : Bool := false
  reset : Bool := false
  toRemote : List (List Nat) := []
  stall : Bool := false
  localClosed : Bool := false
  /-- a `close()` of this pipe has been suspended by `stall` (reported once) -/
  stallSeen : Bool := false

structure ConnInfo where
  gen : Nat
  cap : Nat
  drain : Bool
  /-- commands in the connection's channel (`some sid` = OpenSubstream, `none` = ForceClose) -/
  queued : List (Option Sid) := []

/-- One entry of the handshake service: its substream is pipe `pipe`. -/
structure HsE where
  peer : Nat
  dir : Dir
  pipe : Nat
  state : HsState
  expired : Bool := false

inductive EvItem
  | validate (hs : Hs) (pipe : Pipe)
  | opened (d : Dir) (hs : Hs) (task : Tid)
  | closed
  | fail (e : Err)

/-- Driver-side view of a connection task (queues and wake flag); phase lives in `PeerSys.tasks`. -/
structure TaskAux where
  id : Tid
  peer : Nat
  queue : List (List Nat) := []      -- sync queue
  aqueue : List (List Nat) := []     -- async queue
  woken : Bool := true
  /-- not scheduled for the time being (`hold`): stays woken, is not polled -/
  held : Bool := false

structure World where
  auto : Bool := false
  dial : Bool := true
  peers : List (Nat × PeerSys) := []
  nextSid : Nat := 0
  nextTask : Nat := 0
  gen : Nat := 0
  pipes : Array PipeSt := #[]
  conns : List (Nat × ConnInfo) := []
  reqs : List (Sid × Nat × Nat × Bool) := []
  evq : List (Nat × EvItem) := []
  notifq : List (Nat × List Nat) := []
  view : List (Nat × Tid) := []
  hvalid : List (Nat × Pipe) := []
  known : List Nat := []
  transportQ : List (Nat × Act) := []
  userQ : List Cmd := []                    -- commands sent by the handle, not yet with the protocol
  cmdQ : List Cmd := []                     -- the protocol's command channel
  cmdHold : Bool := false
  protoHold : Bool := false
  heldConns : List Nat := []                -- connections established while the protocol loop is held
  heldPipePeer : Option Nat := none         -- the one peer whose remote side acts while the protocol loop is held
  protoGone : Bool := false
  obsOrders : List (List Nat) := []         -- checker mode: set orders observed on the implementation
  orders : List String := []
  sinks : List (Option (Tid × Nat)) := []   -- sink clones handed out by `notification_sink` (task, peer)
  clogged : List Nat := []
  heldPeers : List Nat := []
  pendSync : List Nat := []                 -- peers with sync / async sends queued while their task is held
  pendAsync : List Nat := []
  maxSize : Nat := 64
  syncCap : Nat := 16
  asyncCap : Nat := 4
  hsLocal : List Nat := [1, 2, 3, 4]
  hsE : List HsE := []
  validQ : List (Nat × Pipe × Bool) := []
  readyTimers : List Nat := []
  noticeQ : List Nat := []
  hsReady : List (NotifHs.Key × List Nat) := []
  taux : List TaskAux := []
  calls : List (Nat × String) := []         -- transport calls of the current settle (peer, text)
  callsDone : List String := []
  stalledQ : List (Nat × Nat) := []         -- (pipe, peer): closes suspended by `stall` during this op
  panicked : Bool := false
  configured : Bool := false

def init : World := {}

def getPeer (w : World) (p : Nat) : PeerSys := (w.peers.lookup p).getD {}

def setPeer (w : World) (p : Nat) (s : PeerSys) : World :=
  { w with peers := (p, s) :: w.peers.filter (·.1 ≠ p) }

def hsToken (bytes : List Nat) : Hs := bytes.foldl (fun a b => a * 256 + b) 1

partial def hsBytes (h : Hs) : List Nat :=
  if h ≤ 1 then [] else hsBytes (h / 256) ++ [h % 256]

def errWord : Err → String
  | .rejected => "rejected" | .noconn => "noconn" | .valpending => "valpending" | .dialfail => "dialfail"

def dirWord : Dir → String
  | .inbound => "in" | .outbound => "out"

/-- `HashMap::insert` into `HandshakeService::substreams`. -/
def hsInsert (w : World) (e : HsE) : World :=
  { w with hsE := w.hsE.filter (fun x => !(x.peer = e.peer && x.dir = e.dir)) ++ [e] }

/-- `remove_outbound` / `remove_inbound` (`NotifHs.Service.remove`: the queued results go too). -/
def hsRemove (w : World) (k : NotifHs.Key) : World :=
  { w with hsE := w.hsE.filter (fun x => !(x.peer = k.1 && x.dir = k.2)), hsReady := w.hsReady.filter (·.1 ≠ k) }

/-- Interpret the environment-visible part of one step: diff of the log, transport calls, pipes
closed by the protocol, tasks spawned, notices. -/
def afterStep (w : World) (p : Nat) (old new : PeerSys) (outs : List Out) : World := Id.run do
  let mut w := setPeer w p new
  -- user events appended to the log
  for e in new.log.drop old.log.length do
    match e with
    | .opened d hs t _ => w := { w with evq := w.evq ++ [(p, .opened d hs t)] }
    | .closed => w := { w with evq := w.evq ++ [(p, .closed)] }
    | .fail e => w := { w with evq := w.evq ++ [(p, .fail e)] }
    | .validate hs pipe => w := { w with evq := w.evq ++ [(p, .validate hs pipe)] }
    | .bug => w := { w with panicked := true }
    | _ => pure ()
  for o in outs do
    match o with
    | .callOpen sid =>
      match w.conns.lookup p with
      | some c =>
        if c.drain then
          w := { w with calls := w.calls ++ [(p, s!"open({p},s{sid})")], reqs := w.reqs ++ [(sid, p, c.gen, false)] }
        else
          w := { w with conns := (p, { c with queued := c.queued ++ [some sid] }) :: w.conns.filter (·.1 ≠ p) }
      | none => pure ()
    | .forceClose =>
      match w.conns.lookup p with
      | some c =>
        if c.drain then w := { w with calls := w.calls ++ [(p, s!"fc({p})")] }
        else if c.queued.length < c.cap then
          w := { w with conns := (p, { c with queued := c.queued ++ [none] }) :: w.conns.filter (·.1 ≠ p) }
      | none => pure ()
    | .closePipe k =>
      if h : k < w.pipes.size then
        w := { w with pipes := w.pipes.set k { w.pipes[k] with localClosed := true } }
    | .negOut k => w := hsInsert w { peer := p, dir := .outbound, pipe := k, state := .sendHandshake }
    | .readHs k => w := hsInsert w { peer := p, dir := .inbound, pipe := k, state := .readHandshake }
    | .sendHs k => w := hsInsert w { peer := p, dir := .inbound, pipe := k, state := .sendHandshake }
    | .rmOut => w := hsRemove w (p, .outbound)
    | .rmIn => w := hsRemove w (p, .inbound)
    | .spawn t _ _ => w := { w with taux := w.taux ++ [{ id := t, peer := p }] }
    | .shutdown t => w := { w with taux := w.taux.map fun a => if a.id = t then { a with woken := true } else a }
    | _ => pure ()
  return w

/-- One `PeerSys.step`, with its effects on the driver's environment. -/
def act (w : World) (p : Nat) (a : Act) : World :=
  let old := getPeer w p
  afterStep w p old (Notif.step old a) (outsOf old a)

def actTask (w : World) (p : Nat) (a : Act) : World := act w p a

/-- Result of `service.open_substream` for a connected peer: a fresh id is always consumed; the send
fails when the command channel is full. -/
def openAttempt (w : World) (p : Nat) : World × Bool × Sid :=
  match w.conns.lookup p with
  | some c => ({ w with nextSid := w.nextSid + 1 }, c.drain || c.queued.length < c.cap, w.nextSid)
  | none => (w, false, w.nextSid)

-- ---------------------------------------------------------------- handshake service

def pipeGet (w : World) (k : Nat) : PipeSt := w.pipes.getD k { peer := 0, inbound := true }

def pipeSet (w : World) (k : Nat) (f : PipeSt → PipeSt) : World :=
  if h : k < w.pipes.size then { w with pipes := w.pipes.set k (f w.pipes[k]) } else w

def subOf (x : PipeSt) : NotifHs.Sub :=
  { toLocal := x.toLocal, remoteClosed := x.remoteClosed, reset := x.reset, localClosed := x.localClosed,
    toRemote := x.toRemote }

def dirRank : Dir → Nat | .inbound => 0 | .outbound => 1

/-- Poll the handshake service once (`NotifHs.poll` on the entries with their substreams loaded from the
pipes): `some (peer, event)` or `none` (pending). The entries are visited by peer, inbound first. -/
def pollHandshake (w : World) : World × Option (Nat × Act) :=
  let svc : NotifHs.Service :=
    { entries := w.hsE.map fun h =>
        { peer := h.peer, dir := h.dir, sub := subOf (pipeGet w h.pipe), expired := h.expired, state := h.state },
      ready := w.hsReady }
  let order := (w.hsE.map fun h => (h.peer, h.dir)).mergeSort fun a b =>
    a.1 < b.1 || (a.1 = b.1 && dirRank a.2 ≤ dirRank b.2)
  let r := NotifHs.poll w.maxSize w.hsLocal svc order
  -- store the substreams and entry states back
  let after := NotifHs.subsAfter w.maxSize w.hsLocal svc order
  let w1 := w.hsE.foldl (fun w h =>
    match after.find? (fun e => e.peer = h.peer && e.dir = h.dir) with
    | some e => pipeSet w h.pipe fun x => { x with toLocal := e.sub.toLocal, toRemote := e.sub.toRemote }
    | none => w) w
  let w2 := { w1 with
    hsE := w.hsE.filterMap fun h =>
      match r.1.find (h.peer, h.dir) with
      | some e => some { h with state := e.state }
      | none => none,
    hsReady := r.1.ready }
  match r.2 with
  | none => (w2, none)
  | some (.negotiated p d hs) =>
    ({ w2 with nextTask := w2.nextTask + 1 }, some (p, .hsNegotiated d (hsToken hs) w2.auto w2.nextTask))
  | some (.error p d) => (w2, some (p, .hsError d))
  | some .bug => ({ w2 with panicked := true }, none)

-- ---------------------------------------------------------------- protocol loop

/-- Handle one event of the protocol loop in the order of the biased `select!`; `none` = idle. -/
def nextEvent (w : World) : Option World := Id.run do
  -- 1. handshake service
  if !w.hsE.isEmpty then
    let (w1, r) := pollHandshake w
    match r with
    | some (p, a) => return some (act w1 p a)
    | none =>
      if w1.panicked then return some w1
      -- state of the service may have advanced (handshake written)
      if w1.hsReady.length ≠ w.hsReady.length || w1.hsE.any (fun h => w.hsE.any fun g => g.peer = h.peer && g.dir = h.dir && g.state ≠ h.state) then
        return some w1
  -- 2. shutdown notices
  match w.noticeQ with
  | p :: rest => return some (act { w with noticeQ := rest } p .notice)
  | [] => pure ()
  -- 3. timers
  match w.readyTimers with
  | p :: rest => return some (act { w with readyTimers := rest } p .timer)
  | [] => pure ()
  -- 4. transport events
  match w.transportQ with
  | (p, a) :: rest =>
    let w := { w with transportQ := rest }
    let s := getPeer w p
    match a with
    | .connEst _ _ =>
      let (w, ok, sid) := if s.slot = some .dialing then openAttempt w p else (w, true, w.nextSid)
      return some (act w p (.connEst ok sid))
    | _ => return some (act w p a)
  | [] => pure ()
  -- 5. validation results
  match w.validQ with
  | (p, vid, acc) :: rest =>
    let w := { w with validQ := rest }
    let s := getPeer w p
    let needsOpen := acc && (match s.slot with | some (.validating .closed (.validating _) _) => true | _ => false)
    let (w, ok, sid) := if needsOpen then openAttempt w p else (w, false, w.nextSid)
    return some (act w p (.validation vid acc ok sid))
  | [] => pure ()
  -- 6. user commands: one command per iteration, the whole peer set of a command at once
  match w.cmdQ with
  | .forceClose p :: rest =>
    let w := { w with cmdQ := rest }
    return some (afterStep w p (getPeer w p) (getPeer w p) [.forceClose])
  | .openSet ps :: rest =>
    let w := { w with cmdQ := rest }
    return some (ps.foldl (fun w p =>
      if w.panicked then w else
      let s := getPeer w p
      -- `service.open_substream` is called in `Closed` unless a pending substream is reused
      let needsOpen := match s.slot with
        | some (.closed none) => true
        | some (.closed (some x)) => !s.pending.contains x
        | _ => false
      let (w, ok, sid) := if needsOpen then openAttempt w p else (w, false, w.nextSid)
      act w p (.cmdOpen w.dial (w.known.contains p) ok sid)) w)
  | .closeSet ps :: rest =>
    let w := { w with cmdQ := rest }
    return some (ps.foldl (fun w p => if w.panicked then w else act w p .cmdClose) w)
  | [] => return none

-- ---------------------------------------------------------------- connection tasks

def auxOf (w : World) (t : Tid) : Option TaskAux := w.taux.find? (·.id = t)

/-- Some `NotificationSink` of the task's queues still exists: the one in `handle.peers`, a clone handed out by
`notification_sink`, or the one travelling in a `NotificationStreamOpened` event not yet polled. -/
def sinkAlive (w : World) (t : Tid) : Bool :=
  w.view.any (·.2 = t) || w.sinks.any (fun x => x.map (·.1) = some t) ||
    w.evq.any fun (_, e) => match e with | .opened _ _ t' => t' = t | _ => false

def setAux (w : World) (t : Tid) (f : TaskAux → TaskAux) : World :=
  { w with taux := w.taux.map fun a => if a.id = t then f a else a }

def taskOf (w : World) (a : TaskAux) : Option Task := (getPeer w a.peer).tasks.find? (·.id = a.id)

/-- A `close()` found its pipe stalled: reported the first time. -/
def noteStall (w : World) (k : Nat) : World :=
  let x := pipeGet w k
  if x.stallSeen then w
  else { pipeSet w k (fun x => { x with stallSeen := true }) with stalledQ := w.stalledQ ++ [(k, x.peer)] }

/-- Poll one woken task (fuel bounds the `start()` loop). -/
def pollTask (w : World) (t : Tid) : Nat → World
  | 0 => w
  | fuel + 1 =>
    match auxOf w t with
    | none => w
    | some a =>
    match taskOf w a with
    | none => { w with taux := w.taux.filter (·.id ≠ t) }
    | some k =>
      let p := a.peer
      match k.phase with
      | .running =>
        if k.signalled then pollTask (actTask w p (.taskSeesSignal t)) t fuel
        else if !sinkAlive w t && a.queue.isEmpty && a.aqueue.isEmpty then pollTask (actTask w p (.taskSeesClose t)) t fuel
        else
          -- outbound queues (never both non-empty, see `mixGuard`): `start_send` refuses an oversized
          -- notification; what this poll handed to the substream before it is never flushed
          let q := a.queue ++ a.aqueue
          let w := setAux w t fun a => { a with queue := [], aqueue := [] }
          let po := pipeGet w k.outPipe
          if q.any (fun f => f.length > w.maxSize) then pollTask (actTask w p (.taskSeesClose t)) t fuel
          else if !q.isEmpty && (po.reset || po.localClosed) then pollTask (actTask w p (.taskSeesClose t)) t fuel
          else
            let w := pipeSet w k.outPipe fun x => { x with toRemote := x.toRemote ++ q }
            -- poll_flush on a reset pipe fails
            if po.reset then pollTask (actTask w p (.taskSeesClose t)) t fuel
            else
              let pi := pipeGet w k.inPipe
              if pi.reset then pollTask (actTask w p (.taskSeesClose t)) t fuel
              else
                match pi.toLocal with
                | f :: rest =>
                  let w := pipeSet w k.inPipe fun x => { x with toLocal := rest }
                  if f.length > w.maxSize then pollTask (actTask w p (.taskSeesClose t)) t fuel
                  else pollTask { w with notifq := w.notifq ++ [(p, f)] } t fuel
                | [] =>
                  if pi.remoteClosed then pollTask (actTask w p (.taskSeesClose t)) t fuel else w
      | .closing _ =>
        let pi := pipeGet w k.inPipe
        if pi.stall && !pi.localClosed then noteStall w k.inPipe
        else
          let w := pipeSet w k.inPipe fun x => { x with localClosed := true }
          let po := pipeGet w k.outPipe
          if po.stall && !po.localClosed then noteStall w k.outPipe
          else
            let w := pipeSet w k.outPipe fun x => { x with localClosed := true }
            let notify := k.phase = .closing true
            let w := actTask w p (.taskNotice t)
            let w := if notify then { w with noticeQ := w.noticeQ ++ [p] } else w
            pollTask w t fuel
      | .noticed =>
        let w := actTask w p (.taskReport t)
        { w with taux := w.taux.filter (·.id ≠ t) }

def pollTasks (w : World) : World × Bool := Id.run do
  let mut w := w
  let mut any := false
  for a in w.taux do
    match auxOf w a.id with
    | some cur =>
      if cur.woken && !cur.held then
        any := true
        w := setAux w a.id fun x => { x with woken := false }
        w := pollTask w a.id 64
    | none => pure ()
  return (w, any)

def settle (w : World) : Nat → World
  | 0 => w
  | fuel + 1 =>
    let rec proto (w : World) : Nat → World
      | 0 => w
      | n + 1 => match nextEvent w with
        | some w' => if w'.panicked then w' else proto w' n
        | none => w
    let w := if w.protoHold || w.protoGone then w else proto w 256
    if w.panicked then w else
    let (w, any) := pollTasks w
    let more := !(w.protoHold || w.protoGone) &&
      (!w.noticeQ.isEmpty || !w.transportQ.isEmpty || !w.validQ.isEmpty || !w.cmdQ.isEmpty)
    if any || more then settle w fuel else w

/-- The adapter reads the connections' command channels after each settle, by peer. -/
def flushCalls (w : World) : World :=
  { w with callsDone := w.callsDone ++ (w.calls.mergeSort (fun a b => a.1 ≤ b.1)).map (·.2), calls := [] }

def isPerm (a b : List Nat) : Bool :=
  a.length = b.length && a.all (fun x => b.contains x) && b.all (fun x => a.contains x)

/-- The adapter hands the commands of the handle to the protocol (unless `cmdhold`); the iteration order of a
multi-peer `OpenSubstream` set is taken from the implementation's observation (any permutation is allowed). -/
def forward (w : World) : World :=
  if w.cmdHold then w else
  w.userQ.foldl (fun w c =>
    match c with
    | .openSet ps =>
      if ps.length > 1 then
        let (ord, restObs) := match w.obsOrders with
          | o :: r => (if isPerm o ps then o else ps, r)
          | [] => (ps, [])
        { w with cmdQ := w.cmdQ ++ [.openSet ord], obsOrders := restObs,
                 orders := w.orders ++ ["order=" ++ joinWith "," (ord.map toString)] }
      else { w with cmdQ := w.cmdQ ++ [c] }
    | _ => { w with cmdQ := w.cmdQ ++ [c] }) { w with userQ := [] }

def wakeTasksOfPipe (w : World) (k : Nat) : World :=
  { w with taux := w.taux.map fun a =>
      match taskOf w a with
      | some t => if t.inPipe = k || ((t.inPipe = k || t.outPipe = k) && t.phase ≠ .running) then { a with woken := true } else a
      | none => a }

/-- `release` wakes only the close waker, which a task registers inside `close_connection` (a running task
that never called `poll_shutdown` is not polled). -/
def wakeClosingTasksOfPipe (w : World) (k : Nat) : World :=
  { w with taux := w.taux.map fun a =>
      match taskOf w a with
      | some t => if (t.inPipe = k || t.outPipe = k) && t.phase ≠ .running then { a with woken := true } else a
      | none => a }

-- ---------------------------------------------------------------- printing

def finish (w : World) (res : String) : World × String :=
  if w.panicked then ({ w with calls := [], callsDone := [], stalledQ := [], orders := [] }, "panic debug-assert")
  else
    let w := flushCalls w
    let stalled := (w.stalledQ.mergeSort (fun a b => a.1 ≤ b.1)).map fun (_, p) => s!"stalled({p})"
    let all := w.callsDone ++ w.orders ++ stalled
    let out := if all.isEmpty then res else res ++ " " ++ joinWith " " all
    ({ w with calls := [], callsDone := [], stalledQ := [], orders := [] }, out)

def run (w : World) (res : String) : World × String := finish (settle (forward w) 64) res

def showOutSt : OutSt → String
  | .closed => "closed" | .init s => s!"init(s{s})" | .neg => "neg" | .opn _ _ => "open"

def showInSt : InSt → String
  | .closed => "closed" | .reading => "read" | .validating _ => "validating" | .sending => "send" | .opn _ => "open"

def showState : PState → String
  | .poisoned => "poisoned"
  | .valPending .opn => "valpending(open)"
  | .valPending .clo => "valpending(closed)"
  | .closed none => "closed(-)"
  | .closed (some s) => s!"closed(s{s})"
  | .dialing => "dialing"
  | .outInit s => s!"outinit(s{s})"
  | .validating o i d => s!"validating(out={showOutSt o},in={showInSt i},dir={dirWord d})"
  | .opn _ => "open"

def stateLine (w : World) : String :=
  let ps := (w.peers.map (·.1)).mergeSort (· ≤ ·)
  let sts := ps.filterMap fun p => (getPeer w p).slot.map fun st => s!"{p}:{showState st}"
  let pend := (w.peers.flatMap fun (p, s) => s.pending.map fun sid => (sid, p)).mergeSort (fun a b => a.1 ≤ b.1)
  let hs := w.peers.any fun (_, s) => s.hsOut.isSome || s.hsIn.isSome
  let timers := (w.peers.map fun (_, s) => s.timers).foldl (· + ·) 0 + w.readyTimers.length
  let vals := (w.peers.map fun (_, s) => s.validations.length).foldl (· + ·) 0
  let tasks := (w.peers.map fun (_, s) => s.tasks.length).foldl (· + ·) 0
  s!"[{joinWith " " sts}] pending=[{joinWith "," (pend.map fun (sid, p) => s!"s{sid}:{p}")}] hs={if hs then 1 else 0} timers={timers} validations={vals} tasks={tasks}"

def showEv (p : Nat) : EvItem → String
  | .validate hs _ => s!"validate({p},hs={bytesHex (hsBytes hs)})"
  | .opened d hs _ => s!"opened({p},{dirWord d},hs={bytesHex (hsBytes hs)})"
  | .closed => s!"closed({p})"
  | .fail e => s!"fail({p},{errWord e})"

/-- The handle polls: first every queued event (updating `peers` / `pending_validations`), then the
notifications of peers it knows. -/
def wakeIfSinkless (w : World) (t : Tid) : World :=
  if sinkAlive w t then w else setAux w t fun a => { a with woken := true }

def drainEvents (w : World) : World × List String := Id.run do
  let mut w := w
  let mut out : List String := []
  let evs := w.evq
  let mut left := evs
  for (p, e) in evs do
    left := left.drop 1
    w := { w with evq := left }
    out := out ++ [showEv p e]
    match e with
    | .opened _ _ t =>
      -- replacing a sink drops the old one
      let old := w.view.lookup p
      w := { w with view := (p, t) :: w.view.filter (·.1 ≠ p) }
      match old with
      | some o => w := wakeIfSinkless w o
      | none => pure ()
    | .closed =>
      let old := w.view.lookup p
      w := { w with view := w.view.filter (·.1 ≠ p), clogged := w.clogged.filter (· ≠ p) }
      match old with
      | some o => w := wakeIfSinkless w o
      | none => pure ()
    | .validate _ pipe =>
      match w.hvalid.lookup p with
      | some old => w := { w with validQ := w.validQ ++ [(p, old, false)] }   -- dropped oneshot ⇒ Reject
      | none => pure ()
      w := { w with hvalid := (p, pipe) :: w.hvalid.filter (·.1 ≠ p) }
    | .fail _ => pure ()
  w := { w with evq := [] }
  for (p, f) in w.notifq do
    if (w.view.lookup p).isSome then out := out ++ [s!"notif({p},{bytesHex f})"]
  w := { w with notifq := [] }
  return (w, out)

def eventsOp (w : World) : Nat → List String → World × List String
  | 0, acc => (w, acc)
  | fuel + 1, acc =>
    let (w, evs) := drainEvents w
    let w := flushCalls (settle w 64)
    if evs.isEmpty || w.panicked then (w, acc ++ evs) else eventsOp w fuel (acc ++ evs)

/-- Resolve a pipe of peer `p` by role and age (0 = newest). -/
def findPipe (w : World) (p : Nat) (inbound : Bool) (age : Nat) : Option Nat :=
  let ks := (List.range w.pipes.size).reverse.filter fun k =>
    let x := pipeGet w k
    x.peer = p && x.inbound = inbound
  ks[age]?

def markAnswered : List (Sid × Nat × Nat × Bool) → Nat → List (Sid × Nat × Nat × Bool)
  | [], _ => []
  | (a, b, c, d) :: rest, 0 => (a, b, c, true) :: rest
  | r :: rest, j + 1 => r :: markAnswered rest j

def parseAge (rest : List String) : Nat × List String :=
  match rest with
  | a :: more => if a.startsWith "age=" then ((a.drop 4).toNat?.getD 0, more) else (0, rest)
  | [] => (0, [])

def cmdCap : Nat := 4096    -- DEFAULT_CHANNEL_SIZE (checked against the source by the plugin's CONST_TABLE)

def parseList (s : String) : Option (List Nat) :=
  if s = "-" then some [] else (s.splitOn ",").mapM (·.toNat?)

def showList (l : List Nat) : String :=
  if l.isEmpty then "-" else joinWith "," ((l.mergeSort (· ≤ ·)).map toString)

/-- Hand a command to the command channel if it has capacity. -/
def sendCmd (w : World) (c : Cmd) : World × Bool :=
  if w.userQ.length ≥ cmdCap then (w, false) else ({ w with userQ := w.userQ ++ [c] }, true)

/-- Adapter rule (the same in src/verif/c11.rs): while the connection task of a peer is held back, the user does
not mix sending modes towards it — which of two non-empty queues the task's `select!` serves first is not
determined (that interleaving is C12's subject). `true` = the send is not performed (`ignored`). -/
def mixGuard (w : World) (p : Nat) (isAsync : Bool) : Bool :=
  w.heldPeers.contains p && (if isAsync then w.pendSync.contains p else w.pendAsync.contains p)

def notePending (w : World) (p : Nat) (isAsync : Bool) : World :=
  if !w.heldPeers.contains p then w
  else if isAsync then { w with pendAsync := p :: w.pendAsync } else { w with pendSync := p :: w.pendSync }

/-- `NotificationSink::send_sync_notification` on the queues of task `t`. -/
def sinkSync (w : World) (t : Tid) (bytes : List Nat) : World × String :=
  match auxOf w t with
  | none => (w, "noconn")
  | some a =>
    if a.queue.length ≥ w.syncCap then (w, "clogged")
    else (notePending (setAux w t fun a => { a with queue := a.queue ++ [bytes], woken := true }) a.peer false, "ok")

/-- `NotificationSink::send_async_notification`, polled once. -/
def sinkAsync (w : World) (t : Tid) (bytes : List Nat) : World × String :=
  match auxOf w t with
  | none => (w, "noconn")
  | some a =>
    if a.aqueue.length ≥ w.asyncCap then (w, "blocked")
    else (notePending (setAux w t fun a => { a with aqueue := a.aqueue ++ [bytes], woken := true }) a.peer true, "ok")

def showBatch : BatchRes → String
  | .ok => "ok" | .ignored ps => s!"ok ignored={showList ps}" | .blocked => "blocked"
  | .full ps => s!"full={showList ps}" | .none => "none"

/-- The user drops the handle and every sink; `run()` is polled until it returns; then the tasks. -/
def shutdownOp (w : World) : World × String :=
  let w := forward { w with cmdHold := false }
  -- pending validations (polled or still in the event channel) are dropped ⇒ Reject
  let dropped := (w.hvalid.map fun (p, v) => (p, v, false)) ++
    (w.evq.filterMap fun (p, e) => match e with | .validate _ pipe => some (p, pipe, false) | _ => none)
  let w := { w with view := [], sinks := [], evq := [], notifq := [], hvalid := [], validQ := w.validQ ++ dropped,
                    protoHold := false }
  let rec proto (w : World) : Nat → World
    | 0 => w
    | n + 1 => match nextEvent w with
      | some w' => if w'.panicked then w' else proto w' n
      | none => w
  let w := proto w 1024
  let w := { w with protoGone := true, evq := [], taux := w.taux.map fun a => { a with woken := true } }
  let w := settle w 64
  if w.panicked then ({ w with configured := false }, "panic debug-assert")
  else ({ w with configured := false, calls := [], callsDone := [], orders := [], stalledQ := [] }, s!"exited tasks={w.taux.length}")

def step (w : World) (lineObs : String) : World × String :=
  let (line, obs) := match lineObs.splitOn " -> " with
    | [a, b] => (a, b)
    | _ => (lineObs, "")
  let obsOrders := (tokens obs).filterMap fun t =>
    if t.startsWith "order=" then parseList (t.drop 6).toString else none
  let w := { w with obsOrders := obsOrders }
  let ts := tokens line
  match ts with
  | "cfg" :: rest =>
    let g (k : String) (d : Nat) : Nat := ((arg? k rest).bind (·.toNat?)).getD d
    ({ auto := g "auto" 0 = 1, dial := g "dial" 1 = 1, syncCap := g "sync" 16, asyncCap := g "async" 4,
       maxSize := g "max" 64, configured := true }, "ok")
  | _ =>
  if !w.configured then (w, "bad-op") else
  match ts with
  | ["shutdown"] => shutdownOp w
  | ["phold"] => ({ w with protoHold := true }, "ok")
  | ["prelease"] => run { w with protoHold := false, heldConns := [], heldPipePeer := none } "ok"
  | ["cmdhold"] => ({ w with cmdHold := true }, "ok")
  | ["cmdfill"] =>
    let n := cmdCap - w.userQ.length
    ({ w with cmdHold := true, userQ := w.userQ ++ List.replicate n (.openSet []) }, s!"ok filled={n}")
  | ["cmdrelease"] => run { w with cmdHold := false } "ok"
  | ["seths", h] =>
    match (if h = "-" then some [] else hexBytes? h) with
    | some bytes => ({ w with hsLocal := bytes }, "ok")
    | none => (w, "bad-op")
  | [op, l] =>
    if ["openb", "tryopenb", "closeb", "tryclosb"].contains op then
      match parseList l with
      | none => (w, "bad-op")
      | some ps =>
        let view := w.view.map (·.1)
        let full := w.userQ.length ≥ cmdCap
        let (c, r) :=
          if op = "openb" then NotifHandle.openBatch view ps full
          else if op = "tryopenb" then NotifHandle.tryOpenBatch view ps full
          else if op = "closeb" then NotifHandle.closeBatch view ps full
          else NotifHandle.tryCloseBatch view ps full
        let w := match c with | some c => { w with userQ := w.userQ ++ [c] } | none => w
        run w (showBatch r)
    else stepPeer w ts
  | _ => stepPeer w ts
where stepPeer (w : World) (ts : List String) : World × String :=
  match ts with
  | ["known", p] =>
    match p.toNat? with
    | some p => ({ w with known := p :: w.known }, "ok")
    | none => (w, "bad-op")
  | "conn" :: p :: rest =>
    match p.toNat? with
    | none => (w, "bad-op")
    | some p =>
      if (w.conns.lookup p).isSome then (w, "ignored") else
      let cap := (((arg? "cap" rest).bind (·.toNat?)).getD 64).max 1
      let drain := (arg? "drain" rest) ≠ some "0"
      let w := { w with gen := w.gen + 1, heldConns := if w.protoHold then p :: w.heldConns else w.heldConns }
      let w := { w with conns := (p, { gen := w.gen, cap := cap, drain := drain }) :: w.conns,
                        transportQ := w.transportQ ++ [(p, .connEst true 0)] }
      run w "ok"
  | ["disc", p] =>
    match p.toNat? with
    | none => (w, "bad-op")
    | some p =>
      if (w.conns.lookup p).isNone || (w.protoHold && w.heldConns.contains p) then (w, "ignored") else
      let w := { w with conns := w.conns.filter (·.1 ≠ p), transportQ := w.transportQ ++ [(p, .connClosed)] }
      run w "ok"
  | ["dialfail", p] =>
    match p.toNat? with
    | none => (w, "bad-op")
    | some p => run { w with transportQ := w.transportQ ++ [(p, .dialFailure)] } "ok"
  | op :: p :: rest =>
    match p.toNat? with
    | none => (w, "bad-op")
    | some p =>
    if op = "subout" || op = "subfail" then
      let i := (rest.head?.bind (·.toNat?)).getD 0
      match w.conns.lookup p with
      | none => (w, "ignored")
      | some c =>
        let cand := (List.range w.reqs.length).filter fun j =>
          match w.reqs[j]? with
          | some (_, q, g, answered) => q = p && g = c.gen && !answered
          | none => false
        match cand[i]? with
        | none => (w, "ignored")
        | some j =>
          let sid := (w.reqs[j]?.map (·.1)).getD 0
          let w := { w with reqs := markAnswered w.reqs j }
          if op = "subfail" then
            run { w with transportQ := w.transportQ ++ [(p, .subFailed sid)] } s!"ok s{sid}"
          else
            let k := w.pipes.size
            let w := { w with pipes := w.pipes.push { peer := p, inbound := false },
                              transportQ := w.transportQ ++ [(p, .subOpened sid k)] }
            run w s!"ok s{sid} pipe={k}"
    else if op = "subin" then
      if !rest.isEmpty then (w, "bad-op") else
      if (w.conns.lookup p).isNone then (w, "ignored") else
      let k := w.pipes.size
      let w := { w with pipes := w.pipes.push { peer := p, inbound := true },
                        transportQ := w.transportQ ++ [(p, .subInbound k)] }
      run w s!"ok pipe={k}"
    else if ["hs", "rclose", "rreset", "rread", "stall", "release", "rsend"].contains op then
      match rest with
      | role :: rest =>
        if role ≠ "in" && role ≠ "out" then (w, "bad-op") else
        let (age, rest) := parseAge rest
        match findPipe w p (role = "in") age with
        | none => (w, "ignored")
        | some k =>
          let blocked := w.protoHold && ["hs", "rclose", "rreset", "rsend"].contains op &&
            (match w.heldPipePeer with | some q => q ≠ p | none => false)
          if blocked then (w, "ignored") else
          let w := if w.protoHold && ["hs", "rclose", "rreset", "rsend"].contains op then { w with heldPipePeer := some p } else w
          if op = "hs" then
            run (wakeTasksOfPipe (pipeSet w k fun x => { x with toLocal := x.toLocal ++ [[0xaa, k % 256]] }) k) "ok"
          else if op = "rclose" then
            run (wakeTasksOfPipe (pipeSet w k fun x => { x with remoteClosed := true }) k) "ok"
          else if op = "rreset" then
            run (wakeTasksOfPipe (pipeSet w k fun x => { x with reset := true }) k) "ok"
          else if op = "stall" then
            run (pipeSet w k fun x => { x with stall := true }) "ok"
          else if op = "release" then
            run (wakeClosingTasksOfPipe (pipeSet w k fun x => { x with stall := false }) k) "ok"
          else if op = "rsend" then
            match rest.head?.bind hexBytes? with
            | some bytes =>
              run (wakeTasksOfPipe (pipeSet w k fun x => { x with toLocal := x.toLocal ++ [bytes] }) k) "ok"
            | none => (w, "bad-op")
          else
            let frames := (pipeGet w k).toRemote
            let w := pipeSet w k fun x => { x with toRemote := [] }
            run w s!"[{joinWith " " (frames.map bytesHex)}]"
      | [] => (w, "bad-op")
    else if op = "hstimeout" then
      match rest with
      | [role] =>
        if role ≠ "in" && role ≠ "out" then (w, "bad-op") else
        let d : Dir := if role = "in" then .inbound else .outbound
        if w.hsE.any (fun h => h.peer = p && h.dir = d) then
          if w.protoHold && (match w.heldPipePeer with | some q => q ≠ p | none => false) then (w, "ignored") else
          let w := if w.protoHold then { w with heldPipePeer := some p } else w
          run { w with hsE := w.hsE.map fun h => if h.peer = p && h.dir = d then { h with expired := true } else h } "ok"
        else (w, "ignored")
      | _ => (w, "bad-op")
    else if op = "ssend" || op = "sasend" then
      -- here `p` is the number of a sink clone
      match rest with
      | [payload] =>
        match (w.sinks[p]?).join with
        | none => (w, "ignored")
        | some (t, sp) =>
          match hexBytes? payload with
          | none => (w, "bad-op")
          | some bytes =>
            if mixGuard w sp (op = "sasend") then (w, "ignored") else
            let (w, r) := if op = "ssend" then sinkSync w t bytes else sinkAsync w t bytes
            run w r
      | _ => (w, "bad-op")
    else if op = "asend" then
      match rest with
      | [payload] =>
        match hexBytes? payload with
        | none => (w, "bad-op")
        | some bytes =>
          match w.view.lookup p with
          | none => run w "nopeer"
          | some t =>
            if mixGuard w p true then (w, "ignored") else
            let (w, r) := sinkAsync w t bytes
            run w (if r = "noconn" then "nopeer" else r)
      | _ => (w, "bad-op")
    else if !rest.isEmpty && op ≠ "send" then (w, "bad-op")
    else if op = "sink" then
      match w.view.lookup p with
      | some t => ({ w with sinks := w.sinks ++ [some (t, p)] }, s!"ok sink={w.sinks.length}")
      | none => ({ w with sinks := w.sinks ++ [none] }, s!"none sink={w.sinks.length}")
    else if op = "sdrop" then
      match (w.sinks[p]?).join with
      | none => (w, "ignored")
      | some (t, _) =>
        let w := { w with sinks := w.sinks.set p none }
        run (wakeIfSinkless w t) "ok"
    else if op = "cfill" then
      match w.conns.lookup p with
      | none => (w, "ignored")
      | some c =>
        if c.drain then (w, "ignored") else
        let n := c.cap - c.queued.length
        run { w with conns := (p, { c with queued := c.queued ++ List.replicate n none }) :: w.conns.filter (·.1 ≠ p) }
          s!"ok filled={n}"
    else if op = "cdrain" then
      match w.conns.lookup p with
      | none => (w, "ignored")
      | some c =>
        let w := c.queued.foldl (fun w q => match q with
          | some sid => { w with calls := w.calls ++ [(p, s!"open({p},s{sid})")], reqs := w.reqs ++ [(sid, p, c.gen, false)] }
          | none => { w with calls := w.calls ++ [(p, s!"fc({p})")] }) w
        run { flushCalls w with conns := (p, { c with queued := [] }) :: w.conns.filter (·.1 ≠ p) } "ok"
    else if op = "hold" then
      -- the connection tasks the peer has now are not polled until `unhold`
      let n := (w.taux.filter (·.peer = p)).length
      ({ w with taux := w.taux.map (fun a => if a.peer = p then { a with held := true } else a),
                heldPeers := if n > 0 then p :: w.heldPeers else w.heldPeers }, s!"ok held={n}")
    else if op = "unhold" then
      run { w with taux := w.taux.map (fun a => if a.peer = p then { a with held := false } else a),
                   heldPeers := w.heldPeers.filter (· ≠ p), pendSync := w.pendSync.filter (· ≠ p),
                   pendAsync := w.pendAsync.filter (· ≠ p) } "ok"
    else if op = "timer" then
      run { w with readyTimers := w.readyTimers ++ [p] } "ok"
    else if op = "open" then
      if (w.view.lookup p).isSome then run w "already"
      else
        let (w, sent) := sendCmd w (.openSet [p])
        run w (if sent then "ok" else "blocked")
    else if op = "close" then
      if (w.view.lookup p).isNone then run w "ok"
      else
        let (w, sent) := sendCmd w (.closeSet [p])
        run w (if sent then "ok" else "blocked")
    else if op = "accept" || op = "reject" then
      match w.hvalid.lookup p with
      | some vid =>
        run { w with hvalid := w.hvalid.filter (·.1 ≠ p), validQ := w.validQ ++ [(p, vid, decide (op = "accept"))] } "ok"
      | none => run w "ok"
    else if op = "send" then
      match rest with
      | [payload] =>
        match hexBytes? payload with
        | none => (w, "bad-op")
        | some bytes =>
          match w.view.lookup p with
          | none => run w "ok"
          | some t =>
            if mixGuard w p false then (w, "ignored") else
            let (w, r) := sinkSync w t bytes
            if r = "clogged" then
              -- the first clog of the peer sends one `ForceClose` (dropped if the command channel is full)
              if w.clogged.contains p then run w r
              else run (sendCmd { w with clogged := p :: w.clogged } (.forceClose p)).1 r
            else run w r
      | _ => (w, "bad-op")
    else (w, "bad-op")
  | ["events"] =>
    let (w, evs) := eventsOp w 16 []
    finish w s!"[{joinWith " " evs}]"
  | ["state"] => (w, stateLine w)
  | _ => (w, "bad-op")

end Litep2pVerif.Driver.C11
