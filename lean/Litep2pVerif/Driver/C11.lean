import Litep2pVerif.Common.Parse
import Litep2pVerif.Model.Notif.Sys
/-!
Line-protocol driver of the notification model (C11). The driver plays the same environment as the
adapter src/verif/c11.rs: the transport, the remote end of every in-memory pipe, the user of the handle,
and the scheduler (protocol loop with its biased order of sources, then the connection tasks, until
nothing is runnable; `hold p` / `unhold p` keep the tasks of a peer from being polled for a while — a held task is
an ordinary not-yet-scheduled task of the transition system: no label of it is taken, nothing else is assumed). The per-peer protocol state is changed only through `PeerSys.step`, i.e. every run
of the driver is an execution of the transition system the theorems quantify over.
-/
namespace Litep2pVerif.Driver.C11
open Litep2pVerif Litep2pVerif.Notif Parse

structure PipeSt where
  peer : Nat
  inbound : Bool
  toLocal : List (List Nat) := []
  remoteClosed : Bool := false
  reset : Bool := false
  toRemote : List (List Nat) := []
  stall : Bool := false
  localClosed : Bool := false
  /-- a `close()` of this pipe has been suspended by `stall` (reported once) -/
  stallSeen : Bool := false

structure ConnInfo where
  gen : Nat
  cap : Nat
  drain : Bool
  queued : Nat := 0

inductive EvItem
  | validate (hs : Hs) (pipe : Pipe)
  | opened (d : Dir) (hs : Hs) (task : Tid)
  | closed
  | fail (e : Err)

/-- Driver-side view of a connection task (queues and wake flag); phase lives in `PeerSys.tasks`. -/
structure TaskAux where
  id : Tid
  peer : Nat
  queue : List (List Nat) := []
  sinkDropped : Bool := false
  woken : Bool := true
  /-- not scheduled for the time being (`hold`): stays woken, is not polled -/
  held : Bool := false

structure World where
  auto : Bool := false
  dial : Bool := true
  peers : List (Nat × PeerSys) := []
  nextSid : Nat := 0
  nextTask : Nat := 0
  gen : Nat := 0
  pipes : Array PipeSt := #[]
  conns : List (Nat × ConnInfo) := []
  reqs : List (Sid × Nat × Nat × Bool) := []
  evq : List (Nat × EvItem) := []
  notifq : List (Nat × List Nat) := []
  view : List (Nat × Tid) := []
  hvalid : List (Nat × Pipe) := []
  known : List Nat := []
  transportQ : List (Nat × Act) := []
  cmdQ : List (Nat × Bool) := []            -- (peer, open? else close)
  fcQ : List Nat := []                      -- ForceClose commands from the handle
  validQ : List (Nat × Pipe × Bool) := []
  readyTimers : List Nat := []
  noticeQ : List Nat := []
  hsReady : List (Nat × Dir × Hs) := []
  hsToSend : List (Nat × Dir) := []
  taux : List TaskAux := []
  calls : List String := []
  stalledQ : List (Nat × Nat) := []         -- (pipe, peer): closes suspended by `stall` during this op
  panicked : Bool := false
  configured : Bool := false

def init : World := {}

def getPeer (w : World) (p : Nat) : PeerSys := (w.peers.lookup p).getD {}

def setPeer (w : World) (p : Nat) (s : PeerSys) : World :=
  { w with peers := (p, s) :: w.peers.filter (·.1 ≠ p) }

def hsToken (bytes : List Nat) : Hs := bytes.foldl (fun a b => a * 256 + b) 1

partial def hsBytes (h : Hs) : List Nat :=
  if h ≤ 1 then [] else hsBytes (h / 256) ++ [h % 256]

def errWord : Err → String
  | .rejected => "rejected" | .noconn => "noconn" | .valpending => "valpending" | .dialfail => "dialfail"

def dirWord : Dir → String
  | .inbound => "in" | .outbound => "out"

/-- Interpret the environment-visible part of one step: diff of the log, transport calls, pipes
closed by the protocol, tasks spawned, notices. -/
def afterStep (w : World) (p : Nat) (old new : PeerSys) (outs : List Out) : World := Id.run do
  let mut w := setPeer w p new
  -- user events appended to the log
  for e in new.log.drop old.log.length do
    match e with
    | .opened d hs t _ => w := { w with evq := w.evq ++ [(p, .opened d hs t)] }
    | .closed => w := { w with evq := w.evq ++ [(p, .closed)] }
    | .fail e => w := { w with evq := w.evq ++ [(p, .fail e)] }
    | .validate hs pipe => w := { w with evq := w.evq ++ [(p, .validate hs pipe)] }
    | .bug => w := { w with panicked := true }
    | _ => pure ()
  for o in outs do
    match o with
    | .callOpen sid =>
      match w.conns.lookup p with
      | some c =>
        if c.drain then
          w := { w with calls := w.calls ++ [s!"open({p},s{sid})"], reqs := w.reqs ++ [(sid, p, c.gen, false)] }
        else
          w := { w with conns := (p, { c with queued := c.queued + 1 }) :: w.conns.filter (·.1 ≠ p) }
      | none => pure ()
    | .forceClose =>
      match w.conns.lookup p with
      | some c =>
        if c.drain then w := { w with calls := w.calls ++ [s!"fc({p})"] }
        else if c.queued < c.cap then
          w := { w with conns := (p, { c with queued := c.queued + 1 }) :: w.conns.filter (·.1 ≠ p) }
      | none => pure ()
    | .closePipe k =>
      if h : k < w.pipes.size then
        w := { w with pipes := w.pipes.set k { w.pipes[k] with localClosed := true } }
    | .negOut _ => w := { w with hsToSend := w.hsToSend ++ [(p, .outbound)] }
    | .sendHs _ => w := { w with hsToSend := w.hsToSend ++ [(p, .inbound)] }
    | .rmOut => w := { w with hsToSend := w.hsToSend.filter (· ≠ (p, .outbound)) }
    | .rmIn => w := { w with hsToSend := w.hsToSend.filter (· ≠ (p, .inbound)) }
    | .spawn t _ _ => w := { w with taux := w.taux ++ [{ id := t, peer := p }] }
    | .shutdown t => w := { w with taux := w.taux.map fun a => if a.id = t then { a with woken := true } else a }
    | _ => pure ()
  return w

/-- One `PeerSys.step`, with its effects on the driver's environment. -/
def act (w : World) (p : Nat) (a : Act) : World :=
  let old := getPeer w p
  afterStep w p old (Notif.step old a) (outsOf old a)

def actTask (w : World) (p : Nat) (a : Act) : World := act w p a

/-- Result of `service.open_substream` for a connected peer: a fresh id is always consumed; the send
fails when the command channel is full. -/
def openAttempt (w : World) (p : Nat) : World × Bool × Sid :=
  match w.conns.lookup p with
  | some c => ({ w with nextSid := w.nextSid + 1 }, c.drain || c.queued < c.cap, w.nextSid)
  | none => (w, false, w.nextSid)

-- ---------------------------------------------------------------- handshake service

def pipeGet (w : World) (k : Nat) : PipeSt := w.pipes.getD k { peer := 0, inbound := true }

def pipeSet (w : World) (k : Nat) (f : PipeSt → PipeSt) : World :=
  if h : k < w.pipes.size then { w with pipes := w.pipes.set k (f w.pipes[k]) } else w

def localHandshake : List Nat := [1, 2, 3, 4]

/-- Poll the handshake service once: `some (peer, event)` or `none` (pending). -/
def pollHandshake (w : World) : World × Option (Nat × Act) := Id.run do
  let mut w := w
  -- pop_event
  let mut ready := w.hsReady
  let mut found : Option (Nat × Dir × Hs) := none
  while found.isNone && !ready.isEmpty do
    match ready with
    | [] => pure ()
    | (p, d, hs) :: rest =>
      ready := rest
      let s := getPeer w p
      let ex := match d with | .outbound => s.hsOut.isSome | .inbound => s.hsIn.isSome
      if ex then found := some (p, d, hs)
  w := { w with hsReady := ready }
  let mk (w : World) (p : Nat) (d : Dir) (hs : Hs) : World × Option (Nat × Act) :=
    let t := w.nextTask
    ({ w with nextTask := w.nextTask + 1 }, some (p, .hsNegotiated d hs w.auto t))
  match found with
  | some (p, d, hs) => return mk w p d hs
  | none => pure ()
  -- poll every entry
  let ps := (w.peers.map (·.1)).mergeSort (· ≤ ·)
  for p in ps do
    for d in [Dir.inbound, Dir.outbound] do
      let s := getPeer w p
      let entry : Option (Pipe × Bool) := match d with
        | .outbound => s.hsOut.map fun k => (k, false)
        | .inbound => s.hsIn
      match entry with
      | none => pure ()
      | some (k, sendOnly) =>
        let pp := pipeGet w k
        -- send phase
        if w.hsToSend.contains (p, d) then
          if pp.reset || pp.localClosed then
            return (w, some (p, .hsError d))
          w := pipeSet w k fun x => { x with toRemote := x.toRemote ++ [localHandshake] }
          w := { w with hsToSend := w.hsToSend.filter (· ≠ (p, d)) }
          if sendOnly then
            w := { w with hsReady := w.hsReady ++ [(p, d, hsToken [])] }
        if sendOnly then
          pure ()
        else
          -- read phase
          let pp := pipeGet w k
          if pp.reset then return (w, some (p, .hsError d))
          match pp.toLocal with
          | f :: rest =>
            w := pipeSet w k fun x => { x with toLocal := rest }
            w := { w with hsReady := w.hsReady ++ [(p, d, hsToken f)] }
          | [] => if pp.remoteClosed then return (w, some (p, .hsError d))
  match w.hsReady with
  | (p, d, hs) :: rest => return mk { w with hsReady := rest } p d hs
  | [] => return (w, none)

-- ---------------------------------------------------------------- protocol loop

/-- Handle one event of the protocol loop in the order of the biased `select!`; `none` = idle. -/
def nextEvent (w : World) : Option World := Id.run do
  -- 1. handshake service
  let anyHs := w.peers.any fun (_, s) => s.hsOut.isSome || s.hsIn.isSome
  if anyHs then
    let (w1, r) := pollHandshake w
    match r with
    | some (p, a) => return some (act w1 p a)
    | none =>
      -- state of the service may have advanced (handshake written)
      if w1.hsReady.length ≠ w.hsReady.length || w1.hsToSend.length ≠ w.hsToSend.length then
        return some w1
  -- 2. shutdown notices
  match w.noticeQ with
  | p :: rest => return some (act { w with noticeQ := rest } p .notice)
  | [] => pure ()
  -- 3. timers
  match w.readyTimers with
  | p :: rest => return some (act { w with readyTimers := rest } p .timer)
  | [] => pure ()
  -- 4. transport events
  match w.transportQ with
  | (p, a) :: rest =>
    let w := { w with transportQ := rest }
    let s := getPeer w p
    match a with
    | .connEst _ _ =>
      let (w, ok, sid) := if s.slot = some .dialing then openAttempt w p else (w, true, w.nextSid)
      return some (act w p (.connEst ok sid))
    | _ => return some (act w p a)
  | [] => pure ()
  -- 5. validation results
  match w.validQ with
  | (p, vid, acc) :: rest =>
    let w := { w with validQ := rest }
    let s := getPeer w p
    let needsOpen := acc && (match s.slot with | some (.validating .closed (.validating _) _) => true | _ => false)
    let (w, ok, sid) := if needsOpen then openAttempt w p else (w, false, w.nextSid)
    return some (act w p (.validation vid acc ok sid))
  | [] => pure ()
  -- 6. user commands
  match w.fcQ with
  | p :: rest =>
    let w := { w with fcQ := rest }
    return some (afterStep w p (getPeer w p) (getPeer w p) [.forceClose])
  | [] => pure ()
  match w.cmdQ with
  | (p, isOpen) :: rest =>
    let w := { w with cmdQ := rest }
    if isOpen then
      let s := getPeer w p
      -- `service.open_substream` is called in `Closed` unless a pending substream is reused
      let needsOpen := match s.slot with
        | some (.closed none) => true
        | some (.closed (some x)) => !s.pending.contains x
        | _ => false
      let (w, ok, sid) := if needsOpen then openAttempt w p else (w, false, w.nextSid)
      return some (act w p (.cmdOpen w.dial (w.known.contains p) ok sid))
    else
      return some (act w p .cmdClose)
  | [] => return none

-- ---------------------------------------------------------------- connection tasks

def auxOf (w : World) (t : Tid) : Option TaskAux := w.taux.find? (·.id = t)

def setAux (w : World) (t : Tid) (f : TaskAux → TaskAux) : World :=
  { w with taux := w.taux.map fun a => if a.id = t then f a else a }

def taskOf (w : World) (a : TaskAux) : Option Task := (getPeer w a.peer).tasks.find? (·.id = a.id)

/-- A `close()` found its pipe stalled: reported the first time. -/
def noteStall (w : World) (k : Nat) : World :=
  let x := pipeGet w k
  if x.stallSeen then w
  else { pipeSet w k (fun x => { x with stallSeen := true }) with stalledQ := w.stalledQ ++ [(k, x.peer)] }

/-- Poll one woken task (fuel bounds the `start()` loop). -/
def pollTask (w : World) (t : Tid) : Nat → World
  | 0 => w
  | fuel + 1 =>
    match auxOf w t with
    | none => w
    | some a =>
    match taskOf w a with
    | none => { w with taux := w.taux.filter (·.id ≠ t) }
    | some k =>
      let p := a.peer
      match k.phase with
      | .running =>
        if k.signalled then pollTask (actTask w p (.taskSeesSignal t)) t fuel
        else if a.sinkDropped && a.queue.isEmpty then pollTask (actTask w p (.taskSeesClose t)) t fuel
        else
          -- outbound queue
          let po := pipeGet w k.outPipe
          if !a.queue.isEmpty && (po.reset || po.localClosed) then
            pollTask (actTask (setAux w t fun a => { a with queue := [] }) p (.taskSeesClose t)) t fuel
          else
            let w := pipeSet w k.outPipe fun x => { x with toRemote := x.toRemote ++ a.queue }
            let w := setAux w t fun a => { a with queue := [] }
            -- poll_flush on a reset pipe fails
            if po.reset then pollTask (actTask w p (.taskSeesClose t)) t fuel
            else
              let pi := pipeGet w k.inPipe
              if pi.reset then pollTask (actTask w p (.taskSeesClose t)) t fuel
              else
                match pi.toLocal with
                | f :: rest =>
                  let w := pipeSet w k.inPipe fun x => { x with toLocal := rest }
                  pollTask { w with notifq := w.notifq ++ [(p, f)] } t fuel
                | [] =>
                  if pi.remoteClosed then pollTask (actTask w p (.taskSeesClose t)) t fuel else w
      | .closing _ =>
        let pi := pipeGet w k.inPipe
        if pi.stall && !pi.localClosed then noteStall w k.inPipe
        else
          let w := pipeSet w k.inPipe fun x => { x with localClosed := true }
          let po := pipeGet w k.outPipe
          if po.stall && !po.localClosed then noteStall w k.outPipe
          else
            let w := pipeSet w k.outPipe fun x => { x with localClosed := true }
            let notify := k.phase = .closing true
            let w := actTask w p (.taskNotice t)
            let w := if notify then { w with noticeQ := w.noticeQ ++ [p] } else w
            pollTask w t fuel
      | .noticed =>
        let w := actTask w p (.taskReport t)
        { w with taux := w.taux.filter (·.id ≠ t) }

def pollTasks (w : World) : World × Bool := Id.run do
  let mut w := w
  let mut any := false
  for a in w.taux do
    match auxOf w a.id with
    | some cur =>
      if cur.woken && !cur.held then
        any := true
        w := setAux w a.id fun x => { x with woken := false }
        w := pollTask w a.id 64
    | none => pure ()
  return (w, any)

def settle (w : World) : Nat → World
  | 0 => w
  | fuel + 1 =>
    let rec proto (w : World) : Nat → World
      | 0 => w
      | n + 1 => match nextEvent w with
        | some w' => if w'.panicked then w' else proto w' n
        | none => w
    let w := proto w 256
    if w.panicked then w else
    let (w, any) := pollTasks w
    let more := !w.noticeQ.isEmpty || !w.transportQ.isEmpty || !w.validQ.isEmpty || !w.cmdQ.isEmpty
    if any || more then settle w fuel else w

def wakeTasksOfPipe (w : World) (k : Nat) : World :=
  { w with taux := w.taux.map fun a =>
      match taskOf w a with
      | some t => if t.inPipe = k || ((t.inPipe = k || t.outPipe = k) && t.phase ≠ .running) then { a with woken := true } else a
      | none => a }

/-- `release` wakes only the close waker, which a task registers inside `close_connection` (a running task
that never called `poll_shutdown` is not polled). -/
def wakeClosingTasksOfPipe (w : World) (k : Nat) : World :=
  { w with taux := w.taux.map fun a =>
      match taskOf w a with
      | some t => if (t.inPipe = k || t.outPipe = k) && t.phase ≠ .running then { a with woken := true } else a
      | none => a }

-- ---------------------------------------------------------------- printing

def finish (w : World) (res : String) : World × String :=
  if w.panicked then ({ w with calls := [], stalledQ := [] }, "panic debug-assert")
  else
    let stalled := (w.stalledQ.mergeSort (fun a b => a.1 ≤ b.1)).map fun (_, p) => s!"stalled({p})"
    let all := w.calls ++ stalled
    let out := if all.isEmpty then res else res ++ " " ++ joinWith " " all
    ({ w with calls := [], stalledQ := [] }, out)

def run (w : World) (res : String) : World × String := finish (settle w 64) res

def showOutSt : OutSt → String
  | .closed => "closed" | .init s => s!"init(s{s})" | .neg => "neg" | .opn _ _ => "open"

def showInSt : InSt → String
  | .closed => "closed" | .reading => "read" | .validating _ => "validating" | .sending => "send" | .opn _ => "open"

def showState : PState → String
  | .poisoned => "poisoned"
  | .valPending .opn => "valpending(open)"
  | .valPending .clo => "valpending(closed)"
  | .closed none => "closed(-)"
  | .closed (some s) => s!"closed(s{s})"
  | .dialing => "dialing"
  | .outInit s => s!"outinit(s{s})"
  | .validating o i d => s!"validating(out={showOutSt o},in={showInSt i},dir={dirWord d})"
  | .opn _ => "open"

def stateLine (w : World) : String :=
  let ps := (w.peers.map (·.1)).mergeSort (· ≤ ·)
  let sts := ps.filterMap fun p => (getPeer w p).slot.map fun st => s!"{p}:{showState st}"
  let pend := (w.peers.flatMap fun (p, s) => s.pending.map fun sid => (sid, p)).mergeSort (fun a b => a.1 ≤ b.1)
  let hs := w.peers.any fun (_, s) => s.hsOut.isSome || s.hsIn.isSome
  let timers := (w.peers.map fun (_, s) => s.timers).foldl (· + ·) 0
  let vals := (w.peers.map fun (_, s) => s.validations.length).foldl (· + ·) 0
  let tasks := (w.peers.map fun (_, s) => s.tasks.length).foldl (· + ·) 0
  s!"[{joinWith " " sts}] pending=[{joinWith "," (pend.map fun (sid, p) => s!"s{sid}:{p}")}] hs={if hs then 1 else 0} timers={timers} validations={vals} tasks={tasks}"

def showEv (p : Nat) : EvItem → String
  | .validate hs _ => s!"validate({p},hs={bytesHex (hsBytes hs)})"
  | .opened d hs _ => s!"opened({p},{dirWord d},hs={bytesHex (hsBytes hs)})"
  | .closed => s!"closed({p})"
  | .fail e => s!"fail({p},{errWord e})"

/-- The handle polls: first every queued event (updating `peers` / `pending_validations`), then the
notifications of peers it knows. -/
def drainEvents (w : World) : World × List String := Id.run do
  let mut w := w
  let mut out : List String := []
  for (p, e) in w.evq do
    out := out ++ [showEv p e]
    match e with
    | .opened _ _ t =>
      -- replacing a sink drops the old one
      match w.view.lookup p with
      | some old => w := setAux w old fun a => { a with sinkDropped := true, woken := true }
      | none => pure ()
      w := { w with view := (p, t) :: w.view.filter (·.1 ≠ p) }
    | .closed =>
      match w.view.lookup p with
      | some old => w := setAux w old fun a => { a with sinkDropped := true, woken := true }
      | none => pure ()
      w := { w with view := w.view.filter (·.1 ≠ p) }
    | .validate _ pipe =>
      match w.hvalid.lookup p with
      | some old => w := { w with validQ := w.validQ ++ [(p, old, false)] }   -- dropped oneshot ⇒ Reject
      | none => pure ()
      w := { w with hvalid := (p, pipe) :: w.hvalid.filter (·.1 ≠ p) }
    | .fail _ => pure ()
  w := { w with evq := [] }
  for (p, f) in w.notifq do
    if (w.view.lookup p).isSome then out := out ++ [s!"notif({p},{bytesHex f})"]
  w := { w with notifq := [] }
  return (w, out)

def eventsOp (w : World) : Nat → List String → World × List String
  | 0, acc => (w, acc)
  | fuel + 1, acc =>
    let (w, evs) := drainEvents w
    let w := settle w 64
    if evs.isEmpty || w.panicked then (w, acc ++ evs) else eventsOp w fuel (acc ++ evs)

/-- Resolve a pipe of peer `p` by role and age (0 = newest). -/
def findPipe (w : World) (p : Nat) (inbound : Bool) (age : Nat) : Option Nat :=
  let ks := (List.range w.pipes.size).reverse.filter fun k =>
    let x := pipeGet w k
    x.peer = p && x.inbound = inbound
  ks[age]?

def markAnswered : List (Sid × Nat × Nat × Bool) → Nat → List (Sid × Nat × Nat × Bool)
  | [], _ => []
  | (a, b, c, d) :: rest, 0 => (a, b, c, true) :: rest
  | r :: rest, j + 1 => r :: markAnswered rest j

def parseAge (rest : List String) : Nat × List String :=
  match rest with
  | a :: more => if a.startsWith "age=" then ((a.drop 4).toNat?.getD 0, more) else (0, rest)
  | [] => (0, [])

def step (w : World) (line : String) : World × String :=
  let ts := tokens line
  match ts with
  | "cfg" :: rest =>
    let g (k : String) (d : Nat) : Nat := ((arg? k rest).bind (·.toNat?)).getD d
    ({ auto := g "auto" 0 = 1, dial := g "dial" 1 = 1, configured := true }, "ok")
  | _ =>
  if !w.configured then (w, "bad-op") else
  match ts with
  | ["known", p] =>
    match p.toNat? with
    | some p => ({ w with known := p :: w.known }, "ok")
    | none => (w, "bad-op")
  | "conn" :: p :: rest =>
    match p.toNat? with
    | none => (w, "bad-op")
    | some p =>
      if (w.conns.lookup p).isSome then (w, "ignored") else
      let cap := (((arg? "cap" rest).bind (·.toNat?)).getD 64).max 1
      let drain := (arg? "drain" rest) ≠ some "0"
      let w := { w with gen := w.gen + 1 }
      let w := { w with conns := (p, { gen := w.gen, cap := cap, drain := drain }) :: w.conns,
                        transportQ := w.transportQ ++ [(p, .connEst true 0)] }
      run w "ok"
  | ["disc", p] =>
    match p.toNat? with
    | none => (w, "bad-op")
    | some p =>
      if (w.conns.lookup p).isNone then (w, "ignored") else
      let w := { w with conns := w.conns.filter (·.1 ≠ p), transportQ := w.transportQ ++ [(p, .connClosed)] }
      run w "ok"
  | ["dialfail", p] =>
    match p.toNat? with
    | none => (w, "bad-op")
    | some p => run { w with transportQ := w.transportQ ++ [(p, .dialFailure)] } "ok"
  | op :: p :: rest =>
    match p.toNat? with
    | none => (w, "bad-op")
    | some p =>
    if op = "subout" || op = "subfail" then
      let i := (rest.head?.bind (·.toNat?)).getD 0
      match w.conns.lookup p with
      | none => (w, "ignored")
      | some c =>
        let cand := (List.range w.reqs.length).filter fun j =>
          match w.reqs[j]? with
          | some (_, q, g, answered) => q = p && g = c.gen && !answered
          | none => false
        match cand[i]? with
        | none => (w, "ignored")
        | some j =>
          let sid := (w.reqs[j]?.map (·.1)).getD 0
          let w := { w with reqs := markAnswered w.reqs j }
          if op = "subfail" then
            run { w with transportQ := w.transportQ ++ [(p, .subFailed sid)] } s!"ok s{sid}"
          else
            let k := w.pipes.size
            let w := { w with pipes := w.pipes.push { peer := p, inbound := false },
                              transportQ := w.transportQ ++ [(p, .subOpened sid k)] }
            run w s!"ok s{sid} pipe={k}"
    else if op = "subin" then
      if !rest.isEmpty then (w, "bad-op") else
      if (w.conns.lookup p).isNone then (w, "ignored") else
      let k := w.pipes.size
      let w := { w with pipes := w.pipes.push { peer := p, inbound := true },
                        transportQ := w.transportQ ++ [(p, .subInbound k)] }
      run w s!"ok pipe={k}"
    else if ["hs", "rclose", "rreset", "rread", "stall", "release", "rsend"].contains op then
      match rest with
      | role :: rest =>
        if role ≠ "in" && role ≠ "out" then (w, "bad-op") else
        let (age, rest) := parseAge rest
        match findPipe w p (role = "in") age with
        | none => (w, "ignored")
        | some k =>
          if op = "hs" then
            run (wakeTasksOfPipe (pipeSet w k fun x => { x with toLocal := x.toLocal ++ [[0xaa, k % 256]] }) k) "ok"
          else if op = "rclose" then
            run (wakeTasksOfPipe (pipeSet w k fun x => { x with remoteClosed := true }) k) "ok"
          else if op = "rreset" then
            run (wakeTasksOfPipe (pipeSet w k fun x => { x with reset := true }) k) "ok"
          else if op = "stall" then
            run (pipeSet w k fun x => { x with stall := true }) "ok"
          else if op = "release" then
            run (wakeClosingTasksOfPipe (pipeSet w k fun x => { x with stall := false }) k) "ok"
          else if op = "rsend" then
            match rest.head?.bind hexBytes? with
            | some bytes =>
              run (wakeTasksOfPipe (pipeSet w k fun x => { x with toLocal := x.toLocal ++ [bytes] }) k) "ok"
            | none => (w, "bad-op")
          else
            let frames := (pipeGet w k).toRemote
            let w := pipeSet w k fun x => { x with toRemote := [] }
            run w s!"[{joinWith " " (frames.map bytesHex)}]"
      | [] => (w, "bad-op")
    else if !rest.isEmpty && op ≠ "send" then (w, "bad-op")
    else if op = "hold" then
      -- the connection tasks the peer has now are not polled until `unhold`
      let n := (w.taux.filter (·.peer = p)).length
      ({ w with taux := w.taux.map fun a => if a.peer = p then { a with held := true } else a }, s!"ok held={n}")
    else if op = "unhold" then
      run { w with taux := w.taux.map fun a => if a.peer = p then { a with held := false } else a } "ok"
    else if op = "timer" then
      run { w with readyTimers := w.readyTimers ++ [p] } "ok"
    else if op = "open" then
      if (w.view.lookup p).isSome then run w "already"
      else run { w with cmdQ := w.cmdQ ++ [(p, true)] } "ok"
    else if op = "close" then
      if (w.view.lookup p).isNone then run w "ok"
      else run { w with cmdQ := w.cmdQ ++ [(p, false)] } "ok"
    else if op = "accept" || op = "reject" then
      match w.hvalid.lookup p with
      | some vid =>
        run { w with hvalid := w.hvalid.filter (·.1 ≠ p), validQ := w.validQ ++ [(p, vid, decide (op = "accept"))] } "ok"
      | none => run w "ok"
    else if op = "send" then
      match rest with
      | [payload] =>
        match hexBytes? payload with
        | none => (w, "bad-op")
        | some bytes =>
          match w.view.lookup p with
          | none => run w "ok"
          | some t =>
            match auxOf w t with
            | none => run w "noconn"
            | some _ => run (setAux w t fun a => { a with queue := a.queue ++ [bytes], woken := true }) "ok"
      | _ => (w, "bad-op")
    else (w, "bad-op")
  | ["events"] =>
    let (w, evs) := eventsOp w 16 []
    finish w s!"[{joinWith " " evs}]"
  | ["state"] => (w, stateLine w)
  | _ => (w, "bad-op")

end Litep2pVerif.Driver.C11
