import Litep2pVerif.Common.Parse
import Litep2pVerif.Model.Id.PeerId
import Litep2pVerif.Model.Id.Keys
import Litep2pVerif.Model.Wire.Schemas
import Litep2pVerif.Generated.Consts
/-! Line-protocol driver for the peer-id models (C18). Every answer is
`<litep2p model> | <reference model>`, like the harness area `c18` (litep2p adapter | libp2p-identity).
`h=<hex>` carries SHA-256 of the key blob (the model's `hash` parameter); `valid=`/`ref=` carry what
is outside the model (ed25519 point validity, applicability of the reference), see checks/c18.py. -/
namespace Litep2pVerif.Driver.C18
open Litep2pVerif Litep2pVerif.Id Parse

abbrev State := Unit
def init : State := ()

def maxInline : Nat := Consts.MAX_INLINE_KEY_LENGTH

def toBytes (ns : List Nat) : List UInt8 := ns.map UInt8.ofNat
def hexOf (bs : List UInt8) : String := bytesHex (bs.map (·.toNat))
def asciiOf (bs : List UInt8) : String := String.ofList (bs.map (fun b => Char.ofNat b.toNat))

def showL : Except ParseError PeerId → String
  | .ok p => "ok " ++ hexOf p.toBytes
  | .error (.b58 _) => "err b58"
  | .error .multiHash => "err multihash"

def showR : Except Ref.ParseError Ref.PeerId → String
  | .ok p => "ok " ++ hexOf (Ref.toBytes p)
  | .error (.b58 _) => "err b58"
  | .error (.unsupportedCode _) => "err code"
  | .error (.invalidMultihash _) => "err multihash"

def showDerive : Except Panic (List UInt8) → String
  | .ok bs => "ok " ++ hexOf bs
  | .error (.expect msg) => "panic " ++ msg

/-- `tomultiaddr`: into `multiaddr::PeerId`, appended to an address as `/p2p`, extracted again; the text
and binary forms of the component re-parse through the reference's `from_str`/`from_bytes`. -/
def multiaddrRoundTrip (p : PeerId) : String :=
  match PeerId.tryFromMultiaddr maxInline [.other 4, .other 6] with
  | some _ => "err spurious"
  | none =>
    match p.intoMultiaddrPeerId with
    | .error (.expect msg) => "panic " ++ msg
    | .ok r =>
      let direct := PeerId.tryFromMultiaddr maxInline [.other 4, .other 6, .p2p r]
      let viaText := match Ref.fromStr (Ref.toBase58 r) with
        | .ok r' => PeerId.tryFromMultiaddr maxInline [.other 4, .other 6, .p2p r']
        | .error _ => none
      let viaBinary := match Ref.fromBytes (Ref.toBytes r) with
        | .ok r' => PeerId.tryFromMultiaddr maxInline [.other 4, .other 6, .p2p r']
        | .error _ => none
      match direct, viaText, viaBinary with
      | some a, some b, some c =>
        if a = b ∧ b = c then "ok " ++ hexOf a.toBytes else "err diverge"
      | _, _, _ => "err diverge"

def serdeRoundTrip (p : PeerId) : String :=
  let text := p.serialize true
  let binary := p.serialize false
  match PeerId.deserialize maxInline true text, PeerId.deserialize maxInline false binary with
  | .ok a, .ok b => if a = p ∧ b = p then "ok " ++ asciiOf text ++ " " ++ hexOf binary else "err roundtrip"
  | _, _ => "err roundtrip"

/-- Byte-string arguments are written `0x<hex>`. -/
def hexArg? (s : String) : Option (List UInt8) :=
  if s.startsWith "0x" then (hexBytes? (s.drop 2).toString).map toBytes else none

def hexVal? (s : String) : Option (List UInt8) := (hexBytes? s).map toBytes

def step (st : State) (line : String) : State × String :=
  let ts := tokens line
  let out : String :=
    match ts with
    | "frombytes" :: rest =>
      match hexArg? (rest.headD "") with
      | some bs => showL (PeerId.fromBytes maxInline bs) ++ " | " ++ showR (Ref.fromBytes bs)
      | none => "bad-op"
    | "frompk" :: data :: rest =>
      match hexArg? data, ((arg? "h" rest).bind hexVal?) with
      | some blob, some h =>
        let l := showDerive ((PeerId.fromPublicKeyProtobuf maxInline (fun _ => h) blob).map PeerId.toBytes)
        let r := if arg? "ref" rest = some "0" then "-"
                 else showDerive ((Ref.fromKeyEncoding (fun _ => h) blob).map Ref.toBytes)
        l ++ " | " ++ r
      | _, _ => "bad-op"
    | "edid" :: key :: rest =>
      match hexArg? key with
      | some key =>
        if arg? "valid" rest = some "0" then "err badkey | err badkey"
        else
          showDerive ((PeerId.fromPublicKeyProtobuf maxInline (fun _ => []) (ed25519Protobuf key)).map PeerId.toBytes)
          ++ " | " ++ showDerive ((Ref.fromKeyEncoding (fun _ => []) (ed25519Protobuf key)).map Ref.toBytes)
      | none => "bad-op"
    -- ---- ed25519 key material: `<litep2p> | <reference> | <facts>`; the facts (curve arithmetic) are inputs
    | "kpbytes" :: data :: rest =>
      match hexArg? data, arg? "derive" rest, arg? "valid" rest with
      | some buf, some d, some v =>
        let derived : List UInt8 := (hexVal? d).getD []
        let c : Keys.Curve := ⟨fun _ => derived, fun _ => v == "1", fun _ _ _ => false⟩
        let r := Keys.keypairFromBytes c buf
        let x := match r.1 with
          | some k => "ok pub=" ++ hexOf k.pub ++ " sec=" ++ hexOf k.secret ++
              " zeroed=" ++ (if r.2.all (· == 0) then "1" else "0") ++
              " rt=" ++ (if k.toBytes == buf then "1" else "0") ++ " c=1"
          | none => "err kept=" ++ (if r.2 == buf then "1" else "0")
        x ++ " | " ++ x ++ " | derive=" ++ d ++ " valid=" ++ v
      | _, _, _ => "bad-op"
    | "skbytes" :: data :: rest =>
      match hexArg? data, arg? "derive" rest with
      | some buf, some d =>
        let r := Keys.secretFromBytes buf
        let x := match r.1 with
          | some sec => "ok sec=" ++ hexOf sec ++ " pub=" ++ d ++ " zeroed=" ++ (if r.2.all (· == 0) then "1" else "0")
          | none => "err kept=" ++ (if r.2 == buf then "1" else "0")
        x ++ " | " ++ x ++ " | derive=" ++ d
      | _, _ => "bad-op"
    | "pkbytes" :: data :: rest =>
      match hexArg? data, arg? "valid" rest with
      | some k, some v =>
        let c : Keys.Curve := ⟨id, fun _ => v == "1", fun _ _ _ => false⟩
        let x := match Keys.publicFromBytes c k with
          | some k' => "ok " ++ hexOf k' ++ " c=1"
          | none => "err badkey"
        x ++ " | " ++ x ++ " | valid=" ++ v
      | _, _ => "bad-op"
    | "pkproto" :: data :: rest =>
      match hexArg? data, arg? "valid" rest, arg? "ref" rest with
      | some blob, some v, some r =>
        let x := match Wire.remotePublicKey (fun _ => v == "1") (blob.map (·.toNat)) with
          | .ok key => "ok " ++ bytesHex key
          | .decodeErr => "err decode"
          | .unknownKeyType => "err type"
          | .invalidData => "err badkey"
        x ++ " | " ++ r.replace ":" " "
      | _, _, _ => "bad-op"
    | "edverify" :: key :: msg :: sig :: rest =>
      match hexArg? key, hexArg? msg, hexArg? sig, arg? "valid" rest, arg? "sigok" rest with
      | some k, some m, some sg, some v, some ok =>
        let c : Keys.Curve := ⟨id, fun _ => v == "1", fun _ _ _ => ok == "1"⟩
        let x := match Keys.publicFromBytes c k with
          | none => "err badkey"
          | some k' => toString (Keys.verify c k' m sg)
        x ++ " | " ++ x
      | _, _, _, _, _ => "bad-op"
    | "edsign" :: sk :: msg :: rest =>
      match hexArg? sk, hexArg? msg with
      | some s, some _ =>
        let x := match (Keys.secretFromBytes s).1 with
          | some _ => "ok " ++ (arg? "sig" rest).getD "?" ++ " v=1"
          | none => "err badkey"
        x ++ " | " ++ x
      | _, _ => "bad-op"
    | "conv" :: rest =>
      match hexArg? (rest.headD "") with
      | some bs =>
        showL (PeerId.fromBytes maxInline bs) ++ " | " ++
          (match Ref.fromBytes bs with
           | .ok p => "ok " ++ hexOf (Ref.toBytes p)
           | .error _ => "err multihash")
      | none => "bad-op"
    | "fromstr" :: rest =>
      match hexArg? (rest.headD "") with
      | some s => showL (PeerId.fromStr maxInline s) ++ " | " ++ showR (Ref.fromStr s)
      | none => "bad-op"
    | "b58dec" :: rest =>
      match hexArg? (rest.headD "") with
      | some s =>
        (match Base58.decode s with
         | .ok bs => "ok " ++ hexOf bs
         | .error (.invalidChar i) => "err b58:char:" ++ toString i
         | .error (.nonAscii i) => "err b58:nonascii:" ++ toString i) ++ " | -"
      | none => "bad-op"
    | "b58enc" :: rest =>
      match hexArg? (rest.headD "") with
      | some bs => "ok " ++ asciiOf (Base58.encode bs) ++ " | -"
      | none => "bad-op"
    | "tomultiaddr" :: rest =>
      match hexArg? (rest.headD "") with
      | some bs =>
        (match PeerId.fromBytes maxInline bs with
         | .ok p => multiaddrRoundTrip p
         | e => showL e) ++ " | " ++
        (match Ref.fromBytes bs with
         | .ok r => "ok " ++ hexOf (Ref.toBytes r)
         | .error _ => "err multiaddr")
      | none => "bad-op"
    | "serde" :: rest =>
      match hexArg? (rest.headD "") with
      | some bs =>
        (match PeerId.fromBytes maxInline bs with
         | .ok p => serdeRoundTrip p
         | e => showL e) ++ " | -"
      | none => "bad-op"
    | "deser" :: mode :: rest =>
      if mode = "hr" ∨ mode = "bin" then
        match hexArg? (rest.headD "") with
        | some v =>
          (match PeerId.deserialize maxInline (mode = "hr") v with
           | .ok p => "ok " ++ hexOf p.toBytes
           | .error _ => "err invalid") ++ " | -"
        | none => "bad-op"
      else "bad-op"
    | _ => "bad-op"
  (st, out)

end Litep2pVerif.Driver.C18
