import Litep2pVerif.Common.Parse
import Litep2pVerif.Model.Noise.Transport
/-! Line-protocol driver for the `NoiseSocket` model (C02): the model's writer and reader over the
term model of the cipher, connected by the same scripted carrier as in `src/verif/c02.rs`
(wire kept as ciphertext frames, `deliver`, scripts, frame-level tampering). -/
namespace Litep2pVerif.Driver.C02
open Litep2pVerif Litep2pVerif.Noise.Transport Parse

/-- A ciphertext frame in flight. `cells[head ..]` is still on the wire. -/
structure Seg where
  cells : Array TCell
  head : Nat
  complete : Bool
  started : Bool
  pstart : Nat
  plen : Nat
  /-- first cell removed by `tamper trunc` (see `Seg::guard` in the adapter) -/
  guard : Option TCell := none

structure Live where
  P : Params
  ws : WriteSock TCell
  wscript : List WHint
  rs : ReadSock TCell
  rc : RCarrier TCell
  segs : Array Seg
  hdr : List Nat
  bodyNeed : Nat
  nextP : Nat
  guard : Option TCell := none
  wpos : Nat
  wfused : Bool
  /-- answers of the inner `poll_flush` / `poll_close` of the writer's carrier -/
  fscript : List FHint := []
  cscript : List FHint := []
  /-- the inner `poll_close` succeeded (write half closed: EOF for the reader once the wire is drained) -/
  wclosed : Bool := false
  /-- `close` returned `ok`: the adapter answers `closed` from now on -/
  wdone : Bool := false
  /-- `carrier close` -/
  cclosed : Bool := false

structure State where
  live : Option Live := none

def init : State := {}

def tw (P : Params) : WireOps TCell := termWire P.T

def connect (F W : Nat) : Live :=
  let P := realParams F W
  { P := P, ws := newWriteSock P (tw P), wscript := [], rs := newReadSock P (tw P),
    rc := { str := #[], cpos := 0, script := [], closed := false },
    segs := #[], hdr := [], bodyNeed := 0, nextP := 0, wpos := 0, wfused := false }

def xorCell (c : TCell) (mask : Nat) : TCell :=
  match c with
  | .raw v => .raw (v ^^^ mask)
  | .mod c' m => if m ^^^ mask = 0 then c' else .mod c' (m ^^^ mask)
  | c => .mod c mask

/-- One byte accepted from the writer (mirror of `Shared::push_wire`). -/
def pushWire (l : Live) (b : TCell) : Live :=
  let segs :=
    if l.segs.size = 0 || (l.segs.back?.map (·.complete)).getD true then
      l.segs.push { cells := #[], head := 0, complete := false, started := false, pstart := l.nextP, plen := 0 }
    else l.segs
  let segs := segs.modify (segs.size - 1) fun s => { s with cells := s.cells.push b }
  let v := (tw l.P).toByte b
  let (hdr, need, done) :=
    if l.hdr.length < 2 then
      let hdr := l.hdr ++ [v]
      if hdr.length = 2 then
        let need := hdr.headD 0 * 256 + hdr.getD 1 0
        (hdr, need, need == 0)
      else (hdr, l.bodyNeed, false)
    else (l.hdr, l.bodyNeed - 1, l.bodyNeed - 1 == 0)
  if done then
    let plen := (hdr.headD 0 * 256 + hdr.getD 1 0) - 16
    let segs := segs.modify (segs.size - 1) fun s => { s with complete := true, plen := plen }
    { l with segs := segs, hdr := [], bodyNeed := need, nextP := l.nextP + plen }
  else { l with segs := segs, hdr := hdr, bodyNeed := need }

/-- The cell delivered right after a truncated frame differs from the first removed one. -/
def guardFix (g : Option TCell) (c : TCell) : TCell :=
  match g, c with
  | some (.raw gv), .raw v => if v = gv then .raw (v ^^^ 1) else c
  | _, _ => c

partial def deliverLoop (segs : Array Seg) (str : Array TCell) (guard : Option TCell) (k moved : Nat) :
    Array Seg × Array TCell × Option TCell × Nat :=
  if k = 0 then (segs, str, guard, moved)
  else
    match segs[0]? with
    | none => (segs, str, guard, moved)
    | some s =>
      let avail := s.cells.size - s.head
      if avail = 0 then
        if s.complete then
          deliverLoop (segs.eraseIdxIfInBounds 0) str (if s.guard.isSome then s.guard else guard) k moved
        else (segs, str, guard, moved)
      else
        let m := min k avail
        let chunk := s.cells.extract s.head (s.head + m)
        let chunk := if guard.isSome then chunk.modify 0 (guardFix guard) else chunk
        let str := str ++ chunk
        let segs := segs.modify 0 fun s => { s with head := s.head + m, started := true }
        deliverLoop segs str none (k - m) (moved + m)

partial def dropExhausted (segs : Array Seg) (guard : Option TCell) : Array Seg × Option TCell :=
  match segs[0]? with
  | some s =>
    if s.complete && s.cells.size - s.head = 0 then
      dropExhausted (segs.eraseIdxIfInBounds 0) (if s.guard.isSome then s.guard else guard)
    else (segs, guard)
  | none => (segs, guard)

def deliver (l : Live) (k : Nat) : Live × Nat :=
  let (segs, str, guard, moved) := deliverLoop l.segs l.rc.str l.guard k 0
  let (segs, guard) := dropExhausted segs guard
  ({ l with segs := segs, guard := guard, rc := { l.rc with str := str } }, moved)

def tamperable (l : Live) : List Nat :=
  (List.range l.segs.size).filter fun i =>
    match l.segs[i]? with
    | some s => s.complete && !s.started
    | none => false

def showRErr : RErr → String
  | .eof => "eof" | .invalidData => "invalid-data" | .permissionDenied => "permission-denied"
  | .carrier => "reset"

def showWErr : WErr → String
  | .writeZero => "write-zero" | .invalidData => "invalid-data" | .carrier => "broken-pipe"

def rhints? : List String → Option (List RHint)
  | [] => some []
  | t :: ts =>
    let h : Option RHint :=
      if t = "p" then some .pend else if t = "e" then some .eof else if t = "x" then some .err
      else match t.toNat? with
        | some k => if k > 0 then some (.chunk k) else none
        | none => none
    match h, rhints? ts with
    | some h, some r => some (h :: r)
    | _, _ => none

def whints? : List String → Option (List WHint)
  | [] => some []
  | t :: ts =>
    let h : Option WHint :=
      if t = "p" then some .pend else if t = "z" then some .zero else if t = "x" then some .err
      else match t.toNat? with
        | some k => if k > 0 then some (.acc k) else none
        | none => none
    match h, whints? ts with
    | some h, some r => some (h :: r)
    | _, _ => none

def nats? : List String → Option (List Nat)
  | [] => some []
  | t :: ts =>
    match t.toNat?, nats? ts with
    | some n, some r => some (n :: r)
    | _, _ => none

def absorb (l : Live) (ws : WriteSock TCell) (wc : WCarrier TCell) : Live :=
  wc.out.foldl pushWire { l with ws := ws, wscript := wc.script }

def fhints? : List String → Option (List FHint)
  | [] => some []
  | t :: ts =>
    let h : Option FHint := if t = "p" then some .pend else if t = "x" then some .err else none
    match h, fhints? ts with
    | some h, some r => some (h :: r)
    | _, _ => none

/-- The writer's carrier for one call (`out` starts empty: what it accepts is moved to the wire by `absorb`). -/
def wenv (l : Live) : WEnv TCell :=
  { wc := { out := #[], script := l.wscript }, fscript := l.fscript, cscript := l.cscript, flushed := 0,
    closed := l.wclosed }

def absorbEnv (l : Live) (ws : WriteSock TCell) (e : WEnv TCell) : Live :=
  absorb { l with ws := { ebuf := #[], st := .idle, nonce := 0 }, fscript := e.fscript, cscript := e.cscript,
                  wclosed := e.closed } ws e.wc

/-- Mirror of `Shared::missing` in the adapter. -/
def missing (l : Live) (e : WEnv TCell) : String :=
  (if l.nextP != l.wpos || !l.hdr.isEmpty then " short " ++ toString l.nextP ++ "/" ++ toString l.wpos else "")
    ++ (if e.flushed != e.wc.out.size then " unflushed" else "")

def wireEmpty (l : Live) : Bool := l.segs.all fun s => s.cells.size - s.head == 0

def stepLive (l : Live) (ts : List String) : Live × String :=
  match ts with
  | ["write", n] =>
    match n.toNat? with
    | none => (l, "bad-op")
    | some n =>
      if n > 4194304 then (l, "bad-op")
      else if l.wfused then (l, "fused")
      else if l.wdone then (l, "closed")
      else
        let (ws, wc, o) := pollWrite l.P (tw l.P) l.ws { out := #[], script := l.wscript } l.wpos n
        let l := absorb { l with ws := { ebuf := #[], st := .idle, nonce := 0 } } ws wc
        match o with
        | .ok k => ({ l with wpos := l.wpos + k }, "ok " ++ toString k)
        | .pending => (l, "pending")
        | .err e => ({ l with wfused := true }, "err " ++ showWErr e)
        | .panic m => (l, "panic " ++ m)
  | ["flush"] =>
    if l.wfused then (l, "fused")
    else if l.wdone then (l, "closed")
    else
      let (ws, e, o) := pollFlushE l.ws (wenv l)
      let l := absorbEnv l ws e
      match o with
      | .ok _ => (l, "ok" ++ missing l e)
      | .pending => (l, "pending")
      | .err x => ({ l with wfused := true }, "err " ++ showWErr x)
      | .panic m => (l, "panic " ++ m)
  | ["close"] =>
    if l.wfused then (l, "fused")
    else if l.wdone then (l, "closed")
    else
      let (ws, e, o) := pollCloseE l.ws (wenv l)
      let l := absorbEnv l ws e
      match o with
      | .ok _ => ({ l with wdone := true }, "ok" ++ missing l e ++ (if e.closed then "" else " open"))
      | .pending => (l, "pending")
      | .err x => ({ l with wfused := true }, "err " ++ showWErr x)
      | .panic m => (l, "panic " ++ m)
  | ["read", k] =>
    match k.toNat? with
    | none => (l, "bad-op")
    | some k =>
      if k > 4194304 then (l, "bad-op")
      else
        let rs := l.rs
        let rc := { l.rc with closed := l.cclosed || (l.wclosed && wireEmpty l) }
        let l := { l with rs := { rs with buf := #[] }, rc := { rc with str := #[] } }
        let (rs, rc, o) := pollRead l.P (tw l.P) k rs rc
        let l := { l with rs := rs, rc := rc }
        match o with
        | .ok n pos => (l, "ok " ++ toString n ++ " @" ++ toString pos)
        | .pending => (l, "pending")
        | .err e => (l, "err " ++ showRErr e)
        | .panic m => (l, "panic " ++ m)
        | .diverged => (l, "diverged")
  | ["carrier", "deliver", k] =>
    let k? := if k = "all" then some (l.segs.foldl (fun a s => a + s.cells.size) 1) else k.toNat?
    match k? with
    | none => (l, "bad-op")
    | some k =>
      let (l, moved) := deliver l k
      (l, "ok " ++ toString moved)
  | ["carrier", "clear"] =>
    ({ l with wscript := [], fscript := [], cscript := [], rc := { l.rc with script := [] } }, "ok")
  | ["carrier", "close"] => ({ l with cclosed := true }, "ok")
  | "carrier" :: "fscript" :: rest =>
    match fhints? rest with
    | some hs => ({ l with fscript := l.fscript ++ hs }, "ok")
    | none => (l, "bad-op")
  | "carrier" :: "cscript" :: rest =>
    match fhints? rest with
    | some hs => ({ l with cscript := l.cscript ++ hs }, "ok")
    | none => (l, "bad-op")
  | "carrier" :: "rscript" :: rest =>
    match rhints? rest with
    | some hs => ({ l with rc := { l.rc with script := l.rc.script ++ hs } }, "ok")
    | none => (l, "bad-op")
  | "carrier" :: "wscript" :: rest =>
    match whints? rest with
    | some hs => ({ l with wscript := l.wscript ++ hs }, "ok")
    | none => (l, "bad-op")
  | "tamper" :: kind :: rest =>
    match nats? rest with
    | none => (l, "bad-op")
    | some [] => (l, "bad-op")
    | some (i :: args) =>
      let idx := tamperable l
      let valid := (kind = "flip" && args.length = 2) || (kind = "trunc" && args.length = 1)
        || ((kind = "dup" || kind = "drop" || kind = "swap") && args.length = 0)
      match idx[i]? with
      | none => (l, if valid then "none" else "bad-op")
      | some si =>
        match l.segs[si]? with
        | none => (l, "bad-op")
        | some seg =>
          let done := "ok @" ++ toString seg.pstart ++ " +" ++ toString seg.plen
          let len := seg.cells.size
          match kind, args with
          | "flip", [off, mask] =>
            let mask := 1 + (max mask 1 - 1) % 255
            let cells := seg.cells.modify (off % len) fun c => xorCell c mask
            ({ l with segs := l.segs.setIfInBounds si { seg with cells := cells } }, done)
          | "trunc", [cut] =>
            let cut := 1 + (max cut 1 - 1) % len
            if len - cut = 0 then ({ l with segs := l.segs.eraseIdxIfInBounds si }, done)
            else
              let seg' : Seg := { seg with cells := seg.cells.extract 0 (len - cut),
                                           guard := if seg.guard.isSome then seg.guard else seg.cells[len - cut]? }
              ({ l with segs := l.segs.setIfInBounds si seg' }, done)
          | "dup", [] => ({ l with segs := l.segs.insertIdxIfInBounds (si + 1) seg }, done)
          | "drop", [] => ({ l with segs := l.segs.eraseIdxIfInBounds si }, done)
          | "swap", [] =>
            match idx[i + 1]? with
            | none => (l, "none")
            | some sj =>
              match l.segs[sj]? with
              | none => (l, "none")
              | some seg2 =>
                ({ l with segs := (l.segs.setIfInBounds si seg2).setIfInBounds sj seg }, done)
          | _, _ => (l, "bad-op")
  | _ => (l, "bad-op")

def step (st : State) (line : String) : State × String :=
  let ts := tokens line
  match ts with
  | ["cfg", f, w] =>
    match f.toNat?, w.toNat? with
    | some f, some w => if f > 8 || w > 8 then (st, "bad-op") else ({ live := some (connect f w) }, "ok")
    | _, _ => (st, "bad-op")
  | _ =>
    let l := match st.live with
      | some l => l
      | none => connect Consts.MAX_READ_AHEAD_FACTOR Consts.MAX_WRITE_BUFFER_SIZE
    let (l, o) := stepLive l ts
    ({ live := some l }, o)

end Litep2pVerif.Driver.C02
