import Litep2pVerif.Common.Parse
import Litep2pVerif.Model.Kad.Coordinator
import Litep2pVerif.Model.Kad.Executor
import Litep2pVerif.Model.Kad.Serve
import Litep2pVerif.Generated.Consts
import Litep2pVerif.Model.Kad.Events
import Litep2pVerif.Model.Kad.TableWiring
import Litep2pVerif.Driver.C14
/-!
Line-protocol driver for the Kademlia coordinator model (C16), in checker mode: every input line
is `op -> observation of the implementation`. The engine actions (`act:`) and executor results
(`res:`) in the observation are the nondeterministic choices; the driver checks that the model allows
them, recomputes every other part of the observation (dials, substream opens, what the remote ends
read, events, the coordinator's bookkeeping) and prints it. The environment played by the adapter
(connections with their capacity, the manager's view of each peer, address kinds, remote ends) is
mirrored here, outside the model.
-/
namespace Litep2pVerif.Driver.C16
open Litep2pVerif Litep2pVerif.Kad.Coordinator Parse

structure Conn where
  peer : Peer
  dead : Bool
  cap : Nat
  queued : Nat
  deriving Inhabited

structure DState where
  ready : Bool := false
  m : State := {}
  kinds : List Char := []
  conns : List Conn := []
  /-- manager's view: 0 disconnected, 1 dialing, 2 connected -/
  view : List (Peer × Nat) := []
  /-- dial commands sent during the current operation -/
  dialCmds : List Peer := []
  /-- remote ends that read a request and have not answered, by substream id -/
  waiting : List (Sid × Peer) := []
  qkinds : List (Qid × String × QKind × Nat) := []
  outRx : List (Sid × String) := []
  outEv : List String := []
  err : Option String := none
  -- serving side (inbound requests, local store, routing table, provider refresh)
  cfg : Kad.Serve.Cfg := {}
  sv : Kad.Serve.SState := {}
  /-- logical time, ms -/
  now : Nat := 0
  maxmsg : Nat := 71680
  /-- inbound substreams: number, peer, request (`none`: nothing is sent), 0 = fits / 1 = too big / 2 = near the limit -/
  inReqs : List (Nat × Peer × Option Kad.Serve.Req × Nat) := []
  nInbound : Nat := 0
  /-- read futures of inbound substreams `(peer, inbound number)` and response futures `(peer, eatFailure)` -/
  inReads : List (Peer × Nat) := []
  inSends : List (Peer × Bool) := []
  outResp : List String := []
  /-- `resp:` tokens of the implementation (checker mode for `closest` on a table larger than the replication factor) -/
  implResp : List String := []
  /-- nodes of the reply given in this operation -/
  pendingReply : Option (List Nat) := none
  /-- the reply given in this operation is an `ADD_PROVIDER` message (key 1, the replying peer as provider) -/
  replyAddprov : Bool := false
  provQuorum : List (Nat × Quorum) := []
  -- executor box
  execMode : Bool := false
  pool : Kad.Executor.Pool := {}
  /-- the user does not read the handle's events (`hold` … `release`) -/
  held : Bool := false
  /-- the event channel between the coordinator and the handle -/
  chan : Kad.Events.Chan String := { cap := Consts.KAD_EVENT_CHANNEL_SIZE }
  /-- `t` box: coordinator with dictated keys (routing-table wiring), keys per peer, open connections -/
  tb : Option (Kad.Wiring.W × List (Nat × Nat) × List Nat) := none
  deriving Inhabited

def init : DState := {}

def maxPeer : Nat := 8

/-! ### small helpers -/

def insertBy {α} (lt : α → α → Bool) (x : α) : List α → List α
  | [] => [x]
  | y :: ys => if lt x y then x :: y :: ys else y :: insertBy lt x ys

def sortBy {α} (lt : α → α → Bool) (xs : List α) : List α := xs.foldl (fun acc x => insertBy lt x acc) []

def natList (xs : List Nat) : String := joinWith "," (xs.map toString)

def viewOf (d : DState) (p : Peer) : Nat := ((d.view.find? (fun v => v.1 == p)).map (·.2)).getD 0

def setView (d : DState) (p : Peer) (v : Nat) : DState :=
  { d with view := (p, v) :: d.view.filter (fun x => x.1 != p) }

def kindOf (d : DState) (p : Peer) : Char := if p = 0 then 'n' else d.kinds.getD (p - 1) 'n'

def quorum? (s : Option String) : Option Quorum :=
  match s with
  | none => some .one
  | some "one" => some .one
  | some "all" => some .all
  | some t => if t.startsWith "n" then (t.drop 1).toString.toNat?.bind (fun k => if k = 0 then none else some (.n k)) else none

def peers? (s : String) : Option (List Nat) :=
  if s = "-" then some [] else
  (s.splitOn ",").foldr (fun t acc => match t.toNat?, acc with
    | some n, some l => if n ≤ maxPeer then some (n :: l) else none
    | _, _ => none) (some [])

def idx? (s : String) : Option Nat := (if s.startsWith "#" then (s.drop 1).toString else s).toNat?

/-! ### environment mirror -/

def connOk (d : DState) (p : Peer) : Bool :=
  match d.conns.find? (fun c => c.peer == p) with
  | some c => !c.dead && c.queued < c.cap
  | none => false

def enqueue (d : DState) (p : Peer) : DState :=
  { d with conns := d.conns.map (fun c => if c.peer = p then { c with queued := c.queued + 1 } else c) }

/-- What the adapter's transport service / manager answer to one `open_substream_or_dial`. -/
def envOsd (d : DState) (p : Peer) : DState × OsdIn :=
  if connOk d p then (enqueue d p, ⟨true, .err, false⟩)
  else match viewOf d p with
    | 2 => (d, ⟨false, .alreadyConnected, false⟩)
    | 1 => (d, ⟨false, .started, false⟩)
    | _ => if kindOf d p = 'g' then ({ d with dialCmds := d.dialCmds ++ [p] }, ⟨false, .started, false⟩)
           else (d, ⟨false, .err, false⟩)

def envOsds (d : DState) : List Peer → DState × List OsdIn
  | [] => (d, [])
  | p :: ps =>
    let r := envOsd d p
    let rest := envOsds r.1 ps
    (rest.1, r.2 :: rest.2)

def envOpens (d : DState) (p : Peer) : Nat → DState × List Bool
  | 0 => (d, [])
  | n + 1 =>
    if connOk d p then
      let rest := envOpens (enqueue d p) p n
      (rest.1, true :: rest.2)
    else
      let rest := envOpens d p n
      (rest.1, false :: rest.2)

/-! ### printing -/

def aStr (a : PAction) : String :=
  (match a.kind with | .findNode => "F" | .putValue => "P" | .addProvider => "A") ++ toString a.q

def stateStr (s : State) : String :=
  let dialPeers := sortBy (· < ·) (s.dials.map (·.1)).eraseDups
  let dStr := joinWith " " (dialPeers.map fun p =>
    toString p ++ ":" ++ joinWith "," ((s.dials.filter (fun x => x.1 == p)).map (fun x => aStr x.2)))
  let pStr := joinWith " " ((sortBy (· < ·) s.ctx).map fun p =>
    toString p ++ ":" ++ joinWith "," ((sortBy (fun a b => a.2.1 < b.2.1) (s.actions.filter (fun a => a.1 == p))).map
      (fun a => toString a.2.1 ++ "=" ++ aStr a.2.2)))
  let sStr := joinWith " " ((sortBy (fun a b => a.1 < b.1) s.pendingSubs).map fun x => toString x.1 ++ ":" ++ toString x.2)
  let qStr := joinWith " " ((sortBy (fun a b => a.id < b.id) s.engine).map fun x =>
    match x.st with
    | .lookup kind _ ps => toString x.id ++ (if kind = .putToPeers then ":M:" else ":L:") ++ natList (sortBy (· < ·) ps)
    | .tracker _ t => toString x.id ++ ":T:" ++ natList (sortBy (· < ·) t.pending) ++ ":" ++ toString t.nSucceeded ++ "/" ++
        toString t.peersToSucceed)
  "D[" ++ dStr ++ "] P[" ++ pStr ++ "] S[" ++ sStr ++ "] Q[" ++ qStr ++ "]"

def successName : QKind → String
  | .findNode => "FindNodeSuccess"
  | .putRecord | .putToPeers => "PutRecordSuccess"
  | .getRecord => "GetRecordSuccess"
  | .addProvider => "AddProviderSuccess"
  | .getProviders => "GetProvidersSuccess"

def qinfo (d : DState) (q : Qid) : Option (String × QKind × Nat) := (d.qkinds.find? (fun x => x.1 == q)).map (·.2)

def eventName (d : DState) (q : Qid) (ok : Bool) : String :=
  if ok then (match qinfo d q with | some (_, k, _) => successName k | none => "?") else "QueryFailed"

def quorumStr : Quorum → String
  | .one => "one" | .all => "all" | .n k => "n" ++ toString k

/-- Push the `ev:` tokens for the terminal events the model emitted since `before`. -/
def pushEvents (d : DState) (before : Nat) : DState :=
  { d with outEv := d.outEv ++ ((d.m.events.drop before).map fun e => "ev:" ++ eventName d e.1 e.2 ++ ":" ++ toString e.1) }

/-! ### trace tokens -/

def fail (d : DState) (msg : String) : DState := if d.err.isSome then d else { d with err := some msg }

def applyEngine (d : DState) (act : EAct) (outs : List OsdIn) (tok : String) (expect : Option Bool) : DState :=
  let before := d.m.events.length
  match engineStep d.m act outs with
  | none => fail d ("!not-allowed:" ++ tok)
  | some m' =>
    let d' := pushEvents { d with m := m' } before
    match expect, m'.events.drop before with
    | some b, [(_, b')] => if b = b' then d' else fail d' ("!wrong-outcome:" ++ tok)
    | some _, _ => fail d' ("!no-terminal:" ++ tok)
    | none, [] => d'
    | none, _ => fail d' ("!unexpected-terminal:" ++ tok)

def applyAct (d : DState) (tok : String) : DState :=
  match tok.splitOn ":" with
  | ["act", "send", q, p] =>
    match q.toNat?, p.toNat? with
    | some q, some p => let r := envOsd d p; applyEngine r.1 (.send q p) [r.2] tok none
    | _, _ => fail d ("!bad-token:" ++ tok)
  | ["act", k, q] =>
    match q.toNat? with
    | none => fail d ("!bad-token:" ++ tok)
    | some q =>
      let isLookup := ((findQ d.m.engine q).map (·.st.isLookup)).getD true
      if k = "fnok" ∨ k = "getok" ∨ k = "provsok" then applyEngine d (.lookupDone q true []) [] tok (some true)
      else if k = "putok" ∨ k = "provok" then applyEngine d (.trackerDone q) [] tok (some true)
      else if k = "fail" then
        if isLookup then applyEngine d (.lookupDone q false []) [] tok (some false)
        else applyEngine d (.trackerDone q) [] tok (some false)
      else if k = "partial" then
        let d' := applyEngine d (.partialResult q) [] tok none
        { d' with outEv := d'.outEv ++ ["ev:partial:" ++ toString q] }
      else fail d ("!bad-token:" ++ tok)
  | ["act", k, q, quorum, peers] =>
    match q.toNat?, peers? (if peers = "" then "-" else peers), quorum? (some quorum) with
    | some q, some ps, some qu =>
      -- the quorum and kind of the fan-out must be those of the operation
      let okKind := match findQ d.m.engine q with
        | some ⟨_, _, .lookup kind qu' _⟩ =>
          decide (qu' = qu) && (if k = "putfan" then kind == .putRecord || kind == .putToPeers else kind == .addProvider)
        | _ => false
      if !okKind then fail d ("!not-allowed:" ++ tok)
      else let r := envOsds d ps; applyEngine r.1 (.lookupDone q true ps) r.2 tok none
    | _, _, _ => fail d ("!bad-token:" ++ tok)
  | _ => fail d ("!bad-token:" ++ tok)

def res? : String → Option Res
  | "sendok" => some .sendOk | "assumeok" => some .assumeOk | "sendfail" => some .sendFail
  | "readok" => some .readOk | "readfail" => some .readFail | _ => none

def peersStr (d : DState) (k : Nat) (kind : String) (field : Nat) : String :=
  let table := sortBy (· < ·) d.sv.table
  if table.length ≤ d.cfg.repl then natList table
  else
    -- `closest` selects `repl` peers of the table by XOR distance: accept the implementation's selection
    let pre := "resp:" ++ toString k ++ ":" ++ kind ++ ":"
    match d.implResp.find? (fun t => t.startsWith pre) with
    | some t =>
      match peers? (let l := ((t.splitOn ":").getD field ""); if l = "" then "-" else l) with
      | some ps =>
        if ps.length = d.cfg.repl ∧ ps.all (fun x => table.contains x) ∧ ps = sortBy (· < ·) ps.eraseDups then natList ps
        else "!bad-closest"
      | none => "!bad-closest"
    | none => "!no-response"

def replyStr (d : DState) (k : Nat) : Kad.Serve.Reply → String
  | .findNode _ => "resp:" ++ toString k ++ ":FIND_NODE:" ++ peersStr d k "FIND_NODE" 3
  | .getValue r _ => "resp:" ++ toString k ++ ":GET_VALUE:rec=" ++ (match r with | some n => toString n | none => "-") ++ ":" ++
      peersStr d k "GET_VALUE" 4
  | .putValue key size => "resp:" ++ toString k ++ ":PUT_VALUE:" ++ toString key ++ ":" ++ toString size
  | .getProviders ps _ => "resp:" ++ toString k ++ ":GET_PROVIDERS:prov=" ++ natList (sortBy (· < ·) ps) ++ ":" ++
      peersStr d k "GET_PROVIDERS" 4

def removeFirst {α} (f : α → Bool) : List α → List α
  | [] => []
  | x :: xs => if f x then xs else x :: removeFirst f xs

/-- Result of a future without query id (an inbound substream). -/
def applyInboundRes (d : DState) (p : Peer) (k : String) (tok : String) : DState :=
  if k = "readok" then
    match d.inReads.find? (fun x => x.1 == p && (d.inReqs.any fun r => r.1 == x.2 && r.2.2.1.isSome && r.2.2.2 != 1)) with
    | none => fail d ("!no-such-future:" ++ tok)
    | some (_, n) =>
      let d1 := { d with inReads := removeFirst (fun x => x.1 == p && x.2 == n) d.inReads }
      match (d.inReqs.find? (fun r => r.1 == n)).bind (·.2.2.1) with
      | none => d1
      | some req =>
        let r := Kad.Serve.serve d1.cfg d1.sv p req
        let d2 := { d1 with sv := r.1 }
        let d3 := match r.2.1 with
          | some reply => { d2 with outResp := d2.outResp ++ [replyStr d2 n reply]
                                    inSends := d2.inSends ++ [(p, match reply with | .putValue .. => true | _ => false)] }
          | none => d2
        match r.2.2 with
        | some (.record key size) => { d3 with outEv := d3.outEv ++ ["inc:record:" ++ toString key ++ ":" ++ toString size] }
        | some (.provider key peer) => { d3 with outEv := d3.outEv ++ ["inc:provider:" ++ toString key ++ ":" ++ toString peer] }
        | none => d3
  else if k = "readfail" then
    match d.inReads.find? (fun x => x.1 == p && (d.inReqs.any fun r => r.1 == x.2 && (r.2.2.1.isNone || r.2.2.2 != 0))) with
    | none => fail d ("!no-such-future:" ++ tok)
    | some (_, n) =>
      { d with inReads := removeFirst (fun x => x.1 == p && x.2 == n) d.inReads, m := inboundFailed d.m p }
  else if k = "sendok" then
    if d.inSends.any (fun x => x.1 == p) then { d with inSends := removeFirst (fun x => x.1 == p) d.inSends }
    else fail d ("!no-such-future:" ++ tok)
  else if k = "assumeok" then
    if d.inSends.any (fun x => x.1 == p && x.2) then { d with inSends := removeFirst (fun x => x.1 == p && x.2) d.inSends }
    else fail d ("!no-such-future:" ++ tok)
  else if k = "sendfail" then
    if d.inSends.any (fun x => x.1 == p && !x.2) then
      { d with inSends := removeFirst (fun x => x.1 == p && !x.2) d.inSends, m := inboundFailed d.m p }
    else fail d ("!no-such-future:" ++ tok)
  else fail d ("!bad-token:" ++ tok)

def applyRes (d : DState) (tok : String) : DState :=
  match tok.splitOn ":" with
  | ["res", p, "-", k] =>
    match p.toNat? with
    | some p => applyInboundRes d p k tok
    | none => fail d ("!bad-token:" ++ tok)
  | ["res", p, q, k] =>
    match p.toNat?, q.toNat?, res? k with
    | some p, some q, some r =>
      match d.m.futs.find? (fun f => f.peer == p && f.q == q && Res.allowed f.kind r) with
      | some f =>
        let d1 := { d with m := execResult d.m f r }
        -- a decodable response to a lookup request: `update_routing_table` (event + table in automatic mode)
        match r, f.kind, d.pendingReply with
        | .readOk, .reqResp, some nodes =>
          let ns := (nodes.filter (· ≥ 1)).take d.cfg.repl
          { d1 with pendingReply := none
                    outEv := d1.outEv ++ ["inc:rtu:" ++ natList ns]
                    sv := Kad.Serve.learn d1.cfg d1.sv (ns.map fun n => (n, kindOf d1 n != 'n')) }
        | .readOk, _, none =>
          -- an `ADD_PROVIDER` message in place of a response fails the request and is handled like any announcement
          if d1.replyAddprov then
            { d1 with replyAddprov := false, sv := Kad.Serve.putProvider d1.sv 1 p
                      outEv := d1.outEv ++ ["inc:provider:1:" ++ toString p] }
          else d1
        | _, _, _ => d1
      | none => fail d ("!no-such-future:" ++ tok)
    | _, _, _ => fail d ("!bad-token:" ++ tok)
  | _ => fail d ("!bad-token:" ++ tok)

def applyTrace (d : DState) (toks : List String) : DState :=
  toks.foldl (fun d t =>
    if t.startsWith "act:" then applyAct d t
    else if t.startsWith "res:" then applyRes d t
    else d) d

/-! ### operations -/

def requestName (d : DState) (f : Fut) : String :=
  match f.kind, qinfo d f.q with
  | .reqResp, some (_, .getRecord, _) => "GET_VALUE"
  | .reqResp, some (_, .getProviders, _) => "GET_PROVIDERS"
  | .reqResp, _ => "FIND_NODE"
  | .putEat, some (_, _, key) => "PUT_VALUE:" ++ toString key
  | .sendMsg, some (_, _, key) => "ADD_PROVIDER:" ++ toString key
  | _, none => "?"

def liveKeys (sv : Kad.Serve.SState) : List Nat := (sv.records.filter (fun r => !r.expired)).map (·.key)

def startCmd (d0 : DState) (name : String) (kind : QKind) (key : Nat) (c : Cmd) : DState × String :=
  -- `store.get` of `GetRecord` drops an expired record; the coordinator model reads the live keys
  let sv := if kind = .getRecord then (Kad.Serve.storeGet d0.sv key).1 else d0.sv
  let d := { d0 with sv := sv, m := ((step d0.m (.setStored (liveKeys sv))).getD d0.m) }
  let q := d.m.nextQid
  let before := d.m.events.length
  let hadLocal := decide (key ∈ d.m.stored)
  let d1 := { d with m := command d.m c, qkinds := d.qkinds ++ [(q, name, kind, key)] }
  -- a locally stored record is reported as a partial result right away
  let d2 := if kind = .getRecord ∧ hadLocal then { d1 with outEv := d1.outEv ++ ["ev:partial:" ++ toString q] } else d1
  (pushEvents d2 before, "q=" ++ toString q)

/-- Apply the operation itself; `none` = unparseable. Returns the head of the observation. -/
def stripAwait (ts : List String) : Option (List String) :=
  match ts with
  | op :: rest =>
    if op.endsWith "_a" then
      let base := (op.dropEnd 2).toString
      if ["add_known_peer", "find_node", "put_record", "put_record_to", "get_record", "store_record"].contains base
      then some (base :: rest) else none
    else some ts
  | [] => some []

def primitive (d : DState) (ts0 : List String) : Option (DState × String) :=
  match stripAwait ts0 with
  | none => none
  | some ts =>
  match ts with
  | ["add_known_peer", p] =>
    match p.toNat? with
    | some p => if 1 ≤ p ∧ p ≤ maxPeer then some ({ d with sv := Kad.Serve.addKnown d.sv p (kindOf d p != 'n') }, "ok") else none
    | none => none
  | ["find_node", t] => t.toNat?.map fun _ => startCmd d "find_node" .findNode 0 .findNode
  | "put_record" :: k :: rest =>
    match k.toNat?, quorum? rest.head? with
    | some k, some qu =>
      if k < 256 then
        some (startCmd { d with sv := Kad.Serve.storePut d.cfg d.sv ⟨k, 1, d.cfg.ttl0⟩ } "put_record" .putRecord k (.putRecord k qu))
      else none
    | _, _ => none
  | "put_record_to" :: k :: ps :: rest =>
    match k.toNat?, peers? ps, quorum? rest.head? with
    | some k, some _, some qu =>
      if k < 256 then
        let d1 := if rest.getD 1 "" = "local" then { d with sv := Kad.Serve.storePut d.cfg d.sv ⟨k, 1, d.cfg.ttl0⟩ } else d
        some (startCmd d1 "put_record_to" .putToPeers k (.putToPeers k qu))
      else none
    | _, _, _ => none
  | "get_record" :: k :: rest =>
    match k.toNat?, quorum? rest.head? with
    | some k, some qu => if k < 256 then some (startCmd d "get_record" .getRecord k (.getRecord k qu)) else none
    | _, _ => none
  | "start_providing" :: k :: rest =>
    match k.toNat?, quorum? rest.head? with
    | some k, some qu =>
      if k < 256 then
        let d1 := { d with sv := Kad.Serve.putLocalProvider d.cfg d.sv d.now k
                           provQuorum := (k, qu) :: d.provQuorum.filter (fun x => x.1 != k) }
        some (startCmd d1 "start_providing" .addProvider k (.startProviding k qu))
      else none
    | _, _ => none
  | ["stop_providing", k] =>
    match k.toNat? with
    | some k => if k < 256 then some ({ d with sv := Kad.Serve.stopProviding d.sv k }, "ok") else none
    | none => none
  | "store_record" :: k :: rest =>
    let size := match rest with
      | [] => some 1
      | [a] => if a.startsWith "size=" then (a.drop 5).toString.toNat?.bind (fun n => if n ≤ 100000 then some n else none) else none
      | _ => none
    match k.toNat?, size with
    | some k, some size =>
      if k < 256 then some ({ d with sv := Kad.Serve.storePut d.cfg d.sv ⟨k, size, d.cfg.ttl0⟩ }, "ok") else none
    | _, _ => none
  | "inbound" :: p :: kind :: rest =>
    let key? (a : String) : Option Nat := a.toNat?.bind (fun k => if k < 256 then some k else none)
    let size? (l : List String) : Option Nat := match l with
      | [] => some 1
      | [a] => if a.startsWith "size=" then (a.drop 5).toString.toNat?.bind (fun n => if n ≤ 100000 then some n else none) else none
      | _ => none
    -- outer `none`: unparseable; inner `none`: nothing is sent
    let req : Option (Option Kad.Serve.Req × Nat) :=
      match kind, rest with
      | "find_node", [t] => t.toNat?.bind (fun t => if t ≤ maxPeer then some (some .findNode, 0) else none)
      | "get_value", [k] => (key? k).map (fun k => (some (.getValue (some k)), 0))
      | "get_value", [] => some (some (.getValue none), 0)
      | "put_value", k :: r =>
        match key? k, size? r with
        | some k, some size =>
          some (some (.putValue k size), if size + 64 ≤ d.maxmsg then 0 else if d.maxmsg < size then 1 else 2)
        | _, _ => none
      | "add_provider", k :: r =>
        match key? k, p.toNat? with
        | some k, some sender =>
          match r with
          | [] => some (some (.addProvider k sender), 0)
          | [a] => if a.startsWith "as=" then
              (a.drop 3).toString.toNat?.bind (fun q => if q ≤ maxPeer then some (some (.addProvider k q), 0) else none)
            else none
          | _ => none
        | _, _ => none
      | "get_providers", [k] => (key? k).map (fun k => (some (.getProviders (some k)), 0))
      | "get_providers", [] => some (some (.getProviders none), 0)
      | "garbage", [] => some (some .garbage, 0)
      | "silent", [] => some (none, 0)
      | "eof", [] => some (none, 0)
      | _, _ => none
    match p.toNat?, req with
    | some p, some (req, big) =>
      if p < 1 ∨ p > maxPeer then none
      else match d.conns.find? (fun c => c.peer == p) with
        | some c =>
          if c.dead then some (d, "noop")
          else
            let n := d.nInbound
            some ({ d with nInbound := n + 1, m := inbound d.m p, inReqs := d.inReqs ++ [(n, p, req, big)]
                           inReads := d.inReads ++ [(p, n)] }, "in=" ++ toString n)
        | none => some (d, "noop")
    | _, _ => none
  | ["get_providers", k] =>
    match k.toNat? with
    | some k => if k < 256 then some (startCmd d "get_providers" .getProviders k (.getProviders k)) else none
    | none => none
  | "established" :: p :: rest =>
    match p.toNat? with
    | none => none
    | some p =>
      if p = 0 ∨ p > maxPeer ∨ p ∈ d.m.connected then some (d, "noop")
      else
        let mode := rest.head?.getD ""
        let cap := if mode.startsWith "cap" then max 1 (((mode.drop 3).toString.toNat?).getD 64) else 64
        let d1 := setView { d with conns := d.conns ++ [⟨p, mode == "dead", cap, 0⟩] } p 2
        let r := envOpens d1 p (dialActions d.m p).length
        some ({ r.1 with m := established d.m p r.2 }, "ok")
  | ["closed", p] =>
    match p.toNat? with
    | none => none
    | some p =>
      if p ∈ d.m.connected then
        some (setView { d with conns := d.conns.filter (fun c => c.peer != p), m := closed d.m p
                               waiting := d.waiting.filter (fun w => w.2 != p) } p 0, "ok")
      else some (d, "noop")
  | ["dialfail", p] =>
    match p.toNat? with
    | none => none
    | some p =>
      if 1 ≤ p ∧ p ≤ maxPeer then
        some ({ (if p ∈ d.m.connected then d else setView d p 0) with m := dialFailure d.m p }, "ok")
      else none
  | ["mgr", p, v] =>
    match p.toNat?, (if v = "d" then some 0 else if v = "i" then some 1 else if v = "c" then some 2 else none) with
    | some p, some v => if 1 ≤ p ∧ p ≤ maxPeer then some (setView d p v, "ok") else none
    | _, _ => none
  | "subopen" :: k :: rest =>
    match idx? k with
    | none => none
    | some k =>
      if d.m.opening.isEmpty then some (d, "noop")
      else
        let (sid, p) := d.m.opening.getD (k % d.m.opening.length) (0, 0)
        let r := subOpened d.m sid
        let d1 := { d with m := r.1 }
        if rest.head? == some "dead" then some (d1, "sid=" ++ toString sid)
        else match r.2 with
          | some f => some ({ d1 with outRx := d1.outRx ++ [(sid, requestName d f)], waiting := d1.waiting ++ [(sid, p)] },
                            "sid=" ++ toString sid)
          -- closed without a request: the (lazily opened) stream never reaches the remote
          | none => some (d1, "sid=" ++ toString sid)
  | ["subfail", k] =>
    match idx? k with
    | none => none
    | some k =>
      if d.m.opening.isEmpty then some (d, "noop")
      else
        let (sid, _) := d.m.opening.getD (k % d.m.opening.length) (0, 0)
        some ({ d with m := subOpenFailure d.m sid }, "sid=" ++ toString sid)
  | "reply" :: k :: rest =>
    match idx? k with
    | none => none
    | some k =>
      let okArgs := rest.all fun a =>
        a == "value" || a == "garbage" || a == "addprov" ||
          (a.startsWith "nodes=" && (peers? (a.drop 6).toString).isSome)
      if !okArgs then none
      else
        let w := sortBy (fun a b => a.1 < b.1) d.waiting
        if w.isEmpty then some (d, "noop")
        else
          let (sid, _) := w.getD (k % w.length) (0, 0)
          let plain := !(rest.contains "garbage" || rest.contains "addprov")
          let nodes := ((rest.find? (fun a => a.startsWith "nodes=")).bind (fun a => peers? (a.drop 6).toString)).getD []
          some ({ d with waiting := d.waiting.filter (fun x => x.1 != sid)
                         pendingReply := if plain then some nodes else none
                         replyAddprov := rest.contains "addprov" }, "sid=" ++ toString sid)
  | ["close", k] =>
    match idx? k with
    | none => none
    | some k =>
      let w := sortBy (fun a b => a.1 < b.1) d.waiting
      if w.isEmpty then some (d, "noop")
      else
        let (sid, _) := w.getD (k % w.length) (0, 0)
        some ({ d with waiting := d.waiting.filter (fun x => x.1 != sid) }, "sid=" ++ toString sid)
  | ["advance", ms] =>
    match ms.toNat? with
    | some ms =>
      if ms ≤ 120000 then
        let now := d.now + ms
        let due := Kad.Serve.dueTimers d.sv now
        let d1 := { d with now := now, sv := { d.sv with timers := d.sv.timers.filter (fun t => !(t.1 ≤ now)) } }
        -- a due refresh timer republishes the provider unless `stop_providing` removed it
        some (due.foldl (fun d t =>
          if t.2 ∈ d.sv.localProv then
            let qu := ((d.provQuorum.find? (fun x => x.1 == t.2)).map (·.2)).getD .one
            (startCmd { d with sv := Kad.Serve.putLocalProvider d.cfg d.sv d.now t.2 } "refresh" .addProvider t.2
              (.startProviding t.2 qu)).1
          else d) d1, "ok")
      else none
    | none => none
  | ["events"] => some (d, "ok")
  | _ => none

/-- `q=5,q=6,q=7` → `q=5..7`; `ok,ok,ok` → `ok*3`; anything else joined by `,` (the adapter's `compress_heads`). -/
def compressHeads (hs : List String) : String :=
  match hs with
  | [] => ""
  | [h] => h
  | h0 :: _ =>
    if hs.all (· == h0) then h0 ++ "*" ++ toString hs.length else
    let split := fun (h : String) => match h.splitOn "=" with
      | [k, v] => v.toNat?.map (fun n => (k, n))
      | _ => none
    match split h0 with
    | some (k, first) =>
      if (hs.zipIdx).all (fun (h, i) => split h == some (k, first + i))
      then k ++ "=" ++ toString first ++ ".." ++ toString (first + hs.length - 1)
      else joinWith "," hs
    | none => joinWith "," hs

/-- The primitives `tss` back to back (one for an ordinary operation, `n` for a `burst`) with the implementation's
observation: returns the model's observation. The events go through the event channel (`Model/Kad/Events.lean`):
the coordinator emits them while the user does not read; unless the user keeps not reading (`keepHeld`) the user
then reads everything. -/
def runPrims (d : DState) (tss : List (List String)) (obs : String) (keepHeld : Bool) : Option (DState × String) :=
  let sidBefore := d.m.nextSid
  let toks := tokens ((obs.splitOn " # ").headD "")
  let d0 := { d with outRx := [], outEv := [], dialCmds := [], err := none, outResp := [], pendingReply := none, replyAddprov := false
                     implResp := toks.filter (fun t => t.startsWith "resp:") }
  let r := tss.foldl (fun (acc : Option (DState × List String)) ts =>
    acc.bind fun (dd, hs) => (primitive dd ts).map fun (d', h) => (d', hs ++ [h])) (some (d0, []))
  match r with
  | none => none
  | some ((d1 : DState), heads) =>
    let head := compressHeads heads
    let trace := toks.filter (fun t => t.startsWith "act:" || t.startsWith "res:")
    let d2 := applyTrace d1 trace
    let d3a := if engineIdle d2.m.engine then d2 else fail d2 "!engine-not-idle"
    -- the ownership invariant is re-checked on every state the validated trace goes through
    let d3 := if waitingOwnedB d3a.m then d3a else fail d3a "!waiting-not-owned"
    -- end of the operation: the manager and the connections process what they were sent
    let d4 : DState := d3.dialCmds.foldl (fun d p => setView d p 1) d3
    let d5 : DState := { d4 with conns := d4.conns.map (fun (c : Conn) => { c with queued := 0 }) }
    let opens := (List.range (d5.m.nextSid - sidBefore)).map fun i =>
      let sid := sidBefore + i
      match d5.m.opening.find? (fun o => o.1 == sid) with
      | some (_, p) => "open:" ++ toString p ++ ":" ++ toString sid
      | none => "open:?:" ++ toString sid
    -- the event channel: `send(ev).await` per event (the loop suspends when the channel is full), then the user reads
    let c1 := d5.outEv.foldl (fun c e => (c.emit e).runOne) d5.chan
    let c2 := if keepHeld then c1 else Kad.Events.Chan.drain (c1.pending + 1) c1
    let shown := c2.got
    let d6 := { d5 with chan := { c2 with got := [] }, held := keepHeld }
    let out := trace ++ (match d6.err with | some e => [e] | none => []) ++
      d6.dialCmds.map (fun p => "dial:" ++ toString p) ++ opens ++
      (sortBy (fun a b => a.1 < b.1) d6.outRx).map (fun r => "rx:" ++ toString r.1 ++ ":" ++ r.2) ++ d6.outResp ++ shown
    some (d6, head ++ " " ++ joinWith " " out ++ " # " ++ stateStr d6.m)

/-- One primitive operation with the implementation's observation: returns the model's observation. -/
def runPrimitive (d : DState) (ts : List String) (obs : String) : Option (DState × String) :=
  runPrims d [ts] obs d.held

def ledgerStr (d : DState) : String :=
  let started := (d.m.started.filter fun q => (qinfo d q).map (·.1) != some "refresh").map fun q =>
    toString q ++ ":" ++ (match qinfo d q with | some (n, _, _) => n | none => "?")
  let terminal := sortBy (· < ·) (d.m.events.map fun e => toString e.1 ++ ":" ++ eventName d e.1 e.2)
  "settled started[" ++ joinWith " " started ++ "] terminal[" ++ joinWith " " terminal ++ "]"

/-! ### S2: real nodes, one fault placement

`s2 fault=<none|undialable|refused|limit> op=<put_to|find_node|start_providing> quorum=<one|n2|all>`: the local node
knows a healthy peer `G` and the fault target `F`. What the model says about the outcome: a put to `[G, F]` succeeds
iff the clamped quorum is at most the number of reachable targets (`Tracker`), a lookup ends with the peers that
answered, an announcement goes to the peers found. For `limit` (local node at its outgoing-connection limit) the queued
dial of `F` fails and, since the repair recorded in known_findings.json, is reported as a dial failure like any other
unreachable target. Which remote ends
received the data is an observation of the implementation (checked by the oracle). -/

def kvArg (ts : List String) (k : String) : Option String :=
  (ts.find? (fun t => t.startsWith (k ++ "="))).map (fun t => (t.drop (k.length + 1)).toString)

def s2Expected (fault op : String) (quorum : Quorum) : String :=
  if op = "put_to" then
    let reachable := if fault = "none" then 2 else 1
    let t := Tracker.new [1, 2] quorum
    if t.peersToSucceed ≤ reachable then "PutRecordSuccess" else "QueryFailed"
  else if op = "find_node" then "FindNodeSuccess"
  else "AddProviderSuccess"

def s2Step (ts : List String) (obs : String) : String :=
  match kvArg ts "fault", kvArg ts "op", quorum? (kvArg ts "quorum") with
  | some fault, some op, some quorum =>
    if !(["none", "undialable", "refused", "limit"].contains fault) ||
       !(["put_to", "find_node", "start_providing"].contains op) then "bad-op"
    else if obs = "inconclusive" then "inconclusive"
    else
      let received := (kvArg (tokens obs) "received").getD "-"
      let okRecv := received == "-" || received == "G" || received == "F" || received == "F,G"
      "s2 terminal=" ++ s2Expected fault op quorum ++ " received=" ++ (if okRecv then received else "?")
  | _, _, _ => "bad-op"

/-! ### configuration (`net` options) -/

def natOpt (v : String) (lo hi : Nat) : Option Nat := v.toNat?.bind (fun n => if lo ≤ n ∧ n ≤ hi then some n else none)

/-- One `key=value` option; `none` = not accepted. -/
def applyOpt (d : DState) (kinds : List Char) (o : String) : Option DState :=
  match o.splitOn "=" with
  | ["repl", v] => v.toNat?.map fun n => { d with cfg := { d.cfg with repl := n } }
  | ["valid", "manual"] => some { d with cfg := { d.cfg with manualValidation := true } }
  | ["valid", "auto"] => some d
  | ["update", "manual"] => some { d with cfg := { d.cfg with manualUpdate := true } }
  | ["update", "auto"] => some d
  | ["ttl", "0"] => some { d with cfg := { d.cfg with ttl0 := true } }
  | ["provttl", "0"] => some { d with cfg := { d.cfg with provTtl0 := true } }
  | ["refresh", v] => (natOpt v 1 100000).map fun n => { d with cfg := { d.cfg with refresh := n * 1000 } }
  | ["maxmsg", v] => (natOpt v 256 (2 ^ 62)).map fun n => { d with maxmsg := n }
  | ["maxrec", v] => v.toNat?.map fun n => { d with cfg := { d.cfg with maxRecords := n } }
  | ["maxsize", v] => v.toNat?.map fun n => { d with cfg := { d.cfg with maxRecordSize := n } }
  | ["known", v] =>
    (peers? v).map fun ps =>
      { d with sv := (ps.filter (· ≥ 1)).foldl (fun sv p => Kad.Serve.addKnown sv p (kinds.getD (p - 1) 'n' != 'n')) d.sv }
  | ["proto", "2"] => some d
  | ["default", "1"] => some d
  | _ => none

/-! ### the executor box (`x` operations) -/

open Kad.Executor in
def execResStr : Kad.Executor.Res → String
  | .sendOk => "sendok" | .assumeOk => "assumeok" | .sendFailTimeout => "sendfail.timeout"
  | .sendFailClosed => "sendfail.closed" | .readOk => "readok" | .readFailTimeout => "readfail.timeout"
  | .readFailClosed => "readfail.closed"

def deliveredStr (ds : List (Nat × Kad.Executor.Res × Bool × Nat)) : List String :=
  (sortBy (fun a b => a.1 < b.1) ds).map fun x =>
    "res:" ++ toString x.1 ++ ":" ++ execResStr x.2.1 ++ ":" ++ (if x.2.2.1 then "1" else "0") ++ "@" ++ toString x.2.2.2

def execLimit : Nat := 200

def execEv? (a : String) : Option (Nat × Kad.Executor.Ev) :=
  match a.splitOn "@" with
  | [name, time] =>
    match natOpt time 0 execLimit with
    | none => none
    | some t =>
      if name = "w" then some (t, .writable) else if name = "reset" then some (t, .reset)
      else if name = "msg" then some (t, .msg) else if name = "eof" then some (t, .eof)
      else if name = "junk" then some (t, .junk) else none
  | _ => none

def execKind? : String → Option Kad.Executor.Kind
  | "send" => some .send | "sendeat" => some .sendEat | "read" => some .read
  | "reqresp" => some .reqResp | "reqeat" => some .reqEat | _ => none

def outLine (toks : List String) : String := if toks.isEmpty then "ok" else "ok " ++ joinWith " " toks

def execStep (d : DState) (ts : List String) : DState × String :=
  let w := Consts.KAD_WRITE_TIMEOUT_SECS
  let r := Consts.KAD_READ_TIMEOUT_SECS
  match ts with
  | "sub" :: id :: kind :: rest =>
    let args := rest.filter (· != "big")
    let evs := args.map execEv?
    match natOpt id 0 execLimit, execKind? kind with
    | some fid, some kind =>
      if evs.any (·.isNone) ∨ (d.pool.submitted.map (·.1)).contains fid then (d, "bad-op")
      else
        let before := d.pool.delivered.length
        let pool := d.pool.submit w r fid kind (rest.contains "big") (evs.filterMap (fun e => e))
        ({ d with pool := pool, execMode := true }, outLine (deliveredStr (pool.delivered.drop before)))
    | _, _ => (d, "bad-op")
  | ["tick", n] =>
    match natOpt n 0 execLimit with
    | none => (d, "bad-op")
    | some n =>
      let r := (List.range n).foldl (fun (acc : Kad.Executor.Pool × List String) _ =>
        let before := acc.1.delivered.length
        let p := acc.1.tick r
        (p, acc.2 ++ deliveredStr (p.delivered.drop before))) (d.pool, [])
      ({ d with pool := r.1, execMode := true }, outLine r.2)
  | _ => (d, "bad-op")

/-! ### `t` box: the coordinator with dictated keys (routing-table wiring, `Model/Kad/TableWiring.lean`) -/

def tK : Nat := Consts.KBUCKET_CAPACITY
def tNB : Nat := Consts.NUM_BUCKETS

def tConnChar (s : Kad.Bucket.Slot) : String := C14.connChar s.conn

/-- `p=bucket.slot.conn` or `p=-`. -/
def tEntry (t : Kad.Table.Table) (p : Nat) : String :=
  let hits := (t.buckets.zipIdx).filterMap fun (b, bi) =>
    ((b.zipIdx).find? (fun (s, _) => match s with | .real q => q.peer == p | _ => false)).map fun (s, si) =>
      toString p ++ "=" ++ toString bi ++ "." ++ toString si ++ "." ++ tConnChar s
  hits.headD (toString p ++ "=-")

def tStep (d : DState) (ts : List String) : DState × String :=
  let small := fun (s : String) => s.toNat?.bind fun n => if n ≤ 4 then some n else none
  match ts, d.tb with
  | ["new", key], none =>
    match C14.key? key with
    | some k => ({ d with tb := some ({ table := Kad.Table.Table.new tNB k }, [], []) }, "ok")
    | none => (d, "bad-op")
  | ["new", _], some _ => (d, "bad-op")
  | _, none => (d, "bad-op")
  | ts, some (w, keys, conns) =>
    let known := fun (s : String) => s.toNat?.bind fun p =>
      if 1 ≤ p ∧ p ≤ 200 then (keys.find? (fun x => x.1 == p)).map (fun x => (p, x.2)) else none
    let ev := fun (e : Kad.Wiring.Ev) (key : Nat) (conns : List Nat) =>
      let w' := Kad.Wiring.wstep tK w e
      ({ d with tb := some (w', keys, conns) }, C14.showSelected w'.table key)
    match ts with
    | ["peer", p, key] =>
      match p.toNat?, C14.key? key with
      | some p, some k =>
        if 1 ≤ p ∧ p ≤ 200 ∧ !(keys.any (fun x => x.1 == p)) then ({ d with tb := some (w, keys ++ [(p, k)], conns) }, "ok")
        else (d, "bad-op")
      | _, _ => (d, "bad-op")
    | ["add", p, n] =>
      match known p, small n with
      | some (p, k), some n => ev (.addKnown p k n) k conns
      | _, _ => (d, "bad-op")
    | ["est", p, dl] =>
      match known p, (if dl = "1" then some true else if dl = "0" then some false else none) with
      | some (p, k), some dl => if conns.contains p then (d, "noop") else ev (.established p k dl false) k (conns ++ [p])
      | _, _ => (d, "bad-op")
    | ["closed", p] =>
      match known p with
      | some (p, k) => if !conns.contains p then (d, "noop") else ev (.closed p k) k (conns.filter (· != p))
      | none => (d, "bad-op")
    | ["dialfail", p, n] =>
      match known p, small n with
      | some (p, k), some n => ev (.dialFailure p k n) k conns
      | _, _ => (d, "bad-op")
    | ["inbound", p] =>
      match known p with
      | some (p, k) => if !conns.contains p then (d, "noop") else ev (.inbound p) k conns
      | none => (d, "bad-op")
    | "table" :: ps =>
      let ks := ps.map known
      if ps.isEmpty ∨ ks.any (·.isNone) then (d, "bad-op") else
      let items := (ks.filterMap id).map fun (p, _) => tEntry w.table p
      (d, joinWith " " (items ++ ["P[" ++ natList (sortBy (· < ·) w.peers) ++ "]"]))
    | ["dump"] =>
      let idx := (List.range w.table.buckets.length).filter (fun i => !(w.table.buckets.getD i []).isEmpty)
      (d, if idx.isEmpty then "-" else joinWith ";" (idx.map (C14.showBucket w.table)))
    | _ => (d, "bad-op")

def step (d : DState) (line : String) : DState × String :=
  let (op, obs) := match line.splitOn " -> " with
    | [] => ("", "")
    | [a] => (a, "")
    | a :: rest => (a, joinWith " -> " rest)
  let ts := tokens op
  match ts with
  | "s2" :: rest => (d, s2Step rest obs)
  | "t" :: rest => if d.ready ∨ d.execMode then (d, "bad-op") else tStep d rest
  | "x" :: rest => if d.ready ∨ d.tb.isSome then (d, "bad-op") else execStep d rest
  | "net" :: ks =>
    let kinds := (ks.filter (fun k => !k.contains '=')).map (fun k => k.toList.headD 'x')
    let opts := ks.filter (fun k => k.contains '=')
    let d1 := opts.foldl (fun (acc : Option DState) o => acc.bind (fun d => applyOpt d kinds o)) (some d)
    let defaultOk := !opts.contains "default=1" || opts.length == 1
    match d1 with
    | some d1 =>
      if d.ready ∨ d.execMode ∨ d.tb.isSome ∨ kinds.isEmpty ∨ kinds.length > maxPeer ∨
          kinds.any (fun k => !(k == 'g' || k == 'b' || k == 'n')) ∨ !defaultOk
      then (d, "bad-op") else ({ d1 with ready := true, kinds := kinds }, "ok")
    | none => (d, "bad-op")
  | ["hold"] => if !d.ready then (d, "bad-op") else ({ d with held := true }, "ok")
  | "release" :: rest =>
    if !d.ready ∨ !d.held then (d, "bad-op") else
    let prims : Option (List (List String)) := match rest with
      | [] => some [["events"]]
      | "burst" :: n :: op =>
        match n.toNat? with
        | some n => if n < 1 ∨ n > 6000 ∨ op.isEmpty then none else some (List.replicate n op)
        | none => none
      | _ => some [rest]
    match prims.bind (fun ps => runPrims d ps obs false) with
    | some r => r
    | none => (d, "bad-op")
  | "burst" :: n :: rest =>
    if !d.ready then (d, "bad-op") else
    match n.toNat? with
    | some n =>
      if n < 1 ∨ n > 6000 ∨ rest.isEmpty then (d, "bad-op") else
      match runPrims d (List.replicate n rest) obs d.held with
      | some r => r
      | none => (d, "bad-op")
    | none => (d, "bad-op")
  | ["settle"] =>
    if !d.ready then (d, "bad-op") else
    let d := { d with held := false }
    -- the sub-operations the adapter performed are replayed one by one
    let parts := (obs.splitOn " | ").drop 1
    let r := parts.foldl (fun (acc : DState × List String) part =>
      match part.splitOn " -> " with
      | sub :: rest =>
        if rest.isEmpty then acc
        else match runPrimitive acc.1 (tokens sub) (joinWith " -> " rest) with
          | some (d', o) => (d', acc.2 ++ [sub.trimAscii.toString ++ " -> " ++ o])
          | none => (acc.1, acc.2 ++ [sub.trimAscii.toString ++ " -> bad-op"])
      | [] => acc) (d, [])
    let quiet := r.1.m.dialing.isEmpty && r.1.m.opening.isEmpty && r.1.m.futs.isEmpty && r.1.inReads.isEmpty &&
      r.1.inSends.isEmpty
    (r.1, ledgerStr r.1 ++ " | " ++ joinWith " | " r.2 ++ (if quiet then "" else " !not-settled:dialing=" ++ natList r.1.m.dialing ++ ":opening=" ++
      natList (r.1.m.opening.map (·.1)) ++ ":futs=" ++ natList (r.1.m.futs.map (·.peer))))
  | _ =>
    if !d.ready then (d, "bad-op") else
    match runPrimitive d ts obs with
    | some r => r
    | none => (d, "bad-op")

end Litep2pVerif.Driver.C16
