import Litep2pVerif.Common.Parse
import Litep2pVerif.Model.Noise.XX
import Litep2pVerif.Model.Tcp.Poll
/-! Line-protocol driver for the C01 models (same protocol as /repo/src/verif/c01.rs).

* `pv <payload> <static> vk=<key32> vs=<sig> [h=<sha256 of the key encoding>] vp=<0|1> vf=<0|1>`: checker mode —
  `vp`/`vf` are what the implementation's ed25519 primitives answered for the key bytes `vk` and the triple
  `(vk, domain ++ static, vs)`; `Identity.parseAndVerify` runs with exactly that table as `Crypto`.
* `hs …` / `rg …`: the symbolic XX model over the free instances; identity keys are their indices. -/
namespace Litep2pVerif.Driver.C01
open Litep2pVerif Litep2pVerif.Noise.Identity Litep2pVerif.Noise.XX Litep2pVerif.Id Parse

abbrev State := Unit
def init : State := ()

def KEYS : Nat := 16

def hexArg? (s : String) : Option Bytes := if s = "-" then some [] else hexBytes? s

def tableCrypto (vk msg vs : Bytes) (vp vf : Bool) (h : List UInt8) : Crypto where
  validPoint := fun k => decide (k = vk) && vp
  verify := fun k m s => decide (k = vk ∧ m = msg ∧ s = vs) && vf
  sha256 := fun _ => h
  pubOf := fun _ => []
  sign := fun _ _ => []

def errClass (pv : Bool) : NegErr → String
  | .parse => "parse"
  | .peerIdMissing => "peer-id-missing"
  | .keyDecode => if pv then "key-decode" else "parse"
  | .unknownKeyType => "key-type"
  | .invalidKey => "key-invalid"
  | .badSignature => "bad-signature"
  | .panic m => "panic " ++ m
  | .snow => "snow"
  | .io => "io"
  | .timeout => "timeout"
  | .peerIdMismatch => "peer-id-mismatch"

def flag (ts : List String) (k : String) : Bool := arg? k ts = some "1"

def pv (ts : List String) : String :=
  match ts with
  | payload :: rs :: rest =>
    match hexArg? payload, hexArg? rs, hexArg? ((arg? "vk" rest).getD "-"), hexArg? ((arg? "vs" rest).getD "-") with
    | some payload, some rs, some vk, some vs =>
      let vp := flag rest "vp"
      let vf := flag rest "vf"
      let h := (((arg? "h" rest).bind hexBytes?).getD []).map UInt8.ofNat
      let c := tableCrypto vk (STATIC_KEY_DOMAIN ++ rs) vs vp vf h
      let res := match parseAndVerify c payload rs with
        | .ok p => "ok " ++ bytesHex (p.toBytes.map (·.toNat))
        | .error (.panic m) => "panic " ++ m
        | .error e => "err " ++ errClass true e
      res ++ " vp=" ++ (if vp then "1" else "0") ++ " vf=" ++ (if vf then "1" else "0")
    | _, _, _, _ => "bad-op"
  | _ => "bad-op"

/-! ### symbolic part -/

def E : Env := freeEnv

def idx? (ts : List String) (k : String) : Option Nat :=
  ((arg? k ts).bind String.toNat?).bind fun i => if i < KEYS then some i else none

def parseAct (s : String) : Option Act :=
  match s.splitOn ":" with
  | ["pass"] => some .pass
  | ["flip", o, m] =>
    match o.toNat?, m.toNat? with
    | some o, some m => if m = 0 ∨ m > 255 then none else some (.flip o m)
    | _, _ => none
  | ["trunc", k] => k.toNat?.map .trunc
  | ["ext", k] => k.toNat?.bind fun k => if k = 0 ∨ k > 64 then none else some (.ext k)
  | ["cut", k] => k.toNat?.map .cut
  | ["drop"] => some .drop
  | ["swap"] => some .swap
  | ["from2"] => some .from2
  | _ => none

/-- `some none`: absent; `none`: malformed. -/
def actArg (ts : List String) (k : String) : Option Act :=
  match arg? k ts with
  | none => some .pass
  | some s => parseAct s

/-- `<k>`: the id of key k as `to_peer_id()` derives it; `h<k>`: its SHA2-256 form. -/
def expArg? (s : String) : Option (IdForm × Nat) :=
  match s.toList with
  | 'h' :: rest => ((String.ofList rest).toNat?).filter (· < KEYS) |>.map fun i => (IdForm.sha256, i)
  | _ => (s.toNat?).filter (· < KEYS) |>.map fun i => (IdForm.derived, i)

def peerName (p : PeerId) : String :=
  match (List.range KEYS).find? (fun i => match peerIdOfEncoding E.c (keyEncoding (freePub i)) with
      | .ok q => decide (q = p)
      | .error _ => false) with
  | some i => "k" ++ toString i
  | none => bytesHex (p.toBytes.map (·.toNat))

/-- Owner of a static key: `owners` maps static DH secrets to names. -/
def ownerName (owners : List (Nat × String)) (rs : Bytes) : String :=
  match freeDhSec rs with
  | some a => match owners.lookup a with
    | some n => n
    | none => "?"
  | none => "?"

def showRes (owners : List (Nat × String)) : Res → String
  | .ok p rs => "ok:" ++ peerName p ++ "@" ++ ownerName owners rs
  | .err e => "err:" ++ errClass false e
  | .waiting => "waiting"
  | .eofed => "eofed"

def hs (ts : List String) : String :=
  match idx? ts "d", idx? ts "l" with
  | some d, some l =>
    let second : Option (Option (Nat × Nat)) :=
      match arg? "d2" ts, arg? "l2" ts with
      | none, none => some none
      | _, _ => match idx? ts "d2", idx? ts "l2" with
        | some a, some b => some (some (a, b))
        | _, _ => none
    let eof : Option Bool := match arg? "eof" ts with
      | none => some false
      | some "0" => some false
      | some "1" => some true
      | _ => none
    let chOk := match arg? "ch" ts with
      | none => true
      | some s => match s.toNat? with
        | some n => decide (n < 2 ^ 64)
        | none => false
    match second, actArg ts "m1", actArg ts "m2", actArg ts "m3", eof, chOk with
    | some second, some a1, some a2, some a3, some eof, true =>
      let D : Party := ⟨d, 1, 2⟩
      let L : Party := ⟨l, 3, 4⟩
      let needs := [a1, a2, a3].any (fun a => a = .swap ∨ a = .from2)
      match second with
      | none =>
        if needs then "bad-op" else
        let owners := [(2, "k" ++ toString d), (4, "k" ++ toString l)]
        let r := resolve eof (run1 E D L (scripted eof a1 a2 a3))
        "D=" ++ showRes owners r.1 ++ " L=" ++ showRes owners r.2
      | some (d2, l2) =>
        let D' : Party := ⟨d2, 11, 12⟩
        let L' : Party := ⟨l2, 13, 14⟩
        let owners := [(2, "k" ++ toString d), (4, "k" ++ toString l), (12, "k" ++ toString d2), (14, "k" ++ toString l2)]
        let r := run2 E D L D' L' (scripted2 eof a1 a2 a3)
        let r0 := resolve eof r.1
        let r1 := resolve eof r.2
        "D=" ++ showRes owners r0.1 ++ " L=" ++ showRes owners r0.2 ++
          " D2=" ++ showRes owners r1.1 ++ " L2=" ++ showRes owners r1.2
    | _, _, _, _, _, _ => "bad-op"
  | _, _ => "bad-op"

/-- `k<i>` / `bt<i>` / `none` -/
def parsePk (s : String) : Option (Option (Nat × Nat)) :=
  let num (t : String) : Option Nat := t.toNat?.bind fun i => if i < KEYS then some i else none
  if s = "none" then some none
  else if s.startsWith "bt" then (num (s.drop 2).toString).map fun i => some (i, 2)
  else if s.startsWith "k" then (num (s.drop 1).toString).map fun i => some (i, 1)
  else none

inductive ForgeSig where
  | none | empty | own (i : Nat) | zero (i : Nat) | relay (i : Nat)

def parseSig (s : String) : Option ForgeSig :=
  let num (t : String) : Option Nat := t.toNat?.bind fun i => if i < KEYS then some i else none
  if s = "none" then some .none
  else if s = "empty" then some .empty
  else if s.startsWith "own" then (num (s.drop 3).toString).map .own
  else if s.startsWith "zero" then (num (s.drop 4).toString).map .zero
  else if s.startsWith "relay" then (num (s.drop 5).toString).map .relay
  else none

def pbBytes (tag : Nat) (b : Bytes) : Bytes := Wire.writeKey tag 2 ++ Wire.writeVarint b.length ++ b

def forgePayload (pk : Option (Nat × Nat)) (sig : ForgeSig) (ownStatic : Bytes) : Bytes :=
  match sig with
  | .relay x => honestPayload E.c x (freeDhPub 77)
  | _ =>
    let k := match pk with
      | some (i, ty) => pbBytes 1 ([0x08, ty, 0x12, 0x20] ++ freePub i)
      | none => []
    let s := match sig with
      | .none => []
      | .relay _ => []
      | .empty => pbBytes 2 []
      | .own i => pbBytes 2 (freeSign i (STATIC_KEY_DOMAIN ++ ownStatic))
      | .zero i => pbBytes 2 (freeSign i (STATIC_KEY_DOMAIN ++ List.replicate 32 0))
    k ++ s

def rg (ts : List String) : String :=
  match idx? ts "v", idx? ts "r", arg? "role" ts, parsePk ((arg? "pk" ts).getD ""), parseSig ((arg? "sig" ts).getD "") with
  | some v, some r, some role, some pk, some sig =>
    let R : Party := ⟨r, 91, 92⟩
    let forged := forgePayload pk sig (freeDhPub 92)
    let owners := [(92, "r"), (2, "k" ++ toString v), (4, "k" ++ toString v)]
    if role = "dialer" then
      -- the victim listens
      let res := resolve false (run1 E ⟨0, 1, 2⟩ ⟨v, 3, 4⟩ (rogueDialer E R forged))
      "V=" ++ showRes owners res.2 ++ " R=done"
    else if role = "listener" then
      let res := resolve false (run1 E ⟨v, 1, 2⟩ ⟨0, 3, 4⟩ (rogueListener E R forged))
      "V=" ++ showRes owners res.1 ++ " R=done"
    else "bad-op"
  | _, _, _, _, _ => "bad-op"

/-- `negotiate_connection` on both sides: handshake (message 3 possibly flipped at stream offset `flip`, i.e. body
offset `flip - 62` of the framed message), dialed-peer test, `/yamux` negotiation (`negotiateConn`). -/
def nc (ts : List String) : String :=
  match idx? ts "d", idx? ts "l", arg? "dialed" ts with
  | some d, some l, some dl =>
    let dialed : Option (Option (IdForm × Nat)) := if dl = "none" then some none else (expArg? dl).map some
    let flip : Option (Option Nat) := match arg? "flip" ts with
      | none => some none
      | some s => match s.toNat? with
        | some o => if 64 ≤ o ∧ o < 232 then some (some o) else none
        | none => none
    match dialed, flip with
    | some dialed, some flip =>
      let a3 : Act := match flip with
        | none => .pass
        | some o => .flip (o - 62) 1
      let r := resolve false (run1 E ⟨d, 1, 2⟩ ⟨l, 3, 4⟩ (scripted false .pass .pass a3))
      let dialedId : Option PeerId := dialed.bind fun (f, i) => expectedIdOf E.c f (keyEncoding (freePub i))
      let conn := negotiateConn dialedId r
      let dres := match r.1 with
        | .ok P _ => if conn.1 then "ok:" ++ peerName P
          else (match negotiateCheck dialedId P with
            | .error _ => "err:peer-id-mismatch"
            | .ok _ => "err:mss")
        | other => showRes [] other
      let lres := match r.2 with
        | .ok Q _ => if conn.2 then "ok:" ++ peerName Q else "err:mss"
        | other => showRes [] other
      "D=" ++ dres ++ " L=" ++ lres
    | _, _ => "bad-op"
  | _, _, _ => "bad-op"

/-- The dialed-peer expectation through `TcpTransport::open` / `dial`: an honest handshake between identity keys `d`
and `l`, the dialer having been handed `/<host>/tcp/<port>[/p2p/<exp>]`. `env=<word>`: checker mode for facts about
the sandbox (`unresolved`, `unavailable`, `stalled`): the model has no opinion. -/
def tp (ts : List String) : String :=
  match arg? "env" ts with
  | some w => "D=" ++ w
  | none =>
  let host : Option Host := match arg? "host" ts with
    | some "ip4" => some .ip4 | some "ip6" => some .ip6 | some "dns" => some .dns
    | some "dns4" => some .dns4 | some "dns6" => some .dns6 | _ => none
  let via : Option Entry := match arg? "via" ts with
    | some "open" => some .open | some "dial" => some .dial | _ => none
  match idx? ts "d", idx? ts "l", arg? "exp" ts, host, via with
  | some d, some l, some ex, some host, some via =>
    let expected : Option (Option (IdForm × Nat)) := if ex = "none" then some none else (expArg? ex).map some
    match expected with
    | none => "bad-op"
    | some expected =>
      let r := resolve false (run1 E ⟨d, 1, 2⟩ ⟨l, 3, 4⟩ (scripted false .pass .pass .pass))
      let suffix : DialedAddr := match expected with
        | none => []
        | some (f, i) => match expectedIdOf E.c f (keyEncoding (freePub i)) with
          | some p => [.p2p p]
          | none => [.other]
      let addr : DialedAddr := [.host host, .tcp] ++ suffix
      let okWord := match via with | .open => "opened:" | .dial => "established:"
      let errWord := match via with | .open => "openfail:" | .dial => "dialfail:"
      match r.1 with
      | .ok P _ =>
        (match transportCheck via addr P with
         | .ok Q => "D=" ++ okWord ++ peerName Q ++ " ep=" ++ (match endpointAddress via addr with
            | some [.host .ip4, .tcp] => "ip4" | some [.host .ip6, .tcp] => "ip6" | some [.host .dns, .tcp] => "dns"
            | some [.host .dns4, .tcp] => "dns4" | some [.host .dns6, .tcp] => "dns6" | _ => "other")
         | .error e => "D=" ++ errWord ++ errClass false e)
      | other => "D=" ++ errWord ++ showRes [] other
  | _, _, _, _, _ => "bad-op"

/-! ### `pn`: `impl Stream for TcpTransport` under an executor (Model/Tcp/Poll.lean) -/

open Litep2pVerif.Tcp.Poll in
/-- One scripted item `k`: what it adds to the queues and maps. -/
def pnItem (t : Tcp.Poll.T) (k : Nat) : String → Option Tcp.Poll.T
  | "ci" => some { t with conns := t.conns ++ [.err k] }
  | "cf" => some { t with conns := t.conns ++ [.err k], dials := insertId t.dials k }
  | "cs" => some { t with conns := t.conns ++ [.ok k], dials := insertId t.dials k }
  | "cn" => some { t with conns := t.conns ++ [.ok k] }
  | "rf" => some { t with raw := t.raw ++ [.failed k], handles := t.handles ++ [(k, false)] }
  | "rx" => some { t with raw := t.raw ++ [.failed k], handles := t.handles ++ [(k, true)] }
  | "rh" => some { t with raw := t.raw ++ [.failed k] }
  | "rc" => some { t with raw := t.raw ++ [.canceled k], handles := t.handles ++ [(k, true)] }
  | "ro" => some { t with raw := t.raw ++ [.connected k], handles := t.handles ++ [(k, false)] }
  | "rA" => some { t with raw := t.raw ++ [.connected k], handles := t.handles ++ [(k, true)] }
  | "rO" => some { t with raw := t.raw ++ [.connected k] }
  | _ => none

open Litep2pVerif.Tcp.Poll in
def pnBuild : List String → Nat → Tcp.Poll.T → Option Tcp.Poll.T
  | [], _, t => some t
  | i :: rest, k, t => (pnItem t k i).bind (pnBuild rest (k + 1))

open Litep2pVerif.Tcp.Poll in
def pnEv : Ev → Option String
  | .pendingInbound _ => none
  | .opened k => some s!"CO{k}"
  | .openFailure k => some s!"OF{k}"
  | .established k => some s!"CE{k}"
  | .dialFailure k => some s!"DF{k}"

def pnKeys (n : Nat) (l : List Nat) : String :=
  joinWith "+" (((List.range n).filter (· ∈ l)).map toString)

open Litep2pVerif.Tcp.Poll in
def pn (ts : List String) : String :=
  let small := fun (k : String) (max : Nat) => match arg? k ts with
    | none => some 0
    | some s => (s.toNat?).filter (· ≤ max)
  let items : List String := match arg? "q" ts with
    | none => []
    | some "-" => []
    | some q => q.splitOn ","
  if ts.any (fun a => !(a.toList.contains '=')) || items.length > 12 then "bad-op" else
  match small "in" 4, small "acc" 1, small "neg" 1, pnBuild items 0 ({ nextId := 1000 } : Tcp.Poll.T) with
  | some inb, some _, some neg, some t0 =>
    let n := items.length
    let t0 := { t0 with accepted := inb }
    let (ev1, t1) := drain (size t0 + 1) t0
    -- every `PendingInboundConnection` is answered (`accept_pending` / `reject_pending`): the entry is consumed once
    let inbound := ev1.filterMap fun | .pendingInbound id => some id | _ => none
    let (answered, t1) := inbound.foldl (fun (acc : Nat × Tcp.Poll.T) id =>
      let r := rejectPending acc.2 id
      let again := rejectPending r.2 id
      (if r.1 && !again.1 then acc.1 + 1 else acc.1, again.2)) (0, t1)
    let (negs, ev2, t2) :=
      if neg = 1 then
        let ids := (List.range n).filter (· ∈ t1.opened)
        let (words, t) := ids.foldl (fun (acc : List String × Tcp.Poll.T) id =>
          let r := negotiate acc.2 id
          let again := negotiate r.2 id
          (acc.1 ++ [s!"neg{id}:" ++ (if r.1 && !again.1 then "ok" else "bad")], again.2)) ([], t1)
        let (ev2, t2) := drain (size t + 1) t
        (words, ev2, t2)
      else ([], [], t1)
    let held := (List.range n).filter (· ∈ t2.pendingOpen)
    let verdicts := (held.foldl (fun (acc : Nat × Tcp.Poll.T) id =>
      let r := reject acc.2 id
      let again := reject r.2 id
      (if r.1 && !again.1 then acc.1 + 1 else acc.1, again.2)) (0, t2)).1
    "ev=[" ++ joinWith "," (ev1.filterMap pnEv ++ negs ++ ev2.filterMap pnEv) ++ s!"] in={inbound.length}:{answered}" ++
      " dials=[" ++ pnKeys n t2.dials ++ "] handles=[" ++ pnKeys n (t2.handles.map (·.1)) ++
      "] opened=[" ++ pnKeys n t2.opened ++ "] popen=[" ++ pnKeys n t2.pendingOpen ++ s!"] rej={verdicts} lost={size t2}"
  | _, _, _, _ => "bad-op"

open Litep2pVerif.Tcp.Poll in
/-- `dl a=<s|r|k>* t=<ms> [cancel=<ms>]`: `TcpTransport::open` against addresses that stall / refuse / answer, polled by
an executor (`Model/Tcp/Poll.lean`: `afterOpen`, `drain`). -/
def dl (ts : List String) : String :=
  if ts.any (fun a => !(a.toList.contains '=')) then "bad-op" else
  match arg? "env" ts with
  | some w => "D=env:" ++ w
  | none =>
  let kinds : Option (List AddrKind) := (arg? "a" ts).bind fun s =>
    s.toList.mapM fun | 's' => some AddrKind.stall | 'r' => some .refuse | 'k' => some .answer | _ => none
  let t := ((arg? "t" ts).bind String.toNat?).filter fun t => 100 ≤ t ∧ t ≤ 1000
  let cancel : Option (Option Nat) := match arg? "cancel" ts with
    | none => some none
    | some s => ((s.toNat?).filter (· ≤ 1000)).map some
  match kinds, t, cancel with
  | some kinds, some t, some cancel =>
    if kinds.isEmpty || kinds.length > 4 then "bad-op" else
    let t0 := afterOpen 7 t Consts.DIAL_DEADLINE_MULTIPLIER kinds cancel
    let (ev, t1) := drain (size t0 + 1) t0
    let word := match ev with
      | [] => "silent"
      | [.openFailure 7] => "openfail"
      | [.opened 7] => "opened"
      | _ => "other"
    s!"D={word} handles={t1.handles.length} lost={size t1}"
  | _, _, _ => "bad-op"

def step (st : State) (line : String) : State × String :=
  match tokens line with
  | "pv" :: rest => (st, pv rest)
  | "hs" :: rest => (st, hs rest)
  | "rg" :: rest => (st, rg rest)
  | "nc" :: rest => (st, nc rest)
  | "tp" :: rest => (st, tp rest)
  | "pn" :: rest => (st, pn rest)
  | "dl" :: rest => (st, dl rest)
  | _ => (st, "bad-op")

end Litep2pVerif.Driver.C01
