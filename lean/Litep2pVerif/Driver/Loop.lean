/-! Generic read-eval-print loop of the model driver. -/
namespace Litep2pVerif.Driver

/-- Feed stdin lines to `step`; `case` resets the state; after a `panic…` answer the rest of the
case is answered `skipped` (the real component is poisoned at that point, see harness/src/main.rs). -/
partial def loop {σ : Type} (init : σ) (step : σ → String → σ × String)
    (h : IO.FS.Stream) (out : IO.FS.Stream) (st : σ) (poisoned : Bool) : IO Unit := do
  let line ← h.getLine
  if line.isEmpty then return ()
  let t := line.trimAscii.toString
  if t.isEmpty || t.startsWith "#" then
    loop init step h out st poisoned
  else if t = "case" || t.startsWith "case " then
    out.putStrLn "case"
    loop init step h out init false
  else if poisoned then
    out.putStrLn "skipped"
    loop init step h out st true
  else
    let (st', o) := step st t
    out.putStrLn o
    loop init step h out st' (o.startsWith "panic")

end Litep2pVerif.Driver
