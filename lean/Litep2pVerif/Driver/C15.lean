import Litep2pVerif.Common.Parse
import Litep2pVerif.Model.Kad.QueryEngine
/-! Line-protocol driver for the `QueryEngine` model (C15). Checker mode for `next`: the line
carries the implementation's observation after `->`; its `order=` field (the order in which the
real hash map was about to be iterated) is the nondeterministic choice, everything else is computed
by the model and printed in the implementation's format. -/
namespace Litep2pVerif.Driver.C15
open Litep2pVerif Litep2pVerif.Kad.Query Parse

abbrev State := Engine

def init : State := { localPeer := 0, repl := 20, par := 3, peerTimeout := 10 }

def splitComma (s : String) : List String := if s.isEmpty then [] else s.splitOn ","

def allSome {α : Type} : List (Option α) → Option (List α)
  | [] => some []
  | none :: _ => none
  | some x :: xs => (allSome xs).map (x :: ·)

/-- `p:dist,p:dist` -/
def kpeers? (s : Option String) : Option (List KPeer) :=
  match s with
  | none => some []
  | some s => allSome ((splitComma s).map fun item =>
      match item.splitOn ":" with
      | [p, d] => if d.isEmpty then none else
          match p.toNat?, hexNat? d with
          | some p, some d => some ⟨p, d⟩
          | _, _ => none
      | _ => none)

def nums? (s : Option String) : Option (List Nat) :=
  match s with
  | none => some []
  | some s => allSome ((splitComma s).map (·.toNat?))

/-- `p:dist:a+a,…` -/
def provs? (s : Option String) : Option (List Prov) :=
  match s with
  | none => some []
  | some s => allSome ((splitComma s).map fun item =>
      match item.splitOn ":" with
      | [p, d, a] => if d.isEmpty then none else
          match p.toNat?, hexNat? d,
            allSome ((if a.isEmpty then [] else a.splitOn "+").map (·.toNat?)) with
          | some p, some d, some a => some ⟨p, d, a⟩
          | _, _, _ => none
      | _ => none)

def quorum? (s : Option String) : Option Quorum :=
  match s with
  | none => some .all
  | some "all" => some .all
  | some "one" => some .one
  | some n => match n.toNat? with
    | some 0 => none
    | some k => some (.n k)
    | none => none

def showQuorum : Quorum → String
  | .all => "all"
  | .one => "one"
  | .n k => toString k

def showNums (l : List Nat) : String := joinWith "," (l.map toString)

def showPeers (l : List KPeer) : String := showNums (l.map (·.peer))

def sortNums (l : List Nat) : List Nat := l.foldl (fun acc a => addrInsert a acc) []

def showProvs (ps : List Prov) : String :=
  joinWith "," (ps.map fun p => toString p.peer ++ ":" ++ joinWith "+" ((sortNums p.addrs).map toString))

def showQAction : Option QAction → String
  | none => "none"
  | some (.send q p) => s!"send q={q} peer={p}"
  | some (.succeeded q) => s!"ctx-succeeded q={q}"
  | some (.failed q) => s!"failed q={q}"
  | some (.partialRecord q p v) => s!"partial q={q} peer={p} rec={v}"

def showOutcome : Outcome → String
  | .none => "none"
  | .bug => "panic query to exist"
  | .act (.send q p) => s!"send q={q} peer={p}"
  | .act (.findNodeSucceeded q ps) => s!"found q={q} peers={showPeers ps}"
  | .act (.putRecordToFoundNodes q r ps qu) => s!"putto q={q} rec={r} peers={showPeers ps} quorum={showQuorum qu}"
  | .act (.putRecordSucceeded q k) => s!"putdone q={q} key={k}"
  | .act (.addProviderToFoundNodes q k p ps qu) =>
    s!"addto q={q} key={k} prov={p} peers={showPeers ps} quorum={showQuorum qu}"
  | .act (.addProviderSucceeded q k) => s!"adddone q={q} key={k}"
  | .act (.getRecordDone q) => s!"getdone q={q}"
  | .act (.partialRecord q p v) => s!"partial q={q} peer={p} rec={v}"
  | .act (.getProvidersDone q ps) => s!"provsdone q={q} provs={showProvs ps}"
  | .act (.failed q) => s!"failed q={q}"

def dumpFind (c : FindNode) : String :=
  s!"fn pending={showNums (sortNums (pendPeers c.pending))} queried={showNums (sortNums c.queried)} " ++
  s!"cands={showPeers (dvalues c.candidates)} resp={showPeers (dvalues c.responses)} " ++
  s!"ctr={c.pendingResponses} to={showNums (sortNums c.timedOut)}"

def dump (e : Engine) (q : Nat) : String :=
  match qLookup q e.queries with
  | none => "absent"
  | some (.findNode c) => dumpFind c
  | some (.putRecord _ _ c) => dumpFind c
  | some (.addProvider _ _ _ c) => dumpFind c
  | some (.putRecordToPeers _ _ c) => s!"fm peers={showPeers c.peersToReport}"
  | some (.getRecord c) =>
    s!"gr pending={showNums (sortNums (c.pending.map (·.peer)))} queried={showNums (sortNums c.queried)} " ++
    s!"cands={showPeers (dvalues c.candidates)} found={c.foundRecords} " ++
    s!"records={joinWith "," (c.records.map fun r => toString r.1 ++ ":" ++ toString r.2)}"
  | some (.getProviders c) =>
    s!"gp pending={showNums (sortNums (c.pending.map (·.peer)))} queried={showNums (sortNums c.queried)} " ++
    s!"cands={showPeers (dvalues c.candidates)} found={showProvs (c.foundProviders.map fun p => { p with addrs := addrUnion [] p.addrs })}"
  | some (.putRecordToFoundNodes c) =>
    s!"pt pending={showNums (sortNums c.pendingPeers)} ok={c.nSucceeded} need={c.peersToSucceed}"
  | some (.addProviderToFoundNodes c) =>
    s!"pt pending={showNums (sortNums c.pendingPeers)} ok={c.nSucceeded} need={c.peersToSucceed}"

def isPerm (order keys : List Nat) : Bool :=
  order.length == keys.length && keys.all (· ∈ order) && order.all (· ∈ keys)

def startOp (e : Engine) (kind : String) (a : List String) : Option Engine :=
  match (arg? "q" a).bind (·.toNat?), (arg? "t" a).bind (·.toNat?), kpeers? (arg? "cands" a),
      quorum? (arg? "quorum" a),
      (match arg? "rec" a with | none => some 0 | some r => r.toNat?.bind fun r => if r < 256 then some r else none) with
  | some q, some t, some cands, some quorum, some rec =>
    match kind with
    | "find" => some (e.startFindNode q cands)
    | "putrec" => some (e.startPutRecord q rec cands quorum)
    | "puttopeers" => some (e.startPutRecordToPeers q rec cands quorum)
    | "getrec" =>
      match arg? "local" a with
      | none => some (e.startGetRecord q cands quorum false)
      | some "0" => some (e.startGetRecord q cands quorum false)
      | some "1" => some (e.startGetRecord q cands quorum true)
      | _ => none
    | "addprov" =>
      match (arg? "prov" a).bind (·.toNat?) with
      | some p => some (e.startAddProvider q (t % 256) p cands quorum)
      | none => none
    | "getprov" =>
      match provs? (arg? "known" a) with
      | some known => some (e.startGetProviders q cands known)
      | none => none
    | "trackput" =>
      match nums? (arg? "peers" a) with
      | some ps => some (e.startPutRecordTracking q (t % 256) ps quorum)
      | none => none
    | "trackadd" =>
      match nums? (arg? "peers" a) with
      | some ps => some (e.startAddProviderTracking q (t % 256) ps quorum)
      | none => none
    | _ => none
  | _, _, _, _, _ => none

def msg? (a : List String) : Option Msg :=
  match kpeers? (arg? "peers" a), arg? "kind" a with
  | some peers, some "find" => some (.findNode peers)
  | some _, some "put" => some .putValue
  | some _, some "add" => some .addProvider
  | some peers, some "value" =>
    match arg? "rec" a with
    | none => none
    | some "none" => some (.getRecord none peers)
    | some v =>
      match v.toNat?, arg? "exp" a with
      | some v, none => if v < 256 then some (.getRecord (some (v, false)) peers) else none
      | some v, some "0" => if v < 256 then some (.getRecord (some (v, false)) peers) else none
      | some v, some "1" => if v < 256 then some (.getRecord (some (v, true)) peers) else none
      | _, _ => none
  | some peers, some "provs" =>
    match provs? (arg? "provs" a) with
    | some ps => some (.getProviders ps peers)
    | none => none
  | _, _ => none

def step (st : State) (line : String) : State × String :=
  let ts := (tokens line).filter (· ≠ "!flush")
  let (own, impl) := (ts.takeWhile (· ≠ "->"), (ts.dropWhile (· ≠ "->")).drop 1)
  match own with
  | "engine" :: a =>
    match (arg? "local" a).bind (·.toNat?), (arg? "repl" a).bind (·.toNat?),
        (arg? "par" a).bind (·.toNat?), (arg? "timeout" a).bind (·.toNat?) with
    | some l, some r, some p, some t =>
      ({ localPeer := l, repl := r, par := p, peerTimeout := min t 1000000 }, "ok")
    | _, _, _, _ => (st, "bad-op")
  | "start" :: kind :: a =>
    match startOp st kind a with
    | some e => (e, "ok")
    | none => (st, "bad-op")
  | "next" :: a =>
    match (arg? "now" a).bind (·.toNat?) with
    | none => (st, "bad-op")
    | some now =>
      let keys := st.queries.map (·.1)
      let order := match nums? (arg? "order" impl) with
        | some o => if impl.isEmpty then keys else o
        | none => keys
      if !isPerm order keys then (st, s!"mismatch bad-order active={showNums (sortNums keys)}")
      else
        let (e, out) := st.nextAction now order
        (e, s!"order={showNums order} {showOutcome out}")
  | "resp" :: a =>
    match (arg? "q" a).bind (·.toNat?), (arg? "peer" a).bind (·.toNat?), msg? a with
    | some q, some p, some m => (st.registerResponse q p m, "ok")
    | _, _, _ => (st, "bad-op")
  | op :: a =>
    if op ∈ ["fail", "sendok", "sendfail", "peerfail", "peeraction", "dump"] then
      match (arg? "q" a).bind (·.toNat?) with
      | none => (st, "bad-op")
      | some q =>
        if op = "dump" then (st, dump st q)
        else match (arg? "peer" a).bind (·.toNat?) with
          | none => (st, "bad-op")
          | some p =>
            if op = "fail" then (st.registerResponseFailure q p, "ok")
            else if op = "sendok" then (st.registerSendSuccess q p, "ok")
            else if op = "sendfail" then (st.registerSendFailure q p, "ok")
            else if op = "peerfail" then (st.registerPeerFailure q p, "ok")
            else (st, showQAction (st.nextPeerAction q p))
    else (st, "bad-op")
  | [] => (st, "bad-op")

end Litep2pVerif.Driver.C15
