import Litep2pVerif.Common.Parse
import Litep2pVerif.Generated.Consts
import Litep2pVerif.Model.Bitswap.Prefix
import Litep2pVerif.Model.Bitswap.Batch
import Litep2pVerif.Model.Bitswap.Proto
import Litep2pVerif.Model.Bitswap.Cmd
/-! Line-protocol driver for the bitswap models (C20). The codec / batching operations are
stateless; `pnew` starts a protocol-level session (`Model/Bitswap/Proto.lean`).

The hash family is instantiated here: `supported` is the code table of `multihash-codetable` with
the features `sha2`, `blake2b`, `sha3` (Cargo.toml); `digest` is the table of digests handed in with
the operation (`h=<hex>`, computed outside the model). -/
namespace Litep2pVerif.Driver.C20
open Litep2pVerif Litep2pVerif.Bitswap Parse

/-- protocol-level session: the model state and, per inbound substream, the arguments of the message
whose beginning the remote has written (`inmsg … hold=<n>`; content only — whether a frame is held is
part of the model state) -/
abbrev State := Option (Proto.St × List (Nat × List String))
def init : State := none

/-- `multihash_codetable::Code` with features sha2, blake2b, sha3. -/
def supportedCodes : List Nat :=
  [0x12, 0x13, 0x14, 0x15, 0x16, 0x17, 0x1a, 0x1b, 0x1c, 0x1d, 0xb220, 0xb240]

/-- digest table: (code, data, digest) -/
def family (table : List (Nat × Bytes × Bytes)) : HashFamily where
  supported := fun c => supportedCodes.contains c
  digest := fun c d => match table.find? (fun e => e.1 = c ∧ e.2.1 = d) with
    | some e => e.2.2
    | none => []

def hexOpt? (s : String) : Option Bytes := if s = "-" then some [] else hexBytes? s

/-- `-` | hex | `<len>,<fill>` -/
def data? (s : String) : Option Bytes :=
  match s.splitOn "," with
  | [len, fill] =>
    match len.toNat?, fill.toNat? with
    | some len, some fill =>
      if len = 0 ∨ len > 2 ^ 26 ∨ fill > 255 then none else some (List.replicate len fill)
    | _, _ => none
  | [h] => hexOpt? h
  | _ => none

def showData (d : Bytes) : String :=
  match d with
  | [] => "-"
  | f :: _ => if d.all (· = f) then toString d.length ++ "," ++ toString f else bytesHex d

def showHex (b : Bytes) : String := if b.isEmpty then "-" else bytesHex b

def u64? (s : String) : Option Nat := s.toNat?.bind fun n => if n < 2 ^ 64 then some n else none

/-- `<size>` or `<size>*<count>`, comma separated (same limits as the adapter). -/
def sizesAux : List String → Nat → Nat → Option (List (Nat × Nat))
  | [], _, _ => some []
  | item :: rest, n, total =>
    let sc : Option (Nat × Nat) := match item.splitOn "*" with
      | [a, b] => match a.toNat?, b.toNat? with
        | some a, some b => some (a, b)
        | _, _ => none
      | [a] => a.toNat?.map fun a => (a, 1)
      | _ => none
    match sc with
    | none => none
    | some (size, count) =>
      if size > 2 ^ 26 ∨ count > 2 ^ 22 ∨ n + count > 2 ^ 22 ∨ total + size * count > 2 ^ 27 then none
      else (sizesAux rest (n + count) (total + size * count)).map fun r => (size, count) :: r

def sizes? (s : String) : Option (List (Nat × Nat)) :=
  if s = "-" then some [] else sizesAux (s.splitOn ",") 0 0

def expand (runs : List (Nat × Nat)) : List Nat :=
  runs.flatMap fun r => List.replicate r.2 r.1

def rleAux : List Nat → Option (Nat × Nat) → List (Nat × Nat) → List (Nat × Nat)
  | [], none, acc => acc.reverse
  | [], some r, acc => (r :: acc).reverse
  | x :: xs, none, acc => rleAux xs (some (x, 1)) acc
  | x :: xs, some (v, c), acc => if x = v then rleAux xs (some (v, c + 1)) acc else rleAux xs (some (x, 1)) ((v, c) :: acc)

def rle (l : List Nat) : String :=
  match rleAux l none [] with
  | [] => "-"
  | rs => joinWith "+" (rs.map fun r => toString r.1 ++ "*" ++ toString r.2)

def showOptNat : Option Nat → String
  | none => "none"
  | some n => toString n

/-- `entries[2i] = presence i`, `entries[2i+1] = block i` until one kind runs out (same as the
adapter). -/
def interleave {π β : Type} : List π → List β → List (Entry π β)
  | [], bs => bs.map .block
  | ps, [] => ps.map .presence
  | p :: ps, b :: bs => .presence p :: .block b :: interleave ps bs

def showFrame : Frame (Nat × Nat) (Nat × Nat) → String
  | .blocks batch len => toString len ++ "/" ++ rle (batch.map Prod.snd)
  | .presences ps len =>
    toString len ++ "/P" ++ toString ps.length ++ ":" ++ toString (ps.filter (·.2 = 0)).length

/-- The response of the adapter's `batches` operation: `pres` presences (CID as for the blocks,
presence `i` is `Have` iff `i % 3 = 0`) interleaved with the blocks, on a substream with the
configured codec `UnsignedVarint(Some(MAX_MESSAGE_SIZE))`. -/
def batchesOp (v codec mh dlen : Nat) (sizes : List Nat) (pres : Nat) : Option String :=
  if dlen > MH_ALLOC then none else
  match cidNew v codec mh (List.replicate dlen 0xab) with
  | none => none
  | some cid =>
    let plen := cid.toPrefix.toBytes.length
    let clen := cid.toBytes.length
    let blocks := sizes.map fun s => (plen, s)
    let ps := (List.range pres).map fun i => (clen, if i % 3 = 0 then 0 else 1)
    let r := sendResponse lenPair Consts.MAX_BATCH_SIZE Consts.MAX_BATCH_BLOCKS Consts.MAX_MESSAGE_SIZE blocks
    let w := respond lenPres lenPair Consts.MAX_BATCH_SIZE Consts.MAX_BATCH_BLOCKS Consts.MAX_MESSAGE_SIZE
      Consts.MAX_MESSAGE_SIZE (interleave ps blocks)
    let plan := r.1.map fun st =>
      toString st.batch.length ++ ":" ++ toString (st.batch.map Prod.snd).sum ++ ":" ++ showOptNat st.enc
    let pplan := match presencesMessageLen lenPres ps with
      | none => "-"
      | some len => toString pres ++ ":" ++ toString len
    let ret := match w.2 with
      | .ok => "ok"
      | .writeError => "err"
      | .outOfFuel => "ok"
    some ("ret=" ++ ret ++ " msgs=[" ++ joinWith " " (w.1.map showFrame) ++ "] plan=[" ++ joinWith " " plan
      ++ "] pplan=[" ++ pplan ++ "] sub=yes intact=yes pintact=yes"
      ++ (if r.2 && w.2 != .outOfFuel then "" else " out-of-fuel"))

/-- `<prefix>:<data>[:<digesthex>]` -/
def item? (s : String) : Option (Bytes × Bytes × Bytes) :=
  match s.splitOn ":" with
  | [p, d] => match hexOpt? p, data? d with
    | some p, some d => some (p, d, [])
    | _, _ => none
  | [p, d, h] => match hexOpt? p, data? d, hexOpt? h with
    | some p, some d, some h => some (p, d, h)
    | _, _, _ => none
  | _ => none

def allSome {α : Type} : List (Option α) → Option (List α)
  | [] => some []
  | none :: _ => none
  | some x :: xs => (allSome xs).map (x :: ·)

/-- table entry for a block: keyed by the code its prefix names (if it parses) -/
def entry (b : Bytes × Bytes × Bytes) : List (Nat × Bytes × Bytes) :=
  match Prefix.fromBytes b.1 with
  | some p => [(p.mhType, b.2.1, b.2.2)]
  | none => []

def showBlock (r : Cid × Bytes) : String := bytesHex r.1.toBytes ++ ":" ++ showData r.2

/-- `pres=<n>`, at most 2^18 presences. -/
def pres? (s : String) : Option Nat :=
  match s.splitOn "=" with
  | ["pres", n] => n.toNat?.bind fun n => if n ≤ 2 ^ 18 then some n else none
  | _ => none

def batchesLine (v codec mh dlen sizes pres : String) : String :=
  match v.toNat?, u64? codec, u64? mh, dlen.toNat?, sizes? sizes, pres? pres with
  | some v, some codec, some mh, some dlen, some runs, some pres =>
    if v > 1 then "bad-op" else
    match batchesOp v codec mh dlen (expand runs) pres with
    | some o => o
    | none => "bad-op"
  | _, _, _, _, _, _ => "bad-op"

/-! ## protocol level -/
section ProtoOps
open Proto

def limits : Limits :=
  ⟨Consts.MAX_BATCH_SIZE, Consts.MAX_BATCH_BLOCKS, Consts.MAX_MESSAGE_SIZE, Consts.MAX_MESSAGE_SIZE,
   Consts.BITSWAP_WRITE_TIMEOUT_SECS * 1000⟩

def peer? (s : String) : Option Nat := s.toNat?.bind fun p => if 1 ≤ p ∧ p ≤ 9 then some p else none

def idx? (pfx : Char) (s : String) : Option Nat :=
  match s.toList with
  | c :: rest => if c = pfx ∧ !rest.isEmpty then (String.ofList rest).toNat? else none
  | [] => none

/-- `k=<v>/<codec>/<mh>/<dlen>`: the kind, the prefix length and the CID length. -/
def kind? (s : String) : Option (Kind × Nat × Nat) :=
  match s.splitOn "=" with
  | ["k", v] =>
    match v.splitOn "/" with
    | [v, codec, mh, dlen] =>
      match v.toNat?, u64? codec, u64? mh, dlen.toNat? with
      | some v, some codec, some mh, some dlen =>
        if v > 1 ∨ dlen < 4 ∨ dlen > 64 then none else
        match cidNew v codec mh (List.replicate dlen 0xab) with
        | some cid => some (⟨v, codec, mh, dlen⟩, cid.toPrefix.toBytes.length, cid.toBytes.length)
        | none => none
      | _, _, _, _ => none
    | _ => none
  | _ => none

def entry? (k : Kind × Nat × Nat) (s : String) : Option REntry :=
  match s.toList with
  | 'b' :: rest =>
    match (String.ofList rest).splitOn "." with
    | [size, fill] =>
      match size.toNat?, fill.toNat? with
      | some size, some fill =>
        if size > 2 ^ 22 ∨ fill > 255 ∨ (size = 0 ∧ fill ≠ 0) then none
        else some (.block ⟨k.1, k.2.1, size, fill⟩)
      | _, _ => none
    | _ => none
  | 'h' :: rest => (String.ofList rest).toNat?.bind fun i =>
      if i < 2 ^ 32 ∧ !rest.isEmpty then some (.presence ⟨k.1, k.2.2, i, 0⟩) else none
  | 'd' :: rest => (String.ofList rest).toNat?.bind fun i =>
      if i < 2 ^ 32 ∧ !rest.isEmpty then some (.presence ⟨k.1, k.2.2, i, 1⟩) else none
  | _ => none

def want? (k : Kind × Nat × Nat) (s : String) : Option Want :=
  match s.toList with
  | 'b' :: rest => (String.ofList rest).toNat?.bind fun i =>
      if i < 2 ^ 32 ∧ !rest.isEmpty then some ⟨k.1, k.2.2, i, 0⟩ else none
  | 'h' :: rest => (String.ofList rest).toNat?.bind fun i =>
      if i < 2 ^ 32 ∧ !rest.isEmpty then some ⟨k.1, k.2.2, i, 1⟩ else none
  | _ => none

def listOf {α : Type} (f : String → Option α) (s : String) : Option (List α) :=
  if s = "-" then some [] else
  if (s.splitOn ",").length > 64 then none else allSome ((s.splitOn ",").map f)

/-- `[] | ok | fail=<k>[.<off>] | stall=<k>` -/
def fate? : List String → Option (Option Nat × Nat)
  | [] => some (none, 0)
  | ["ok"] => some (none, 0)
  | [p] =>
    match p.splitOn "=" with
    | ["fail", v] =>
      match v.splitOn "." with
      | [k] => k.toNat?.map fun k => (some k, 0)
      | [k, off] =>
        match k.toNat?, off.toNat? with
        | some k, some off => if off > 2 then none else some (some k, off)
        | _, _ => none
      | _ => none
    | ["stall", k] => k.toNat?.map fun k => (some k, 0)
    | _ => none
  | _ => none

/-- `slow=<ms>[,<ms>…]`: at most 16 delays of at most 600 000 ms -/
def slow? (s : String) : Option (List Nat) :=
  match s.splitOn "=" with
  | ["slow", v] =>
    match allSome ((v.splitOn ",").map String.toNat?) with
    | some ds => if ds.isEmpty ∨ ds.length > 16 ∨ ds.any (· > 600000) then none else some ds
    | none => none
  | _ => none

/-- `[ok | fail=<k>[.<off>] | stall=<k>] [slow=…]` -/
def plan? (ts : List String) : Option (Option Nat × Nat × List Nat) :=
  match ts.getLast? with
  | some last =>
    if last.startsWith "slow=" then
      match slow? last, fate? ts.dropLast with
      | some ds, some (b, off) => some (b, off, ds)
      | _, _ => none
    else (fate? ts).map fun (b, off) => (b, off, [])
  | none => some (none, 0, [])

def showKind (k : Kind) : String := s!"{k.v}/{k.codec}/{k.mh}/{k.dlen}"

def dashJoin (sep : String) (l : List String) : String := if l.isEmpty then "-" else joinWith sep l

def showEntry : REntry → String
  | .block b => s!"b{b.size}.{b.fill}"
  | .presence p => (if p.ty = 0 then "h" else "d") ++ toString p.idx

def showWantShort (w : Want) : String := (if w.ty = 0 then "b" else "h") ++ toString w.idx

def showAction : Action → String
  | .request cids =>
    "Q[" ++ (match cids with | w :: _ => showKind w.kind | [] => "-") ++ "|" ++ dashJoin "," (cids.map showWantShort) ++ "]"
  | .response entries =>
    "R[" ++ (match entries with
      | .block b :: _ => showKind b.kind
      | .presence p :: _ => showKind p.kind
      | [] => "-") ++ "|" ++ dashJoin "," (entries.map showEntry) ++ "]"

def showWFrame : WFrame → String
  | .resp (.blocks batch len) =>
    s!"B{len}/" ++ (match batch with | b :: _ => showKind b.kind | [] => "-") ++ "/" ++
      joinWith "+" (batch.map fun b => s!"{b.size}.{b.fill}")
  | .resp (.presences ps len) =>
    s!"P{len}/" ++ (match ps with | p :: _ => showKind p.kind | [] => "-") ++ "/" ++
      joinWith "+" (ps.map fun p => s!"{p.idx}.{p.ty}")
  | .req cids len =>
    match cids with
    | [] => s!"E{len}"
    | w :: _ => s!"W{len}/" ++ showKind w.kind ++ "/" ++ joinWith "+" (cids.map showWantShort)

/-- insertion sort by key (the adapters sort what came out of a hash map) -/
def insertBy {α : Type} (key : α → Nat) (x : α) : List α → List α
  | [] => [x]
  | y :: ys => if key x ≤ key y then x :: y :: ys else y :: insertBy key x ys

def sortBy {α : Type} (key : α → Nat) (l : List α) : List α := l.foldr (insertBy key) []

def showState (st : St) : String :=
  "out=" ++ dashJoin "," ((sortBy Prod.fst st.outbound).map fun e => s!"{e.1}:s{e.2}") ++
  " pend=" ++ dashJoin "," ((sortBy Prod.fst st.pendingOutbound).map fun e =>
      s!"{e.1}:" ++ dashJoin "" (e.2.map showAction)) ++
  " subs=" ++ dashJoin "," ((sortBy Prod.fst st.pendingSubstreams).map fun e => s!"s{e.1}:{e.2}") ++
  " dials=" ++ dashJoin "," ((sortBy id st.pendingDials).map toString) ++
  " in=" ++ dashJoin "," ((sortBy Prod.fst st.inbound).map fun e => toString e.1)

/-- frames written per substream (attempts of one operation concern one substream) -/
def showWrites (atts : List Attempt) : String :=
  match atts with
  | [] => "-"
  | a :: _ =>
    let words := atts.flatMap fun x =>
      x.written.map showWFrame ++ (if x.partialBytes > 0 then [s!"~{x.partialBytes}"] else [])
    -- virtual time at which the last complete frame of the operation was accepted
    let tm := (atts.map (·.elapsed)).sum
    let complete := atts.any fun x => !x.written.isEmpty
    if words.isEmpty then "-"
    else s!"s{a.sub}" ++ (if tm > 0 ∧ complete then s!"@{tm}" else "") ++ "=" ++ joinWith "|" words

def showOut (res : Res) (o : Out) (events : String) (st : St) : String :=
  (match res with
   | .ok => "ok"
   | .none => "none"
   | .inName k => s!"i{k}") ++ ";" ++
  dashJoin "," (o.dials.map (fun p => s!"dial:{p}") ++
    (sortBy Prod.snd o.opened).map (fun e => s!"open:{e.1}:s{e.2}")) ++ ";" ++
  events ++ ";" ++ showWrites o.attempts ++ ";" ++ showState st

/-- `<hex>/<type>+…` -/
def typed? (s : String) : Option (List (Bytes × Nat)) :=
  allSome ((s.splitOn "+").map fun it =>
    match it.splitOn "/" with
    | [h, t] => match hexOpt? h, t.toNat? with
      | some h, some t => if t < 2 ^ 31 then some (h, t) else none
      | _, _ => none
    | _ => none)

structure InMsg where
  wantlist : Option (List (Bytes × Nat)) := some []
  payload : List (Bytes × Bytes × Bytes) := []
  presences : List (Bytes × Nat) := []

def inMsg? : List String → InMsg → Option InMsg
  | [], m => some m
  | a :: rest, m =>
    if a = "nowl" then inMsg? rest { m with wantlist := none } else
    match a.splitOn "=" with
    | ["w", v] => (typed? v).bind fun w => inMsg? rest { m with wantlist := some w }
    | ["b", v] => (allSome ((v.splitOn "+").map item?)).bind fun b => inMsg? rest { m with payload := m.payload ++ b }
    | ["p", v] => (typed? v).bind fun p => inMsg? rest { m with presences := m.presences ++ p }
    | _ => none

def showInEvents (p : Nat) (m : InMsg) : String :=
  let H := family (m.payload.flatMap entry)
  let req := match requestEvent m.wantlist with
    | none => []
    | some cids => [s!"req:{p}:" ++ joinWith "+" (cids.map fun c => bytesHex c.1.toBytes ++ "/" ++ toString c.2)]
  let resp := match responseEvent H (m.payload.map fun b => (b.1, b.2.1)) m.presences with
    | none => []
    | some items => [s!"resp:{p}:" ++ joinWith "+" (items.map fun
        | .block cid data => "B" ++ bytesHex cid.toBytes ++ ":" ++ showData data
        | .presence cid ty => "P" ++ bytesHex cid.toBytes ++ "/" ++ toString ty)]
  dashJoin "," (req ++ resp)

abbrev Held := List (Nat × List String)

def protoOp (st : St) (held : Held) (op : Op) (events : String) : State × String :=
  let r := Proto.step limits st op
  (some (r.1, held), showOut r.2.1 r.2.2 events r.1)

/-- how an inbound frame arrives: `cut=<a>[,<b>…]` (pieces), `gap=<ms>` (time between two pieces),
`hold=<n>` (only the first bytes now); the other tokens are the message -/
structure Arrival where
  hold : Option Nat := none
  args : List String := []

def natList? (v : String) : Option (List Nat) := allSome ((v.splitOn ",").map String.toNat?)

def arrival? : List String → Arrival → Option Arrival
  | [], a => some { a with args := a.args.reverse }
  | t :: rest, a =>
    if t.startsWith "cut=" then
      match t.splitOn "=" with
      | ["cut", v] => match natList? v with
        | some cs => if cs.isEmpty ∨ cs.length > 16 then none else arrival? rest a
        | none => none
      | _ => none
    else if t.startsWith "gap=" then
      match t.splitOn "=" with
      | ["gap", v] => match v.toNat? with
        | some g => if g > 600000 then none else arrival? rest a
        | none => none
      | _ => none
    else if t.startsWith "hold=" then
      match t.splitOn "=" with
      | ["hold", v] => match v.toNat? with
        | some h => arrival? rest { a with hold := some h }
        | none => none
      | _ => none
    else arrival? rest { a with args := t :: a.args }

def eventsOf (st : St) (k : Nat) (m : InMsg) : String :=
  match st.inboundOwner k with
  | some p => showInEvents p m
  | none => "-"

def protoStep (st : St) (held : Held) (ts : List String) : State × String :=
  let bad : State × String := (some (st, held), "bad-op")
  let protoOp := protoOp st held
  match ts with
  | ["conn", p] => match peer? p with
    | some p => protoOp (.conn p true) "-"
    | none => bad
  | ["conn", p, "dead"] => match peer? p with
    | some p => protoOp (.conn p false) "-"
    | none => bad
  | ["disc", p] => match peer? p with
    | some p => protoOp (.disc p) "-"
    | none => bad
  | ["conndead", p] => match peer? p with
    | some p => protoOp (.conndead p) "-"
    | none => bad
  | ["dialfail", p] => match peer? p with
    | some p => protoOp (.dialfail p) "-"
    | none => bad
  | ["view", p, v] =>
    match peer? p, (match v with
      | "c" => some View.connected
      | "g" => some View.dialing
      | "d" => some View.disconnected
      | _ => none) with
    | some p, some v => protoOp (.view p v) "-"
    | _, _ => bad
  | "subopen" :: s :: rest =>
    match idx? 's' s, plan? rest with
    | some s, some pl => protoOp (.subopen s pl.1 pl.2.1 pl.2.2) "-"
    | _, _ => bad
  | ["subfail", s] => match idx? 's' s with
    | some s => protoOp (.subfail s) "-"
    | none => bad
  | "plan" :: s :: rest =>
    if rest.isEmpty then bad else
    match idx? 's' s, plan? rest with
    | some s, some pl => protoOp (.plan s pl.1 pl.2.1 pl.2.2) "-"
    | _, _ => bad
  | ["resp", p, k, es] =>
    match peer? p, kind? k with
    | some p, some k => match listOf (entry? k) es with
      | some es => protoOp (.command p (.response es)) "-"
      | none => bad
    | _, _ => bad
  | ["burst", p, n, k] =>
    -- `n` one-block responses (response `i` = block `b<1 + i/251>.<i%251>`) through the bounded command channel
    match peer? p, n.toNat?, kind? k with
    | some p, some n, some k =>
      if n = 0 ∨ n > 6000 then bad
      else
        let cmds : List Cmd.Command := (List.range n).map fun i =>
          (p, Action.response [.block ⟨k.1, k.2.1, 1 + i / 251, i % 251⟩])
        let cap := Consts.BITSWAP_CMD_CHANNEL_SIZE
        let r := Cmd.burst limits cap st cmds
        let word := match Cmd.suspendedAt cap cmds with
          | some j => s!"sus{j}"
          | none => "ok"
        (some (r.1, held), word ++ (showOut .ok r.2 "-" r.1).drop 2)
    | _, _, _ => bad
  | ["req", p, k, cs] =>
    match peer? p, kind? k with
    | some p, some k => match listOf (want? k) cs with
      | some cs => protoOp (.command p (.request cs)) "-"
      | none => bad
    | _, _ => bad
  | ["insub", p] => match peer? p with
    | some p => protoOp (.insub p) "-"
    | none => bad
  | "inmsg" :: i :: rest =>
    match idx? 'i' i, arrival? rest {} with
    | some k, some arr =>
      match inMsg? arr.args {} with
      | none => bad
      | some m =>
        match arr.hold with
        | none =>
          let r := Proto.step limits st (.inmsg k true)
          (some (r.1, held), showOut r.2.1 r.2.2 (if r.2.1 == .ok then eventsOf st k m else "-") r.1)
        | some _ =>
          -- a frame of one byte (the empty message) cannot be held
          if m.wantlist.isNone ∧ m.payload.isEmpty ∧ m.presences.isEmpty then bad else
          let r := Proto.step limits st (.inhold k)
          (some (r.1, if r.2.1 == .ok then (k, arr.args) :: held else held), showOut r.2.1 r.2.2 "-" r.1)
    | _, _ => bad
  | ["inrest", i] =>
    match idx? 'i' i with
    | some k =>
      let m := ((held.find? fun e => e.1 == k).bind fun e => inMsg? e.2 {}).getD {}
      let r := Proto.step limits st (.inrest k true)
      (some (r.1, if r.2.1 == .ok then held.filter (fun e => e.1 != k) else held),
       showOut r.2.1 r.2.2 (if r.2.1 == .ok then eventsOf st k m else "-") r.1)
    | none => bad
  | ["inbad", i, h] =>
    match idx? 'i' i, hexOpt? h with
    | some k, some b => if b.isEmpty then bad else protoOp (.inmsg k false) "-"
    | _, _ => bad
  | [op, i] =>
    if op = "inbig" then
      -- an oversized length prefix is written like a frame (not inside a held one); the stream then fails
      match idx? 'i' i with
      | some k => protoOp (.inmsg k false) "-"
      | none => bad
    else if op = "inclose" ∨ op = "inreset" then
      match idx? 'i' i with
      | some k => protoOp (.inend k) "-"
      | none => bad
    else bad
  | _ => bad

def protoWords : List String :=
  ["conn", "disc", "conndead", "dialfail", "view", "subopen", "subfail", "plan", "resp", "burst", "req", "insub",
   "inmsg", "inbad", "inbig", "inclose", "inreset", "inrest"]

end ProtoOps

def step (st : State) (line : String) : State × String :=
  let ts := tokens line
  let h := (arg? "h" ts).bind hexOpt? |>.getD []
  let ts := ts.filter fun t => !t.startsWith "h="
  match ts with
  | ["pnew"] => (some ({}, []), "ok")
  | ["prefix_dec", hx] =>
    match hexOpt? hx with
    | none => (st, "bad-op")
    | some bs =>
      match Prefix.fromBytes bs with
      | none => (st, "none")
      | some p => (st, s!"some {p.version} {p.codec} {p.mhType} {p.mhLen}")
  | ["prefix_enc", v, codec, mh, len] =>
    match v.toNat?, u64? codec, u64? mh, len.toNat? with
    | some v, some codec, some mh, some len =>
      if v > 1 ∨ len > 255 then (st, "bad-op")
      else (st, showHex (Prefix.toBytes ⟨v, codec, mh, len⟩))
    | _, _, _, _ => (st, "bad-op")
  | ["inbound", p, d] =>
    match hexOpt? p, data? d with
    | some p, some d =>
      match blockToResponse (family (entry (p, d, h))) p d with
      | some (cid, data) => (st, "ok " ++ bytesHex cid.toBytes ++ " " ++ showData data)
      | none => (st, "dropped")
    | _, _ => (st, "bad-op")
  | "message" :: items =>
    match allSome (items.map item?) with
    | none => (st, "bad-op")
    | some bs =>
      match inboundEvent (family (bs.flatMap entry)) (bs.map fun b => (b.1, b.2.1)) with
      | none => (st, "noevent")
      | some rs => (st, "event " ++ joinWith " " (rs.map showBlock))
  | ["batches", v, codec, mh, dlen, sizes] => (st, batchesLine v codec mh dlen sizes "pres=0")
  | ["batches", v, codec, mh, dlen, sizes, pres] => (st, batchesLine v codec mh dlen sizes pres)
  | w :: _ =>
    if protoWords.contains w then
      match st with
      | some pst => protoStep pst.1 pst.2 ts
      | none => (st, "bad-op")
    else (st, "bad-op")
  | _ => (st, "bad-op")

end Litep2pVerif.Driver.C20
