import Litep2pVerif.Common.Parse
import Litep2pVerif.Generated.Consts
import Litep2pVerif.Model.Bitswap.Prefix
import Litep2pVerif.Model.Bitswap.Batch
/-! Line-protocol driver for the bitswap models (C20). Stateless.

The hash family is instantiated here: `supported` is the code table of `multihash-codetable` with
the features `sha2`, `blake2b`, `sha3` (Cargo.toml); `digest` is the table of digests handed in with
the operation (`h=<hex>`, computed outside the model). -/
namespace Litep2pVerif.Driver.C20
open Litep2pVerif Litep2pVerif.Bitswap Parse

abbrev State := Unit
def init : State := ()

/-- `multihash_codetable::Code` with features sha2, blake2b, sha3. -/
def supportedCodes : List Nat :=
  [0x12, 0x13, 0x14, 0x15, 0x16, 0x17, 0x1a, 0x1b, 0x1c, 0x1d, 0xb220, 0xb240]

/-- digest table: (code, data, digest) -/
def family (table : List (Nat × Bytes × Bytes)) : HashFamily where
  supported := fun c => supportedCodes.contains c
  digest := fun c d => match table.find? (fun e => e.1 = c ∧ e.2.1 = d) with
    | some e => e.2.2
    | none => []

def hexOpt? (s : String) : Option Bytes := if s = "-" then some [] else hexBytes? s

/-- `-` | hex | `<len>,<fill>` -/
def data? (s : String) : Option Bytes :=
  match s.splitOn "," with
  | [len, fill] =>
    match len.toNat?, fill.toNat? with
    | some len, some fill =>
      if len = 0 ∨ len > 2 ^ 26 ∨ fill > 255 then none else some (List.replicate len fill)
    | _, _ => none
  | [h] => hexOpt? h
  | _ => none

def showData (d : Bytes) : String :=
  match d with
  | [] => "-"
  | f :: _ => if d.all (· = f) then toString d.length ++ "," ++ toString f else bytesHex d

def showHex (b : Bytes) : String := if b.isEmpty then "-" else bytesHex b

def u64? (s : String) : Option Nat := s.toNat?.bind fun n => if n < 2 ^ 64 then some n else none

/-- `<size>` or `<size>*<count>`, comma separated (same limits as the adapter). -/
def sizesAux : List String → Nat → Nat → Option (List (Nat × Nat))
  | [], _, _ => some []
  | item :: rest, n, total =>
    let sc : Option (Nat × Nat) := match item.splitOn "*" with
      | [a, b] => match a.toNat?, b.toNat? with
        | some a, some b => some (a, b)
        | _, _ => none
      | [a] => a.toNat?.map fun a => (a, 1)
      | _ => none
    match sc with
    | none => none
    | some (size, count) =>
      if size > 2 ^ 26 ∨ count > 2 ^ 22 ∨ n + count > 2 ^ 22 ∨ total + size * count > 2 ^ 27 then none
      else (sizesAux rest (n + count) (total + size * count)).map fun r => (size, count) :: r

def sizes? (s : String) : Option (List (Nat × Nat)) :=
  if s = "-" then some [] else sizesAux (s.splitOn ",") 0 0

def expand (runs : List (Nat × Nat)) : List Nat :=
  runs.flatMap fun r => List.replicate r.2 r.1

def rleAux : List Nat → Option (Nat × Nat) → List (Nat × Nat) → List (Nat × Nat)
  | [], none, acc => acc.reverse
  | [], some r, acc => (r :: acc).reverse
  | x :: xs, none, acc => rleAux xs (some (x, 1)) acc
  | x :: xs, some (v, c), acc => if x = v then rleAux xs (some (v, c + 1)) acc else rleAux xs (some (x, 1)) ((v, c) :: acc)

def rle (l : List Nat) : String :=
  match rleAux l none [] with
  | [] => "-"
  | rs => joinWith "+" (rs.map fun r => toString r.1 ++ "*" ++ toString r.2)

def showOptNat : Option Nat → String
  | none => "none"
  | some n => toString n

/-- `entries[2i] = presence i`, `entries[2i+1] = block i` until one kind runs out (same as the
adapter). -/
def interleave {π β : Type} : List π → List β → List (Entry π β)
  | [], bs => bs.map .block
  | ps, [] => ps.map .presence
  | p :: ps, b :: bs => .presence p :: .block b :: interleave ps bs

def showFrame : Frame (Nat × Nat) (Nat × Nat) → String
  | .blocks batch len => toString len ++ "/" ++ rle (batch.map Prod.snd)
  | .presences ps len =>
    toString len ++ "/P" ++ toString ps.length ++ ":" ++ toString (ps.filter (·.2 = 0)).length

/-- The response of the adapter's `batches` operation: `pres` presences (CID as for the blocks,
presence `i` is `Have` iff `i % 3 = 0`) interleaved with the blocks, on a substream with the
configured codec `UnsignedVarint(Some(MAX_MESSAGE_SIZE))`. -/
def batchesOp (v codec mh dlen : Nat) (sizes : List Nat) (pres : Nat) : Option String :=
  if dlen > MH_ALLOC then none else
  match cidNew v codec mh (List.replicate dlen 0xab) with
  | none => none
  | some cid =>
    let plen := cid.toPrefix.toBytes.length
    let clen := cid.toBytes.length
    let blocks := sizes.map fun s => (plen, s)
    let ps := (List.range pres).map fun i => (clen, if i % 3 = 0 then 0 else 1)
    let r := sendResponse lenPair Consts.MAX_BATCH_SIZE Consts.MAX_BATCH_BLOCKS Consts.MAX_MESSAGE_SIZE blocks
    let w := respond lenPres lenPair Consts.MAX_BATCH_SIZE Consts.MAX_BATCH_BLOCKS Consts.MAX_MESSAGE_SIZE
      Consts.MAX_MESSAGE_SIZE (interleave ps blocks)
    let plan := r.1.map fun st =>
      toString st.batch.length ++ ":" ++ toString (st.batch.map Prod.snd).sum ++ ":" ++ showOptNat st.enc
    let pplan := match presencesMessageLen lenPres ps with
      | none => "-"
      | some len => toString pres ++ ":" ++ toString len
    let ret := match w.2 with
      | .ok => "ok"
      | .writeError => "err"
      | .outOfFuel => "ok"
    some ("ret=" ++ ret ++ " msgs=[" ++ joinWith " " (w.1.map showFrame) ++ "] plan=[" ++ joinWith " " plan
      ++ "] pplan=[" ++ pplan ++ "] sub=yes intact=yes pintact=yes"
      ++ (if r.2 && w.2 != .outOfFuel then "" else " out-of-fuel"))

/-- `<prefix>:<data>[:<digesthex>]` -/
def item? (s : String) : Option (Bytes × Bytes × Bytes) :=
  match s.splitOn ":" with
  | [p, d] => match hexOpt? p, data? d with
    | some p, some d => some (p, d, [])
    | _, _ => none
  | [p, d, h] => match hexOpt? p, data? d, hexOpt? h with
    | some p, some d, some h => some (p, d, h)
    | _, _, _ => none
  | _ => none

def allSome {α : Type} : List (Option α) → Option (List α)
  | [] => some []
  | none :: _ => none
  | some x :: xs => (allSome xs).map (x :: ·)

/-- table entry for a block: keyed by the code its prefix names (if it parses) -/
def entry (b : Bytes × Bytes × Bytes) : List (Nat × Bytes × Bytes) :=
  match Prefix.fromBytes b.1 with
  | some p => [(p.mhType, b.2.1, b.2.2)]
  | none => []

def showBlock (r : Cid × Bytes) : String := bytesHex r.1.toBytes ++ ":" ++ showData r.2

/-- `pres=<n>`, at most 2^18 presences. -/
def pres? (s : String) : Option Nat :=
  match s.splitOn "=" with
  | ["pres", n] => n.toNat?.bind fun n => if n ≤ 2 ^ 18 then some n else none
  | _ => none

def batchesLine (v codec mh dlen sizes pres : String) : String :=
  match v.toNat?, u64? codec, u64? mh, dlen.toNat?, sizes? sizes, pres? pres with
  | some v, some codec, some mh, some dlen, some runs, some pres =>
    if v > 1 then "bad-op" else
    match batchesOp v codec mh dlen (expand runs) pres with
    | some o => o
    | none => "bad-op"
  | _, _, _, _, _, _ => "bad-op"

def step (st : State) (line : String) : State × String :=
  let ts := tokens line
  let h := (arg? "h" ts).bind hexOpt? |>.getD []
  let ts := ts.filter fun t => !t.startsWith "h="
  match ts with
  | ["prefix_dec", hx] =>
    match hexOpt? hx with
    | none => (st, "bad-op")
    | some bs =>
      match Prefix.fromBytes bs with
      | none => (st, "none")
      | some p => (st, s!"some {p.version} {p.codec} {p.mhType} {p.mhLen}")
  | ["prefix_enc", v, codec, mh, len] =>
    match v.toNat?, u64? codec, u64? mh, len.toNat? with
    | some v, some codec, some mh, some len =>
      if v > 1 ∨ len > 255 then (st, "bad-op")
      else (st, showHex (Prefix.toBytes ⟨v, codec, mh, len⟩))
    | _, _, _, _ => (st, "bad-op")
  | ["inbound", p, d] =>
    match hexOpt? p, data? d with
    | some p, some d =>
      match blockToResponse (family (entry (p, d, h))) p d with
      | some (cid, data) => (st, "ok " ++ bytesHex cid.toBytes ++ " " ++ showData data)
      | none => (st, "dropped")
    | _, _ => (st, "bad-op")
  | "message" :: items =>
    match allSome (items.map item?) with
    | none => (st, "bad-op")
    | some bs =>
      match inboundEvent (family (bs.flatMap entry)) (bs.map fun b => (b.1, b.2.1)) with
      | none => (st, "noevent")
      | some rs => (st, "event " ++ joinWith " " (rs.map showBlock))
  | ["batches", v, codec, mh, dlen, sizes] => (st, batchesLine v codec mh dlen sizes "pres=0")
  | ["batches", v, codec, mh, dlen, sizes, pres] => (st, batchesLine v codec mh dlen sizes pres)
  | _ => (st, "bad-op")

end Litep2pVerif.Driver.C20
