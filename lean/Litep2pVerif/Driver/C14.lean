import Litep2pVerif.Common.Parse
import Litep2pVerif.Generated.Consts
import Litep2pVerif.Model.Kad.Table
/-! Line-protocol driver for the `RoutingTable` model (C14). Bucket capacity and the number of
buckets are the constants regenerated from the Rust sources. Placeholder keys (`rnd`) are 0: they
are never observable (`junk_invisible`). -/
namespace Litep2pVerif.Driver.C14
open Litep2pVerif Litep2pVerif.Kad.Key Litep2pVerif.Kad.Bucket Litep2pVerif.Kad.Table Parse

structure State where
  table : Option Table := none

def init : State := {}

def K : Nat := Consts.KBUCKET_CAPACITY
def NB : Nat := Consts.NUM_BUCKETS

/-- 64 hex digits. -/
def key? (s : String) : Option Nat := if s.length = 64 then hexNat? s else none

def conn? : String → Option Conn
  | "n" => some .notConnected
  | "c" => some .connected
  | "k" => some .canConnect
  | "x" => some .cannotConnect
  | _ => none

def connChar : Conn → String
  | .notConnected => "n"
  | .connected => "c"
  | .canConnect => "k"
  | .cannotConnect => "x"

def showSlot : Slot → String
  | .junk _ => "j/n/0"
  | .real p => toString p.peer ++ "/" ++ connChar p.conn ++ "/" ++ (if p.addrs = 0 then "0" else "1")

def showBucket (t : Table) (i : Nat) : String :=
  toString i ++ ":[" ++ joinWith "," ((t.buckets.getD i []).map showSlot) ++ "]"

def showSelected (t : Table) (key : Nat) : String :=
  match bucketIndex (distance t.localKey key) with
  | none => "local"
  | some i => showBucket t i

def showPeer : Slot → String
  | .junk _ => "j"
  | .real p => toString p.peer

/-- Peer indices are below `u64::MAX - 1` in the adapter. -/
def num? (s : String) : Option Nat :=
  match s.toNat? with
  | some n => if n < 18446744073709551614 then some n else none
  | none => none

def step (st : State) (line : String) : State × String :=
  match tokens line, st.table with
  | ["local", key], _ =>
    match key? key with
    | some k => ({ table := some (Table.new NB k) }, "ok")
    | none => (st, "bad-op")
  | ["add", p, key, naddrs, c], some t =>
    match num? p, key? key, num? naddrs, conn? c with
    | some p, some k, some n, some c =>
      let t' := t.addKnownPeer K p k n c 0
      ({ table := some t' }, showSelected t' k)
    | _, _, _, _ => (st, "bad-op")
  | ["connected", p, key, dialer], some t =>
    match num? p, key? key, (if dialer = "1" then some true else if dialer = "0" then some false else none) with
    | some _, some k, some d =>
      let t' := t.onConnectionEstablished K k d 0
      ({ table := some t' }, showSelected t' k)
    | _, _, _ => (st, "bad-op")
  | ["dialfail", p, key, naddrs], some t =>
    match num? p, key? key, num? naddrs with
    | some _, some k, some n =>
      let t' := t.onDialFailure K k n 0
      ({ table := some t' }, showSelected t' k)
    | _, _, _ => (st, "bad-op")
  | ["dialfailall", p, key], some t =>
    match num? p, key? key with
    | some _, some k =>
      let t' := t.onDialFailure K k 0 0
      ({ table := some t' }, showSelected t' k)
    | _, _ => (st, "bad-op")
  | ["disconnected", p, key], some t =>
    match num? p, key? key with
    | some _, some k =>
      let t' := t.onDisconnected K k 0
      ({ table := some t' }, showSelected t' k)
    | _, _ => (st, "bad-op")
  | ["entry", p, key], some t =>
    match num? p, key? key with
    | some _, some k =>
      let (t', e) := t.entry K k 0
      let kind := match e with
        | .localNode => "local"
        | .occupied _ => "occupied"
        | .vacant _ => "vacant"
        | .noSlot => "noslot"
      ({ table := some t' }, kind ++ " " ++ showSelected t' k)
    | _, _ => (st, "bad-op")
  | ["closest", key, limit], some t =>
    match key? key, num? limit with
    | some k, some n =>
      (st, "[" ++ joinWith "," ((t.closest NB k n).map showPeer) ++ "]")
    | _, _ => (st, "bad-op")
  | ["iter", d], _ =>
    match key? d with
    | some d => (st, "[" ++ joinWith "," ((visited NB d).map toString) ++ "]")
    | none => (st, "bad-op")
  | ["dump"], some t =>
    let idx := (List.range t.buckets.length).filter (fun i => !(t.buckets.getD i []).isEmpty)
    (st, joinWith ";" (idx.map (showBucket t)))
  | _, _ => (st, "bad-op")

end Litep2pVerif.Driver.C14
