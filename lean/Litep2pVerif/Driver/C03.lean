import Litep2pVerif.Common.Parse
import Litep2pVerif.Model.Mss.WebRtc
/-! Line-protocol driver for the multistream-select models (C03). The stream operations compose the
message-level machines of `Model/Mss/Negotiate.lean` with the specification-level frame parser of
`Model/Mss/Framing.lean` over byte pipes, and mirror the test application of the adapter
(`after` in `src/verif/c03.rs`). The scheduling arguments of an operation (chunk sizes, `Pending`
injections, write-behind mode and flush answers of the carrier, order of the application's reads and
writes) are ignored: by `framing_transparent`, `flush_reaches_peer`, `flush_completes` and the
confluence of the composition the outcome does not depend on them. The `sink` operation runs the
byte-level write half (`sinkPollFlush`, … of `Model/Mss/Framing.lean`) poll by poll. -/
namespace Litep2pVerif.Driver.C03
open Litep2pVerif Litep2pVerif.Mss Parse

def hx (b : Bytes) : String := if b.isEmpty then "-" else bytesHex b

def unhx? (s : String) : Option Bytes := if s = "-" then some [] else hexBytes? s

def list? (s : String) : Option (List Bytes) :=
  if s = "-" || s.isEmpty then some [] else (s.splitOn ",").mapM unhx?

def perr : PErr → String
  | .ioInvalidData => "io:invalid-data"
  | .ioUnexpectedEof => "io:unexpected-eof"
  | .ioWriteZero => "io:write-zero"
  | .invalidMessage => "invalid-message"
  | .invalidProtocol => "invalid-protocol"
  | .tooManyProtocols => "too-many-protocols"

def negErr : NegErr → String
  | .failed => "err:failed"
  | .protocolError e => "err:" ++ perr e
  | .panic => "panic assertion failed"

def werr : WErr → String
  | .invalidData => "err:invalid-data"
  | .parse => "err:parse"
  | .failed => "err:failed"
  | .invalidMessage => "err:invalid-message"
  | .stateMismatch => "err:state-mismatch"

def parseMsg (s : String) : Except String Msg :=
  let names (hs : List Bytes) : Except String (List Bytes) :=
    hs.mapM fun h => match protocolTryFrom h with
      | .ok p => .ok p
      | .error e => .error ("err:" ++ perr e)
  if s = "header" then .ok .header
  else if s = "ls" then .ok .listProtocols
  else if s = "na" then .ok .notAvailable
  else if s.startsWith "proto:" then
    match unhx? (s.drop 6).toString with
    | none => .error "bad-op"
    | some h => (names [h]).map fun l => .protocol (l.headD [])
  else if s.startsWith "protos:" then
    match list? (s.drop 7).toString with
    | none => .error "bad-op"
    | some hs => (names hs).map .protocols
  else .error "bad-op"

def showMsg : Msg → String
  | .header => "header"
  | .listProtocols => "ls"
  | .notAvailable => "na"
  | .protocol p => "proto:" ++ hx p
  | .protocols ps => "protos:" ++ (if ps.isEmpty then "-" else joinWith "," (ps.map hx))

/-! ### Byte-level composition -/

structure Pipe where
  data : Bytes := []
  closed : Bool := false
  readerGone : Bool := false
  log : Bytes := []

def Pipe.write (p : Pipe) (bs : Bytes) : Pipe :=
  { p with log := p.log ++ bs, data := if p.readerGone then p.data else p.data ++ bs }

def sendMsgs (p : Pipe) (ms : List Msg) : Pipe :=
  ms.foldl (fun p m => p.write (frameBytes m.encode)) p

inductive Machine
  | dialer (d : Dialer)
  | listener (l : Listener)

structure Side where
  m : Machine
  pay : Bytes
  /-- 0 negotiating, 1 write payload, 2 `complete()`, 3 close, 4 read to end, 5 finished -/
  phase : Nat := 0
  name : Bytes := []
  result : String := "stuck"
  read : Bytes := []

def frameErr : FrameErr → PErr
  | .unexpectedEof => .ioUnexpectedEof
  | .invalidData => .ioInvalidData
  | .writeZero => .ioWriteZero

/-- What `MessageIO::poll_next` yields on the pipe, if it is ready. -/
def recvFrom (inp : Pipe) : Option (Recv × Pipe) :=
  match parseFrame inp.data inp.closed with
  | .incomplete => none
  | .eof => some (.eof, inp)
  | .err e => some (.err (frameErr e), inp)
  | .frame f rest =>
    some ((match Msg.decode f with | .ok m => .msg m | .error e => .err e), { inp with data := rest })

def applyEff {σ : Type} (e : Eff σ) (inp out : Pipe) : Pipe × Pipe :=
  let out := sendMsgs out e.send
  if e.close then ({ inp with readerGone := true }, { out with closed := true }) else (inp, out)

/-- One step of the negotiation machine of a side; `none` = blocked. -/
def machineStep (m : Machine) (inp out : Pipe) : Option (Machine × Pipe × Pipe) :=
  match m with
  | .dialer d =>
    match d.mode with
    | .halted => none
    | .internal => let e := d.internal; let (i, o) := applyEff e inp out; some (.dialer e.st, i, o)
    | .reading =>
      match recvFrom inp with
      | none => none
      | some (r, inp') => let e := d.onRecv r; let (i, o) := applyEff e inp' out; some (.dialer e.st, i, o)
  | .listener l =>
    match l.mode with
    | .halted => none
    | .internal => let e := l.internal; let (i, o) := applyEff e inp out; some (.listener e.st, i, o)
    | .reading =>
      match recvFrom inp with
      | none => none
      | some (r, inp') => let e := l.onRecv r; let (i, o) := applyEff e inp' out; some (.listener e.st, i, o)

/-- Has the future returned? `some (ok name)` / `some (error e)`. -/
def returned : Machine → Option (Except NegErr Bytes)
  | .dialer d =>
    match d.state with
    | .expecting p _ => some (.ok p)
    | .completed p => some (.ok p)
    | .failed e => some (.error e)
    | _ => none
  | .listener l =>
    match l.state with
    | .done p => some (.ok p)
    | .failed e => some (.error e)
    | _ => none

/-- One step of a side (negotiation, then the test application); `none` = blocked or finished. -/
def sideStep (s : Side) (inp out : Pipe) : Option (Side × Pipe × Pipe) :=
  match s.phase with
  | 0 =>
    match returned s.m with
    | some (.ok p) => some ({ s with phase := 1, name := p }, inp, out)
    | some (.error e) => some ({ s with phase := 5, result := negErr e }, inp, out)
    | none => (machineStep s.m inp out).map fun (m, i, o) => ({ s with m := m }, i, o)
  | 1 =>
    -- write_all(pay); flush(): pending negotiation frames go out first
    let (m, inp, out) :=
      match s.m with
      | .dialer d =>
        if d.wbuf ≠ [] then
          match machineStep s.m inp out with
          | some r => r
          | none => (s.m, inp, out)
        else (s.m, inp, out)
      | _ => (s.m, inp, out)
    some ({ s with m := m, phase := 2 }, inp, out.write s.pay)
  | 2 =>
    match returned s.m with
    | some (.error e) => some ({ s with phase := 5, result := negErr e }, inp, out)
    | _ =>
      match s.m with
      | .dialer d =>
        match d.state with
        | .expecting _ _ => (machineStep s.m inp out).map fun (m, i, o) => ({ s with m := m }, i, o)
        | _ => some ({ s with phase := 3 }, inp, out)
      | _ => some ({ s with phase := 3 }, inp, out)
  | 3 => some ({ s with phase := 4 }, inp, { out with closed := true })
  | 4 =>
    if inp.closed then
      some ({ s with phase := 5, result := "ok:" ++ hx s.name, read := inp.data }, { inp with data := [], readerGone := true },
        { out with closed := true })
    else none
  | _ => none

/-- Run one side alone until it blocks. -/
def runSide : Nat → Side → Pipe → Pipe → Side × Pipe × Pipe
  | 0, s, i, o => (s, i, o)
  | fuel + 1, s, i, o =>
    match sideStep s i o with
    | none => (s, i, o)
    | some (s', i', o') => runSide fuel s' i' o'

/-- Run both sides (dialer first) until neither can move. `dl`: dialer → listener pipe. -/
def runBoth : Nat → Side → Side → Pipe → Pipe → Side × Side × Pipe × Pipe
  | 0, d, l, dl, ld => (d, l, dl, ld)
  | fuel + 1, d, l, dl, ld =>
    match sideStep d ld dl with
    | some (d', ld', dl') => runBoth fuel d' l dl' ld'
    | none =>
      match sideStep l dl ld with
      | some (l', dl', ld') => runBoth fuel d l' dl' ld'
      | none => (d, l, dl, ld)

def version? : Option String → Option Version
  | some "lazy" => some .v1Lazy
  | some "v1" => some .v1
  | none => some .v1
  | _ => none

def argList (k : String) (ts : List String) : Option (List Bytes) :=
  match arg? k ts with
  | none => some []
  | some v => list? v

def argBytes (k : String) (ts : List String) : Option Bytes :=
  match arg? k ts with
  | none => some []
  | some v => unhx? v

/-! ### `sink`: the write half of `LengthDelimited` over the staging carrier, poll by poll -/

def natList? (s : String) : Option (List Nat) :=
  if s = "-" || s.isEmpty then some [] else (s.splitOn ",").mapM String.toNat?

def showWrite (r : WriteRes) (s : SinkIo) : String :=
  (match r with | .pending => "P/" | .ready => "R/") ++ toString s.c.visible.length

/-- One operation of `sink`; `none` = malformed. The flag says whether `into_reader` has happened. -/
def sinkStep (s : SinkIo) (reader : Bool) (op : String) : Option (SinkIo × Bool × String) :=
  if op = "p" then let r := sinkPollFlush s; some (r.1, reader, showWrite r.2 r.1)
  else if op = "c" then let r := sinkPollClose s; some (r.1, reader, showWrite r.2 r.1)
  else if op = "r" then (if reader then none else some (s, true, "ok"))
  else if op.startsWith "s:" then
    if reader then none
    else
      match unhx? (op.drop 2).toString with
      | none => none
      | some item =>
        match sinkPollReady s with
        | (s', .pending) => some (s', reader, "busy")
        | (s', .ready) =>
          match startSend s'.w item with
          | .ok w => some ({ s' with w := w }, reader, "ok")
          | .error e => some (s', reader, "err:" ++ perr (frameErr e))
  else if op.startsWith "w:" then
    if !reader then none
    else
      match unhx? (op.drop 2).toString with
      | none => none
      | some buf =>
        match readerPollWrite s buf with
        | (s', none) => some (s', reader, "P/" ++ toString s'.c.visible.length)
        | (s', some k) => some (s', reader, "W" ++ toString k ++ "/" ++ toString s'.c.visible.length)
  else none

def sinkRun : List String → SinkIo → Bool → List String → Option (SinkIo × List String)
  | [], s, _, acc => some (s, acc.reverse)
  | op :: ops, s, reader, acc =>
    match sinkStep s reader op with
    | none => none
    | some (s', reader', o) => sinkRun ops s' reader' (o :: acc)

/-- The adapter's carrier takes everything / completes the flush once its scripts are used up. -/
def sinkOp (wb : Bool) (ws fs : List Nat) (ops : List String) : String :=
  let s : SinkIo :=
    { c := { wb := wb }, ws := ws ++ List.replicate (ops.length + 1) (2 ^ 30),
      fs := fs.map (· != 0) ++ List.replicate (ops.length + 1) true }
  match sinkRun ops s false [] with
  | none => "bad-op"
  | some (s', obs) =>
    (if obs.isEmpty then "-" else joinWith "," obs) ++ " vis=" ++ hx s'.c.visible ++ " acc=" ++ hx (s'.c.visible ++ s'.c.staged)

structure State where
  dialer : Option WDialer := none

def init : State := {}

def showListen : Except WErr LResult → String
  | .ok (.accepted p m) => "accepted:" ++ hx p ++ ":" ++ hx m
  | .ok (.rejected m) => "rejected:" ++ hx m
  | .ok (.pendingProtocol m) => "pending:" ++ hx m
  | .error e => werr e

def showPair (r : WPairResult) : String :=
  let d := match r.d with
    | .succeeded p => "succeeded:" ++ hx p
    | .failed => "err:failed"
    | .error e => werr e
    | .notReady => "not-ready"
    | .none => "none"
  let l := match r.l with
    | none => "none"
    | some (.ok p) => "accepted:" ++ hx p
    | some (.error e) => werr e
  "d=" ++ d ++ " l=" ++ l

def stepLimit (names : List Bytes) : Nat := 16 * names.length + 64

def step (st : State) (line : String) : State × String :=
  let ts := tokens line
  match ts with
  | ["enc", m] =>
    match parseMsg m with
    | .ok m => (st, hx m.encode)
    | .error e => (st, e)
  | ["dec", h] =>
    match unhx? h with
    | none => (st, "bad-op")
    | some b =>
      (st, match Msg.decode b with
        | .ok m => showMsg m
        | .error e => "err:" ++ perr e)
  | ["wenc", m, hdr] =>
    match parseMsg m with
    | .ok m => (st, match webrtcEncode m (hdr = "1") with | some b => hx b | none => "err:invalid-data")
    | .error e => (st, e)
  | "wlisten" :: rest =>
    match argList "sup" rest, argBytes "payload" rest with
    | some sup, some payload => (st, showListen (wListen sup payload (arg? "hr" rest = some "1")))
    | _, _ => (st, "bad-op")
  | "wpropose" :: rest =>
    match argList "main" rest, argList "fb" rest with
    | some [main], some fb =>
      match wPropose main fb with
      | .ok (d, m) => ({ st with dialer := some d }, "ok:" ++ hx m)
      | .error e => (st, werr e)
    | _, _ => (st, "bad-op")
  | ["wnext"] =>
    match st.dialer with
    | none => (st, "bad-op")
    | some d =>
      let (d', r) := wProposeNext d
      ({ st with dialer := some d' }, match r with
        | .ok none => "none"
        | .ok (some m) => "some:" ++ hx m
        | .error e => werr e)
  | ["wresp", h] =>
    match st.dialer, unhx? h with
    | some d, some b =>
      let (d', r) := wRegister d b
      ({ st with dialer := some d' }, match r with
        | .ok .notReady => "not-ready"
        | .ok (.succeeded p) => "succeeded:" ++ hx p
        | .ok .rejected => "rejected"
        | .error e => werr e)
    | _, _ => (st, "bad-op")
  | "wpair" :: rest =>
    match argList "main" rest, argList "fb" rest, argList "sup" rest with
    | some [main], some fb, some sup =>
      let split := ((arg? "split" rest).bind String.toNat?).getD 0
      (st, showPair (wPair main fb sup split))
    | _, _, _ => (st, "bad-op")
  | "report" :: rest =>
    let entries : Option (List (Bytes × List Bytes)) :=
      match arg? "protos" rest with
      | none => some []
      | some v =>
        if v = "-" || v.isEmpty then some []
        else (v.splitOn ",").mapM fun e =>
          match (e.splitOn ";").mapM unhx? with
          | some (m :: fbs) => some (m, fbs)
          | _ => none
    match entries, argBytes "neg" rest with
    | some installed, some neg =>
      if !unambiguousB installed then (st, "bad-op")
      else
        let n := " n=" ++ toString (offeredNames installed).length
        match reportInstalled installed neg with
        | none => (st, "err:not-supported" ++ n)
        | some (main, fb) =>
          (st, "ok to=" ++ toString ((installed.map (·.1)).idxOf main) ++ " main=" ++ hx main ++ " fb=" ++
            (match fb with | none => "none" | some f => hx f) ++ n)
    | _, _ => (st, "bad-op")
  | "sink" :: rest =>
    match natList? ((arg? "w" rest).getD "-"), natList? ((arg? "f" rest).getD "-") with
    | some ws, some fs =>
      let ops := ((arg? "ops" rest).getD "-")
      let ops := if ops = "-" then [] else (ops.splitOn ",").filter (fun o => !o.isEmpty)
      (st, sinkOp (arg? "wb" rest = some "1") ws fs ops)
    | _, _ => (st, "bad-op")
  | "negotiate" :: rest =>
    match version? (arg? "ver" rest), argList "dialer" rest, argList "listener" rest, argBytes "dpay" rest,
      argBytes "lpay" rest with
    | some v, some ps, some ls, some dpay, some lpay =>
      let d : Side := { m := .dialer (Dialer.init v ps), pay := dpay }
      let l : Side := { m := .listener (Listener.init ls), pay := lpay }
      let (d, l, dl, ld) := runBoth (stepLimit ps + stepLimit ls + dpay.length) d l {} {}
      (st, "d=" ++ d.result ++ " l=" ++ l.result ++ " dread=" ++ hx d.read ++ " lread=" ++ hx l.read ++
        " dw=" ++ hx dl.log ++ " lw=" ++ hx ld.log)
    | _, _, _, _, _ => (st, "bad-op")
  | "refneg" :: rest =>
    -- litep2p on side `role`, the reference implementation (same protocol) on the other: the model of
    -- the pair, with the reference side's error collapsed to `err`
    match version? (arg? "ver" rest), argList "dialer" rest, argList "listener" rest, argBytes "dpay" rest,
      argBytes "lpay" rest, arg? "role" rest with
    | some v, some ps, some ls, some dpay, some lpay, some role =>
      if role ≠ "dial" ∧ role ≠ "listen" then (st, "bad-op")
      else
        let d : Side := { m := .dialer (Dialer.init v ps), pay := dpay }
        let l : Side := { m := .listener (Listener.init ls), pay := lpay }
        let (d, l, _, _) := runBoth (stepLimit ps + stepLimit ls + dpay.length) d l {} {}
        let collapse (r : String) : String := if r.startsWith "err:" then "err" else r
        let dr := if role = "dial" then d.result else collapse d.result
        let lr := if role = "listen" then l.result else collapse l.result
        (st, "d=" ++ dr ++ " l=" ++ lr ++ " dread=" ++ hx d.read ++ " lread=" ++ hx l.read)
    | _, _, _, _, _, _ => (st, "bad-op")
  | role :: rest =>
    if role = "dial" ∨ role = "listen" then
      match version? (arg? "ver" rest), argList "protos" rest, argBytes "pay" rest, argBytes "peer" rest with
      | some v, some ps, some pay, some peer =>
        let s : Side :=
          if role = "dial" then { m := .dialer (Dialer.init v ps), pay := pay }
          else { m := .listener (Listener.init ps), pay := pay }
        let (s, _, out) := runSide (stepLimit ps + peer.length + 64) s { data := peer, closed := true } {}
        (st, "r=" ++ s.result ++ " wrote=" ++ hx out.log ++ " read=" ++ hx s.read)
      | _, _, _, _ => (st, "bad-op")
    else (st, "bad-op")
  | _ => (st, "bad-op")

end Litep2pVerif.Driver.C03
