import Std.Data.HashSet
import Litep2pVerif.Common.Parse
import Litep2pVerif.Model.Conn.Accept
/-! Line-protocol driver for the `tcploop` area: `Model/Conn/Permits.lean` against the real
`TcpConnection::start` loop (adapter `src/verif/tcploop.rs`).

`run`-like operations (`run`, `sleep`, `resume`, `drop_rx`, `accept`) let the local futures go to quiescence, let
everybody who is not paused take what is in its channel, and repeat until nothing more arrives. The passage of real
time (`sleep`) enables nothing in the model: a full channel only delays a report. A connection built with `sot=`
(small `substream_open_timeout`) may see any negotiation time out in any such operation.

`run` lets the loop go to quiescence. Which ready branch `tokio::select!` takes is its RNG's choice, so
the driver explores EVERY order of the enabled transitions and works in checker mode: the
implementation's observation is accepted iff some order produces it (otherwise the driver prints what
the first order produces). All other operations are deterministic. -/
namespace Litep2pVerif.Driver.Tcploop
open Litep2pVerif Litep2pVerif.Conn Parse

inductive Policy | accept | refuse | stall | fallback
  deriving DecidableEq, Repr

/-- `SubstreamOpened` / `SubstreamOpenFailure` as printed (`Oi..`, `Oo<id>..`, `X<id>`). -/
def isAns (m : String) : Bool := m.startsWith "O" || m.startsWith "X"

/-- The order in which the answers to different requests (and inbound substreams) reach a protocol within one
operation is `FuturesUnordered`'s business and part of no property: observations are compared up to the order of the
answers among themselves (everything else keeps its place). -/
def canonField (v : String) : String :=
  let items := v.splitOn ","
  let ans := ((items.filter isAns).toArray.qsort (fun a b => a < b)).toList
  (items.foldl (fun (acc : List String × List String) m =>
    if isAns m then
      match acc.2 with
      | a :: rest => (acc.1 ++ [a], rest)
      | [] => (acc.1 ++ [m], [])
    else (acc.1 ++ [m], acc.2)) ([], ans)).1 |> joinWith ","

def canon (o : String) : String :=
  joinWith " " ((tokens o).map fun t =>
    match t.splitOn "=" with
    | [k, v] => if k.startsWith "p" then k ++ "=" ++ canonField v else t
    | _ => t)

/-- A substream opened by the remote. `proposal`: `none` = only the multistream header was sent,
`some none` = an unknown name was proposed, `some (some (j, f))` = name `f` of protocol `j` (`f = 0`: the main
name, `f > 0`: the `f`-th fallback name). -/
structure RStream where
  proposal : Option (Option (Nat × Nat)) := none
  taken : Bool := false
  sub : Option Nat := none
  reset : Bool := false
  deriving DecidableEq, Repr

structure DState where
  t : TLoop
  n : Nat
  rstreams : List RStream := []
  policy : Policy := .accept
  /-- answers of the remote to substreams opened by the local end (from the moment `open_stream` returned and the
  multistream header went out): table index ↦ policy -/
  outAns : List (Nat × Policy) := []
  /-- number of fallback names per protocol (`fb=`) -/
  fbs : List Nat := []
  /-- table index ↦ fallback name it was negotiated under (absent = main name) -/
  fbOf : List (Nat × Nat) := []
  /-- per protocol, request ids of the `SubstreamOpenFailure` messages in its channel, in order -/
  xq : List (List Nat) := []
  /-- checker mode, connections with `sot=`: per protocol, the ids of the open failures the implementation reported
  during the current operation, in order, not yet accounted for (timeouts of outbound requests are taken from here) -/
  script : List (List Nat) := []
  paused : List Bool := []
  remoteClosed : Bool := false
  /-- per protocol, table indices of the `SubstreamOpened` messages in its channel, in order -/
  inq : List (List Nat) := []
  /-- `via=accept`: the connection goes through `TcpTransport::accept` (`Model/Conn/Accept.lean`) -/
  via : Bool := false
  phase : APhase := .up
  pausedM : Bool := false
  /-- some protocol has taken a `ConnectionEstablished` (the adapter has a handle to probe with) -/
  probe : Bool := false
  /-- `sot=`: negotiations may time out -/
  timeouts : Bool := false
  deriving DecidableEq, Repr

/-- One transition of the accept machine (`astep`) on the driver's state. -/
def dstepA (d : DState) (l : ALabel) : DState :=
  let a := astep { phase := d.phase, t := d.t } l
  { d with t := a.t, phase := a.phase }

def dstep (d : DState) (l : TLabel) : DState := dstepA d (.t l)

/-- Checker mode keeps EVERY model state that is consistent with the observations so far: two orders of a
`run` may look the same now (a paused protocol, a reset racing with a finished negotiation) and differ later. -/
structure State where
  ds : List DState := []

def init : State := {}

/-! ### transitions of `run` -/

inductive Ev
  | lab (l : TLabel)
  deriving DecidableEq, Repr

def firstUntaken (rs : List RStream) : Option Nat := rs.findIdx? fun r => !r.taken

def subNegotiating (d : DState) (k : Nat) : Bool :=
  match d.t.subs[k]? with
  | some x => x.stage == .negotiating
  | none => false

def subStage (d : DState) (k : Nat) : Option Stage := (d.t.subs[k]?).map (·.stage)

def subPending (d : DState) (k : Nat) : Bool :=
  match d.t.subs[k]? with
  | some x => x.stage.pending
  | none => false

/-- The request id the adapter gave to the outbound table entry `k`: `1000 + n` for the n-th accepted request
(commands are taken in FIFO order, so the n-th outbound entry of the table). -/
def sidOf (d : DState) (k : Nat) : Nat := 1000 + ((d.t.subs.take k).filter fun x => !x.inbound).length

/-- Outbound yamux streams waiting for the remote's acknowledgement: a remote that stalls never writes. -/
def ackBacklog (d : DState) : Nat :=
  (d.outAns.filter fun (k, p) => p == .stall && subStage d k == some .negotiating).length

def firstOpening (d : DState) : Option Nat := d.t.subs.findIdx? fun x => x.stage == .opening

def enabled (d : DState) : List TLabel :=
  -- before the accept future has resolved there is no loop to poll
  if d.t.running = false || d.phase != .up then [] else
  -- once the remote has gone away yamux may report the end before it has handed out every stream it read
  let acc := (match firstUntaken d.rstreams with
    | some _ => [TLabel.accept]
    | none => []) ++ (if d.remoteClosed then [TLabel.yamuxEof] else [])
  let inb := d.rstreams.flatMap fun r =>
    match r.sub with
    | none => []
    | some k =>
      if !subNegotiating d k then [] else
      let ok := match r.proposal with
        | some (some (j, f)) => if j < d.n then [if f = 0 then TLabel.negOk k j else TLabel.negOkFb k j f] else []
        | _ => []
      if r.reset then ok ++ [TLabel.negFail k] else ok
  let out := if d.remoteClosed then [] else d.outAns.flatMap fun (k, p) =>
    if !subNegotiating d k then [] else
    match p, d.t.subs[k]? with
    | .accept, some x => match x.proto with
      | some i => [TLabel.negOk k i]
      | none => []
    -- the remote only knows the first fallback name of every protocol
    | .fallback, some x => match x.proto with
      | some i => if 0 < d.fbs.getD i 0 then [TLabel.negOkFb k i 1] else [TLabel.negFail k]
      | none => []
    | .refuse, _ => [TLabel.negFail k]
    | _, _ => []
  let cmd := if d.t.cmdQ.isEmpty then [] else [TLabel.takeCmd]
  let idle := if d.t.idleEnabled then [TLabel.idleExit] else []
  -- `Control::open_stream()` returns (FIFO) unless too many streams wait for an acknowledgement
  let opn := if d.remoteClosed then [] else match firstOpening d with
    | some k => if ackBacklog d < Consts.YAMUX_MAX_ACK_BACKLOG then [TLabel.yamuxOpened k] else []
    | none => []
  acc ++ inb ++ out ++ cmd ++ opn ++ idle

/-- Transitions that commute with every other one and are invisible: taking an open request out of the command
channel and the yamux stream of a request having been opened. When nothing else is enabled they are fired in a fixed
order instead of in every order (a burst of requests). -/
def internal (d : DState) : TLabel → Bool
  | .yamuxOpened _ => true
  | .takeCmd => match d.t.cmdQ with
    | .openSub _ :: _ => true
    | _ => false
  | _ => false

/-- Transitions that MAY fire: `tokio::time::timeout(open_timeout, ..)` around every negotiation, in a connection
whose `substream_open_timeout` was made small (`sot=`). -/
def enabledOpt (d : DState) (scripted : Bool) : List TLabel :=
  if d.t.running = false || d.phase != .up || !d.timeouts then [] else
  (List.range d.t.subs.length).filterMap fun k =>
    match d.t.subs[k]? with
    | none => none
    | some x =>
      if !x.stage.pending then none else
      match x.inbound, x.proto with
      | false, some i =>
        -- the failure of an outbound request is reported: if the protocol is listening, the implementation's
        -- observation says which requests failed during this operation (`scripted`; answers are compared up to
        -- their order, so the lowest id goes first)
        if d.paused.getD i false then (if scripted then none else some (TLabel.negFail k))
        else if scripted && (d.script.getD i []).min? == some (sidOf d k) then some (TLabel.negFail k) else none
      | _, _ => if scripted then none else some (TLabel.negFail k)

def pushInq (inq : List (List Nat)) (p k : Nat) : List (List Nat) :=
  match inq[p]? with
  | some q => inq.set p (q ++ [k])
  | none => inq

def apply (d : DState) (l : TLabel) : DState :=
  let d' := dstep d l
  let t' := d'.t
  let d := { d with phase := d'.phase }
  match l with
  | .accept =>
    match firstUntaken d.rstreams with
    | some i =>
      let sub := if t'.subs.length > d.t.subs.length then some d.t.subs.length else none
      { d with t := t', rstreams := d.rstreams.modify i fun r => { r with taken := true, sub := sub } }
    | none => { d with t := t' }
  | .yamuxOpened k =>
    if subStage d k == some .opening then { d with t := t', outAns := d.outAns ++ [(k, d.policy)] } else { d with t := t' }
  | .negOk k p =>
    let delivered : Bool := match t'.subs[k]? with
      | some x => x.stage == .queued
      | none => false
    { d with t := t', inq := if delivered then pushInq d.inq p k else d.inq }
  | .negOkFb k p f =>
    let delivered : Bool := match t'.subs[k]? with
      | some x => x.stage == .queued
      | none => false
    { d with t := t', inq := if delivered then pushInq d.inq p k else d.inq, fbOf := d.fbOf ++ [(k, f)] }
  | .negFail k =>
    match d.t.subs[k]? with
    | some x =>
      match x.inbound, x.proto with
      | false, some i =>
        if !subPending d k || d.t.running = false then { d with t := t' } else
        -- the failure message is in the channel (or being sent) unless the protocol has shut down
        let sid := sidOf d k
        let xq := if protoAlive d.t i then pushInq d.xq i sid else d.xq
        let script := d.script.modify i (·.erase sid)
        { d with t := t', xq := xq, script := script }
      | _, _ => { d with t := t' }
    | none => { d with t := t' }
  | _ => { d with t := t' }

def stageStr : Stage → String
  | .opening => "o" | .negotiating => "n" | .queued => "q" | .held => "h" | .heldHalf => "H" | .gone => "g"

def subStr (d : DState) (k : Option Nat) : String :=
  match k.bind (d.t.subs[·]?) with
  | some x => stageStr x.stage ++ (match x.proto with | some p => toString p | none => "_")
  | none => "-"

/-- How the adapter prints the `SubstreamOpened` event of table entry `k`. -/
def openedStr (d : DState) (k : Nat) : String :=
  let base := match d.t.subs[k]? with
    | some x => if x.inbound then "Oi" else s!"Oo{sidOf d k}"
    | none => "O?"
  match d.fbOf.lookup k with
  | some f => base ++ s!".f{f}"
  | none => base

/-- The messages in protocol `i`'s channel as they will be observed (`SubstreamOpened` through `inq`: the order of two
substreams negotiated under different names, or with different ids, is part of the state). -/
def queueLetters (d : DState) (i : Nat) : List String :=
  match d.t.loop.ps.chans[i]? with
  | none => []
  | some c =>
    if c.alive = false then ["x"] else
    (c.queue.foldl (fun (acc : List String × List Nat) m =>
      match m with
      | .substreamOpened =>
        match acc.2 with
        | k :: rest => (acc.1 ++ [openedStr d k], rest)
        | [] => (acc.1 ++ ["O?"], [])
      | .established => (acc.1 ++ ["E"], acc.2)
      | .closed => (acc.1 ++ ["C"], acc.2)
      | .openFailure => (acc.1 ++ ["X"], acc.2)
      | .filler => (acc.1 ++ ["F"], acc.2)) ([], d.inq.getD i [])).1

/-- Everything the future observations depend on. Two orders of the same transitions differ in the ghost log
and in the positions of the substreams in the table, not in this key; exploring one of them is enough. -/
def key (d : DState) : String :=
  let l := d.t.loop
  let ex := match l.exited with | none => "r" | some .ok => "o" | some .err => "e"
  let co := match l.cont with
    | none => "-" | some .closeThenExit => "c" | some .substreamReport => "s" | some .errorExitReport => "x"
  let hs := String.join (d.t.handles.map fun h => match h with | .dropped => "d" | .inactive => "i" | .active => "a")
  let cq := String.join (d.t.cmdQ.map fun c => match c with | .openSub i => s!"o{i}" | .forceClose => "f")
  let rs := joinWith ";" (d.rstreams.map fun r =>
    (match r.proposal with | none => "h" | some none => "u" | some (some (j, f)) => s!"{j}.{f}") ++
    (if r.taken then "t" else "w") ++ (if r.reset then "r" else "") ++ subStr d r.sub)
  let os := joinWith ";" (d.outAns.map fun (k, p) =>
    (match p with | .accept => "a" | .refuse => "r" | .stall => "s" | .fallback => "f") ++ subStr d (some k))
  let qs := joinWith ";" ((List.range d.n).map fun i => canonField (joinWith "," (queueLetters d i)))
  let mg := (if l.ps.mgr.alive then toString l.ps.mgr.queue.length else "x") ++
    (match l.ps.call with
      | .idle => "i"
      | .protoSends _ w e => "p" ++ joinWith "," (w.map toString) ++ (if e then "e" else "")
      | .mgrSend e => if e then "me" else "m"
      | .result _ ok => if ok then "r" else "f") ++
    (match d.phase with | .parked => "P" | .notifying => "N" | .failed => "F" | .up => "U") ++
    (if d.probe then "b" else "") ++
    String.join (d.t.subs.map fun x => stageStr x.stage ++ (match x.proto with | some p => toString p | none => "_"))
  let srt := fun (q : List Nat) => (q.toArray.qsort (fun a b => a < b)).toList
  let xs := joinWith ";" (d.xq.map fun q => joinWith "," ((srt q).map toString))
  let sc := joinWith ";" (d.script.map fun q => joinWith "," ((srt q).map toString))
  let fb := joinWith "," (((d.fbOf.map fun (k, f) => k * 4 + f).toArray.qsort (fun a b => a < b)).toList.map toString)
  ex ++ co ++ s!"|{d.t.accepted}|" ++ hs ++ "|" ++ cq ++ "|" ++ rs ++ "|" ++ os ++ "|" ++ qs ++ "|" ++ mg ++
    (if l.ps.closedReported then "|R" else "|") ++ "|" ++ xs ++ "|" ++ sc ++ "|" ++ fb

/-- Every state (up to `key`) reachable by firing enabled transitions until none is enabled. -/
partial def exploreK (work : List DState) (seen : Std.HashSet String) (finals : List DState) : List DState :=
  match work with
  | [] => finals
  | d :: rest =>
    let k := key d
    if seen.contains k then exploreK rest seen finals else
    let evs := enabled d
    match evs with
    | e :: _ =>
      -- only invisible, commuting transitions are enabled: one order is enough (timeouts can wait, they commute too)
      if evs.all (internal d) then exploreK (apply d e :: rest) (seen.insert k) finals
      else exploreK ((evs ++ enabledOpt d true ++ enabledOpt d false).map (apply d) ++ rest) (seen.insert k) finals
    | [] =>
      let scr := enabledOpt d true
      -- a failure the implementation reported during this operation is still to come: not the end of the operation
      if !scr.isEmpty then exploreK ((scr ++ enabledOpt d false).map (apply d) ++ rest) (seen.insert k) finals
      else exploreK ((enabledOpt d false).map (apply d) ++ rest) (seen.insert k) (finals ++ [d])

def explore (work : List DState) (_seen _finals : List DState) : List DState := exploreK work {} []

/-! ### draining and the observation -/

def letter : Msg → String
  | .established => "E" | .closed => "C" | .substreamOpened => "O" | .openFailure => "X" | .filler => "F"

/-- Protocol `i` takes everything in its channel. -/
def drainProto (fuel : Nat) (d : DState) (i : Nat) (acc : List String) : DState × List String :=
  match fuel with
  | 0 => (d, acc)
  | fuel + 1 =>
    match d.t.loop.ps.chans[i]? with
    | none => (d, acc)
    | some c =>
      if c.alive = false then (d, acc) else
      match c.queue.head? with
      | none => (d, acc)
      | some m =>
        let (l, inq, xq) := match m with
          | .substreamOpened =>
            match (d.inq[i]?).bind List.head? with
            | some k => (openedStr d k, d.inq.modify i List.tail, d.xq)
            | none => ("O?", d.inq, d.xq)
          | .openFailure =>
            match (d.xq[i]?).bind List.head? with
            | some sid => (s!"X{sid}", d.inq, d.xq.modify i List.tail)
            | none => ("X?", d.inq, d.xq)
          | m => (letter m, d.inq, d.xq)
        let d' := dstep { d with inq := inq, xq := xq } (.recv i)
        drainProto fuel { d' with probe := d'.probe || m == .established } i (acc ++ [l])

def drainMgr (fuel : Nat) (d : DState) (acc : List String) : DState × List String :=
  match fuel with
  | 0 => (d, acc)
  | fuel + 1 =>
    if d.t.loop.ps.mgr.alive = false then (d, acc) else
    match d.t.loop.ps.mgr.queue.head? with
    | none => (d, acc)
    | some m => drainMgr fuel (dstep d .recvMgr) (acc ++ [letter m])

def showList (l : List String) : String := if l.isEmpty then "-" else joinWith "," l

/-- What the protocols and the manager took during an operation (`none` = receiver gone). -/
structure Got where
  ps : List (Option (List String))
  m : List String

def Got.isEmpty (g : Got) : Bool := g.m.isEmpty && g.ps.all fun p => match p with
  | some l => l.isEmpty
  | none => true

def Got.append (a b : Got) : Got :=
  { ps := (List.range (max a.ps.length b.ps.length)).map (fun i =>
      match a.ps.getD i none, b.ps.getD i none with
      | none, _ => none
      | _, none => none
      | some x, some y => some (x ++ y)),
    m := a.m ++ b.m }

/-- Everybody who is not paused takes what is in its channel — what IS in it when the draining starts: a send that was
waiting for room gets the freed slot at once (`envStep`'s `progress`: nobody else can take it), but its message is in the
channel only once the sender has been polled again, which the adapter does after the draining (f-round: with the loop
suspended in `report_substream_open` and everything else of the connection released, the loop goes on — and accepts a
waiting remote substream on the permit inside the queued event — BEFORE the protocol takes that event). -/
def drainAll (d : DState) : DState × Got :=
  let lens := (List.range d.n).map fun i => match d.t.loop.ps.chans[i]? with
    | some c => c.queue.length
    | none => 0
  let mlen := d.t.loop.ps.mgr.queue.length
  let (d, parts) := (List.range d.n).foldl (fun (acc : DState × List (Option (List String))) i =>
    let alive := match acc.1.t.loop.ps.chans[i]? with
      | some c => c.alive
      | none => false
    if !alive then (acc.1, acc.2 ++ [none]) else
    if acc.1.paused.getD i false then (acc.1, acc.2 ++ [some []]) else
    let (d', ms) := drainProto (lens.getD i 0) acc.1 i []
    (d', acc.2 ++ [some ms])) (d, [])
  let (d, mm) := if d.pausedM then (d, []) else drainMgr mlen d []
  (d, { ps := parts, m := mm })

def render (d : DState) (ret : String) (g : Got) : String :=
  let st :=
    if d.via then
      match d.phase with
      | .parked => "parked"
      | .notifying => "accepting"
      | .failed => "failed"
      | .up => if d.t.loop.exited.isSome then "end" else "run"
    else match d.t.loop.exited with
      | none => "run"
      | some .ok => "ok"
      | some .err => "err"
  let strong :=
    if d.t.loop.exited.isSome || d.phase != .up || !d.probe then "-" else if 0 < d.t.strong then "y" else "n"
  let parts := (List.range d.n).map fun i =>
    s!" p{i}=" ++ (match g.ps.getD i none with
      | none => "x"
      | some l => showList l)
  ret ++ " loop=" ++ st ++ s!" acc={d.t.accepted}" ++ " strong=" ++ strong ++ String.join parts ++
    " m=" ++ showList g.m

/-- Drain (unless paused) and print. -/
def observe (d : DState) (ret : String) : DState × String :=
  let (d, g) := drainAll d
  (d, render d ret g)

structure Opts where
  cap : Nat := 64
  mcap : Nat := 64
  timeouts : Bool := false
  via : Bool := false
  fbs : List Nat := []

def freshConnO (ka : List Bool) (policy : Policy) (o : Opts) : DState :=
  let t0 := if o.via then (ainit ka o.cap o.mcap).t else tinit ka o.cap
  let t0 := { t0 with loop := { t0.loop with ps := { t0.loop.ps with mgr := { cap := o.mcap } } } }
  { t := t0, n := ka.length, policy := policy, paused := List.replicate ka.length false,
    inq := List.replicate ka.length [], via := o.via, phase := if o.via then .parked else .up,
    timeouts := o.timeouts, xq := List.replicate ka.length [], script := List.replicate ka.length [],
    fbs := (List.range ka.length).map fun i => o.fbs.getD i 0 }

def freshConn (ka : List Bool) (policy : Policy) : DState := freshConnO ka policy {}

/-- `run`-like: explore to quiescence, drain, repeat while something was taken. Every outcome. -/
def gotKey (g : Got) : String :=
  joinWith ";" (g.ps.map fun p => match p with
    | some l => canonField (joinWith "," l)
    | none => "x") ++ "#" ++ joinWith "," g.m

/-- One round for every candidate: explore to quiescence, drain. Candidates that agree on the state (`key`) and on
what has been observed so far (up to the order of answers) are one candidate. -/
partial def runRounds (cur : List (DState × Got)) (done : List (DState × Got)) : List (DState × Got) :=
  if cur.isEmpty then done else
  let step := cur.flatMap fun (d, acc) => (explore [d] [] []).map fun f =>
    let (f', g) := drainAll f
    (f', acc.append g, g.isEmpty)
  let (uniq, _) := step.foldl (fun (a : Array (DState × Got × Bool) × Std.HashSet String) x =>
    let k := key x.1 ++ "#" ++ gotKey x.2.1
    if a.2.contains k then a else (a.1.push x, a.2.insert k)) (#[], {})
  let l := uniq.toList
  runRounds ((l.filter fun x => !x.2.2).map fun x => (x.1, x.2.1)) (done ++ (l.filter fun x => x.2.2).map fun x => (x.1, x.2.1))

partial def runLike (d : DState) (acc : Got) : List (DState × Got) := runRounds [(d, acc)] []

def emptyGot (d : DState) : Got :=
  { ps := (List.range d.n).map fun i => match d.t.loop.ps.chans[i]? with
      | some c => if c.alive then some [] else none
      | none => none,
    m := [] }

def runLikeObs (ds : List DState) (ret : String) : List (DState × String) :=
  ds.flatMap fun d => (runLike d (emptyGot d)).map fun (f, g) => (f, render f ret g)

def heldCount (d : DState) (i : Nat) : Nat :=
  (d.t.subs.filter fun x => x.proto == some i && (x.stage == .held || x.stage == .heldHalf)).length

/-- `x` | `<j>` | `<j>.f<k>`: `none` = unparseable, `some none` = a name no installed protocol has. -/
def nameTok (d : DState) (s : String) : Option (Option (Nat × Nat)) :=
  if s = "x" then some none else
  let (js, fs) := match s.splitOn ".f" with
    | [j, f] => (j, some f)
    | _ => (s, none)
  match js.toNat?, fs with
  | some j, none => if j < 4 then some (if j < d.n then some (j, 0) else none) else none
  | some j, some f =>
    match f.toNat? with
    | some f =>
      if j < 4 && 1 ≤ f && f ≤ 2 then some (if j < d.n && f ≤ d.fbs.getD j 0 then some (j, f) else none) else none
    | none => none
  | none, _ => none

def handleOf (d : DState) (i : Nat) : HandleSt := d.t.handles.getD i .dropped

/-- The outcomes of the race arrangement (`arrange_race`): `loop/acc/p0/m`. -/
def raceOutcomes : List String :=
  let d0 := (observe (freshConn [true] .accept) "").1
  let d1 := { d0 with rstreams := [{}] }
  let d2 := dstep d1 (.downgrade 0)
  (explore [d2] [] []).map fun d =>
    let o := (observe d "").2
    let ts := tokens o
    let f := fun (k : String) => (arg? k ts).getD "?"
    f "loop" ++ "/acc" ++ f "acc" ++ "/p" ++ f "p0" ++ "/m" ++ f "m"

def checkRace (k : Nat) (impl : String) : String :=
  let allowed := raceOutcomes
  let toks := tokens impl
  let parsed := toks.map fun t => match t.splitOn "*" with
    | [o, c] => (o, c.toNat?)
    | _ => (t, none)
  let total := parsed.foldl (fun a p => a + p.2.getD 0) 0
  if !toks.isEmpty && parsed.all (fun p => allowed.contains p.1 && p.2.isSome) && total = k then impl
  else "each-of:" ++ joinWith "|" allowed ++ s!" total={k}"

/-- `try_get_permit` + `open_substream` by protocol `i`. -/
def localOpen (d : DState) (i : Nat) : DState × String :=
  if handleOf d i = .dropped then (d, "none") else
  if !(canSend d.t i && d.t.loop.exited.isNone) then (d, "closed")
  else if !d.t.cmdRoom then (d, "clogged")
  else (dstep d (.localOpen i), "ok")

/-- `n` requests in a row, stopping at the first one that is not accepted: new state, accepted, last answer. -/
def burst : Nat → DState → Nat → Nat → DState × Nat × String
  | 0, d, _, acc => (d, acc, "ok")
  | n + 1, d, i, acc =>
    match localOpen d i with
    | (d', "ok") => burst n d' i (acc + 1)
    | (d', r) => (d', acc, r)

/-- One deterministic operation on one candidate: `none` = unparseable. -/
def opOn (d : DState) (ts : List String) : Option (DState × String) :=
  let fin := fun (d : DState) (ret : String) => some (observe d ret)
  let idx := fun (s : String) => (s.toNat?).filter (· < d.n)
  match ts with
  | ["downgrade", i] =>
    match idx i with
    | none => none
    | some i =>
      if handleOf d i = .dropped then fin d "none" else fin (dstep d (.downgrade i)) "ok"
  | ["upgrade", i] =>
    match idx i with
    | none => none
    | some i =>
      if handleOf d i = .dropped then fin d "none" else
      let d' := (dstep d (.upgrade i))
      fin d' (if handleOf d' i = .active then "active" else "inactive")
  | ["drop_handle", i] =>
    match idx i with
    | none => none
    | some i =>
      if handleOf d i = .dropped then fin d "none" else fin (dstep d (.dropHandle i)) "ok"
  | ["local_open", i] =>
    match idx i with
    | none => none
    | some i =>
      fin (localOpen d i).1 (localOpen d i).2
  | ["burst", i, k] =>
    match idx i, (k.toNat?).filter (fun k => 1 ≤ k && k ≤ 600) with
    | some i, some k =>
      let (d', acc, last) := burst k d i 0
      fin d' (if last = "ok" then s!"ok{acc}" else s!"ok{acc},{last}")
    | _, _ => none
  | ["force_close", i] =>
    match idx i with
    | none => none
    | some i =>
      if handleOf d i = .dropped then fin d "none" else
      if !(canSend d.t i && d.t.loop.exited.isNone) then fin d "closed"
      else if !d.t.cmdRoom then fin d "clogged"
      else fin (dstep d (.forceClose i)) "ok"
  | ["remote_open", name, how] =>
    match nameTok d name, (how = "hdr" || how = "full") with
    | some p, true =>
      if d.remoteClosed then fin d "none" else
      let r : RStream := { proposal := if how = "full" then some p else none }
      fin { d with rstreams := d.rstreams ++ [r] } s!"s{d.rstreams.length}"
    | _, _ => none
  | ["remote_continue", k, name] =>
    match k.toNat?, nameTok d name with
    | some k, some p =>
      match d.rstreams[k]? with
      | some r =>
        if r.reset || d.remoteClosed then fin d "none" else
        -- a listener that answered `na` (or saw only the header) keeps waiting for a proposal
        let r' := match r.proposal with
          | some (some _) => r
          | _ => { r with proposal := some p }
        fin { d with rstreams := d.rstreams.set k r' } "ok"
      | none => fin d "none"
    | _, _ => none
  | ["remote_reset", k] =>
    match k.toNat? with
    | some k =>
      match d.rstreams[k]? with
      | some r =>
        if r.reset || d.remoteClosed then fin d "none" else
        fin { d with rstreams := d.rstreams.set k { r with reset := true } } "ok"
      | none => fin d "none"
    | none => none
  | ["remote_close"] =>
    if d.remoteClosed then fin d "none" else fin { d with remoteClosed := true } "ok"
  | ["remote_goaway"] =>
    if d.remoteClosed then fin d "none" else fin { d with remoteClosed := true } "ok"
  | ["remote_policy", p] =>
    match p with
    | "accept" => fin { d with policy := .accept } "ok"
    | "refuse" => fin { d with policy := .refuse } "ok"
    | "stall" => fin { d with policy := .stall } "ok"
    | "fallback" => fin { d with policy := .fallback } "ok"
    | _ => none
  | ["drop_sub", i] =>
    match idx i with
    | none => none
    | some i =>
      if 0 < heldCount d i then fin (dstep d (.dropSub i)) "ok" else fin d "none"
  | ["pause", "m"] => fin { d with pausedM := true } "ok"
  | ["pause", i] =>
    match idx i with
    | none => none
    | some i => fin { d with paused := d.paused.set i true } "ok"
  | ["fill", "m"] =>
    let c := d.t.loop.ps.mgr
    if c.alive && !waitingOnMgr d.t.loop.ps && c.queue.length < c.cap then fin (dstep d .fillMgr) "ok"
    else fin d "full"
  | ["fill", i] =>
    match idx i with
    | none => none
    | some i =>
      match d.t.loop.ps.chans[i]? with
      | some c =>
        if c.alive && !waitingOn d.t.loop.ps i && c.queue.length < c.cap then fin (dstep d (.fill i)) "ok"
        else fin d "full"
      | none => fin d "full"
  | ["remote_send", k] =>
    match k.toNat? with
    | some k =>
      match d.rstreams[k]? with
      | some r =>
        -- data is sent only after a proposal for an installed protocol (anything else would be read as a proposal)
        let proposed := match r.proposal with
          | some (some _) => true
          | _ => false
        if r.reset || d.remoteClosed || !proposed then fin d "none" else fin d "ok"
      | none => fin d "none"
    | none => none
  | _ => none

def dedup (l : List DState) : List DState :=
  (l.foldl (fun (acc : Array DState × Std.HashSet String) d =>
    let k := key d
    if acc.2.contains k then acc else (acc.1.push d, acc.2.insert k)) (#[], {})).1.toList

/-- Keep the candidates whose observation is the implementation's; if there is none, answer with the first
candidate's observation (a disagreement) and go on with all of them. -/
def choose (outs : List (DState × String)) (impl : String) : State × String :=
  let ci := canon impl
  let hit := outs.filter fun x => canon x.2 = ci
  if !hit.isEmpty then ({ ds := dedup (hit.map (·.1)) }, impl)
  else match outs.head? with
    | some (_, o) => ({ ds := dedup (outs.map (·.1)) }, o)
    | none => ({ ds := [] }, "bad-op")

def natArg (args : List String) (k : String) (lo hi dflt : Nat) : Option Nat :=
  match arg? k args with
  | none => some dflt
  | some v => (v.toNat?).filter fun n => lo ≤ n && n ≤ hi

/-- `fb=<i>:<k>,..` (every `fb=` argument): fallback names per protocol; `none` = malformed. -/
def fbArg (n : Nat) (args : List String) : Option (List Nat) :=
  let parts := (args.filter (·.startsWith "fb=")).flatMap fun a => (a.drop 3).toString.splitOn ","
  parts.foldl (fun acc part =>
    match acc, part.splitOn ":" with
    | some l, [i, k] =>
      match i.toNat?, k.toNat? with
      | some i, some k => if i < n && 1 ≤ k && k ≤ 2 then some (l.set i k) else none
      | _, _ => none
    | _, _ => none) (some (List.replicate 4 0))

/-- The ids of the open failures the implementation reported to each protocol during this operation. -/
def scriptOf (n : Nat) (impl : String) : List (List Nat) :=
  let ts := tokens impl
  (List.range n).map fun i =>
    match arg? s!"p{i}" ts with
    | some v => (v.splitOn ",").filterMap fun m => if m.startsWith "X" then (m.drop 1).toString.toNat? else none
    | none => []

def step (st : State) (line : String) : State × String :=
  let (line, impl) := match line.splitOn " -> " with
    | [l, o] => (l, o)
    | _ => (line, "")
  let ts := tokens line
  -- checker mode: what the implementation reported tells which outbound requests timed out (`sot=`)
  let st : State := { ds := st.ds.map fun d => { d with script := if d.timeouts then scriptOf d.n impl else d.script } }
  let idxOf := fun (d : DState) (s : String) => (s.toNat?).filter (· < d.n)
  match ts with
  | "conn" :: args =>
    if !st.ds.isEmpty then (st, "bad-op") else
    let kas := (arg? "ka" args).getD ""
    let pol := match arg? "remote" args with
      | none => some Policy.accept
      | some "accept" => some .accept
      | some "refuse" => some .refuse
      | some "stall" => some .stall
      | some "fallback" => some .fallback
      | _ => none
    let okArgs := args.all fun a => a.startsWith "ka=" || a.startsWith "remote=" || a.startsWith "cap=" ||
      a.startsWith "mcap=" || a.startsWith "sot=" || a = "via=accept" || a.startsWith "fb="
    if !okArgs || kas.isEmpty || kas.length > 4 || !(kas.toList.all fun c => c = 'Y' || c = 'N') then (st, "bad-op") else
    match pol, natArg args "cap" 1 64 64, natArg args "mcap" 1 64 64, natArg args "sot" 100 3600000 3600000,
        fbArg kas.length args with
    | some pol, some cap, some mcap, some _, some fbs =>
      if impl = "inconclusive" then (st, "inconclusive") else
      let o : Opts := { cap := cap, mcap := mcap, timeouts := (arg? "sot" args).isSome,
                        via := args.contains "via=accept", fbs := fbs }
      let (d, o) := observe (freshConnO (kas.toList.map (· = 'Y')) pol o) "ok"
      ({ ds := [d] }, o)
    | _, _, _, _, _ => (st, "bad-op")
  | ["arrange_race", k] =>
    match k.toNat? with
    | some k => if k ≤ 256 then (st, checkRace k impl) else (st, "bad-op")
    | none => (st, "bad-op")
  | ["run"] =>
    if st.ds.isEmpty then (st, "bad-op") else choose (runLikeObs st.ds "ok") impl
  | ["sleep", ms] =>
    if st.ds.isEmpty then (st, "bad-op") else
    match ms.toNat? with
    | some ms => if ms ≤ 10000 then choose (runLikeObs st.ds "ok") impl else (st, "bad-op")
    | none => (st, "bad-op")
  | ["accept"] =>
    if st.ds.isEmpty then (st, "bad-op") else
    choose (st.ds.flatMap fun d =>
      if d.via && d.phase = .parked then runLikeObs [dstepA d .call] "ok" else [observe d "none"]) impl
  | ["resume", "m"] =>
    if st.ds.isEmpty then (st, "bad-op") else
    choose (runLikeObs (st.ds.map fun d => { d with pausedM := false }) "ok") impl
  | ["resume", i] =>
    if st.ds.isEmpty then (st, "bad-op") else
    match st.ds.head?.bind (idxOf · i) with
    | none => (st, "bad-op")
    | some i => choose (runLikeObs (st.ds.map fun d => { d with paused := d.paused.set i false }) "ok") impl
  | ["drop_rx", i] =>
    if st.ds.isEmpty then (st, "bad-op") else
    match st.ds.head?.bind (idxOf · i) with
    | none => (st, "bad-op")
    | some i =>
      choose (st.ds.flatMap fun d =>
        if protoAlive d.t i then runLikeObs [dstep { d with inq := d.inq.set i [] } (.dropRx i)] "ok"
        else [observe d "none"]) impl
  | ["half_close", i] =>
    if st.ds.isEmpty then (st, "bad-op") else
    match st.ds.head?.bind (idxOf · i) with
    | none => (st, "bad-op")
    | some i =>
      -- whether yamux takes the close command is not the model's business: any answer, same state
      choose (st.ds.flatMap fun d =>
        if 0 < heldCount d i then
          let d' := dstep d (.halfClose i)
          ["ok", "err", "pending"].map fun r => observe d' r
        else [observe d "none"]) impl
  | ["read_sub", i] =>
    if st.ds.isEmpty then (st, "bad-op") else
    match st.ds.head?.bind (idxOf · i) with
    | none => (st, "bad-op")
    | some i =>
      -- what the remote has sent on the substream is outside the model: any answer, same state
      choose (st.ds.flatMap fun d =>
        if 0 < heldCount d i then ["pending", "data", "eof", "err"].map fun r => observe d r
        else [observe d "none"]) impl
  | _ =>
    if st.ds.isEmpty then (st, "bad-op") else
    let outs := st.ds.filterMap fun d => opOn d ts
    if outs.isEmpty then (st, "bad-op") else choose outs impl

end Litep2pVerif.Driver.Tcploop
