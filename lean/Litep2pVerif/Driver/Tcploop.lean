import Litep2pVerif.Common.Parse
import Litep2pVerif.Model.Conn.Permits
/-! Line-protocol driver for the `tcploop` area: `Model/Conn/Permits.lean` against the real
`TcpConnection::start` loop (adapter `src/verif/tcploop.rs`).

`run` lets the loop go to quiescence. Which ready branch `tokio::select!` takes is its RNG's choice, so
the driver explores EVERY order of the enabled transitions and works in checker mode: the
implementation's observation is accepted iff some order produces it (otherwise the driver prints what
the first order produces). All other operations are deterministic. -/
namespace Litep2pVerif.Driver.Tcploop
open Litep2pVerif Litep2pVerif.Conn Parse

inductive Policy | accept | refuse | stall
  deriving DecidableEq, Repr

/-- A substream opened by the remote. `proposal`: `none` = only the multistream header was sent,
`some none` = an unknown protocol was proposed, `some (some j)` = protocol `j`. -/
structure RStream where
  proposal : Option (Option Nat) := none
  taken : Bool := false
  sub : Option Nat := none
  reset : Bool := false
  deriving DecidableEq, Repr

structure DState where
  t : TLoop
  n : Nat
  rstreams : List RStream := []
  policy : Policy := .accept
  /-- answers of the remote to substreams opened by the local end: table index ↦ policy -/
  outAns : List (Nat × Policy) := []
  paused : List Bool := []
  remoteClosed : Bool := false
  /-- per protocol, table indices of the `SubstreamOpened` messages in its channel, in order -/
  inq : List (List Nat) := []
  deriving DecidableEq, Repr

/-- Checker mode keeps EVERY model state that is consistent with the observations so far: two orders of a
`run` may look the same now (a paused protocol, a reset racing with a finished negotiation) and differ later. -/
structure State where
  ds : List DState := []

def init : State := {}

/-! ### transitions of `run` -/

inductive Ev
  | lab (l : TLabel)
  deriving DecidableEq, Repr

def firstUntaken (rs : List RStream) : Option Nat := rs.findIdx? fun r => !r.taken

def subNegotiating (d : DState) (k : Nat) : Bool :=
  match d.t.subs[k]? with
  | some x => x.stage == .negotiating
  | none => false

def enabled (d : DState) : List TLabel :=
  if d.t.running = false then [] else
  -- once the remote has gone away yamux may report the end before it has handed out every stream it read
  let acc := (match firstUntaken d.rstreams with
    | some _ => [TLabel.accept]
    | none => []) ++ (if d.remoteClosed then [TLabel.yamuxEof] else [])
  let inb := d.rstreams.flatMap fun r =>
    match r.sub with
    | none => []
    | some k =>
      if !subNegotiating d k then [] else
      let ok := match r.proposal with
        | some (some j) => if j < d.n then [TLabel.negOk k j] else []
        | _ => []
      if r.reset then ok ++ [TLabel.negFail k] else ok
  let out := if d.remoteClosed then [] else d.outAns.flatMap fun (k, p) =>
    if !subNegotiating d k then [] else
    match p, d.t.subs[k]? with
    | .accept, some x => match x.proto with
      | some i => [TLabel.negOk k i]
      | none => []
    | .refuse, _ => [TLabel.negFail k]
    | _, _ => []
  let cmd := if d.t.cmdQ.isEmpty then [] else [TLabel.takeCmd]
  let idle := if d.t.idleEnabled then [TLabel.idleExit] else []
  acc ++ inb ++ out ++ cmd ++ idle

def pushInq (inq : List (List Nat)) (p k : Nat) : List (List Nat) :=
  match inq[p]? with
  | some q => inq.set p (q ++ [k])
  | none => inq

def apply (d : DState) (l : TLabel) : DState :=
  let t' := tstep d.t l
  match l with
  | .accept =>
    match firstUntaken d.rstreams with
    | some i =>
      let sub := if t'.subs.length > d.t.subs.length then some d.t.subs.length else none
      { d with t := t', rstreams := d.rstreams.modify i fun r => { r with taken := true, sub := sub } }
    | none => { d with t := t' }
  | .takeCmd =>
    match d.t.cmdQ with
    | .openSub _ :: _ => { d with t := t', outAns := d.outAns ++ [(d.t.subs.length, d.policy)] }
    | _ => { d with t := t' }
  | .negOk k p =>
    let delivered : Bool := match t'.subs[k]? with
      | some x => x.stage == .queued
      | none => false
    { d with t := t', inq := if delivered then pushInq d.inq p k else d.inq }
  | _ => { d with t := t' }

def stageStr : Stage → String
  | .negotiating => "n" | .queued => "q" | .held => "h" | .gone => "g"

def subStr (d : DState) (k : Option Nat) : String :=
  match k.bind (d.t.subs[·]?) with
  | some x => stageStr x.stage ++ (match x.proto with | some p => toString p | none => "_")
  | none => "-"

/-- Letters of the messages in protocol `i`'s channel (`Oi`/`Oo` through `inq`). -/
def queueLetters (d : DState) (i : Nat) : List String :=
  match d.t.loop.ps.chans[i]? with
  | none => []
  | some c =>
    if c.alive = false then ["x"] else
    (c.queue.foldl (fun (acc : List String × List Nat) m =>
      match m with
      | .substreamOpened =>
        match acc.2 with
        | k :: rest => (acc.1 ++ [match d.t.subs[k]? with
            | some x => if x.inbound then "Oi" else "Oo"
            | none => "O?"], rest)
        | [] => (acc.1 ++ ["O?"], [])
      | .established => (acc.1 ++ ["E"], acc.2)
      | .closed => (acc.1 ++ ["C"], acc.2)
      | .openFailure => (acc.1 ++ ["X"], acc.2)
      | .filler => (acc.1 ++ ["F"], acc.2)) ([], d.inq.getD i [])).1

/-- Everything the future observations depend on. Two orders of the same transitions differ in the ghost log
and in the positions of the substreams in the table, not in this key; exploring one of them is enough. -/
def key (d : DState) : String :=
  let l := d.t.loop
  let ex := match l.exited with | none => "r" | some .ok => "o" | some .err => "e"
  let co := match l.cont with
    | none => "-" | some .closeThenExit => "c" | some .substreamReport => "s" | some .errorExitReport => "x"
  let hs := String.join (d.t.handles.map fun h => match h with | .dropped => "d" | .inactive => "i" | .active => "a")
  let cq := String.join (d.t.cmdQ.map fun c => match c with | .openSub i => s!"o{i}" | .forceClose => "f")
  let rs := joinWith ";" (d.rstreams.map fun r =>
    (match r.proposal with | none => "h" | some none => "u" | some (some j) => toString j) ++
    (if r.taken then "t" else "w") ++ (if r.reset then "r" else "") ++ subStr d r.sub)
  let os := joinWith ";" (d.outAns.map fun (k, p) =>
    (match p with | .accept => "a" | .refuse => "r" | .stall => "s") ++ subStr d (some k))
  let qs := joinWith ";" ((List.range d.n).map fun i => joinWith "," (queueLetters d i))
  let mg := if l.ps.mgr.alive then toString l.ps.mgr.queue.length else "x"
  ex ++ co ++ s!"|{d.t.accepted}|" ++ hs ++ "|" ++ cq ++ "|" ++ rs ++ "|" ++ os ++ "|" ++ qs ++ "|" ++ mg ++
    (if l.ps.closedReported then "|R" else "|")

/-- Every state (up to `key`) reachable by firing enabled transitions until none is enabled. -/
partial def exploreK (work : List DState) (seen : List String) (finals : List DState) : List DState :=
  match work with
  | [] => finals
  | d :: rest =>
    let k := key d
    if seen.contains k then exploreK rest seen finals else
    let evs := enabled d
    if evs.isEmpty then exploreK rest (k :: seen) (finals ++ [d])
    else exploreK (evs.map (apply d) ++ rest) (k :: seen) finals

def explore (work : List DState) (_seen _finals : List DState) : List DState := exploreK work [] []

/-! ### draining and the observation -/

def letter : Msg → String
  | .established => "E" | .closed => "C" | .substreamOpened => "O" | .openFailure => "X" | .filler => "F"

/-- Protocol `i` takes everything in its channel. -/
def drainProto (fuel : Nat) (d : DState) (i : Nat) (acc : List String) : DState × List String :=
  match fuel with
  | 0 => (d, acc)
  | fuel + 1 =>
    match d.t.loop.ps.chans[i]? with
    | none => (d, acc)
    | some c =>
      if c.alive = false then (d, acc) else
      match c.queue.head? with
      | none => (d, acc)
      | some m =>
        let (l, inq) := match m with
          | .substreamOpened =>
            match (d.inq[i]?).bind List.head? with
            | some k =>
              let dir := match d.t.subs[k]? with
                | some x => if x.inbound then "Oi" else "Oo"
                | none => "O?"
              (dir, d.inq.modify i List.tail)
            | none => ("O?", d.inq)
          | m => (letter m, d.inq)
        drainProto fuel { d with t := tstep d.t (.recv i), inq := inq } i (acc ++ [l])

def drainMgr (fuel : Nat) (d : DState) (acc : List String) : DState × List String :=
  match fuel with
  | 0 => (d, acc)
  | fuel + 1 =>
    if d.t.loop.ps.mgr.alive = false then (d, acc) else
    match d.t.loop.ps.mgr.queue.head? with
    | none => (d, acc)
    | some m => drainMgr fuel { d with t := tstep d.t .recvMgr } (acc ++ [letter m])

def showList (l : List String) : String := if l.isEmpty then "-" else joinWith "," l

/-- Drain (unless paused) and print. -/
def observe (d : DState) (ret : String) : DState × String :=
  let (d, parts) := (List.range d.n).foldl (fun (acc : DState × List String) i =>
    let alive := match acc.1.t.loop.ps.chans[i]? with
      | some c => c.alive
      | none => false
    if !alive then (acc.1, acc.2 ++ [s!" p{i}=x"]) else
    if acc.1.paused.getD i false then (acc.1, acc.2 ++ [s!" p{i}=-"]) else
    let (d', ms) := drainProto 256 acc.1 i []
    (d', acc.2 ++ [s!" p{i}=" ++ showList ms])) (d, [])
  let (d, mm) := drainMgr 256 d []
  let st := match d.t.loop.exited with
    | none => "run"
    | some .ok => "ok"
    | some .err => "err"
  let strong := if d.t.loop.exited.isSome then "-" else if 0 < d.t.strong then "y" else "n"
  (d, ret ++ " loop=" ++ st ++ s!" acc={d.t.accepted}" ++ " strong=" ++ strong ++ String.join parts ++
    " m=" ++ showList mm)

def freshConn (ka : List Bool) (policy : Policy) : DState :=
  { t := tinit ka 64, n := ka.length, policy := policy, paused := List.replicate ka.length false,
    inq := List.replicate ka.length [] }

def protoTok (n : Nat) (s : String) : Option (Option Nat) :=
  if s = "x" then some none else
  match s.toNat? with
  | some j => if j < 4 then some (if j < n then some j else none) else none
  | none => none

def handleOf (d : DState) (i : Nat) : HandleSt := d.t.handles.getD i .dropped

/-- The outcomes of the race arrangement (`arrange_race`): `loop/acc/p0/m`. -/
def raceOutcomes : List String :=
  let d0 := (observe (freshConn [true] .accept) "").1
  let d1 := { d0 with rstreams := [{}] }
  let d2 := { d1 with t := tstep d1.t (.downgrade 0) }
  (explore [d2] [] []).map fun d =>
    let o := (observe d "").2
    let ts := tokens o
    let f := fun (k : String) => (arg? k ts).getD "?"
    f "loop" ++ "/acc" ++ f "acc" ++ "/p" ++ f "p0" ++ "/m" ++ f "m"

def checkRace (k : Nat) (impl : String) : String :=
  let allowed := raceOutcomes
  let toks := tokens impl
  let parsed := toks.map fun t => match t.splitOn "*" with
    | [o, c] => (o, c.toNat?)
    | _ => (t, none)
  let total := parsed.foldl (fun a p => a + p.2.getD 0) 0
  if !toks.isEmpty && parsed.all (fun p => allowed.contains p.1 && p.2.isSome) && total = k then impl
  else "each-of:" ++ joinWith "|" allowed ++ s!" total={k}"

/-- One deterministic operation on one candidate: `none` = unparseable. -/
def opOn (d : DState) (ts : List String) : Option (DState × String) :=
  let fin := fun (d : DState) (ret : String) => some (observe d ret)
  let idx := fun (s : String) => (s.toNat?).filter (· < d.n)
  match ts with
  | ["downgrade", i] =>
    match idx i with
    | none => none
    | some i =>
      if handleOf d i = .dropped then fin d "none" else fin { d with t := tstep d.t (.downgrade i) } "ok"
  | ["upgrade", i] =>
    match idx i with
    | none => none
    | some i =>
      if handleOf d i = .dropped then fin d "none" else
      let d' := { d with t := tstep d.t (.upgrade i) }
      fin d' (if handleOf d' i = .active then "active" else "inactive")
  | ["drop_handle", i] =>
    match idx i with
    | none => none
    | some i =>
      if handleOf d i = .dropped then fin d "none" else fin { d with t := tstep d.t (.dropHandle i) } "ok"
  | ["local_open", i] =>
    match idx i with
    | none => none
    | some i =>
      if handleOf d i = .dropped then fin d "none" else
      if canSend d.t i && d.t.loop.exited.isNone then fin { d with t := tstep d.t (.localOpen i) } "ok"
      else fin d "closed"
  | ["force_close", i] =>
    match idx i with
    | none => none
    | some i =>
      if handleOf d i = .dropped then fin d "none" else
      if canSend d.t i && d.t.loop.exited.isNone then fin { d with t := tstep d.t (.forceClose i) } "ok"
      else fin d "closed"
  | ["remote_open", name, how] =>
    match protoTok d.n name, (how = "hdr" || how = "full") with
    | some p, true =>
      if d.remoteClosed then fin d "none" else
      let r : RStream := { proposal := if how = "full" then some p else none }
      fin { d with rstreams := d.rstreams ++ [r] } s!"s{d.rstreams.length}"
    | _, _ => none
  | ["remote_continue", k, name] =>
    match k.toNat?, protoTok d.n name with
    | some k, some p =>
      match d.rstreams[k]? with
      | some r =>
        if r.reset || d.remoteClosed then fin d "none" else
        -- a listener that answered `na` (or saw only the header) keeps waiting for a proposal
        let r' := match r.proposal with
          | some (some _) => r
          | _ => { r with proposal := some p }
        fin { d with rstreams := d.rstreams.set k r' } "ok"
      | none => fin d "none"
    | _, _ => none
  | ["remote_reset", k] =>
    match k.toNat? with
    | some k =>
      match d.rstreams[k]? with
      | some r =>
        if r.reset || d.remoteClosed then fin d "none" else
        fin { d with rstreams := d.rstreams.set k { r with reset := true } } "ok"
      | none => fin d "none"
    | none => none
  | ["remote_close"] =>
    if d.remoteClosed then fin d "none" else fin { d with remoteClosed := true } "ok"
  | ["remote_goaway"] =>
    if d.remoteClosed then fin d "none" else fin { d with remoteClosed := true } "ok"
  | ["remote_policy", p] =>
    match p with
    | "accept" => fin { d with policy := .accept } "ok"
    | "refuse" => fin { d with policy := .refuse } "ok"
    | "stall" => fin { d with policy := .stall } "ok"
    | _ => none
  | ["drop_sub", i] =>
    match idx i with
    | none => none
    | some i =>
      match firstAt d.t.subs i .held with
      | some _ => fin { d with t := tstep d.t (.dropSub i) } "ok"
      | none => fin d "none"
  | ["pause", i] =>
    match idx i with
    | none => none
    | some i => fin { d with paused := d.paused.set i true } "ok"
  | ["resume", i] =>
    match idx i with
    | none => none
    | some i => fin { d with paused := d.paused.set i false } "ok"
  | ["drop_rx", i] =>
    match idx i with
    | none => none
    | some i =>
      if protoAlive d.t i then
        fin { d with t := tstep d.t (.dropRx i), inq := d.inq.set i [] } "ok"
      else fin d "none"
  | _ => none

def dedup (l : List DState) : List DState :=
  (l.foldl (fun (acc : List DState × List String) d =>
    let k := key d
    if acc.2.contains k then acc else (acc.1 ++ [d], k :: acc.2)) ([], [])).1

/-- Keep the candidates whose observation is the implementation's; if there is none, answer with the first
candidate's observation (a disagreement) and go on with all of them. -/
def choose (outs : List (DState × String)) (impl : String) : State × String :=
  let hit := outs.filter fun x => x.2 = impl
  if !hit.isEmpty then ({ ds := dedup (hit.map (·.1)) }, impl)
  else match outs.head? with
    | some (_, o) => ({ ds := dedup (outs.map (·.1)) }, o)
    | none => ({ ds := [] }, "bad-op")

def step (st : State) (line : String) : State × String :=
  let (line, impl) := match line.splitOn " -> " with
    | [l, o] => (l, o)
    | _ => (line, "")
  let ts := tokens line
  match ts with
  | "conn" :: args =>
    if !st.ds.isEmpty then (st, "bad-op") else
    let kas := (arg? "ka" args).getD ""
    let pol := match arg? "remote" args with
      | none => some Policy.accept
      | some "accept" => some .accept
      | some "refuse" => some .refuse
      | some "stall" => some .stall
      | _ => none
    let okArgs := args.all fun a => a.startsWith "ka=" || a.startsWith "remote="
    if !okArgs || kas.isEmpty || kas.length > 4 || !(kas.toList.all fun c => c = 'Y' || c = 'N') then (st, "bad-op") else
    match pol with
    | none => (st, "bad-op")
    | some pol =>
      if impl = "inconclusive" then (st, "inconclusive") else
      let (d, o) := observe (freshConn (kas.toList.map (· = 'Y')) pol) "ok"
      ({ ds := [d] }, o)
  | ["arrange_race", k] =>
    match k.toNat? with
    | some k => if k ≤ 256 then (st, checkRace k impl) else (st, "bad-op")
    | none => (st, "bad-op")
  | ["run"] =>
    if st.ds.isEmpty then (st, "bad-op") else
    choose ((explore st.ds [] []).map fun f => observe f "ok") impl
  | _ =>
    if st.ds.isEmpty then (st, "bad-op") else
    let outs := st.ds.filterMap fun d => opOn d ts
    if outs.isEmpty then (st, "bad-op") else choose outs impl

end Litep2pVerif.Driver.Tcploop
