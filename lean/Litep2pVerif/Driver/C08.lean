import Litep2pVerif.Common.Parse
import Litep2pVerif.Model.Service.Conns
import Litep2pVerif.Model.Service.Known
/-!
Line-protocol driver for the `TransportService` model (C08).

Next to the service model the driver keeps what the harness owns on the other side: the service's
event channel (`inbox`, FIFO; `next` drains it like polling the `Stream` to `Pending`) and, per
connection id, the command channel the connection task would read (`Chan`: bounded FIFO of
capacity `cap`, receiver open or dropped — tokio mpsc semantics: `try_send` answers `Closed` if
the receiver is gone, else `Full` at capacity). Handles are always `Active` in this adapter (the
keep-alive timeout is one hour), so `try_get_permit` succeeds.

For the methods that delegate to the `TransportManagerHandle` the driver keeps the other side of that handle too:
the addresses `add_known_address` left in the shared peer table (`known`; TCP is the one enabled transport, the
service appends `/p2p/<peer>` where it is missing, the handle refuses another peer's id) and the manager's command
channel (`mgrQ`, capacity 64). None of them touches the service model's state (`Op.managerCall`).
-/
namespace Litep2pVerif.Driver.C08
open Litep2pVerif Litep2pVerif.Service Parse

/-- `ProtocolCommand` in a connection's command channel. -/
inductive QCmd where
  | openSub (sid c : Nat)             -- (substream id, connection id)
  | forceClose

structure Chan where
  queue : List QCmd := []
  rxOpen : Bool := true

structure DState where
  cap : Nat := 2
  svc : State := {}
  inbox : List Inner := []
  chans : List (Nat × Chan) := []
  /-- peer → sorted texts (`showStored`) of the addresses stored for it -/
  known : List (Nat × List String) := []
  /-- the manager's command channel (texts as `mgr_recv` prints them) -/
  mgrQ : List String := []

def init : DState := {}

def chanGet (cs : List (Nat × Chan)) (c : Nat) : Option Chan :=
  (cs.find? (fun x => x.1 == c)).map (·.2)

def chanPut (cs : List (Nat × Chan)) (c : Nat) (ch : Chan) : List (Nat × Chan) :=
  (c, ch) :: cs.filter (fun x => x.1 != c)

/-- `try_send` on a connection's command channel. -/
def sendRes (cap : Nat) : Option Chan → SendRes
  | none => .closed
  | some ch => if !ch.rxOpen then .closed else if ch.queue.length ≥ cap then .full else .ok

def pushCmd (cs : List (Nat × Chan)) (c : Nat) (cmd : QCmd) : List (Nat × Chan) :=
  match chanGet cs c with
  | some ch => chanPut cs c { ch with queue := ch.queue ++ [cmd] }
  | none => cs

def insertNat (x : Nat) : List Nat → List Nat
  | [] => [x]
  | y :: ys => if x < y then x :: y :: ys else if x = y then y :: ys else y :: insertNat x ys

/-- Sorted insertion without duplicates (the adapter sorts the texts; distinct stored addresses have
distinct texts in every case the model predicts). -/
def insertStr (x : String) : List String → List String
  | [] => [x]
  | y :: ys => if x < y then x :: y :: ys else if x = y then y :: ys else y :: insertStr x ys

def knownGet (k : List (Nat × List String)) (p : Nat) : Option (List String) :=
  (k.find? (fun x => x.1 == p)).map (·.2)

def knownPut (k : List (Nat × List String)) (p : Nat) (v : List String) : List (Nat × List String) :=
  (p, v) :: k.filter (fun x => x.1 != p)

/-- The adapter's `address_of`: 10.0.0.1 / 0.0.0.0, the peer `p`, somebody else (`p + 100`),
`/p2p-circuit` as an `other` component. -/
def kindAddr (kind : String) (p port : Nat) : Option Addr.Multiaddr :=
  let ip : Addr.Comp := .ip4 ⟨167772161, false, false, false⟩
  let circuit : Addr.Comp := .other 290
  match kind with
  | "tcp" => some [ip, .tcp port]
  | "tcpp" => some [ip, .tcp port, .p2p p]
  | "wrong" => some [ip, .tcp port, .p2p (p + 100)]
  | "two" => some [ip, .tcp port, .p2p (p + 100), .p2p p]
  | "twow" => some [ip, .tcp port, .p2p p, .p2p (p + 100)]
  | "relay" => some [ip, .tcp port, .p2p (p + 100), circuit, .p2p p]
  | "circ" => some [ip, .tcp port, .p2p (p + 100), circuit]
  | "udp" => some [ip, .udp port]
  | "unspec" => some [.ip4 ⟨0, true, false, false⟩, .tcp port]
  | _ => none

/-- The adapter's `show_address`: port, `!` unless the trailing `/p2p` names `p`, `~` unless the
shape is `/<host>/<tcp|udp>/p2p/<id>`. -/
def showStored (p : Nat) (a : Addr.Multiaddr) : String :=
  let port := (a.findSome? fun c => match c with | .tcp q => some q | .udp q => some q | _ => none).getD 0
  let own := Addr.lastP2p a == some p
  let plain := a.length == 3 && (Addr.lastP2p a).isSome
  toString port ++ (if own then "" else "!") ++ (if plain then "" else "~")

def MGR_CHANNEL : Nat := 64

/-- `cmd_tx.try_send` towards the manager (the receiver is never dropped). -/
def mgrSend (st : List String) (cmd : String) : List String × String :=
  if st.length ≥ MGR_CHANNEL then (st, "err clogged") else (st ++ [cmd], "ok")

def showForceErr : Option ForceErr → String
  | none => "ok"
  | some .peerDoesntExist => "err no-peer"
  | some .connectionClosed => "err closed"
  | some .channelClogged => "err clogged"

def showEv : Ev → String
  | .established p => s!"est:{p}"
  | .closed p => s!"closed:{p}"
  | .subOpened p (some sid) => s!"sub:{p}:out{sid}"
  | .subOpened p none => s!"sub:{p}:in"
  | .subFailed sid => s!"fail:{sid}"
  | .dialFailure p => s!"dialfail:{p}"

def insertSorted (x : Nat × Ctx) : List (Nat × Ctx) → List (Nat × Ctx)
  | [] => [x]
  | y :: ys => if x.1 ≤ y.1 then x :: y :: ys else y :: insertSorted x ys

def showConns (m : ConnMap) : String :=
  let sorted := m.foldr insertSorted []
  "[" ++ joinWith "," (sorted.map fun (p, ctx) =>
    s!"{p}:{ctx.primary}/" ++ (match ctx.secondary with | some b => toString b | none => "-")) ++ "]"

/-- Drain the inbox: `(state, events, bug?)`; stops at the `debug_assert`. -/
def drain : Nat → State → List Inner → List Ev → State × List Inner × List Ev × Bool
  | 0, s, inbox, acc => (s, inbox, acc, false)
  | _, s, [], acc => (s, [], acc, false)
  | fuel + 1, s, e :: rest, acc =>
    let r := pollEvent s e
    let acc' := match r.2.1 with | some ev => acc ++ [ev] | none => acc
    if r.2.2 then (r.1, rest, acc', true) else drain fuel r.1 rest acc'

def step (st : DState) (line : String) : DState × String :=
  match tokens line with
  | ["cfg", cap] =>
    match cap.toNat? with
    | some cap => ({ init with cap := cap }, "ok")
    | none => (st, "bad-op")
  | ["est", p, c] =>
    match p.toNat?, c.toNat? with
    | some p, some c =>
      let chans := match chanGet st.chans c with
        | some _ => st.chans
        | none => chanPut st.chans c {}
      ({ st with chans := chans, inbox := st.inbox ++ [.established p c] }, "ok")
    | _, _ => (st, "bad-op")
  | ["closed", p, c] =>
    match p.toNat?, c.toNat? with
    | some p, some c => ({ st with inbox := st.inbox ++ [.closed p c] }, "ok")
    | _, _ => (st, "bad-op")
  | ["subopen", p, sid, c] =>
    let dir? : Option (Option Nat) := if sid = "in" then some none else sid.toNat?.map some
    match p.toNat?, dir?, c.toNat? with
    | some p, some dir, some c => ({ st with inbox := st.inbox ++ [.subOpened p dir c] }, "ok")
    | _, _, _ => (st, "bad-op")
  | ["subfail", sid] =>
    match sid.toNat? with
    | some sid => ({ st with inbox := st.inbox ++ [.subFailed sid] }, "ok")
    | none => (st, "bad-op")
  | ["dialfail", p] =>
    match p.toNat? with
    | some p => ({ st with inbox := st.inbox ++ [.dialFailure p] }, "ok")
    | none => (st, "bad-op")
  | ["bump", k] =>
    match k.toNat? with
    | some k => ({ st with svc := (Service.step st.svc (.otherAlloc k)).1 }, "ok")
    | none => (st, "bad-op")
  | ["open", p] =>
    match p.toNat? with
    | some p =>
      -- outcome of `try_send` on the primary connection's command channel
      let target := (cget st.svc.conns p).map (·.primary)
      let send : SendRes := sendRes st.cap (target.bind (chanGet st.chans))
      let r := openSubstream st.svc p true send
      match r.2 with
      | .ok (sid, c) =>
        ({ st with svc := r.1, chans := pushCmd st.chans c (.openSub sid c) }, s!"ok {sid} {c}")
      | .error .peerDoesNotExist => ({ st with svc := r.1 }, "err no-peer")
      | .error .connectionClosed => ({ st with svc := r.1 }, "err closed")
      | .error .channelClogged => ({ st with svc := r.1 }, "err clogged")
    | none => (st, "bad-op")
  | ["conn_recv", c] =>
    match c.toNat? with
    | some c =>
      match chanGet st.chans c with
      | none => (st, "gone")
      | some ch =>
        if !ch.rxOpen then (st, "gone") else
        match ch.queue with
        | [] => (st, "empty")
        | .openSub sid cc :: rest =>
          ({ st with chans := chanPut st.chans c { ch with queue := rest } }, s!"open {sid} {cc}")
        | .forceClose :: rest =>
          ({ st with chans := chanPut st.chans c { ch with queue := rest } }, "force-close")
    | none => (st, "bad-op")
  | ["conn_drop", c] =>
    match c.toNat? with
    | some c =>
      match chanGet st.chans c with
      | none => (st, "ok")
      | some _ => ({ st with chans := chanPut st.chans c { queue := [], rxOpen := false } }, "ok")
    | none => (st, "bad-op")
  | ["force", p] =>
    match p.toNat? with
    | some p =>
      -- the secondary is sent to first; the primary's `try_send` sees the channel after that (same channel if an
      -- infeasible history registered one connection id twice)
      let ctx := cget st.svc.conns p
      let sec : SendRes := sendRes st.cap ((ctx.bind (·.secondary)).bind (chanGet st.chans))
      let chans1 := match ctx.bind (·.secondary) with
        | some h => if sec == .ok then pushCmd st.chans h .forceClose else st.chans
        | none => st.chans
      let prim : SendRes := sendRes st.cap ((ctx.map (·.primary)).bind (chanGet chans1))
      let r := forceClose st.svc p sec prim
      let chans2 := match ctx with
        | some c => if prim == .ok then pushCmd chans1 c.primary .forceClose else chans1
        | none => chans1
      ({ st with svc := r.1, chans := chans2 }, showForceErr r.2.1 ++ " conns=" ++ showConns r.1.conns)
    | none => (st, "bad-op")
  | ["lpid"] => ({ st with svc := (Service.step st.svc .managerCall).1 }, "peer 0")
  | ["addrs"] => ({ st with svc := (Service.step st.svc .managerCall).1 }, "listen=0 public=0")
  | ["known", p, kind, port] =>
    match p.toNat?, port.toNat? with
    | some p, some port =>
      match kindAddr kind p (port % 65536) with
      | none => (st, "bad-op")
      | some a =>
      -- `or_default()`: the peer gets an entry even if nothing is added
      let cur := (knownGet st.known p).getD []
      -- the REAL composition: the service's closure, then the handle's filter (TCP enabled, no listen address)
      let kept := Service.addKnownAddress true [] p [a]
      let new := kept.foldl (fun acc b => insertStr (showStored p b) acc) cur
      ({ st with svc := (Service.step st.svc .managerCall).1, known := knownPut st.known p new },
        "stored=[" ++ joinWith "," new ++ "]")
    | _, _ => (st, "bad-op")
  | ["dial", p] =>
    match p.toNat? with
    | some p =>
      let svc := (Service.step st.svc .managerCall).1
      if p = 0 then ({ st with svc := svc }, "err self") else
      match knownGet st.known p with
      | none => ({ st with svc := svc }, "err no-address")
      | some [] => ({ st with svc := svc }, "err no-address")
      | some _ =>
        let (q, r) := mgrSend st.mgrQ s!"dial {p}"
        ({ st with svc := svc, mgrQ := q }, r)
    | none => (st, "bad-op")
  | ["dial_addr", p, kind, port] =>
    match p.toNat?, port.toNat? with
    | some p, some port =>
      if !(["tcp", "tcpp", "wrong", "udp", "unspec"].contains kind) then (st, "bad-op") else
      let svc := (Service.step st.svc .managerCall).1
      -- only the presence of a peer id is checked here (the manager checks the rest when it dials)
      if kind = "tcpp" then
        let (q, r) := mgrSend st.mgrQ s!"dial_addr {p} {port % 65536}"
        ({ st with svc := svc, mgrQ := q }, r)
      else if kind = "wrong" then
        let (q, r) := mgrSend st.mgrQ s!"dial_addr {p + 100} {port % 65536}"
        ({ st with svc := svc, mgrQ := q }, r)
      else ({ st with svc := svc }, "err no-peer-id")
    | _, _ => (st, "bad-op")
  | ["unregister"] =>
    ({ st with svc := (Service.step st.svc .managerCall).1, mgrQ := (mgrSend st.mgrQ "unregister /verif/1").1 }, "ok")
  | ["mgr_recv"] =>
    match st.mgrQ with
    | [] => (st, "empty")
    | c :: rest => ({ st with mgrQ := rest }, c)
  | ["next"] =>
    let (s', inbox', evs, bug) := drain (st.inbox.length + 1) st.svc st.inbox []
    let evText := "[" ++ joinWith "," (evs.map showEv) ++ "]"
    if bug then ({ st with svc := s', inbox := inbox' }, "panic debug-assert " ++ evText)
    else ({ st with svc := s', inbox := inbox' },
      evText ++ " conns=" ++ showConns s'.conns ++ s!" nsub={s'.nextSub}")
  | _ => (st, "bad-op")

end Litep2pVerif.Driver.C08
