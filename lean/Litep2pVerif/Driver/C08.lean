import Litep2pVerif.Common.Parse
import Litep2pVerif.Model.Service.Conns
/-!
Line-protocol driver for the `TransportService` model (C08).

Next to the service model the driver keeps what the harness owns on the other side: the service's
event channel (`inbox`, FIFO; `next` drains it like polling the `Stream` to `Pending`) and, per
connection id, the command channel the connection task would read (`Chan`: bounded FIFO of
capacity `cap`, receiver open or dropped — tokio mpsc semantics: `try_send` answers `Closed` if
the receiver is gone, else `Full` at capacity). Handles are always `Active` in this adapter (the
keep-alive timeout is one hour), so `try_get_permit` succeeds.
-/
namespace Litep2pVerif.Driver.C08
open Litep2pVerif Litep2pVerif.Service Parse

structure Chan where
  queue : List (Nat × Nat) := []      -- (substream id, connection id) of queued commands
  rxOpen : Bool := true

structure DState where
  cap : Nat := 2
  svc : State := {}
  inbox : List Inner := []
  chans : List (Nat × Chan) := []

def init : DState := {}

def chanGet (cs : List (Nat × Chan)) (c : Nat) : Option Chan :=
  (cs.find? (fun x => x.1 == c)).map (·.2)

def chanPut (cs : List (Nat × Chan)) (c : Nat) (ch : Chan) : List (Nat × Chan) :=
  (c, ch) :: cs.filter (fun x => x.1 != c)

def showEv : Ev → String
  | .established p => s!"est:{p}"
  | .closed p => s!"closed:{p}"
  | .subOpened p (some sid) => s!"sub:{p}:out{sid}"
  | .subOpened p none => s!"sub:{p}:in"
  | .subFailed sid => s!"fail:{sid}"
  | .dialFailure p => s!"dialfail:{p}"

def insertSorted (x : Nat × Ctx) : List (Nat × Ctx) → List (Nat × Ctx)
  | [] => [x]
  | y :: ys => if x.1 ≤ y.1 then x :: y :: ys else y :: insertSorted x ys

def showConns (m : ConnMap) : String :=
  let sorted := m.foldr insertSorted []
  "[" ++ joinWith "," (sorted.map fun (p, ctx) =>
    s!"{p}:{ctx.primary}/" ++ (match ctx.secondary with | some b => toString b | none => "-")) ++ "]"

/-- Drain the inbox: `(state, events, bug?)`; stops at the `debug_assert`. -/
def drain : Nat → State → List Inner → List Ev → State × List Inner × List Ev × Bool
  | 0, s, inbox, acc => (s, inbox, acc, false)
  | _, s, [], acc => (s, [], acc, false)
  | fuel + 1, s, e :: rest, acc =>
    let r := pollEvent s e
    let acc' := match r.2.1 with | some ev => acc ++ [ev] | none => acc
    if r.2.2 then (r.1, rest, acc', true) else drain fuel r.1 rest acc'

def step (st : DState) (line : String) : DState × String :=
  match tokens line with
  | ["cfg", cap] =>
    match cap.toNat? with
    | some cap => ({ init with cap := cap }, "ok")
    | none => (st, "bad-op")
  | ["est", p, c] =>
    match p.toNat?, c.toNat? with
    | some p, some c =>
      let chans := match chanGet st.chans c with
        | some _ => st.chans
        | none => chanPut st.chans c {}
      ({ st with chans := chans, inbox := st.inbox ++ [.established p c] }, "ok")
    | _, _ => (st, "bad-op")
  | ["closed", p, c] =>
    match p.toNat?, c.toNat? with
    | some p, some c => ({ st with inbox := st.inbox ++ [.closed p c] }, "ok")
    | _, _ => (st, "bad-op")
  | ["subopen", p, sid, c] =>
    let dir? : Option (Option Nat) := if sid = "in" then some none else sid.toNat?.map some
    match p.toNat?, dir?, c.toNat? with
    | some p, some dir, some c => ({ st with inbox := st.inbox ++ [.subOpened p dir c] }, "ok")
    | _, _, _ => (st, "bad-op")
  | ["subfail", sid] =>
    match sid.toNat? with
    | some sid => ({ st with inbox := st.inbox ++ [.subFailed sid] }, "ok")
    | none => (st, "bad-op")
  | ["dialfail", p] =>
    match p.toNat? with
    | some p => ({ st with inbox := st.inbox ++ [.dialFailure p] }, "ok")
    | none => (st, "bad-op")
  | ["bump", k] =>
    match k.toNat? with
    | some k => ({ st with svc := (Service.step st.svc (.otherAlloc k)).1 }, "ok")
    | none => (st, "bad-op")
  | ["open", p] =>
    match p.toNat? with
    | some p =>
      -- outcome of `try_send` on the primary connection's command channel
      let target := (cget st.svc.conns p).map (·.primary)
      let ch := target.bind (chanGet st.chans)
      let send : SendRes := match ch with
        | none => .closed
        | some ch => if !ch.rxOpen then .closed else if ch.queue.length ≥ st.cap then .full else .ok
      let r := openSubstream st.svc p true send
      match r.2 with
      | .ok (sid, c) =>
        let chans := match chanGet st.chans c with
          | some ch => chanPut st.chans c { ch with queue := ch.queue ++ [(sid, c)] }
          | none => st.chans
        ({ st with svc := r.1, chans := chans }, s!"ok {sid} {c}")
      | .error .peerDoesNotExist => ({ st with svc := r.1 }, "err no-peer")
      | .error .connectionClosed => ({ st with svc := r.1 }, "err closed")
      | .error .channelClogged => ({ st with svc := r.1 }, "err clogged")
    | none => (st, "bad-op")
  | ["conn_recv", c] =>
    match c.toNat? with
    | some c =>
      match chanGet st.chans c with
      | none => (st, "gone")
      | some ch =>
        if !ch.rxOpen then (st, "gone") else
        match ch.queue with
        | [] => (st, "empty")
        | (sid, cc) :: rest =>
          ({ st with chans := chanPut st.chans c { ch with queue := rest } }, s!"open {sid} {cc}")
    | none => (st, "bad-op")
  | ["conn_drop", c] =>
    match c.toNat? with
    | some c =>
      match chanGet st.chans c with
      | none => (st, "ok")
      | some _ => ({ st with chans := chanPut st.chans c { queue := [], rxOpen := false } }, "ok")
    | none => (st, "bad-op")
  | ["next"] =>
    let (s', inbox', evs, bug) := drain (st.inbox.length + 1) st.svc st.inbox []
    let evText := "[" ++ joinWith "," (evs.map showEv) ++ "]"
    if bug then ({ st with svc := s', inbox := inbox' }, "panic debug-assert " ++ evText)
    else ({ st with svc := s', inbox := inbox' },
      evText ++ " conns=" ++ showConns s'.conns ++ s!" nsub={s'.nextSub}")
  | _ => (st, "bad-op")

end Litep2pVerif.Driver.C08
