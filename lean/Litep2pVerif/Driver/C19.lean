import Litep2pVerif.Common.Parse
import Litep2pVerif.Model.Wire.KadEncoders
import Litep2pVerif.Model.Wire.MultihashAccept
import Litep2pVerif.Model.Wire.IdentifyProto
/-! Line-protocol driver for the decoder models (C19). -/
namespace Litep2pVerif.Driver.C19
open Litep2pVerif Litep2pVerif.Wire Parse

abbrev State := Unit
def init : State := ()

def hexd (bs : List Nat) : String := if bs.isEmpty then "-" else bytesHex bs
def optHex (o : Option (List Nat)) : String := match o with | none => "none" | some b => hexd b
def b01 (b : Bool) : String := if b then "1" else "0"
def input? (h : String) : Option (List Nat) := if h = "-" then some [] else hexBytes? h

def peerPb (p : KPeer) : String :=
  "{id=" ++ hexd p.id ++ ",addrs=[" ++ joinWith ";" (p.addrs.map hexd) ++ "],conn=" ++ toString p.connection ++ "}"

def kadDump : Option KMessage → String
  | none => "err"
  | some m =>
    let rec_ := match m.record with
      | none => "none"
      | some r => "{k=" ++ hexd r.key ++ ",v=" ++ hexd r.value ++ ",tr=" ++ hexd r.timeReceived ++
          ",pub=" ++ hexd r.publisher ++ ",ttl=" ++ toString r.ttl ++ "}"
    "ok type=" ++ toString m.type ++ " clr=" ++ toString m.clusterLevelRaw ++ " key=" ++ hexd m.key ++
      " rec=" ++ rec_ ++ " closer=[" ++ joinWith "," (m.closerPeers.map peerPb) ++ "] prov=[" ++
      joinWith "," (m.providerPeers.map peerPb) ++ "]"

def identifyDump : Option Identify → String
  | none => "err"
  | some m =>
    "ok pv=" ++ optHex m.protocolVersion ++ " av=" ++ optHex m.agentVersion ++ " pk=" ++ optHex m.publicKey ++
      " la=[" ++ joinWith ";" (m.listenAddrs.map hexd) ++ "] oa=" ++ optHex m.observedAddr ++
      " pr=[" ++ joinWith ";" (m.protocols.map hexd) ++ "]"

def bitswapDump : Option BsMessage → String
  | none => "err"
  | some m =>
    let wl := match m.wantlist with
      | none => "none"
      | some w => "{entries=[" ++ joinWith "," (w.entries.map fun e =>
          "{b=" ++ hexd e.block ++ ",p=" ++ toString e.priority ++ ",c=" ++ b01 e.cancel ++ ",w=" ++
          toString e.wantType ++ ",s=" ++ b01 e.sendDontHave ++ "}") ++ "],full=" ++ b01 w.full ++ "}"
    "ok wl=" ++ wl ++ " blocks=[" ++ joinWith ";" (m.blocks.map hexd) ++ "] payload=[" ++
      joinWith "," (m.payload.map fun b => "{p=" ++ hexd b.pfx ++ ",d=" ++ hexd b.data ++ "}") ++ "] pres=[" ++
      joinWith "," (m.blockPresences.map fun b => "{c=" ++ hexd b.cid ++ ",t=" ++ toString b.type ++ "}") ++
      "] pb=" ++ toString m.pendingBytes

def noiseDump : Option NoisePayload → String
  | none => "err"
  | some m =>
    let ext := match m.extensions with
      | none => "none"
      | some e => "{ch=[" ++ joinWith ";" (e.webtransportCerthashes.map hexd) ++ "],sm=[" ++
          joinWith ";" (e.streamMuxers.map hexd) ++ "]}"
    "ok key=" ++ optHex m.identityKey ++ " sig=" ++ optHex m.identitySig ++ " ext=" ++ ext

def keyDump : Option PublicKeyPb → String
  | none => "err"
  | some m => "ok type=" ++ toString m.type ++ " data=" ++ hexd m.data

def kadPb (bs : List Nat) : String := kadDump (KMessage.decode bs)
def identifyPb (bs : List Nat) : String := identifyDump (Identify.decode bs)
def bitswapPb (bs : List Nat) : String := bitswapDump (BsMessage.decode bs)
def noisePb (bs : List Nat) : String := noiseDump (NoisePayload.decode bs)
def keyPb (bs : List Nat) : String := keyDump (PublicKeyPb.decode bs)

/-! ### Structured message specs (`encpb`, `kenc`): `-` empty bytes, `none` absent, `*` empty list,
`+` between byte strings, `;` between messages, `/` and `,` between the fields of a message. -/

def optBytes? (s : String) : Option (Option (List Nat)) :=
  if s = "none" then some none else (input? s).map some

def listBytes? (s : String) : Option (List (List Nat)) :=
  if s = "*" ∨ s = "" then some [] else (s.splitOn "+").mapM input?

def bool01? (s : String) : Option Bool :=
  if s = "1" then some true else if s = "0" then some false else none

def listOf? {α : Type} (item : String → Option α) (s : String) : Option (List α) :=
  if s = "*" then some [] else (s.splitOn ";").mapM item

def kpeer? (s : String) : Option KPeer :=
  match s.splitOn "/" with
  | [id, addrs, conn] => do
    let id ← input? id
    let addrs ← listBytes? addrs
    let conn ← conn.toInt?
    pure { id := id, addrs := addrs, connection := conn }
  | _ => none

def krecord? (s : String) : Option (Option KRecord) :=
  if s = "none" then some none else
  match s.splitOn "," with
  | [k, v, tr, pub, ttl] => do
    let k ← input? k
    let v ← input? v
    let tr ← input? tr
    let pub ← input? pub
    let ttl ← ttl.toNat?
    pure (some { key := k, value := v, timeReceived := tr, publisher := pub, ttl := ttl })
  | _ => none

def kmessage? : List String → Option KMessage
  | [ty, clr, key, rec_, closer, prov] => do
    let ty ← ty.toInt?
    let clr ← clr.toInt?
    let key ← input? key
    let rec_ ← krecord? rec_
    let closer ← listOf? kpeer? closer
    let prov ← listOf? kpeer? prov
    pure { type := ty, clusterLevelRaw := clr, key := key, record := rec_, closerPeers := closer, providerPeers := prov }
  | _ => none

def identify? : List String → Option Identify
  | [pv, av, pk, la, oa, pr] => do
    let pv ← optBytes? pv
    let av ← optBytes? av
    let pk ← optBytes? pk
    let la ← listBytes? la
    let oa ← optBytes? oa
    let pr ← listBytes? pr
    pure { protocolVersion := pv, agentVersion := av, publicKey := pk, listenAddrs := la, observedAddr := oa, protocols := pr }
  | _ => none

def bsEntry? (s : String) : Option BsEntry :=
  match s.splitOn "/" with
  | [b, p, c, w, d] => do
    let b ← input? b
    let p ← p.toInt?
    let c ← bool01? c
    let w ← w.toInt?
    let d ← bool01? d
    pure { block := b, priority := p, cancel := c, wantType := w, sendDontHave := d }
  | _ => none

def bsWantlist? (s : String) : Option (Option BsWantlist) :=
  if s = "none" then some none else
  match s.splitOn ":" with
  | [full, entries] => do
    let full ← bool01? full
    let entries ← listOf? bsEntry? entries
    pure (some { entries := entries, full := full })
  | _ => none

def bsBlock? (s : String) : Option BsBlock :=
  match s.splitOn "/" with
  | [p, d] => do
    let p ← input? p
    let d ← input? d
    pure { pfx := p, data := d }
  | _ => none

def bsPresence? (s : String) : Option BsPresence :=
  match s.splitOn "/" with
  | [c, t] => do
    let c ← input? c
    let t ← t.toInt?
    pure { cid := c, type := t }
  | _ => none

def bsMessage? : List String → Option BsMessage
  | [wl, blocks, payload, pres, pending] => do
    let wl ← bsWantlist? wl
    let blocks ← listBytes? blocks
    let payload ← listOf? bsBlock? payload
    let pres ← listOf? bsPresence? pres
    let pending ← pending.toInt?
    pure { wantlist := wl, blocks := blocks, payload := payload, blockPresences := pres, pendingBytes := pending }
  | _ => none

def noiseExt? (s : String) : Option (Option NoiseExtensions) :=
  if s = "none" then some none else
  match s.splitOn "," with
  | [ch, sm] => do
    let ch ← listBytes? ch
    let sm ← listBytes? sm
    pure (some { webtransportCerthashes := ch, streamMuxers := sm })
  | _ => none

def noisePayload? : List String → Option NoisePayload
  | [k, sg, ext] => do
    let k ← optBytes? k
    let sg ← optBytes? sg
    let ext ← noiseExt? ext
    pure { identityKey := k, identitySig := sg, extensions := ext }
  | _ => none

def publicKey? : List String → Option PublicKeyPb
  | [t, d] => do
    let t ← t.toInt?
    let d ← input? d
    pure { type := t, data := d }
  | _ => none

/-- `encpb`: the model's `encode` of the value and the model's `decode` of those bytes. -/
def encPb (schema : String) (args : List String) : String :=
  let out (bs : List Nat) (dump : String) := "ok " ++ hexd bs ++ " ==> " ++ dump
  match schema with
  | "kad" => match kmessage? args with
    | some m => if m.WF then out (KMessage.encode m) (kadPb (KMessage.encode m)) else "bad-op"
    | none => "bad-op"
  | "identify" => match identify? args with
    | some m => if m.WF then out (Identify.encode m) (identifyPb (Identify.encode m)) else "bad-op"
    | none => "bad-op"
  | "bitswap" => match bsMessage? args with
    | some m => if m.WF then out (BsMessage.encode m) (bitswapPb (BsMessage.encode m)) else "bad-op"
    | none => "bad-op"
  | "noise" => match noisePayload? args with
    | some m => if m.WF then out (NoisePayload.encode m) (noisePb (NoisePayload.encode m)) else "bad-op"
    | none => "bad-op"
  | "key" => match publicKey? args with
    | some m => if m.WF then out (PublicKeyPb.encode m) (keyPb (PublicKeyPb.encode m)) else "bad-op"
    | none => "bad-op"
  | _ => "bad-op"

def peerIn? (s : String) : Option PeerIn :=
  (kpeer? s).map fun p => { id := p.id, addrs := p.addrs, conn := p.connection }

def peersIn? (s : String) : Option (List PeerIn) :=
  if s = "-" then some [] else listOf? peerIn? s

def recordIn? : List String → Option RecordIn
  | [k, v, pub, ttl] => do
    let k ← input? k
    let v ← input? v
    let pub ← optBytes? pub
    let ttl ← ttl.toNat?
    pure { key := k, value := v, publisher := pub, ttl := ttl }
  | _ => none

/-- `kenc`: the hand-written Kademlia encoders of message.rs on explicit inputs. -/
def kadEncoder : List String → Option KMessage
  | ["findnode", k] => (input? k).map kadFindNode
  | "putvalue" :: r => (recordIn? r).map kadPutValue
  | ["getrecord", k] => (input? k).map kadGetRecord
  | ["findnode_resp", k, ps] => do
    let k ← input? k
    let ps ← peersIn? ps
    pure (kadFindNodeResponse k ps)
  | ["putvalue_resp", k, v] => do
    let k ← input? k
    let v ← input? v
    pure (kadPutValueResponse k v)
  | "getvalue_resp" :: k :: ps :: r => do
    let k ← input? k
    let ps ← peersIn? ps
    match r with
    | [] => pure (kadGetValueResponse k ps none)
    | r => (recordIn? r).map fun r => kadGetValueResponse k ps (some r)
  | ["addprovider", k, p] => do
    let k ← input? k
    let p ← peerIn? p
    pure (kadAddProvider k p)
  | ["getproviders", k] => (input? k).map kadGetProvidersRequest
  | ["getproviders_resp", prov, closer] => do
    let prov ← peersIn? prov
    let closer ← peersIn? closer
    pure (kadGetProvidersResponse prov closer)
  | _ => none

/-- Parse `a=1,b=0` into an address-validity table. -/
def addrTable (s : String) : List (List Nat × Bool) :=
  (s.splitOn ",").filterMap fun item =>
    match item.splitOn "=" with
    | [h, v] => (input? h).map fun b => (b, v = "1")
    | _ => none

def lookupAddr (t : List (List Nat × Bool)) (a : List Nat) : Bool :=
  match t.find? (fun e => e.1 = a) with
  | some e => e.2
  | none => false

def peersOut (ps : List PeerOut) : String :=
  "[" ++ joinWith "," (ps.map fun p => bytesHex p.id ++ "/" ++ toString p.naddrs ++ "/" ++ toString p.conn) ++ "]"

def recordOut (r : RecordOut) : String :=
  "{k=" ++ hexd r.key ++ ",v=" ++ hexd r.value ++ ",pub=" ++
    (match r.publisher with | none => "-" | some p => bytesHex p) ++ ",exp=" ++ b01 r.hasExpiry ++ "}"

def keyOut (k : Option (List Nat)) : String := match k with | none => "none" | some k => hexd k

def kadOut : Option KadOut → String
  | none => "none"
  | some (.findNode t ps) => "findnode target=" ++ hexd t ++ " peers=" ++ peersOut ps
  | some (.putValue r) => "putvalue rec=" ++ recordOut r
  | some (.getRecord k r ps) => "getrecord key=" ++ keyOut k ++ " rec=" ++
      (match r with | none => "none" | some r => recordOut r) ++ " peers=" ++ peersOut ps
  | some (.addProvider k ps) => "addprovider key=" ++ hexd k ++ " providers=" ++ peersOut ps
  | some (.getProviders k ps qs) => "getproviders key=" ++ keyOut k ++ " peers=" ++ peersOut ps ++
      " providers=" ++ peersOut qs

/-! ### The identify protocol object (`idout`, `idin`, `idrt`) -/

/-- `crate::verif::peer(i)`: identity multihash of an ed25519 key protobuf whose key bytes are `i`. -/
def verifPeer (i : Nat) : List Nat :=
  [0x00, 0x24, 0x08, 0x01, 0x12, 0x20] ++ List.replicate 24 0 ++
    (List.range 8).map (fun k => (i / 256 ^ (7 - k)) % 256)

/-- `a=x,b=e,c=n,d=p<hex>`: what the multiaddr parser said about each address. -/
def addrInfoTable (s : String) : List (List Nat × AddrInfo) :=
  (s.splitOn ",").filterMap fun item =>
    match item.splitOn "=" with
    | [h, v] =>
      (input? h).bind fun b =>
        if v = "x" then some (b, .invalid)
        else if v = "e" then some (b, .empty)
        else if v = "n" then some (b, .noP2p)
        else if v.startsWith "p" then (hexBytes? (v.drop 1).toString).map fun id => (b, AddrInfo.p2p id)
        else none
    | _ => none

def lookupInfo (t : List (List Nat × AddrInfo)) (a : List Nat) : AddrInfo :=
  match t.find? (fun e => e.1 = a) with
  | some e => e.2
  | none => .invalid

/-- Split the tokens of a line at the `#…` annotations: plain tokens and `(#name, value)` pairs. -/
def splitNotes (ts : List String) : List String × List (String × String) :=
  let (plain, notes, pending) :=
    ts.foldl (fun (acc : List String × List (String × String) × Option String) t =>
      let (plain, notes, pending) := acc
      if t.startsWith "#" then
        (plain, (match pending with | some k => notes ++ [(k, "")] | none => notes), some t)
      else match pending with
        | some k => (plain, notes ++ [(k, t)], none)
        | none => (plain ++ [t], notes, none)) ([], [], none)
  (plain, match pending with | some k => notes ++ [(k, "")] | none => notes)

def note (notes : List (String × String)) (k : String) : String :=
  match notes.find? (fun e => e.1 = k) with
  | some e => e.2
  | none => ""

def outStep? (s : String) : Option OutStep :=
  if s = "c" then some .close else if s = "r" then some .reset
  else match s.splitOn ":" with
    | ["w", h] => (input? h).map .write
    | ["t", n] => n.toNat?.map .wait
    | _ => none

def inStep? (s : String) : Option InStep :=
  match s.splitOn ":" with
  | ["t", n] => n.toNat?.map .wait
  | ["rd", n] => n.toNat?.map .read
  | _ => none

def showEvent (remote : List Nat) (r : OutboundResult) : String :=
  match r with
  | .noevent => "noevent"
  | .panic m => "panic " ++ m
  | .event e =>
    "event peer=" ++ (if e.peer = remote then "remote" else bytesHex e.peer) ++ " pv=" ++ optHex e.protocolVersion ++
      " av=" ++ optHex e.userAgent ++ " pr=[" ++ joinWith ";" (e.protocols.map hexd) ++ "] oa=" ++ hexd e.observed ++
      " la=[" ++ joinWith ";" (e.listen.map hexd) ++ "]"

def argOr (k : String) (ts : List String) (d : String) : String := (arg? k ts).getD d

/-- The local node of `idin`/`idrt` from `key=value` tokens; `localId` from the `#local`/`#remote` note. -/
def idLocal? (ts : List String) (localId : List Nat) : Option IdLocal := do
  let pv ← input? (argOr "pv" ts "-")
  let agent ← optBytes? (argOr "agent" ts "none")
  let protos ← listBytes? (argOr "protos" ts "*")
  let listen ← listBytes? (argOr "listen" ts "*")
  let public_ ← listBytes? (argOr "public" ts "*")
  pure { localId := localId, pv := pv, agent := agent, protocols := protos, listen := listen, public_ := public_ }

def stepsOf (ts : List String) : List String := ts.filter fun t => !(t.contains '=')

def idOut (ts : List String) (notes : List (String × String)) : String :=
  match (arg? "peer" ts).bind String.toNat?, hexBytes? (note notes "#local"), (stepsOf ts).mapM outStep? with
  | some p, some localId, some steps =>
    let remote := verifPeer p
    showEvent remote (identifyOutbound (lookupInfo (addrInfoTable (note notes "#addrs"))) remote localId steps)
  | _, _, _ => "bad-op"

def observedOf (ts : List String) : Option (Option (List Nat)) :=
  if argOr "conn" ts "1" = "1" then (input? (argOr "ep" ts "-")).map some else some none

def idIn (ts : List String) (notes : List (String × String)) : String :=
  match hexBytes? (note notes "#local"), (argOr "cap" ts "1048576").toNat?, (stepsOf ts).mapM inStep?, observedOf ts with
  | some localId, some cap, some steps, some obs =>
    match idLocal? ts localId with
    | some cfg => "sent " ++ hexd (identifyInbound cfg obs cap steps)
    | none => "bad-op"
  | _, _, _, _ => "bad-op"

def idRt (ts : List String) (notes : List (String × String)) : String :=
  match hexBytes? (note notes "#remote"), hexBytes? (note notes "#local"), (argOr "split" ts "0").toNat?, observedOf ts with
  | some aId, some bId, some split, some obs =>
    match idLocal? ts aId with
    | some cfg =>
      "sent " ++ hexd (identifyInbound cfg obs (2 ^ 20) []) ++ " ==> " ++
        showEvent aId (identifyRoundtrip (lookupInfo (addrInfoTable (note notes "#addrs"))) cfg bId obs split)
    | none => "bad-op"
  | _, _, _, _ => "bad-op"

def step (st : State) (line : String) : State × String :=
  match tokens line with
  | "idout" :: rest => let (ts, notes) := splitNotes rest; (st, idOut ts notes)
  | "idin" :: rest => let (ts, notes) := splitNotes rest; (st, idIn ts notes)
  | "idrt" :: rest => let (ts, notes) := splitNotes rest; (st, idRt ts notes)
  | ["pb", schema, h] =>
    match input? h with
    | none => (st, "bad-op")
    | some bs =>
      (st, match schema with
        | "kad" => kadPb bs
        | "identify" => identifyPb bs
        | "bitswap" => bitswapPb bs
        | "noise" => noisePb bs
        | "key" => keyPb bs
        | _ => "bad-op")
  | "encpb" :: schema :: args => (st, encPb schema args)
  | "kenc" :: args =>
    (st, match kadEncoder args with
      | some m => if m.WF then "ok " ++ hexd (KMessage.encode m) else "bad-op"
      | none => "bad-op")
  | "kad" :: h :: repl :: rest =>
    match input? h, repl.toNat? with
    | some bs, some repl =>
      let tbl := match rest with
        | ["#addrs", t] => t
        | _ => ""
      let out := kadFromBytes peerIdOk (lookupAddr (addrTable tbl)) repl bs
      (st, kadOut out ++ " #addrs " ++ tbl)
    | _, _ => (st, "bad-op")
  | ["key", h, "#point", p] =>
    match input? h with
    | none => (st, "bad-op")
    | some bs =>
      (st, match remotePublicKey (fun _ => p = "1") bs with
        | .ok k => "ok " ++ bytesHex k
        | .decodeErr => "err decode"
        | .unknownKeyType => "err keytype"
        | .invalidData => "err invalid")
  | _ => (st, "bad-op")

end Litep2pVerif.Driver.C19
