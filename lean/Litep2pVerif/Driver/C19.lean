import Litep2pVerif.Common.Parse
import Litep2pVerif.Model.Wire.KadMessage
import Litep2pVerif.Model.Wire.MultihashAccept
/-! Line-protocol driver for the decoder models (C19). -/
namespace Litep2pVerif.Driver.C19
open Litep2pVerif Litep2pVerif.Wire Parse

abbrev State := Unit
def init : State := ()

def hexd (bs : List Nat) : String := if bs.isEmpty then "-" else bytesHex bs
def optHex (o : Option (List Nat)) : String := match o with | none => "none" | some b => hexd b
def b01 (b : Bool) : String := if b then "1" else "0"
def input? (h : String) : Option (List Nat) := if h = "-" then some [] else hexBytes? h

def peerPb (p : KPeer) : String :=
  "{id=" ++ hexd p.id ++ ",addrs=[" ++ joinWith ";" (p.addrs.map hexd) ++ "],conn=" ++ toString p.connection ++ "}"

def kadPb (bs : List Nat) : String :=
  match KMessage.decode bs with
  | none => "err"
  | some m =>
    let rec_ := match m.record with
      | none => "none"
      | some r => "{k=" ++ hexd r.key ++ ",v=" ++ hexd r.value ++ ",tr=" ++ hexd r.timeReceived ++
          ",pub=" ++ hexd r.publisher ++ ",ttl=" ++ toString r.ttl ++ "}"
    "ok type=" ++ toString m.type ++ " clr=" ++ toString m.clusterLevelRaw ++ " key=" ++ hexd m.key ++
      " rec=" ++ rec_ ++ " closer=[" ++ joinWith "," (m.closerPeers.map peerPb) ++ "] prov=[" ++
      joinWith "," (m.providerPeers.map peerPb) ++ "]"

def identifyPb (bs : List Nat) : String :=
  match Identify.decode bs with
  | none => "err"
  | some m =>
    "ok pv=" ++ optHex m.protocolVersion ++ " av=" ++ optHex m.agentVersion ++ " pk=" ++ optHex m.publicKey ++
      " la=[" ++ joinWith ";" (m.listenAddrs.map hexd) ++ "] oa=" ++ optHex m.observedAddr ++
      " pr=[" ++ joinWith ";" (m.protocols.map hexd) ++ "]"

def bitswapPb (bs : List Nat) : String :=
  match BsMessage.decode bs with
  | none => "err"
  | some m =>
    let wl := match m.wantlist with
      | none => "none"
      | some w => "{entries=[" ++ joinWith "," (w.entries.map fun e =>
          "{b=" ++ hexd e.block ++ ",p=" ++ toString e.priority ++ ",c=" ++ b01 e.cancel ++ ",w=" ++
          toString e.wantType ++ ",s=" ++ b01 e.sendDontHave ++ "}") ++ "],full=" ++ b01 w.full ++ "}"
    "ok wl=" ++ wl ++ " blocks=[" ++ joinWith ";" (m.blocks.map hexd) ++ "] payload=[" ++
      joinWith "," (m.payload.map fun b => "{p=" ++ hexd b.pfx ++ ",d=" ++ hexd b.data ++ "}") ++ "] pres=[" ++
      joinWith "," (m.blockPresences.map fun b => "{c=" ++ hexd b.cid ++ ",t=" ++ toString b.type ++ "}") ++
      "] pb=" ++ toString m.pendingBytes

def noisePb (bs : List Nat) : String :=
  match NoisePayload.decode bs with
  | none => "err"
  | some m =>
    let ext := match m.extensions with
      | none => "none"
      | some e => "{ch=[" ++ joinWith ";" (e.webtransportCerthashes.map hexd) ++ "],sm=[" ++
          joinWith ";" (e.streamMuxers.map hexd) ++ "]}"
    "ok key=" ++ optHex m.identityKey ++ " sig=" ++ optHex m.identitySig ++ " ext=" ++ ext

def keyPb (bs : List Nat) : String :=
  match PublicKeyPb.decode bs with
  | none => "err"
  | some m => "ok type=" ++ toString m.type ++ " data=" ++ hexd m.data

/-- Parse `a=1,b=0` into an address-validity table. -/
def addrTable (s : String) : List (List Nat × Bool) :=
  (s.splitOn ",").filterMap fun item =>
    match item.splitOn "=" with
    | [h, v] => (input? h).map fun b => (b, v = "1")
    | _ => none

def lookupAddr (t : List (List Nat × Bool)) (a : List Nat) : Bool :=
  match t.find? (fun e => e.1 = a) with
  | some e => e.2
  | none => false

def peersOut (ps : List PeerOut) : String :=
  "[" ++ joinWith "," (ps.map fun p => bytesHex p.id ++ "/" ++ toString p.naddrs ++ "/" ++ toString p.conn) ++ "]"

def recordOut (r : RecordOut) : String :=
  "{k=" ++ hexd r.key ++ ",v=" ++ hexd r.value ++ ",pub=" ++
    (match r.publisher with | none => "-" | some p => bytesHex p) ++ ",exp=" ++ b01 r.hasExpiry ++ "}"

def keyOut (k : Option (List Nat)) : String := match k with | none => "none" | some k => hexd k

def kadOut : Option KadOut → String
  | none => "none"
  | some (.findNode t ps) => "findnode target=" ++ hexd t ++ " peers=" ++ peersOut ps
  | some (.putValue r) => "putvalue rec=" ++ recordOut r
  | some (.getRecord k r ps) => "getrecord key=" ++ keyOut k ++ " rec=" ++
      (match r with | none => "none" | some r => recordOut r) ++ " peers=" ++ peersOut ps
  | some (.addProvider k ps) => "addprovider key=" ++ hexd k ++ " providers=" ++ peersOut ps
  | some (.getProviders k ps qs) => "getproviders key=" ++ keyOut k ++ " peers=" ++ peersOut ps ++
      " providers=" ++ peersOut qs

def step (st : State) (line : String) : State × String :=
  match tokens line with
  | ["pb", schema, h] =>
    match input? h with
    | none => (st, "bad-op")
    | some bs =>
      (st, match schema with
        | "kad" => kadPb bs
        | "identify" => identifyPb bs
        | "bitswap" => bitswapPb bs
        | "noise" => noisePb bs
        | "key" => keyPb bs
        | _ => "bad-op")
  | "kad" :: h :: repl :: rest =>
    match input? h, repl.toNat? with
    | some bs, some repl =>
      let tbl := match rest with
        | ["#addrs", t] => t
        | _ => ""
      let out := kadFromBytes peerIdOk (lookupAddr (addrTable tbl)) repl bs
      (st, kadOut out ++ " #addrs " ++ tbl)
    | _, _ => (st, "bad-op")
  | ["key", h, "#point", p] =>
    match input? h with
    | none => (st, "bad-op")
    | some bs =>
      (st, match remotePublicKey (fun _ => p = "1") bs with
        | .ok k => "ok " ++ bytesHex k
        | .decodeErr => "err decode"
        | .unknownKeyType => "err keytype"
        | .invalidData => "err invalid")
  | _ => (st, "bad-op")

end Litep2pVerif.Driver.C19
