import Litep2pVerif.Common.Parse
import Litep2pVerif.Model.Notif.Channel
/-! Line-protocol driver of the notification data-path model (C12), checker mode for `rread`. -/
namespace Litep2pVerif.Driver.C12
open Litep2pVerif Litep2pVerif.Chan Parse

/-- The driver follows every resolution of the `select!` choices that is consistent with the observations so
far (`cands`); in checker mode each op line carries the implementation's observation (`op -> obs`). -/
structure State where
  cands : List Chan := []
  everOpened : Bool := false
  /-- sink clones handed out by `notification_sink()`: the stream number each belongs to -/
  sinks : List Nat := []

def init : State := {}

def resWord : SendRes → String
  | .ok => "ok" | .clogged => "clogged" | .noconn => "noconn" | .nopeer => "nopeer" | .waiting => "waiting"
  | .blocked => "blocked"

def dedup {α} [BEq α] (l : List α) : List α :=
  l.foldl (fun acc c => if acc.contains c then acc else acc ++ [c]) []

def allPicks : Nat → List (List Nat)
  | 0 => [[]]
  | n + 1 => (allPicks n).flatMap fun p => [0 :: p, 1 :: p]

/-- The `select!` choices that can make a difference in the next poll: none unless both queues hold something
and the substream can reach its back-pressure boundary during this poll. -/
def pollChoices (c : Chan) : List (List Nat) :=
  let qb := ((c.syncQ ++ c.asyncQ ++ (c.parked.map (·.2)).toList).map Msg.bytes).foldl (· + ·) 0
  if c.alive && !c.syncQ.isEmpty && !c.asyncQ.isEmpty && c.sinkBytes + qb ≥ c.cfg.boundary then
    allPicks (c.syncQ.length + c.asyncQ.length - 1)
  else [[]]

/-- The task holds a parked notification although the substream is below its boundary again (the flush that
made room ran after the notification was parked): the next poll would hand it over, but the task is only polled
when something wakes it, and whether a queue's waker is still registered depends on the order in which `select!`
polled the queues. In this state (and only here a poll without a wake-up is not a no-op) the driver follows both. -/
def stalled (c : Chan) : Bool := c.alive && !c.signalled && c.parked.isSome && c.sinkBytes < c.cfg.boundary

/-- `run`: poll the task, then let waiting async sends proceed, until nothing moves; every choice of the task. -/
def runLoop (c : Chan) (sent : List String) (ended : Option Bool) : Nat → List (Chan × List String × Option Bool)
  | 0 => [(c, sent, ended)]
  | fuel + 1 =>
    let polls := dedup ((pollChoices c).map fun picks => taskPoll c picks)
    let polls := if stalled c then (c, none) :: polls else polls
    dedup <| polls.flatMap fun (c1, e) =>
      let ended := if e.isSome then e else ended
      let (c2, sent) :=
        if !c1.alive then ({ c1 with waiting := [] }, sent ++ c1.waiting.map fun m => s!"a{m.seq}:noconn")
        else
          let (c', done) := letIn c1 4096
          (c', sent ++ done.map fun m => s!"a{m.seq}:ok")
      if c2 == c then [(c2, sent, ended)] else runLoop c2 sent ended fuel

def parseLabel (s : String) : Option (Nat × Nat) :=
  match s.toList with
  | 's' :: rest => (String.ofList rest).toNat?.map fun n => (0, n)
  | 'a' :: rest => (String.ofList rest).toNat?.map fun n => (1, n)
  | _ => none

/-- Keep the candidates whose answer is the observed one; without an observation (or if none fits) answer
with the first candidate's output and keep the candidates that give it. -/
def settle (st : State) (obs : Option String) (rs : List (Chan × String)) : State × String :=
  match rs with
  | [] => (st, "bad-op")
  | (_, o0) :: _ =>
    let want := match obs with
      | some o => if rs.any (·.2 == o) then o else o0
      | none => o0
    ({ st with cands := dedup ((rs.filter (·.2 == want)).map (·.1)) }, want)

def stepRun (st : State) (obs : Option String) : State × String :=
  settle st obs <| st.cands.flatMap fun c =>
    (runLoop c [] none 4096).map fun (c, sent, ended) =>
      (c, "ok" ++ (if sent.isEmpty then "" else s!" sent=[{joinWith " " sent}]") ++
        (match ended with | some true => " ended notice" | some false => " ended" | none => ""))

def stepRead (st : State) (arg : Option Nat) (obs : Option String) : State × String :=
  match st.cands, obs with
  | [], _ => (st, "bad-op")
  | _, none => (st, "need-observation")
  | c0 :: _, some o =>
    let inner := (o.drop 1).dropEnd 1
    let labels := (tokens inner.toString).map parseLabel
    if !o.startsWith "[" || labels.any (·.isNone) then (st, "mismatch unparsable observation")
    else
      let nOf (c : Chan) : Nat := match arg with | some n => min n c.pipeFill | none => c.pipeFill
      let ok := st.cands.filterMap fun c => remoteRead c (nOf c) (labels.filterMap id)
      if ok.isEmpty then (st, s!"mismatch: {nOf c0} bytes cannot yield {o}")
      else ({ st with cands := dedup ok }, o)

/-- Nothing is on its way to the remote any more. -/
def drained (c : Chan) : Bool :=
  c.pipeFill == 0 &&
    (!c.alive || (c.carry == 0 && c.sinkBytes == 0 && c.parked.isNone && c.syncQ.isEmpty && c.asyncQ.isEmpty && c.sBuf.isEmpty &&
      c.aBuf.isEmpty && c.waiting.isEmpty))

/-- `drain` = `run`, `rread` in turns; the observation lists the single outputs, then `quiet`. -/
def stepDrain (st : State) (parts : List String) : State × List String :=
  let rec go (st : State) (isRun : Bool) : List String → State × List String
    | [] => (st, [])
    | ["quiet"] =>
      let ok := st.cands.filter drained
      if ok.isEmpty then (st, ["not-quiet"]) else ({ st with cands := ok }, ["quiet"])
    | p :: rest =>
      let (st1, o) := if isRun then stepRun st (some p) else stepRead st none (some p)
      let (st2, os) := go st1 (!isRun) rest
      (st2, o :: os)
  go st true parts

def step (st : State) (line : String) : State × String :=
  let (opPart, obs) := match line.splitOn " -> " with
    | [a, b] => (a, some b.trimAscii.toString)
    | _ => (line, none)
  let ts := tokens opPart
  match ts with
  | "cfg" :: rest =>
    let g (k : String) (d : Nat) : Nat := ((arg? k rest).bind (·.toNat?)).getD d
    let cfg : Cfg := { syncCap := (g "sync" 4).max 1, asyncCap := (g "async" 2).max 1, notifCap := (g "notif" 4).max 1
                       pipeCap := g "cap" 64, maxSize := g "max" 256 }
    let c : Chan := { cfg := cfg }
    ({ cands := [c], sinks := [] }, "ok")
  | _ =>
  match st.cands with
  | [] => (st, "bad-op")
  | c0 :: _ =>
    let each (f : Chan → Chan × String) : State × String := settle st obs (st.cands.map f)
    match ts with
    | ["open"] =>
      if c0.alive then (st, "ignored") else ({ st with cands := dedup (st.cands.map reopen), everOpened := true }, "ok")
    | ["sync", seq, size] =>
      match seq.toNat?, size.toNat? with
      | some seq, some size =>
        each fun c =>
          let (c, r, fc) := syncSend c ⟨0, seq, size⟩
          (c, resWord r ++ (if fc then " forceclose" else ""))
      | _, _ => (st, "bad-op")
    | ["async", seq, size] =>
      match seq.toNat?, size.toNat? with
      | some seq, some size =>
        each fun c =>
          let (c, r) := asyncSend c ⟨1, seq, size⟩
          (c, resWord r)
      | _, _ => (st, "bad-op")
    | ["sink"] =>
      match getSink c0 with
      | some g => ({ st with sinks := st.sinks ++ [g] }, s!"ok sink={st.sinks.length}")
      | none => (st, "none")
    | [op, k, seq, size] =>
      match k.toNat?, seq.toNat?, size.toNat? with
      | some k, some seq, some size =>
        match st.sinks[k]? with
        | none => (st, "ignored")
        | some g =>
          if op = "csync" then each fun c => let (c, r) := sinkSync c g ⟨0, seq, size⟩; (c, resWord r)
          else if op = "casync" then each fun c => let (c, r) := sinkAsync c g ⟨1, seq, size⟩; (c, resWord r)
          else (st, "bad-op")
      | _, _, _ => (st, "bad-op")
    | ["hasync", seq, size] =>
      match seq.toNat?, size.toNat? with
      | some seq, some size => each fun c => let (c, r) := asyncOnce c ⟨1, seq, size⟩; (c, resWord r)
      | _, _ => (st, "bad-op")
    | ["run"] => stepRun st obs
    | "rread" :: rest =>
      if !st.everOpened then (st, "ignored") else stepRead st (rest.head?.bind (·.toNat?)) obs
    | ["drain"] =>
      if !st.everOpened then (st, "ignored") else
      match obs with
      | none => (st, "need-observation")
      | some o =>
        let (st, outs) := stepDrain st ((o.splitOn " | ").map fun p => p.trimAscii.toString)
        (st, joinWith " | " outs)
    | ["rsend", seq, size] =>
      if !st.everOpened then (st, "ignored") else
      match seq.toNat?, size.toNat? with
      | some seq, some size => each fun c => ({ c with inQ := c.inQ ++ [⟨2, seq, size⟩] }, "ok")
      | _, _ => (st, "bad-op")
    | ["rclose"] => if !st.everOpened then (st, "ignored") else each fun c => ({ c with inClosed := true }, "ok")
    | ["close"] =>
      if !st.everOpened || c0.signalled then (st, "ignored") else each fun c => ({ c with signalled := true }, "ok")
    | ["events"] =>
      each fun c =>
        let (c, evs) := pollHandle c
        (c, s!"[{joinWith " " evs}]")
    | _ => (st, "bad-op")

end Litep2pVerif.Driver.C12
