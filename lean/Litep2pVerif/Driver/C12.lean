import Litep2pVerif.Common.Parse
import Litep2pVerif.Model.Notif.Channel
/-! Line-protocol driver of the notification data-path model (C12), checker mode for `rread`. -/
namespace Litep2pVerif.Driver.C12
open Litep2pVerif Litep2pVerif.Chan Parse

structure State where
  chan : Option Chan := none
  everOpened : Bool := false

def init : State := {}

def resWord : SendRes → String
  | .ok => "ok" | .clogged => "clogged" | .noconn => "noconn" | .nopeer => "nopeer" | .waiting => "waiting"

/-- `run`: poll the task, then let waiting async sends proceed, until nothing moves. -/
def runLoop (c : Chan) (sent : List String) (ended : Option Bool) : Nat → Chan × List String × Option Bool
  | 0 => (c, sent, ended)
  | fuel + 1 =>
    let before := (c.syncQ.length, c.asyncQ.length, c.waiting.length, c.inQ.length, c.alive)
    let (c, e) := taskPoll c
    let ended := if e.isSome then e else ended
    let (c, sent) :=
      if !c.alive then ({ c with waiting := [] }, sent ++ c.waiting.map fun m => s!"a{m.seq}:noconn")
      else
        let (c', done) := letIn c 4096
        (c', sent ++ done.map fun m => s!"a{m.seq}:ok")
    let after := (c.syncQ.length, c.asyncQ.length, c.waiting.length, c.inQ.length, c.alive)
    if before == after then (c, sent, ended) else runLoop c sent ended fuel

def parseLabel (s : String) : Option (Nat × Nat) :=
  match s.toList with
  | 's' :: rest => (String.ofList rest).toNat?.map fun n => (0, n)
  | 'a' :: rest => (String.ofList rest).toNat?.map fun n => (1, n)
  | _ => none

def step (st : State) (line : String) : State × String :=
  let (opPart, obs) := match line.splitOn " -> " with
    | [a, b] => (a, some b)
    | _ => (line, none)
  let ts := tokens opPart
  match ts with
  | "cfg" :: rest =>
    let g (k : String) (d : Nat) : Nat := ((arg? k rest).bind (·.toNat?)).getD d
    ({ chan := some { cfg := ⟨(g "sync" 4).max 1, (g "async" 2).max 1, (g "notif" 4).max 1, g "cap" 64, g "max" 256⟩ } }, "ok")
  | _ =>
  match st.chan with
  | none => (st, "bad-op")
  | some c =>
    let ret (c : Chan) (o : String) : State × String := ({ st with chan := some c }, o)
    match ts with
    | ["open"] =>
      if c.alive then (st, "ignored") else ({ chan := some (reopen c), everOpened := true }, "ok")
    | ["sync", seq, size] =>
      match seq.toNat?, size.toNat? with
      | some seq, some size =>
        let (c, r, fc) := syncSend c ⟨0, seq, size⟩
        ret c (resWord r ++ (if fc then " forceclose" else ""))
      | _, _ => (st, "bad-op")
    | ["async", seq, size] =>
      match seq.toNat?, size.toNat? with
      | some seq, some size =>
        let (c, r) := asyncSend c ⟨1, seq, size⟩
        ret c (resWord r)
      | _, _ => (st, "bad-op")
    | ["run"] =>
      let (c, sent, ended) := runLoop c [] none 4096
      let o := "ok" ++ (if sent.isEmpty then "" else s!" sent=[{joinWith " " sent}]") ++
        (match ended with | some true => " ended notice" | some false => " ended" | none => "")
      ret c o
    | "rread" :: rest =>
      if !st.everOpened then (st, "ignored") else
      let n := match rest.head?.bind (·.toNat?) with | some n => min n c.pipeFill | none => c.pipeFill
      match obs with
      | none => (st, "need-observation")
      | some o =>
        let inner := (o.trimAscii.toString.drop 1).dropEnd 1
        let labels := (tokens inner.toString).map parseLabel
        if labels.any (·.isNone) then (st, "mismatch unparsable observation")
        else
          match remoteRead c n (labels.filterMap id) with
          | some c' => ret c' o.trimAscii.toString
          | none => (st, s!"mismatch: {n} bytes cannot yield {o}")
    | ["rsend", seq, size] =>
      if !st.everOpened then (st, "ignored") else
      match seq.toNat?, size.toNat? with
      | some seq, some size => ret { c with inQ := c.inQ ++ [⟨2, seq, size⟩] } "ok"
      | _, _ => (st, "bad-op")
    | ["rclose"] => if !st.everOpened then (st, "ignored") else ret { c with inClosed := true } "ok"
    | ["close"] =>
      if !st.everOpened || c.signalled then (st, "ignored") else ret { c with signalled := true } "ok"
    | ["events"] =>
      let (c, evs) := pollHandle c
      ret c s!"[{joinWith " " evs}]"
    | _ => (st, "bad-op")

end Litep2pVerif.Driver.C12
