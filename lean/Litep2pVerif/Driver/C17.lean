import Litep2pVerif.Common.Parse
import Litep2pVerif.Model.Kad.Store
/-! Line-protocol driver for the `MemoryStore` model (C17). The clock starts at 1000 and moves by `adv n`. -/
namespace Litep2pVerif.Driver.C17
open Litep2pVerif Litep2pVerif.Kad.Store Parse

structure State where
  cfg : Option Cfg := none
  store : Store := {}
  now : Nat := 1000

def init : State := {}

def showProvs (ps : List Prov) : String :=
  "[" ++ joinWith "," (ps.map fun p => toString p.peer ++ ":" ++ joinWith "+" (p.addrs.map toString)) ++ "]"

def step (st : State) (line : String) : State × String :=
  let ts := tokens line
  let now := st.now
  match ts, st.cfg with
  | ["adv", n], _ =>
    match n.toNat? with
    | some n => ({ st with now := st.now + n }, "ok")
    | none => (st, "bad-op")
  | ["cfg", a, b, c, d, e, f], _ =>
    match a.toNat?, b.toNat?, c.toNat?, d.toNat?, e.toNat?, f.toNat? with
    | some a, some b, some c, some d, some e, some f =>
      ({ cfg := some ⟨a, b, c, d, e, f⟩, store := {}, now := 1000 }, "ok")
    | _, _, _, _, _, _ => (st, "bad-op")
  | ["put", k, vlen, tag, exp], some cfg =>
    let exp? : Option (Option Nat) := if exp = "none" then some none else exp.toNat?.map some
    match keyNat? k, vlen.toNat?, tag.toNat?, exp? with
    | some k, some vlen, some tag, some exp =>
      ({ st with store := put cfg st.store ⟨k, List.replicate vlen tag, exp⟩ }, "ok")
    | _, _, _, _ => (st, "bad-op")
  | ["get", k], some _ =>
    match keyNat? k with
    | some k =>
      let (s', r) := getRecord st.store k now
      let out := match r with
        | none => "none"
        | some r => "some " ++ toString r.value.length ++ " " ++ toString (r.value.headD 0) ++ " " ++
            (match r.expires with | none => "none" | some e => toString e)
      ({ st with store := s' }, out)
    | none => (st, "bad-op")
  | "putprov" :: k :: idx :: naddrs :: rest, some cfg =>
    match keyNat? k, idx.toNat?, naddrs.toNat?, (arg? "d" rest).bind hexNat? with
    | some k, some idx, some n, some d =>
      let (s', ok) := putProvider cfg st.store k idx d (List.range n) now
      ({ st with store := s' }, toString ok)
    | _, _, _, _ => (st, "bad-op")
  | "putlocal" :: k :: rest, some cfg =>
    match keyNat? k, (arg? "d" rest).bind hexNat? with
    | some k, some d =>
      let (s', ok) := putLocalProvider cfg st.store k 0 d now
      ({ st with store := s' }, toString ok)
    | _, _ => (st, "bad-op")
  | "rmlocal" :: k :: rest, some _ =>
    match keyNat? k, (arg? "d" rest).bind hexNat? with
    | some k, some d =>
      let (s', out) := removeLocalProvider st.store k d
      ({ st with store := s' }, match out with | .ok => "ok" | .bug => "panic debug-assert")
    | _, _ => (st, "bad-op")
  | ["provs", k], some _ =>
    match keyNat? k with
    | some k =>
      let (s', ps) := getProviders st.store k now
      ({ st with store := s' }, showProvs ps)
    | none => (st, "bad-op")
  | _, _ => (st, "bad-op")

end Litep2pVerif.Driver.C17
