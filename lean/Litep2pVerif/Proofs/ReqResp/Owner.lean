import Litep2pVerif.Proofs.ReqResp.Ledger
/-!
The owner invariant: every request id registered in a peer's `active` set is waited for by a pending
substream opened to that very peer or by a request future filed under that very peer. Preserved by
every handler (needs the freshness of substream ids and that the keys of `peers` are distinct).
-/
namespace Litep2pVerif.ReqResp

variable {β : Type}

def keys (l : List (Nat × β)) : List Nat := l.map Prod.fst

theorem keys_modify (k : Nat) (f : β → β) (l : List (Nat × β)) : keys (alModify k f l) = keys l := by
  induction l with
  | nil => rfl
  | cons e rest ih =>
    obtain ⟨q, v⟩ := e
    simp only [alModify]
    split
    · simp [keys]
    · simp only [keys, List.map_cons] at ih ⊢; rw [ih]

theorem alFind_none_of_not_mem (k : Nat) (l : List (Nat × β)) (h : k ∉ keys l) : alFind k l = none := by
  induction l with
  | nil => rfl
  | cons e rest ih =>
    obtain ⟨q, v⟩ := e
    simp only [keys, List.map_cons, List.mem_cons, not_or] at h
    simp only [alFind]
    split
    · rename_i hq; exact absurd hq.symm h.1
    · exact ih h.2

theorem not_mem_keys_of_find_none (k : Nat) (l : List (Nat × β)) (h : alFind k l = none) : k ∉ keys l := by
  intro hm
  obtain ⟨e, he, hk⟩ := List.mem_map.mp hm
  obtain ⟨v', hv'⟩ := find_isSome_of_mem k e.2 l (by rw [← hk]; exact he)
  rw [h] at hv'; cases hv'

theorem key_ne_of_find_none (k : Nat) (l : List (Nat × β)) (h : alFind k l = none) (e : Nat × β) (he : e ∈ l) :
    e.1 ≠ k := by
  intro hk
  exact not_mem_keys_of_find_none k l h (List.mem_map.mpr ⟨e, he, hk⟩)

theorem find_of_mem_nodup (l : List (Nat × β)) (h : (keys l).Nodup) (e : Nat × β) (he : e ∈ l) :
    alFind e.1 l = some e.2 := by
  induction l with
  | nil => simp at he
  | cons x rest ih =>
    obtain ⟨q, v⟩ := x
    simp only [keys, List.map_cons, List.nodup_cons] at h
    simp only [List.mem_cons] at he
    simp only [alFind]
    rcases he with he | he
    · subst he; simp
    · split
      · rename_i hq
        exact absurd (List.mem_map.mpr ⟨e, he, hq.symm⟩) h.1
      · exact ih h.2 he

theorem take_sublist (k : Nat) (l : List (Nat × β)) : (alTake k l).2.Sublist l := by
  induction l with
  | nil => exact List.Sublist.refl _
  | cons x rest ih =>
    obtain ⟨q, v⟩ := x
    simp only [alTake]
    split
    · exact List.sublist_cons_self _ _
    · exact List.Sublist.cons_cons _ ih

theorem nodup_take (k : Nat) (l : List (Nat × β)) (h : (keys l).Nodup) : (keys (alTake k l).2).Nodup :=
  List.Nodup.sublist (List.Sublist.map _ (take_sublist k l)) h

/-- With distinct keys, what `alTake k` leaves has no entry with key `k`. -/
theorem key_ne_of_mem_take (k : Nat) (l : List (Nat × β)) (h : (keys l).Nodup) (e : Nat × β)
    (he : e ∈ (alTake k l).2) : e.1 ≠ k := by
  induction l with
  | nil => simp [alTake] at he
  | cons x rest ih =>
    obtain ⟨q, v⟩ := x
    simp only [keys, List.map_cons, List.nodup_cons] at h
    simp only [alTake] at he
    split at he
    · rename_i hq
      intro hk
      exact h.1 (List.mem_map.mpr ⟨e, he, by rw [hk, hq]⟩)
    · rename_i hq
      simp only [List.mem_cons] at he
      rcases he with he | he
      · subst he; exact hq
      · exact ih h.2 he

/-- An entry is left by `alTake k` unless it is the one taken. -/
theorem mem_take_or (k : Nat) (l : List (Nat × β)) (e : Nat × β) (he : e ∈ l) :
    e ∈ (alTake k l).2 ∨ (e.1 = k ∧ alFind k l = some e.2) := by
  induction l with
  | nil => simp at he
  | cons x rest ih =>
    obtain ⟨q, v⟩ := x
    simp only [alTake, alFind]
    simp only [List.mem_cons] at he
    split
    · rename_i hq
      rcases he with he | he
      · subst he; exact Or.inr ⟨hq, rfl⟩
      · exact Or.inl he
    · rcases he with he | he
      · subst he; exact Or.inl (List.mem_cons_self ..)
      · rcases ih he with h | h
        · exact Or.inl (List.mem_cons_of_mem _ h)
        · exact Or.inr h

/-- With distinct keys, an entry of `alModify k f l` is an untouched entry with another key, or the
modified entry of `k`. -/
theorem mem_modify (k : Nat) (f : β → β) (l : List (Nat × β)) (h : (keys l).Nodup) (e : Nat × β)
    (he : e ∈ alModify k f l) : (e.1 ≠ k ∧ e ∈ l) ∨ (e.1 = k ∧ ∃ v, (k, v) ∈ l ∧ e.2 = f v) := by
  induction l with
  | nil => simp [alModify] at he
  | cons x rest ih =>
    obtain ⟨q, v⟩ := x
    simp only [keys, List.map_cons, List.nodup_cons] at h
    simp only [alModify] at he
    split at he
    · rename_i hq
      simp only [List.mem_cons] at he
      rcases he with he | he
      · subst he
        exact Or.inr ⟨hq, v, by rw [hq]; exact List.mem_cons_self .., rfl⟩
      · refine Or.inl ⟨?_, List.mem_cons_of_mem _ he⟩
        intro hk
        exact h.1 (List.mem_map.mpr ⟨e, he, by rw [hk, hq]⟩)
    · rename_i hq
      simp only [List.mem_cons] at he
      rcases he with he | he
      · subst he; exact Or.inl ⟨hq, List.mem_cons_self ..⟩
      · rcases ih h.2 he with ⟨h1, h2⟩ | ⟨h1, v', h2, h3⟩
        · exact Or.inl ⟨h1, List.mem_cons_of_mem _ h2⟩
        · exact Or.inr ⟨h1, v', List.mem_cons_of_mem _ h2, h3⟩

theorem weight_le_alSum (w : β → Nat) (l : List (Nat × β)) (e : Nat × β) (he : e ∈ l) : w e.2 ≤ alSum w l := by
  induction l with
  | nil => simp at he
  | cons x rest ih =>
    simp only [List.mem_cons] at he
    simp only [alSum_cons]
    rcases he with he | he
    · subst he; omega
    · have := ih he; omega

/-! ## The invariant -/

structure Own (s : State) : Prop where
  nodup : (keys s.peers).Nodup
  owned : ∀ e ∈ s.peers, ∀ r ∈ e.2.active,
    (∃ o ∈ s.pendingOutbound, o.2.peer = e.1 ∧ o.2.rid = r) ∨
    (∃ f ∈ s.pendingInbound, f.peer = e.1 ∧ f.rid = r)

theorem Own.init (m : Option Nat) : Own (init m) := by
  constructor <;> simp [ReqResp.init, keys]

/-- Nothing the invariant reads shrank. -/
theorem Own.mono {s s' : State} (h : Own s) (hp : s'.peers = s.peers)
    (ho : ∀ o ∈ s.pendingOutbound, o ∈ s'.pendingOutbound)
    (hf : ∀ f ∈ s.pendingInbound, f ∈ s'.pendingInbound) : Own s' := by
  constructor
  · rw [hp]; exact h.nodup
  · intro e he r hr
    rw [hp] at he
    rcases h.owned e he r hr with ⟨o, h1, h2⟩ | ⟨f, h1, h2⟩
    · exact Or.inl ⟨o, ho o h1, h2⟩
    · exact Or.inr ⟨f, hf f h1, h2⟩

/-- Same, when a peer context changed without touching `active`. -/
theorem Own.mono_modify {s s' : State} (h : Own s) {k : Nat} {g : PeerCtx → PeerCtx}
    (hp : s'.peers = alModify k g s.peers) (hg : ∀ c, (g c).active = c.active)
    (ho : ∀ o ∈ s.pendingOutbound, o ∈ s'.pendingOutbound)
    (hf : ∀ f ∈ s.pendingInbound, f ∈ s'.pendingInbound) : Own s' := by
  constructor
  · rw [hp]; simp only [keys_modify]; exact h.nodup
  · intro e he r hr
    rw [hp] at he
    have key : ∃ e' ∈ s.peers, e'.1 = e.1 ∧ r ∈ e'.2.active := by
      rcases mem_modify k g s.peers h.nodup e he with ⟨_, h2⟩ | ⟨h1, v, h2, h3⟩
      · exact ⟨e, h2, rfl, hr⟩
      · refine ⟨(k, v), h2, h1.symm, ?_⟩
        rw [h3, hg] at hr; exact hr
    obtain ⟨e', he', hk, hr'⟩ := key
    rcases h.owned e' he' r hr' with ⟨o, h1, h2⟩ | ⟨f, h1, h2⟩
    · exact Or.inl ⟨o, ho o h1, by rw [← hk]; exact h2⟩
    · exact Or.inr ⟨f, hf f h1, by rw [← hk]; exact h2⟩

/-- An id occurs at most once in an `active` set (from the ledger). -/
theorem Inv.active_count_le {s : State} (h : Inv s) (e : Peer × PeerCtx) (he : e ∈ s.peers) (r : Rid) :
    e.2.active.count r ≤ 1 := by
  have h1 := weight_le_alSum (fun pc => pc.active.count r) s.peers e he
  have h2 := h.ledger r; have h3 := h.issuedLe r
  simp only [activeCount_def] at h2
  omega

theorem not_mem_erase_self_of_count_le (l : List Rid) (r : Rid) (h : l.count r ≤ 1) : r ∉ l.erase r := by
  intro hm
  have h1 := List.count_pos_iff.mpr hm
  have h2 := List.count_erase_self (a := r) (l := l)
  omega

theorem own_send (s : State) (peer : Peer) (request : Request) (opts : DialOptions)
    (dialAns : Except DialErr Unit) (openAns : Except SubErr Sid) (h : Own s)
    (ha : ∀ sid, openAns = .ok sid → alFind sid s.pendingOutbound = none) :
    Own (step s (.send peer request opts dialAns openAns)) := by
  simp only [step, onSendRequest]
  split
  · split
    · exact h.mono rfl (fun _ x => x) (fun _ x => x)
    · split
      · exact h.mono rfl (fun _ x => x) (fun _ x => x)
      · exact h.mono rfl (fun _ x => x) (fun _ x => x)
  · rename_i ctx hctx
    split
    · rename_i sid
      split
      · exact h.mono rfl (fun _ x => x) (fun _ x => x)
      · have hout : (alTake sid s.pendingOutbound).2 = s.pendingOutbound :=
          alTake_of_find_none sid _ (ha sid rfl)
        simp only [hout]
        constructor
        · simp only [keys_modify]; exact h.nodup
        · intro e he r hr
          rcases mem_modify _ _ s.peers h.nodup e he with ⟨_, h2⟩ | ⟨h1, v, h2, h3⟩
          · rcases h.owned e h2 r hr with ⟨o, h1, h2⟩ | ⟨f, h1, h2⟩
            · exact Or.inl ⟨o, List.mem_cons_of_mem _ h1, h2⟩
            · exact Or.inr ⟨f, h1, h2⟩
          · rw [h3] at hr
            rcases (mem_setInsert _ _ _).mp hr with hr | hr
            · exact Or.inl ⟨_, List.mem_cons_self .., h1.symm, hr.symm⟩
            · rcases h.owned (peer, v) h2 r hr with ⟨o, h4, h5⟩ | ⟨f, h4, h5⟩
              · exact Or.inl ⟨o, List.mem_cons_of_mem _ h4, by rw [h1]; exact h5⟩
              · exact Or.inr ⟨f, h4, by rw [h1]; exact h5⟩
    · exact h.mono rfl (fun _ x => x) (fun _ x => x)

theorem own_cancel (s : State) (rid : Rid) (h : Own s) : Own (onCancelRequest s rid) := by
  simp only [onCancelRequest]
  split
  · exact h.mono rfl (fun _ x => x) (fun _ x => x)
  · exact h

/-- What `openAll` does to `pending_outbound` when the substream ids are fresh: nothing is
overwritten, and every id it registers as active has an entry for the peer. -/
theorem openAll_owned (peer : Peer) (openAns : Nat → Except SubErr Sid) (ctxs : List Ctx)
    (hinj : ∀ i j sid, openAns i = .ok sid → openAns j = .ok sid → i = j) :
    ∀ (i : Nat) (active : List Rid) (outbound : List (Sid × Ctx)) (failed : List (Rid × SubErr))
      (calls : List Call), (∀ j sid, i ≤ j → openAns j = .ok sid → alFind sid outbound = none) →
    (∀ o ∈ outbound, o ∈ (openAll peer openAns ctxs i active outbound failed calls).2.1) ∧
    (∀ x ∈ (openAll peer openAns ctxs i active outbound failed calls).1, x ∈ active ∨
      ∃ o ∈ (openAll peer openAns ctxs i active outbound failed calls).2.1, o.2 ∈ ctxs ∧ o.2.rid = x) := by
  induction ctxs with
  | nil =>
    intro i active outbound failed calls _
    simp [openAll]
  | cons c rest ih =>
    intro i active outbound failed calls hfresh
    simp only [openAll]
    split
    · rename_i sid hsid
      have hout : (alTake sid outbound).2 = outbound := alTake_of_find_none sid _ (hfresh i sid (Nat.le_refl _) hsid)
      rw [hout]
      have hfresh' : ∀ j sid', i + 1 ≤ j → openAns j = .ok sid' → alFind sid' ((sid, c) :: outbound) = none := by
        intro j sid' hj hs
        have hne : sid ≠ sid' := by
          intro heq
          have := hinj i j sid hsid (heq ▸ hs)
          omega
        rw [alFind_cons_ne _ _ _ _ hne]
        exact hfresh j sid' (by omega) hs
      obtain ⟨h1, h2⟩ := ih (i + 1) (setInsert c.rid active) ((sid, c) :: outbound) failed
        (calls ++ [.openSubstream peer (.ok sid)]) hfresh'
      refine ⟨fun o ho => h1 o (List.mem_cons_of_mem _ ho), ?_⟩
      intro x hx
      rcases h2 x hx with h | ⟨o, ho1, ho2, ho3⟩
      · rcases (mem_setInsert _ _ _).mp h with h | h
        · exact Or.inr ⟨(sid, c), h1 _ (List.mem_cons_self ..), List.mem_cons_self .., h.symm⟩
        · exact Or.inl h
      · exact Or.inr ⟨o, ho1, List.mem_cons_of_mem _ ho2, ho3⟩
    · obtain ⟨h1, h2⟩ := ih (i + 1) active outbound (failed ++ [(c.rid, _)])
        (calls ++ [.openSubstream peer (.error _)]) (fun j sid hj hs => hfresh j sid (by omega) hs)
      refine ⟨h1, ?_⟩
      intro x hx
      rcases h2 x hx with h | ⟨o, ho1, ho2, ho3⟩
      · exact Or.inl h
      · exact Or.inr ⟨o, ho1, List.mem_cons_of_mem _ ho2, ho3⟩

theorem own_connectionEstablished (s : State) (peer : Peer) (openAns : Nat → Except SubErr Sid)
    (hi : Inv s) (h : Own s)
    (hfresh : ∀ i sid, openAns i = .ok sid → alFind sid s.pendingOutbound = none)
    (hinj : ∀ i j sid, openAns i = .ok sid → openAns j = .ok sid → i = j) :
    Own (onConnectionEstablished s peer openAns) := by
  simp only [onConnectionEstablished]
  split
  · exact h.mono rfl (fun _ x => x) (fun _ x => x)
  · rename_i hnone
    have hnk : peer ∉ keys s.peers := not_mem_keys_of_find_none peer _ hnone
    split
    · constructor
      · simp only [keys, List.map_cons, List.nodup_cons]
        exact ⟨hnk, h.nodup⟩
      · intro e he r hr
        simp only [List.mem_cons] at he
        rcases he with he | he
        · subst he; simp at hr
        · exact h.owned e he r hr
    · rename_i ctxs dials hx
      have hfind : alFind peer s.pendingDials = some ctxs := by rw [← alTake_fst, hx]
      have hpeerOf : ∀ c ∈ ctxs, c.peer = peer :=
        fun c hc => hi.dialPeer (peer, ctxs) (mem_of_find peer _ ctxs hfind) c hc
      obtain ⟨h1, h2⟩ := openAll_owned peer openAns ctxs hinj 0 [] s.pendingOutbound [] s.calls
        (fun j sid _ hs => hfresh j sid hs)
      generalize openAll peer openAns ctxs 0 [] s.pendingOutbound [] s.calls = res at h1 h2 ⊢
      obtain ⟨act, out', fl, calls'⟩ := res
      simp only at h1 h2
      rw [reportFailures_eq]
      split
      · constructor
        · exact h.nodup
        · intro e he r hr
          rcases h.owned e he r hr with ⟨o, h3, h4⟩ | ⟨f, h3, h4⟩
          · exact Or.inl ⟨o, h1 o h3, h4⟩
          · exact Or.inr ⟨f, h3, h4⟩
      · constructor
        · simp only [keys, List.map_cons, List.nodup_cons]
          exact ⟨hnk, h.nodup⟩
        · intro e he r hr
          simp only [List.mem_cons] at he
          rcases he with he | he
          · subst he
            rcases h2 r hr with hx | ⟨o, ho1, ho2, ho3⟩
            · simp at hx
            · exact Or.inl ⟨o, ho1, hpeerOf _ ho2, ho3⟩
          · rcases h.owned e he r hr with ⟨o, h3, h4⟩ | ⟨f, h3, h4⟩
            · exact Or.inl ⟨o, h1 o h3, h4⟩
            · exact Or.inr ⟨f, h3, h4⟩

theorem own_connectionClosed (s : State) (peer : Peer) (h : Own s) : Own (onConnectionClosed s peer) := by
  simp only [onConnectionClosed]
  split
  · rename_i x hx
    have hnone : alFind peer s.peers = none := by rw [← alTake_fst, hx]
    constructor
    · exact h.nodup
    · intro e he r hr
      have hne := key_ne_of_find_none peer _ hnone e he
      rcases h.owned e he r hr with ⟨o, h3, h4⟩ | ⟨f, h3, h4⟩
      · refine Or.inl ⟨o, List.mem_filter.mpr ⟨h3, ?_⟩, h4⟩
        simp only [bne_iff_ne, ne_eq]; rw [h4.1]; exact hne
      · exact Or.inr ⟨f, h3, h4⟩
  · rename_i ctx peers hx
    have hrest : peers = (alTake peer s.peers).2 := by rw [hx]
    rw [failAll_eq]
    constructor
    · rw [hrest]; exact nodup_take peer _ h.nodup
    · intro e he r hr
      have he' : e ∈ (alTake peer s.peers).2 := hrest ▸ he
      have hne := key_ne_of_mem_take peer _ h.nodup e he'
      rcases h.owned e (mem_of_mem_take peer _ e he') r hr with ⟨o, h3, h4⟩ | ⟨f, h3, h4⟩
      · refine Or.inl ⟨o, List.mem_filter.mpr ⟨h3, ?_⟩, h4⟩
        simp only [bne_iff_ne, ne_eq]; rw [h4.1]; exact hne
      · exact Or.inr ⟨f, h3, h4⟩

theorem dial_active_zero (s : State) (hi : Inv s) (peer : Peer) (ctxs : List Ctx)
    (hfind : alFind peer s.pendingDials = some ctxs) :
    ∀ c ∈ ctxs, alSum (fun pc => pc.active.count c.rid) s.peers = 0 := by
  intro c hc
  have h3 := alSum_take (ctxCount c.rid) peer s.pendingDials
  rw [hfind] at h3
  have h1 := hi.ledger c.rid; have h2 := hi.issuedLe c.rid
  have : 0 < ctxCount c.rid ctxs := List.countP_pos_iff.mpr ⟨c, hc, by simp⟩
  simp only [activeCount_def, dialCount_def, optW] at h1 h3
  omega

theorem own_dialFailure (s : State) (peer : Peer) (hi : Inv s) (h : Own s) : Own (onDialFailure s peer) := by
  simp only [onDialFailure]
  split
  · exact h
  · rename_i ctxs dials hx
    have hfind : alFind peer s.pendingDials = some ctxs := by rw [← alTake_fst, hx]
    rw [failDials_eq peer ctxs { s with pendingDials := dials } (dial_active_zero s hi peer ctxs hfind)]
    exact h.mono rfl (fun _ x => x) (fun _ x => x)

theorem own_outboundSubstream (s : State) (peer : Peer) (sid : Sid) (fb : Option Nat) (h : Own s)
    (ha : ∀ ctx, alFind sid s.pendingOutbound = some ctx → ctx.peer = peer) :
    Own (onOutboundSubstream s peer sid fb) := by
  simp only [onOutboundSubstream]
  split
  · exact h.mono rfl (fun _ x => x) (fun _ x => x)
  · rename_i ctx outbound hx
    have hfind : alFind sid s.pendingOutbound = some ctx := by rw [← alTake_fst, hx]
    have hrest : outbound = (alTake sid s.pendingOutbound).2 := by rw [hx]
    constructor
    · exact h.nodup
    · intro e he r hr
      rcases h.owned e he r hr with ⟨o, h3, h4⟩ | ⟨f, h3, h4⟩
      · rcases mem_take_or sid _ o h3 with hm | ⟨_, hm⟩
        · exact Or.inl ⟨o, hrest ▸ hm, h4⟩
        · rw [hfind] at hm
          cases hm
          refine Or.inr ⟨⟨peer, o.2.rid, sid⟩, List.mem_append_right _ (List.mem_singleton.mpr rfl), ?_, h4.2⟩
          rw [← ha o.2 hfind]; exact h4.1
      · exact Or.inr ⟨f, List.mem_append_left _ h3, h4⟩

theorem own_substreamOpenFailure (s : State) (sid : Sid) (error : SubErr) (hi : Inv s) (h : Own s) :
    Own (onSubstreamOpenFailure s sid error) := by
  simp only [onSubstreamOpenFailure]
  split
  · exact h.mono rfl (fun _ x => x) (fun _ x => x)
  · rename_i ctx outbound hx
    have hfind : alFind sid s.pendingOutbound = some ctx := by rw [← alTake_fst, hx]
    have hrest : outbound = (alTake sid s.pendingOutbound).2 := by rw [hx]
    constructor
    · simp only [emit, keys_modify]; exact h.nodup
    · intro e he r hr
      simp only [emit] at he ⊢
      -- the entry of the pre-state the id comes from, and the id is not the failed one there
      have key : ∃ e' ∈ s.peers, e'.1 = e.1 ∧ r ∈ e'.2.active ∧ ¬ (e'.1 = ctx.peer ∧ r = ctx.rid) := by
        rcases mem_modify _ _ s.peers h.nodup e he with ⟨h1, h2⟩ | ⟨h1, v, h2, h3⟩
        · exact ⟨e, h2, rfl, hr, fun hc => h1 hc.1⟩
        · rw [h3] at hr
          refine ⟨(ctx.peer, v), h2, h1.symm, List.mem_of_mem_erase hr, ?_⟩
          rintro ⟨_, hc⟩
          rw [hc] at hr
          exact not_mem_erase_self_of_count_le _ _ (hi.active_count_le _ h2 ctx.rid) hr
      obtain ⟨e', he', hk, hr', hne⟩ := key
      rcases h.owned e' he' r hr' with ⟨o, h3, h4⟩ | ⟨f, h3, h4⟩
      · rcases mem_take_or sid _ o h3 with hm | ⟨_, hm⟩
        · exact Or.inl ⟨o, hrest ▸ hm, by rw [← hk]; exact h4⟩
        · rw [hfind] at hm
          cases hm
          exact absurd ⟨h4.1.symm, h4.2.symm⟩ hne
      · exact Or.inr ⟨f, h3, by rw [← hk]; exact h4⟩

theorem own_inboundSubstream (s : State) (peer : Peer) (h : Own s) : Own (onInboundSubstream s peer) := by
  simp only [onInboundSubstream]
  repeat' split
  all_goals first
    | exact h
    | exact h.mono rfl (fun _ x => x) (fun _ x => x)
    | exact h.mono_modify rfl (fun _ => rfl) (fun _ x => x) (fun _ x => x)

theorem own_inboundRead (s : State) (f : InFut) (req : Option Payload) (h : Own s) :
    Own (onInboundRequest s f req) := by
  simp only [onInboundRequest]
  repeat' split
  all_goals first
    | exact h.mono rfl (fun _ x => x) (fun _ x => x)
    | exact h.mono_modify rfl (fun _ => rfl) (fun _ x => x) (fun _ x => x)

theorem own_substreamEvent (s : State) (f : Fut) (res : FutResult) (hi : Inv s) (h : Own s) :
    Own (onSubstreamEvent s f res) := by
  -- a witness other than `f` survives the removal of `f`
  have keep : ∀ f' ∈ s.pendingInbound, f' ≠ f → f' ∈ s.pendingInbound.erase f :=
    fun f' hf' hne => (List.mem_erase_of_ne hne).mpr hf'
  simp only [onSubstreamEvent]
  split
  · rename_i hnone
    constructor
    · exact h.nodup
    · intro e he r hr
      have hne := key_ne_of_find_none f.peer _ hnone e he
      rcases h.owned e he r hr with ⟨o, h3, h4⟩ | ⟨f', h3, h4⟩
      · exact Or.inl ⟨o, h3, h4⟩
      · exact Or.inr ⟨f', keep f' h3 (fun hc => hne (by rw [← h4.1, hc])), h4⟩
  · rename_i ctx hctx
    split
    · -- the id leaves the `active` set of the future's peer
      have main : Own { s with
          pendingInbound := s.pendingInbound.erase f
          pendingCancels := s.pendingCancels.erase f.rid
          peers := alModify f.peer (fun c => { c with active := c.active.erase f.rid }) s.peers } := by
        constructor
        · simp only [keys_modify]; exact h.nodup
        · intro e he r hr
          have key : ∃ e' ∈ s.peers, e'.1 = e.1 ∧ r ∈ e'.2.active ∧ ¬ (e'.1 = f.peer ∧ r = f.rid) := by
            rcases mem_modify _ _ s.peers h.nodup e he with ⟨h1, h2⟩ | ⟨h1, v, h2, h3⟩
            · exact ⟨e, h2, rfl, hr, fun hc => h1 hc.1⟩
            · rw [h3] at hr
              refine ⟨(f.peer, v), h2, h1.symm, List.mem_of_mem_erase hr, ?_⟩
              rintro ⟨_, hc⟩
              rw [hc] at hr
              exact not_mem_erase_self_of_count_le _ _ (hi.active_count_le _ h2 f.rid) hr
          obtain ⟨e', he', hk, hr', hne⟩ := key
          rcases h.owned e' he' r hr' with ⟨o, h3, h4⟩ | ⟨f', h3, h4⟩
          · exact Or.inl ⟨o, h3, by rw [← hk]; exact h4⟩
          · refine Or.inr ⟨f', keep f' h3 ?_, by rw [← hk]; exact h4⟩
            intro hc
            exact hne ⟨by rw [← h4.1, hc], by rw [← h4.2, hc]⟩
      split
      · exact main.mono rfl (fun _ x => x) (fun _ x => x)
      · exact main.mono rfl (fun _ x => x) (fun _ x => x)
      · exact main.mono rfl (fun _ x => x) (fun _ x => x)
    · rename_i hnot
      constructor
      · exact h.nodup
      · intro e he r hr
        rcases h.owned e he r hr with ⟨o, h3, h4⟩ | ⟨f', h3, h4⟩
        · exact Or.inl ⟨o, h3, h4⟩
        · refine Or.inr ⟨f', keep f' h3 ?_, h4⟩
          intro hc
          have hfind := find_of_mem_nodup s.peers h.nodup e he
          rw [← h4.1, hc, hctx] at hfind
          cases hfind
          exact hnot (by rw [← hc, h4.2]; exact hr)

theorem own_step (s : State) (i : Input) (hi : Inv s) (h : Own s) (ha : Allowed s i) : Own (step s i) := by
  cases i with
  | send peer request opts dialAns openAns =>
    exact own_send s peer request opts dialAns openAns h (fun sid hs => (ha sid hs).1)
  | cancel rid => exact own_cancel s rid h
  | connectionEstablished peer openAns =>
    exact own_connectionEstablished s peer openAns hi h (fun i sid hs => (ha.1 i sid hs).1) ha.2
  | connectionClosed peer => exact own_connectionClosed s peer h
  | dialFailure peer => exact own_dialFailure s peer hi h
  | outboundSubstream peer sid fb => exact own_outboundSubstream s peer sid fb h ha
  | substreamOpenFailure sid error => exact own_substreamOpenFailure s sid error hi h
  | inboundSubstream peer => exact own_inboundSubstream s peer h
  | futureDone f res => exact own_substreamEvent s f res hi h
  | inboundRead f request => exact own_inboundRead s f request h
  | responseDone f => exact h.mono rfl (fun _ x => x) (fun _ x => x)
  | responderWrites sid response => exact h.mono rfl (fun _ x => x) (fun _ x => x)
  | clogged => exact h.mono rfl (fun _ x => x) (fun _ x => x)

theorem reach_own (m : Option Nat) (s : State) (h : Reach m s) : Own s := by
  induction h with
  | init => exact Own.init m
  | step i hr _ ha ih => exact own_step _ i (reach_inv m _ hr) ih ha

/-- The owner invariant gives `Owned`. -/
theorem Own.toOwned {s : State} (h : Own s) : Owned s := by
  intro e he r hr
  rcases h.owned e he r hr with ⟨o, h1, h2⟩ | ⟨f, h1, h2⟩
  · have := one_le_outCount s o h1
    rw [h2.2] at this; omega
  · have := one_le_futCount s f h1
    rw [h2.2] at this; omega

end Litep2pVerif.ReqResp
