import Litep2pVerif.Model.ReqResp.Env
import Litep2pVerif.Proofs.ReqResp.Final
/-!
The observer invariant: every peer with a queue in `pending_dials` is owed the conclusion of a dial
by the transport manager. Hence a state in which the environment owes nothing has no parked request,
and the ledger gives exactly one terminal event per request.
-/
namespace Litep2pVerif.ReqResp

theorem reachE_reach (m : Option Nat) (e : EnvState) (h : ReachE m e) : Reach m e.s := by
  induction h with
  | init => exact Reach.init
  | step i _ hp ha ih => exact Reach.step i ih hp ha

/-! ## `pushDial` -/

theorem mem_pushDial (p : Peer) (c : Ctx) (l : List (Peer × List Ctx)) (d : Peer × List Ctx)
    (h : d ∈ pushDial p c l) : d.1 = p ∨ d ∈ l := by
  induction l with
  | nil => simp only [pushDial, List.mem_singleton] at h; subst h; exact Or.inl rfl
  | cons x rest ih =>
    obtain ⟨q, cs⟩ := x
    simp only [pushDial] at h
    split at h
    · rename_i hq
      simp only [List.mem_cons] at h
      rcases h with h | h
      · subst h; exact Or.inl hq
      · exact Or.inr (List.mem_cons_of_mem _ h)
    · simp only [List.mem_cons] at h
      rcases h with h | h
      · subst h; exact Or.inr (List.mem_cons_self ..)
      · rcases ih h with h | h
        · exact Or.inl h
        · exact Or.inr (List.mem_cons_of_mem _ h)

theorem mem_keys_pushDial (p : Peer) (c : Ctx) (l : List (Peer × List Ctx)) (k : Nat)
    (h : k ∈ keys (pushDial p c l)) : k = p ∨ k ∈ keys l := by
  obtain ⟨d, hd, hk⟩ := List.mem_map.mp h
  rcases mem_pushDial p c l d hd with h1 | h1
  · exact Or.inl (hk ▸ h1)
  · exact Or.inr (List.mem_map.mpr ⟨d, h1, hk⟩)

theorem nodup_pushDial (p : Peer) (c : Ctx) (l : List (Peer × List Ctx)) (h : (keys l).Nodup) :
    (keys (pushDial p c l)).Nodup := by
  induction l with
  | nil => simp [pushDial, keys]
  | cons x rest ih =>
    obtain ⟨q, cs⟩ := x
    simp only [keys, List.map_cons, List.nodup_cons] at h
    simp only [pushDial]
    split
    · simpa only [keys, List.map_cons, List.nodup_cons] using h
    · rename_i hq
      simp only [keys, List.map_cons, List.nodup_cons]
      refine ⟨?_, ih h.2⟩
      intro hm
      rcases mem_keys_pushDial p c rest q hm with h1 | h1
      · exact hq h1
      · exact h.1 h1

theorem key_mem_pushDial (p : Peer) (c : Ctx) (l : List (Peer × List Ctx)) : p ∈ keys (pushDial p c l) := by
  induction l with
  | nil => simp [pushDial, keys]
  | cons x rest ih =>
    obtain ⟨q, cs⟩ := x
    simp only [pushDial]
    split
    · rename_i hq; simp [keys, hq]
    · simp only [keys, List.map_cons, List.mem_cons]; exact Or.inr ih

/-! ## Frame lemmas: what the recursive helpers leave untouched -/

/-- The components the observer invariant reads. -/
def dialView (s : State) : List (Peer × List Ctx) × Bool := (s.pendingDials, s.panicked)

theorem dialView_failAll (peer : Peer) (l : List Rid) (s : State) : dialView (failAll peer l s) = dialView s := by
  induction l generalizing s with
  | nil => rfl
  | cons x rest ih => simp only [failAll, ih]; rfl

theorem dialView_failDials (peer : Peer) (l : List Ctx) (s : State) : dialView (failDials peer l s) = dialView s := by
  induction l generalizing s with
  | nil => rfl
  | cons x rest ih => simp only [failDials, ih]; rfl

theorem dialView_reportFailures (peer : Peer) (l : List (Rid × SubErr)) (s : State) :
    dialView (reportFailures peer l s) = dialView s := by
  rw [reportFailures_eq]; rfl

/-- Inputs other than `send`, `ConnectionEstablished` and `DialFailure` do not touch `pending_dials`. -/
theorem dials_unchanged (s : State) (i : Input)
    (h1 : ∀ p r o d a, i ≠ .send p r o d a) (h2 : ∀ p a, i ≠ .connectionEstablished p a)
    (h3 : ∀ p, i ≠ .dialFailure p) : (step s i).pendingDials = s.pendingDials := by
  cases i with
  | send p r o d a => exact absurd rfl (h1 p r o d a)
  | connectionEstablished p a => exact absurd rfl (h2 p a)
  | dialFailure p => exact absurd rfl (h3 p)
  | cancel rid => simp only [step, onCancelRequest]; split <;> rfl
  | connectionClosed peer =>
    simp only [step, onConnectionClosed]
    split
    · rfl
    · rename_i ctx peers _
      have := dialView_failAll peer ctx.active { s with
        pendingOutbound := s.pendingOutbound.filter (fun e => e.2.peer != peer), peers := peers }
      simp only [dialView, Prod.mk.injEq] at this
      exact this.1
  | outboundSubstream peer sid fb => simp only [step, onOutboundSubstream]; split <;> rfl
  | substreamOpenFailure sid error => simp only [step, onSubstreamOpenFailure]; split <;> rfl
  | inboundSubstream peer =>
    simp only [step, onInboundSubstream]
    repeat' split
    all_goals rfl
  | futureDone f res =>
    simp only [step, onSubstreamEvent]
    repeat' split
    all_goals rfl
  | inboundRead f request =>
    simp only [step, onInboundRequest]
    repeat' split
    all_goals rfl
  | responseDone f => rfl
  | responderWrites sid response => rfl
  | clogged => rfl

/-! ## The invariant -/

structure DialOwed (e : EnvState) : Prop where
  nodup : (keys e.s.pendingDials).Nodup
  /-- every queue of parked requests waits for a dial the transport manager still owes -/
  owed : ∀ d ∈ e.s.pendingDials, d.1 ∈ e.dialsOwed

theorem DialOwed.init (m : Option Nat) : DialOwed (initE m) := by
  constructor <;> simp [initE, ReqResp.init, keys]

/-- What a `send` does to the parked requests and the call log. -/
theorem send_dials (s : State) (peer : Peer) (req : Request) (opts : DialOptions)
    (dialAns : Except DialErr Unit) (openAns : Except SubErr Sid) :
    (step s (.send peer req opts dialAns openAns)).pendingDials = s.pendingDials ∨
    ((step s (.send peer req opts dialAns openAns)).pendingDials =
        pushDial peer ⟨peer, s.nextRid, req⟩ s.pendingDials ∧
      (step s (.send peer req opts dialAns openAns)).calls = s.calls ++ [.dial peer (.ok ())]) := by
  simp only [step, onSendRequest]
  repeat' split
  all_goals first
    | exact Or.inl rfl
    | exact Or.inr ⟨rfl, rfl⟩

theorem dialOks_single_ok (p : Peer) : dialOks [.dial p (.ok ())] = [p] := rfl

theorem dialOwed_step (e : EnvState) (i : Input) (h : DialOwed e) (hp : e.s.panicked = false) :
    DialOwed (stepE e i) := by
  -- inputs that conclude no dial keep every obligation
  have keepAll : i.concludesDial = none → ∀ p ∈ e.dialsOwed, p ∈ (stepE e i).dialsOwed := by
    intro hc p hm
    simp only [stepE, hc]
    exact List.mem_append_left _ hm
  cases i with
  | send peer req opts dialAns openAns =>
    rcases send_dials e.s peer req opts dialAns openAns with hd | ⟨hd, hcalls⟩
    · constructor
      · show (keys (step e.s _).pendingDials).Nodup
        rw [hd]; exact h.nodup
      · intro d hm
        have hm' : d ∈ (step e.s (.send peer req opts dialAns openAns)).pendingDials := hm
        rw [hd] at hm'
        exact keepAll rfl _ (h.owed d hm')
    · constructor
      · show (keys (step e.s _).pendingDials).Nodup
        rw [hd]; exact nodup_pushDial _ _ _ h.nodup
      · intro d hm
        have hm' : d ∈ (step e.s (.send peer req opts dialAns openAns)).pendingDials := hm
        rw [hd] at hm'
        rcases mem_pushDial _ _ _ d hm' with h1 | h1
        · show d.1 ∈ (stepE e _).dialsOwed
          simp only [stepE, Input.concludesDial, hcalls, List.drop_left, dialOks_single_ok]
          rw [h1]
          exact List.mem_append_right _ (List.mem_singleton.mpr rfl)
        · exact keepAll rfl _ (h.owed d h1)
  | connectionEstablished peer openAns =>
    -- either the peer is registered already (`debug_assert!`: nothing changes, nothing is discharged) or
    -- its queue is taken out; what is left belongs to other peers
    cases hf : alFind peer e.s.peers with
    | some pc =>
      have hs : step e.s (.connectionEstablished peer openAns) = { e.s with panicked := true } := by
        simp only [step, onConnectionEstablished, hf]
      constructor
      · show (keys (step e.s _).pendingDials).Nodup
        rw [hs]; exact h.nodup
      · intro d hm
        have hm' : d ∈ (step e.s (.connectionEstablished peer openAns)).pendingDials := hm
        rw [hs] at hm'
        show d.1 ∈ (stepE e _).dialsOwed
        simp only [stepE, Input.concludesDial, hs, if_true]
        exact List.mem_append_left _ (h.owed d hm')
    | none =>
      have hv : dialView (step e.s (.connectionEstablished peer openAns)) =
          ((alTake peer e.s.pendingDials).2, e.s.panicked) := by
        simp only [step, onConnectionEstablished, hf]
        cases ht : alTake peer e.s.pendingDials with
        | mk o rest =>
          cases o with
          | none =>
            have := alTake_of_find_none peer e.s.pendingDials (by rw [← alTake_fst, ht])
            rw [ht] at this
            simp only [dialView]
            rw [← this]
          | some ctxs =>
            simp only []
            split
            · rw [dialView_reportFailures]; rfl
            · rw [dialView_reportFailures]; rfl
      simp only [dialView, Prod.mk.injEq] at hv
      constructor
      · show (keys (step e.s _).pendingDials).Nodup
        rw [hv.1]; exact nodup_take _ _ h.nodup
      · intro d hm
        have hm' : d ∈ (step e.s (.connectionEstablished peer openAns)).pendingDials := hm
        rw [hv.1] at hm'
        show d.1 ∈ (stepE e _).dialsOwed
        simp only [stepE, Input.concludesDial, hv.2, hp]
        refine List.mem_append_left _ (List.mem_filter.mpr ⟨h.owed d (mem_of_mem_take _ _ _ hm'), ?_⟩)
        simpa using key_ne_of_mem_take peer _ h.nodup d hm'
  | dialFailure peer =>
    have hv : dialView (step e.s (.dialFailure peer)) = ((alTake peer e.s.pendingDials).2, e.s.panicked) := by
      simp only [step, onDialFailure]
      cases ht : alTake peer e.s.pendingDials with
      | mk o rest =>
        cases o with
        | none =>
          have := alTake_of_find_none peer e.s.pendingDials (by rw [← alTake_fst, ht])
          rw [ht] at this
          simp only [dialView]
          rw [← this]
        | some ctxs => simp only []; rw [dialView_failDials]; rfl
    simp only [dialView, Prod.mk.injEq] at hv
    constructor
    · show (keys (step e.s _).pendingDials).Nodup
      rw [hv.1]; exact nodup_take _ _ h.nodup
    · intro d hm
      have hm' : d ∈ (step e.s (.dialFailure peer)).pendingDials := hm
      rw [hv.1] at hm'
      show d.1 ∈ (stepE e _).dialsOwed
      simp only [stepE, Input.concludesDial, hv.2, hp]
      refine List.mem_append_left _ (List.mem_filter.mpr ⟨h.owed d (mem_of_mem_take _ _ _ hm'), ?_⟩)
      simpa using key_ne_of_mem_take peer _ h.nodup d hm'
  | cancel rid => exact dialOwed_keep e _ h (by intros; simp) (by intros; simp) (by intros; simp) rfl keepAll
  | connectionClosed peer =>
    exact dialOwed_keep e _ h (by intros; simp) (by intros; simp) (by intros; simp) rfl keepAll
  | outboundSubstream peer sid fb =>
    exact dialOwed_keep e _ h (by intros; simp) (by intros; simp) (by intros; simp) rfl keepAll
  | substreamOpenFailure sid error =>
    exact dialOwed_keep e _ h (by intros; simp) (by intros; simp) (by intros; simp) rfl keepAll
  | inboundSubstream peer =>
    exact dialOwed_keep e _ h (by intros; simp) (by intros; simp) (by intros; simp) rfl keepAll
  | futureDone f res =>
    exact dialOwed_keep e _ h (by intros; simp) (by intros; simp) (by intros; simp) rfl keepAll
  | inboundRead f request =>
    exact dialOwed_keep e _ h (by intros; simp) (by intros; simp) (by intros; simp) rfl keepAll
  | responseDone f =>
    exact dialOwed_keep e _ h (by intros; simp) (by intros; simp) (by intros; simp) rfl keepAll
  | responderWrites sid response =>
    exact dialOwed_keep e _ h (by intros; simp) (by intros; simp) (by intros; simp) rfl keepAll
  | clogged =>
    exact dialOwed_keep e _ h (by intros; simp) (by intros; simp) (by intros; simp) rfl keepAll
where
  dialOwed_keep (e : EnvState) (i : Input) (h : DialOwed e)
      (h1 : ∀ p r o d a, i ≠ .send p r o d a) (h2 : ∀ p a, i ≠ .connectionEstablished p a)
      (h3 : ∀ p, i ≠ .dialFailure p) (hc : i.concludesDial = none)
      (keepAll : i.concludesDial = none → ∀ p ∈ e.dialsOwed, p ∈ (stepE e i).dialsOwed) :
      DialOwed (stepE e i) := by
    have hd := dials_unchanged e.s i h1 h2 h3
    constructor
    · show (keys (step e.s i).pendingDials).Nodup
      rw [hd]; exact h.nodup
    · intro d hm
      have hm' : d ∈ (step e.s i).pendingDials := hm
      rw [hd] at hm'
      exact keepAll hc _ (h.owed d hm')

theorem reachE_dialOwed (m : Option Nat) (e : EnvState) (h : ReachE m e) : DialOwed e := by
  induction h with
  | init => exact DialOwed.init m
  | step i _ hp _ ih => exact dialOwed_step _ i ih hp

/-- A reachable state in which the environment owes nothing is quiescent in the protocol's own
bookkeeping as well: nothing is parked in `pending_dials`. -/
theorem envQuiescent_quiescent (m : Option Nat) (e : EnvState) (h : ReachE m e) (hq : EnvQuiescent e) :
    Quiescent e.s := by
  have hd := reachE_dialOwed m e h
  refine ⟨?_, hq.2.1, hq.2.2⟩
  cases hpd : e.s.pendingDials with
  | nil => rfl
  | cons d rest =>
    have := hd.owed d (by rw [hpd]; exact List.mem_cons_self ..)
    rw [hq.1] at this
    cases this

theorem reachE_exactly_one (m : Option Nat) (e : EnvState) (h : ReachE m e) (hq : EnvQuiescent e) (r : Rid)
    (hi : issuedCount e.s r = 1) :
    ((terminals e.s.log r = 1 ∧ e.s.cancelDone.count r = 0) ∨
     (terminals e.s.log r = 0 ∧ e.s.cancelDone.count r = 1 ∧ r ∈ e.s.cancelSent)) ∧
    (r ∉ e.s.cancelSent → terminals e.s.log r = 1) :=
  reach_exactly_one m e.s (reachE_reach m e h) (envQuiescent_quiescent m e h hq) r hi

/-- What the answer of `dial` does to a request for a peer the protocol has not registered: only an
accepted dial parks it (and then the transport manager owes the conclusion); every refusal fails it
at once with that very error and creates no obligation. -/
theorem send_dial_answer (e : EnvState) (peer : Peer) (req : Request) (dialAns : Except DialErr Unit)
    (openAns : Except SubErr Sid) (hp : alFind peer e.s.peers = none) :
    match dialAns with
    | .ok _ =>
      (stepE e (.send peer req .dial dialAns openAns)).s.pendingDials =
        pushDial peer ⟨peer, e.s.nextRid, req⟩ e.s.pendingDials ∧
      (stepE e (.send peer req .dial dialAns openAns)).s.log = e.s.log ∧
      (stepE e (.send peer req .dial dialAns openAns)).dialsOwed = e.dialsOwed ++ [peer]
    | .error err =>
      (stepE e (.send peer req .dial dialAns openAns)).s.pendingDials = e.s.pendingDials ∧
      (stepE e (.send peer req .dial dialAns openAns)).s.log =
        e.s.log ++ [.requestFailed peer e.s.nextRid (.rejected (.dialFailed (some err)))] ∧
      (stepE e (.send peer req .dial dialAns openAns)).dialsOwed = e.dialsOwed := by
  cases dialAns with
  | ok u => cases u; simp [stepE, step, onSendRequest, hp, Input.concludesDial, dialOks]
  | error err => simp [stepE, step, onSendRequest, hp, Input.concludesDial, dialOks, emit]

end Litep2pVerif.ReqResp
