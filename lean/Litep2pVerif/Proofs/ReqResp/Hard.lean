import Litep2pVerif.Proofs.ReqResp.Inv
/-!
Preservation of the ledger invariant by the request-path handlers.
-/
namespace Litep2pVerif.ReqResp

theorem outCount_take (s : State) (sid : Sid) (ctx : Ctx) (outbound : List (Sid × Ctx))
    (hx : alTake sid s.pendingOutbound = (some ctx, outbound)) (r : Rid) :
    outCount s r = (if ctx.rid == r then 1 else 0) + outbound.countP (fun e => e.2.rid == r) := by
  have hfind : alFind sid s.pendingOutbound = some ctx := by rw [← alTake_fst, hx]
  have := countP_take (fun e => e.2.rid == r) sid s.pendingOutbound
  rw [hfind, hx] at this
  simpa [outCount] using this

theorem inv_outboundSubstream (s : State) (peer : Peer) (sid : Sid) (fb : Option Nat) (h : Inv s) :
    Inv (onOutboundSubstream s peer sid fb) := by
  simp only [onOutboundSubstream]
  split
  · exact inv_panicked s h
  · rename_i ctx outbound hx
    have hc := outCount_take s sid ctx outbound hx
    have hrest : outbound = (alTake sid s.pendingOutbound).2 := by rw [hx]
    constructor
    · exact h.ledger
    · intro r hr
      have := h.fresh r hr
      have := hc r
      simp only [outCount, futCount, issuedCount, List.countP_append, List.countP_cons, List.countP_nil] at *
      omega
    · exact h.issuedLe
    · intro r
      have := h.excl r
      have := hc r
      simp only [outCount, futCount, dialCount, List.countP_append, List.countP_cons, List.countP_nil] at *
      omega
    · intro e he
      exact h.owned e (mem_of_mem_take sid _ e (hrest ▸ he))
    · exact h.dialPeer
    · exact h.cancelSub

theorem countP_erase_mem {α : Type} [BEq α] [LawfulBEq α] (p : α → Bool) (l : List α) (a : α) (h : a ∈ l) :
    (l.erase a).countP p + (if p a then 1 else 0) = l.countP p := by
  induction l with
  | nil => simp at h
  | cons x rest ih =>
    by_cases hx : x = a
    · subst hx; simp [List.countP_cons]
    · have hm : a ∈ rest := by
        simp only [List.mem_cons] at h
        rcases h with h | h
        · exact absurd h.symm hx
        · exact h
      have hne : (x == a) = false := by simpa using hx
      have := ih hm
      rw [List.erase_cons]
      simp only [hne, Bool.false_eq_true, if_false, List.countP_cons]
      omega

theorem one_le_outCount (s : State) (e : Sid × Ctx) (he : e ∈ s.pendingOutbound) : 1 ≤ outCount s e.2.rid := by
  have : 0 < s.pendingOutbound.countP (fun x => x.2.rid == e.2.rid) :=
    List.countP_pos_iff.mpr ⟨e, he, by simp⟩
  exact this

theorem one_le_futCount (s : State) (f : Fut) (hf : f ∈ s.pendingInbound) : 1 ≤ futCount s f.rid := by
  have : 0 < s.pendingInbound.countP (fun x => x.rid == f.rid) :=
    List.countP_pos_iff.mpr ⟨f, hf, by simp⟩
  exact this

/-- Effect of erasing `x` from the `active` set of the first context of `k`. -/
theorem activeSum_erase (l : List (Peer × PeerCtx)) (k : Peer) (x : Rid) (pc : PeerCtx)
    (hf : alFind k l = some pc) (hm : x ∈ pc.active) (r : Rid) :
    alSum (fun pc => pc.active.count r) (alModify k (fun c => { c with active := c.active.erase x }) l) +
      (if x == r then 1 else 0) = alSum (fun pc => pc.active.count r) l := by
  have := alSum_modify (fun pc => pc.active.count r) k (fun c => { c with active := c.active.erase x }) l
  rw [hf] at this
  simp only [optW, Option.map_some] at this
  by_cases hx : x = r
  · subst hx
    have := count_erase_self_of_mem x pc.active hm
    simp; omega
  · have := count_erase_ne r x pc.active hx
    have hb : (x == r) = false := by simpa using hx
    simp [hb]; omega

theorem owned_after_erase (s : State) (h : Inv s) (k : Peer) (x : Rid)
    (e : Sid × Ctx) (he : e ∈ s.pendingOutbound) (hx : e.2.rid ≠ x) :
    ∃ pc, alFind e.2.peer (alModify k (fun c => { c with active := c.active.erase x }) s.peers) = some pc ∧
      e.2.rid ∈ pc.active := by
  obtain ⟨pc, hpc, hm⟩ := h.owned e he
  rw [alFind_modify]
  split
  · refine ⟨_, by rw [hpc]; rfl, ?_⟩
    exact (List.mem_erase_of_ne hx).mpr hm
  · exact ⟨pc, hpc, hm⟩

theorem inv_substreamEvent (s : State) (f : Fut) (res : FutResult) (h : Inv s)
    (hf : f ∈ s.pendingInbound) (hc : res = .error .canceled → f.rid ∈ s.cancelSent) :
    Inv (onSubstreamEvent s f res) := by
  have hfut : ∀ r, (s.pendingInbound.erase f).countP (fun x => x.rid == r) + (if f.rid == r then 1 else 0) =
      futCount s r := fun r => countP_erase_mem _ _ _ hf
  have hone := one_le_futCount s f hf
  -- the state with the future removed
  have base : Inv { s with pendingInbound := s.pendingInbound.erase f,
                           pendingCancels := s.pendingCancels.erase f.rid } := by
    constructor
    · exact h.ledger
    · intro r hr
      have := h.fresh r hr; have := hfut r
      simp only [outCount, futCount, issuedCount] at *
      omega
    · exact h.issuedLe
    · intro r
      have := h.excl r; have := hfut r
      simp only [outCount, futCount, dialCount] at *
      omega
    · exact h.owned
    · exact h.dialPeer
    · exact h.cancelSub
  have hne : ∀ e ∈ s.pendingOutbound, e.2.rid ≠ f.rid := by
    intro e he heq
    have := one_le_outCount s e he
    have := h.excl f.rid
    rw [heq] at *
    omega
  simp only [onSubstreamEvent]
  split
  · exact base
  · rename_i ctx hctx
    split
    · rename_i hmem
      have hact := activeSum_erase s.peers f.peer f.rid ctx hctx hmem
      split
      · -- response
        constructor
        · intro r
          have h1 := h.ledger r; have h2 := hact r
          by_cases hr : f.rid = r
          · simp only [emit, terminals_append, terminals_single, Event.terminalFor, activeCount_def, dialCount_def,
              issuedCount, hr, beq_self_eq_true, if_true] at h1 h2 ⊢
            omega
          · have hb : (f.rid == r) = false := by simpa using hr
            simp only [emit, terminals_append, terminals_single, Event.terminalFor, activeCount_def, dialCount_def,
              issuedCount, hb, Bool.false_eq_true, if_false] at h1 h2 ⊢
            omega
        · exact base.fresh
        · exact h.issuedLe
        · exact base.excl
        · exact fun e he => owned_after_erase s h f.peer f.rid e he (hne e he)
        · exact h.dialPeer
        · exact h.cancelSub
      · -- canceled
        constructor
        · intro r
          have := h.ledger r; have := hact r
          simp only [activeCount_def, dialCount_def, issuedCount, List.count_append, List.count_cons,
            List.count_nil] at *
          omega
        · exact base.fresh
        · exact h.issuedLe
        · exact base.excl
        · exact fun e he => owned_after_erase s h f.peer f.rid e he (hne e he)
        · exact h.dialPeer
        · intro r hr
          simp only [List.mem_append, List.mem_singleton] at hr
          rcases hr with hr | hr
          · exact h.cancelSub r hr
          · exact hr ▸ hc rfl
      · -- other errors
        constructor
        · intro r
          have h1 := h.ledger r; have h2 := hact r
          by_cases hr : f.rid = r
          · simp only [emit, terminals_append, terminals_single, Event.terminalFor, activeCount_def, dialCount_def,
              issuedCount, hr, beq_self_eq_true, if_true] at h1 h2 ⊢
            omega
          · have hb : (f.rid == r) = false := by simpa using hr
            simp only [emit, terminals_append, terminals_single, Event.terminalFor, activeCount_def, dialCount_def,
              issuedCount, hb, Bool.false_eq_true, if_false] at h1 h2 ⊢
            omega
        · exact base.fresh
        · exact h.issuedLe
        · exact base.excl
        · exact fun e he => owned_after_erase s h f.peer f.rid e he (hne e he)
        · exact h.dialPeer
        · exact h.cancelSub
    · exact base

theorem inv_substreamOpenFailure (s : State) (sid : Sid) (error : SubErr) (h : Inv s) :
    Inv (onSubstreamOpenFailure s sid error) := by
  simp only [onSubstreamOpenFailure]
  split
  · exact inv_panicked s h
  · rename_i ctx outbound hx
    have hc := outCount_take s sid ctx outbound hx
    have hrest : outbound = (alTake sid s.pendingOutbound).2 := by rw [hx]
    have hfind : alFind sid s.pendingOutbound = some ctx := by rw [← alTake_fst, hx]
    have hmem0 := mem_of_find sid _ ctx hfind
    obtain ⟨pc, hpc, hm⟩ := h.owned _ hmem0
    have hact := activeSum_erase s.peers ctx.peer ctx.rid pc hpc hm
    have hz : ∀ e ∈ outbound, e.2.rid ≠ ctx.rid := by
      have h1 := hc ctx.rid; have h2 := h.excl ctx.rid
      simp only [beq_self_eq_true, if_true] at h1
      generalize hq : List.countP _ outbound = n at h1
      have hn : n = 0 := by omega
      subst hn
      intro e he heq
      have := List.countP_eq_zero.mp hq e he
      simp [heq] at this
    constructor
    · intro r
      have h1 := h.ledger r; have h2 := hact r
      by_cases hr : ctx.rid = r
      · simp only [emit, terminals_append, terminals_single, Event.terminalFor, activeCount_def, dialCount_def,
          issuedCount, hr, beq_self_eq_true, if_true] at h1 h2 ⊢
        omega
      · have hb : (ctx.rid == r) = false := by simpa using hr
        simp only [emit, terminals_append, terminals_single, Event.terminalFor, activeCount_def, dialCount_def,
          issuedCount, hb, Bool.false_eq_true, if_false] at h1 h2 ⊢
        omega
    · intro r hr
      have := h.fresh r hr; have := hc r
      simp only [emit, outCount, futCount, issuedCount] at *
      omega
    · exact h.issuedLe
    · intro r
      have := h.excl r; have := hc r
      simp only [emit, outCount, futCount, dialCount] at *
      omega
    · intro e he
      have he' : e ∈ s.pendingOutbound := mem_of_mem_take sid _ e (hrest ▸ he)
      exact owned_after_erase s h ctx.peer ctx.rid e he' (hz e he)
    · exact h.dialPeer
    · exact h.cancelSub

theorem failAll_eq (peer : Peer) (l : List Rid) (s : State) :
    failAll peer l s =
      { s with log := s.log ++ l.map (fun rid => Event.requestFailed peer rid (.rejected .connectionClosed)) } := by
  induction l generalizing s with
  | nil => simp [failAll]
  | cons x rest ih => simp [failAll, ih, emit, List.append_assoc]

theorem terminals_map_failed (peer : Peer) (err : RrError) (l : List Rid) (r : Rid) :
    terminals (l.map (fun rid => Event.requestFailed peer rid err)) r = l.count r := by
  induction l with
  | nil => rfl
  | cons x rest ih =>
    simp only [terminals] at ih
    simp only [List.map_cons, terminals, List.countP_cons, ih, Event.terminalFor, List.count_cons]
    by_cases hx : x = r
    · subst hx; simp
    · have hb : (x == r) = false := by simpa using hx
      simp [hx, hb]

theorem countP_filter_le {α : Type} (p q : α → Bool) (l : List α) : (l.filter q).countP p ≤ l.countP p :=
  List.Sublist.countP_le (List.filter_sublist)

theorem inv_connectionClosed (s : State) (peer : Peer) (h : Inv s) : Inv (onConnectionClosed s peer) := by
  have hle : ∀ r, (s.pendingOutbound.filter (fun e => e.2.peer != peer)).countP (fun e => e.2.rid == r) ≤
      outCount s r := fun r => countP_filter_le _ _ _
  simp only [onConnectionClosed]
  split
  · rename_i x hx
    constructor
    · exact h.ledger
    · intro r hr
      have := h.fresh r hr; have := hle r
      simp only [outCount, futCount, issuedCount] at *
      omega
    · exact h.issuedLe
    · intro r
      have := h.excl r; have := hle r
      simp only [outCount, futCount, dialCount] at *
      omega
    · intro e he
      exact h.owned e (List.mem_filter.mp he).1
    · exact h.dialPeer
    · exact h.cancelSub
  · rename_i ctx peers hx
    have hfind : alFind peer s.peers = some ctx := by rw [← alTake_fst, hx]
    have hrest : peers = (alTake peer s.peers).2 := by rw [hx]
    rw [failAll_eq]
    constructor
    · intro r
      have h1 := h.ledger r
      have h2 := alSum_take (fun pc => pc.active.count r) peer s.peers
      rw [hfind, ← hrest] at h2
      simp only [terminals_append, terminals_map_failed, activeCount_def, dialCount_def, issuedCount, optW] at h1 h2 ⊢
      omega
    · intro r hr
      have := h.fresh r hr; have := hle r
      simp only [outCount, futCount, issuedCount] at *
      omega
    · exact h.issuedLe
    · intro r
      have := h.excl r; have := hle r
      simp only [outCount, futCount, dialCount] at *
      omega
    · intro e he
      have hm := List.mem_filter.mp he
      obtain ⟨pc, hpc, hmem⟩ := h.owned e hm.1
      have hne : e.2.peer ≠ peer := by simpa using hm.2
      exact ⟨pc, by rw [hrest, alFind_take_ne peer e.2.peer hne]; exact hpc, hmem⟩
    · exact h.dialPeer
    · exact h.cancelSub

theorem alModify_erase_noop (l : List (Peer × PeerCtx)) (k : Peer) (x : Rid)
    (h : alSum (fun pc => pc.active.count x) l = 0) :
    alModify k (fun c => { c with active := c.active.erase x }) l = l := by
  induction l with
  | nil => rfl
  | cons e rest ih =>
    obtain ⟨q, v⟩ := e
    simp only [alSum_cons] at h
    simp only [alModify]
    split
    · have : x ∉ v.active := fun hm => by
        have := List.count_pos_iff.mpr hm
        omega
      simp [List.erase_of_not_mem this]
    · rw [ih (by omega)]

theorem failDials_eq (peer : Peer) (l : List Ctx) (s : State)
    (h : ∀ c ∈ l, alSum (fun pc => pc.active.count c.rid) s.peers = 0) :
    failDials peer l s =
      { s with log := s.log ++ l.map (fun c => Event.requestFailed peer c.rid (.rejected (.dialFailed none))) } := by
  induction l generalizing s with
  | nil => simp [failDials]
  | cons x rest ih =>
    simp only [failDials]
    rw [alModify_erase_noop _ _ _ (h x (List.mem_cons_self ..))]
    rw [ih]
    · simp [emit, List.append_assoc]
    · intro c hc
      exact h c (List.mem_cons_of_mem _ hc)

theorem terminals_map_failed_ctx (peer : Peer) (err : RrError) (l : List Ctx) (r : Rid) :
    terminals (l.map (fun c => Event.requestFailed peer c.rid err)) r = ctxCount r l := by
  induction l with
  | nil => rfl
  | cons x rest ih =>
    simp only [terminals, ctxCount] at ih
    simp only [List.map_cons, terminals, ctxCount, List.countP_cons, ih, Event.terminalFor]
    by_cases hx : x.rid = r
    · simp [hx]
    · have hb : (x.rid == r) = false := by simpa using hx
      simp [hb]

theorem inv_dialFailure (s : State) (peer : Peer) (h : Inv s) : Inv (onDialFailure s peer) := by
  simp only [onDialFailure]
  split
  · exact h
  · rename_i ctxs dials hx
    have hfind : alFind peer s.pendingDials = some ctxs := by rw [← alTake_fst, hx]
    have hrest : dials = (alTake peer s.pendingDials).2 := by rw [hx]
    have hD : ∀ r, dialCount s r = ctxCount r ctxs + alSum (ctxCount r) dials := by
      intro r
      have := alSum_take (ctxCount r) peer s.pendingDials
      rw [hfind, ← hrest] at this
      simpa [dialCount_def, optW] using this
    have hzero : ∀ c ∈ ctxs, alSum (fun pc => pc.active.count c.rid) s.peers = 0 := by
      intro c hc
      have h1 := h.ledger c.rid; have h2 := h.issuedLe c.rid; have h3 := hD c.rid
      have : 0 < ctxCount c.rid ctxs := List.countP_pos_iff.mpr ⟨c, hc, by simp⟩
      simp only [activeCount_def] at h1
      omega
    rw [failDials_eq peer ctxs { s with pendingDials := dials } hzero]
    constructor
    · intro r
      have h1 := h.ledger r; have h3 := hD r
      simp only [terminals_append, terminals_map_failed_ctx, activeCount_def, dialCount_def, issuedCount] at h1 h3 ⊢
      omega
    · exact h.fresh
    · exact h.issuedLe
    · intro r
      have := h.excl r; have h3 := hD r
      simp only [outCount, futCount, dialCount_def] at *
      omega
    · exact h.owned
    · intro e he
      exact h.dialPeer e (mem_of_mem_take peer _ e (hrest ▸ he))
    · exact h.cancelSub

theorem ctxCount_snoc (r : Rid) (l : List Ctx) (c : Ctx) :
    ctxCount r (l ++ [c]) = ctxCount r l + (if c.rid == r then 1 else 0) := by
  simp [ctxCount, List.countP_append, List.countP_cons]

/-- What the invariant gives for the id that is allocated next. -/
theorem Inv.next_zero {s : State} (h : Inv s) (r : Rid) (hr : s.nextRid ≤ r) :
    terminals s.log r = 0 ∧ dialCount s r = 0 ∧ activeCount s r = 0 ∧ s.cancelDone.count r = 0 ∧
    issuedCount s r = 0 ∧ outCount s r = 0 ∧ futCount s r = 0 := by
  have := h.fresh r hr; have := h.ledger r
  omega

theorem inv_send_fail (s : State) (h : Inv s) (peer : Peer) (request : Request) (err : RrError)
    (calls' : List Call) :
    Inv (emit { s with nextRid := s.nextRid + 1, issued := s.issued ++ [⟨peer, s.nextRid, request⟩],
                       calls := calls' } (.requestFailed peer s.nextRid err)) := by
  constructor
  · intro r
    have h1 := h.ledger r
    have h0 := h.next_zero s.nextRid (Nat.le_refl _)
    by_cases hr : s.nextRid = r
    · subst hr
      simp only [emit, terminals_append, terminals_single, Event.terminalFor, activeCount_def, dialCount_def,
        issuedCount, ctxCount_snoc, beq_self_eq_true, if_true] at h1 h0 ⊢
      omega
    · have hb : (s.nextRid == r) = false := by simpa using hr
      simp only [emit, terminals_append, terminals_single, Event.terminalFor, activeCount_def, dialCount_def,
        issuedCount, ctxCount_snoc, hb, Bool.false_eq_true, if_false] at h1 ⊢
      omega
  · intro r hr
    have := h.fresh r (by simp only [emit] at hr; omega)
    have hb : (s.nextRid == r) = false := by
      simp only [emit] at hr
      have : s.nextRid ≠ r := by omega
      simpa using this
    simp only [emit, issuedCount, ctxCount_snoc, hb, outCount, futCount] at *
    simpa using this
  · intro r
    have h1 := h.issuedLe r
    have h0 := h.next_zero s.nextRid (Nat.le_refl _)
    by_cases hr : s.nextRid = r
    · subst hr
      simp only [emit, issuedCount, ctxCount_snoc, beq_self_eq_true, if_true] at h0 ⊢
      omega
    · have hb : (s.nextRid == r) = false := by simpa using hr
      simp only [emit, issuedCount, ctxCount_snoc, hb, Bool.false_eq_true, if_false] at h1 ⊢
      omega
  · exact h.excl
  · exact h.owned
  · exact h.dialPeer
  · exact h.cancelSub

theorem dialPeer_pushDial (p : Peer) (c : Ctx) (hc : c.peer = p) (l : List (Peer × List Ctx))
    (h : ∀ e ∈ l, ∀ c' ∈ e.2, c'.peer = e.1) :
    ∀ e ∈ pushDial p c l, ∀ c' ∈ e.2, c'.peer = e.1 := by
  induction l with
  | nil =>
    intro e he c' hc'
    simp only [pushDial, List.mem_singleton] at he
    subst he
    simp only [List.mem_singleton] at hc'
    subst hc'; exact hc
  | cons x rest ih =>
    obtain ⟨q, cs⟩ := x
    intro e he c' hc'
    simp only [pushDial] at he
    split at he
    · rename_i hq
      simp only [List.mem_cons] at he
      rcases he with he | he
      · subst he
        simp only [List.mem_append, List.mem_singleton] at hc'
        rcases hc' with hc' | hc'
        · exact h (q, cs) (List.mem_cons_self ..) c' hc'
        · subst hc'; rw [hc, hq]
      · exact h e (List.mem_cons_of_mem _ he) c' hc'
    · simp only [List.mem_cons] at he
      rcases he with he | he
      · subst he; exact h (q, cs) (List.mem_cons_self ..) c' hc'
      · exact ih (fun e he => h e (List.mem_cons_of_mem _ he)) e he c' hc'

/-- Effect of inserting a new id in the `active` set of the first context of `k`. -/
theorem activeSum_insert (l : List (Peer × PeerCtx)) (k : Peer) (x : Rid) (pc : PeerCtx)
    (hf : alFind k l = some pc) (hm : x ∉ pc.active) (r : Rid) :
    alSum (fun pc => pc.active.count r) (alModify k (fun c => { c with active := setInsert x c.active }) l) =
      alSum (fun pc => pc.active.count r) l + (if x == r then 1 else 0) := by
  have := alSum_modify (fun pc => pc.active.count r) k (fun c => { c with active := setInsert x c.active }) l
  rw [hf] at this
  simp only [optW, Option.map_some, count_setInsert r x pc.active hm] at this
  omega

theorem inv_send (s : State) (peer : Peer) (request : Request) (opts : DialOptions)
    (dialAns : Except DialErr Unit) (openAns : Except SubErr Sid) (h : Inv s)
    (ha : ∀ sid, openAns = .ok sid → alFind sid s.pendingOutbound = none) :
    Inv (step s (.send peer request opts dialAns openAns)) := by
  have h0 := h.next_zero s.nextRid (Nat.le_refl _)
  simp only [step, onSendRequest]
  split
  · split
    · exact inv_send_fail s h peer request _ _
    · split
      · -- dial accepted: the request joins the peer's queue
        constructor
        · intro r
          have h1 := h.ledger r
          by_cases hr : s.nextRid = r
          · subst hr
            simp only [activeCount_def, dialCount_def, issuedCount, ctxCount_snoc, dialSum_pushDial,
              beq_self_eq_true, if_true] at h1 h0 ⊢
            omega
          · have hb : (s.nextRid == r) = false := by simpa using hr
            simp only [activeCount_def, dialCount_def, issuedCount, ctxCount_snoc, dialSum_pushDial, hb,
              Bool.false_eq_true, if_false] at h1 ⊢
            omega
        · intro r hr
          have hr' : s.nextRid ≤ r := by simp only at hr; omega
          have := h.fresh r hr'
          have hb : (s.nextRid == r) = false := by
            have : s.nextRid ≠ r := by simp only at hr; omega
            simpa using this
          simp only [issuedCount, ctxCount_snoc, hb, outCount, futCount] at *
          simpa using this
        · intro r
          have h1 := h.issuedLe r
          by_cases hr : s.nextRid = r
          · subst hr
            simp only [issuedCount, ctxCount_snoc, beq_self_eq_true, if_true] at h0 ⊢
            omega
          · have hb : (s.nextRid == r) = false := by simpa using hr
            simp only [issuedCount, ctxCount_snoc, hb, Bool.false_eq_true, if_false] at h1 ⊢
            omega
        · intro r
          have h1 := h.excl r
          by_cases hr : s.nextRid = r
          · subst hr
            simp only [outCount, futCount, dialCount_def, dialSum_pushDial, beq_self_eq_true, if_true] at h1 h0 ⊢
            omega
          · have hb : (s.nextRid == r) = false := by simpa using hr
            simp only [outCount, futCount, dialCount_def, dialSum_pushDial, hb, Bool.false_eq_true,
              if_false] at h1 ⊢
            omega
        · exact h.owned
        · exact dialPeer_pushDial peer _ rfl _ h.dialPeer
        · exact h.cancelSub
      · exact inv_send_fail s h peer request _ _
  · rename_i ctx hctx
    split
    · rename_i sid
      split
      · -- `debug_assert!(unique_request_id)` cannot fire: the id is fresh
        rename_i hmem
        exfalso
        have h2 := alSum_take (fun pc => pc.active.count s.nextRid) peer s.peers
        simp only [hctx, optW] at h2
        have := List.count_pos_iff.mpr hmem
        have := h0.2.2.1
        simp only [activeCount_def] at this
        omega
      · rename_i hmem
        have hact := activeSum_insert s.peers peer s.nextRid ctx hctx hmem
        have hout : (alTake sid s.pendingOutbound).2 = s.pendingOutbound :=
          alTake_of_find_none sid _ (ha sid rfl)
        simp only [hout]
        constructor
        · intro r
          have h1 := h.ledger r; have h2 := hact r
          by_cases hr : s.nextRid = r
          · subst hr
            simp only [activeCount_def, dialCount_def, issuedCount, ctxCount_snoc, beq_self_eq_true, if_true]
              at h1 h0 h2 ⊢
            omega
          · have hb : (s.nextRid == r) = false := by simpa using hr
            simp only [activeCount_def, dialCount_def, issuedCount, ctxCount_snoc, hb, Bool.false_eq_true,
              if_false] at h1 h2 ⊢
            omega
        · intro r hr
          have hr' : s.nextRid ≤ r := by simp only at hr; omega
          have := h.fresh r hr'
          have hb : (s.nextRid == r) = false := by
            have : s.nextRid ≠ r := by simp only at hr; omega
            simpa using this
          simp only [issuedCount, ctxCount_snoc, hb, outCount, futCount, List.countP_cons] at *
          simpa using this
        · intro r
          have h1 := h.issuedLe r
          by_cases hr : s.nextRid = r
          · subst hr
            simp only [issuedCount, ctxCount_snoc, beq_self_eq_true, if_true] at h0 ⊢
            omega
          · have hb : (s.nextRid == r) = false := by simpa using hr
            simp only [issuedCount, ctxCount_snoc, hb, Bool.false_eq_true, if_false] at h1 ⊢
            omega
        · intro r
          have h1 := h.excl r
          by_cases hr : s.nextRid = r
          · subst hr
            simp only [outCount, futCount, dialCount_def, List.countP_cons, beq_self_eq_true, if_true] at h1 h0 ⊢
            omega
          · have hb : (s.nextRid == r) = false := by simpa using hr
            simp only [outCount, futCount, dialCount_def, List.countP_cons, hb, Bool.false_eq_true,
              if_false] at h1 ⊢
            omega
        · intro e he
          simp only [List.mem_cons] at he
          rw [alFind_modify]
          rcases he with he | he
          · subst he
            simp only [if_true, hctx, Option.map_some]
            exact ⟨_, rfl, (mem_setInsert _ _ _).mpr (Or.inl rfl)⟩
          · obtain ⟨pc, hpc, hm⟩ := h.owned e he
            split
            · exact ⟨_, by rw [hpc]; rfl, (mem_setInsert _ _ _).mpr (Or.inr hm)⟩
            · exact ⟨pc, hpc, hm⟩
        · exact h.dialPeer
        · exact h.cancelSub
    · exact inv_send_fail s h peer request _ _

end Litep2pVerif.ReqResp
