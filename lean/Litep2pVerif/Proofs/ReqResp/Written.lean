import Litep2pVerif.Proofs.ReqResp.Inbound
/-!
What the request futures write: exactly one payload per started future, on the future's substream,
and it is the request's main payload or its fallback payload.
-/
namespace Litep2pVerif.ReqResp

def wrView (s : State) : List (Sid × Payload) × List (Sid × Ctx) := (s.written, s.sentOn)

theorem wrView_failDials (peer : Peer) (l : List Ctx) (s : State) :
    wrView (failDials peer l s) = wrView s := by
  induction l generalizing s with
  | nil => rfl
  | cons x rest ih => simp only [failDials, ih]; rfl

/-- Only `on_outbound_substream` starts a future. -/
theorem wrView_step (s : State) (i : Input) (h : ∀ p sid fb, i ≠ .outboundSubstream p sid fb) :
    wrView (step s i) = wrView s := by
  cases i with
  | send peer request opts dialAns openAns =>
    simp only [step, onSendRequest]
    repeat' split
    all_goals rfl
  | cancel rid => simp only [step, onCancelRequest]; split <;> rfl
  | connectionEstablished peer openAns =>
    simp only [step, onConnectionEstablished]
    split
    · rfl
    · split
      · rfl
      · rw [reportFailures_eq]; split <;> rfl
  | connectionClosed peer =>
    simp only [step, onConnectionClosed]
    split
    · rfl
    · rw [failAll_eq]; rfl
  | dialFailure peer =>
    simp only [step, onDialFailure]
    split
    · rfl
    · rw [wrView_failDials]; rfl
  | outboundSubstream peer sid fb => exact absurd rfl (h _ _ _)
  | substreamOpenFailure sid error => simp only [step, onSubstreamOpenFailure]; split <;> rfl
  | inboundSubstream peer =>
    simp only [step, onInboundSubstream]
    repeat' split
    all_goals rfl
  | futureDone f res =>
    simp only [step, onSubstreamEvent]
    repeat' split
    all_goals rfl
  | inboundRead f request =>
    simp only [step, onInboundRequest]
    repeat' split
    all_goals rfl
  | responseDone f => rfl
  | responderWrites sid response => rfl
  | clogged => rfl

structure Wr (s : State) : Prop where
  keys : s.written.map Prod.fst = s.sentOn.map Prod.fst
  ok : ∀ w ∈ s.written, ∃ c fb, (w.1, c) ∈ s.sentOn ∧ w.2 = c.request.payloadFor fb

theorem Wr.init (m : Option Nat) : Wr (init m) := by
  constructor <;> simp [ReqResp.init]

theorem wr_step (s : State) (i : Input) (h : Wr s) : Wr (step s i) := by
  by_cases c : ∃ p sid fb, i = .outboundSubstream p sid fb
  · obtain ⟨peer, sid, fb, rfl⟩ := c
    simp only [step, onOutboundSubstream]
    split
    · exact ⟨h.keys, h.ok⟩
    · rename_i ctx outbound hx
      constructor
      · simp only [List.map_append, List.map_cons, List.map_nil, h.keys]
      · intro w hw
        simp only [List.mem_append, List.mem_singleton] at hw
        rcases hw with hw | hw
        · obtain ⟨c, fb', h1, h2⟩ := h.ok w hw
          exact ⟨c, fb', List.mem_append_left _ h1, h2⟩
        · subst hw
          exact ⟨_, fb, List.mem_append_right _ (List.mem_singleton.mpr rfl), rfl⟩
  · have hv := wrView_step s i (fun p sid fb hc => c ⟨p, sid, fb, hc⟩)
    simp only [wrView, Prod.mk.injEq] at hv
    constructor
    · rw [hv.1, hv.2]; exact h.keys
    · rw [hv.1, hv.2]; exact h.ok

theorem reach_wr (m : Option Nat) (s : State) (h : Reach m s) : Wr s := by
  induction h with
  | init => exact Wr.init m
  | step i _ _ _ ih => exact wr_step _ i ih

end Litep2pVerif.ReqResp
