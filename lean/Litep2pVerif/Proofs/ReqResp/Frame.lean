import Litep2pVerif.Model.ReqResp.Ledger
/-!
Frame lemmas for the request-response model: what the recursive helpers leave untouched, and the
inbound bound.
-/
namespace Litep2pVerif.ReqResp

/-- The components the inbound bound talks about. -/
def inboundView (s : State) : List InFut × List InFut × Option Nat × Nat :=
  (s.pendingInboundRequests, s.pendingOutboundResponses, s.maxInbound, s.nextRid)

@[simp] theorem inboundView_emit (s : State) (e : Event) : inboundView (emit s e) = inboundView s := rfl

theorem inboundView_reportFailures (peer : Peer) (l : List (Rid × SubErr)) (s : State) :
    inboundView (reportFailures peer l s) = inboundView s := by
  induction l generalizing s with
  | nil => rfl
  | cons x rest ih => obtain ⟨rid, e⟩ := x; simp [reportFailures, ih]

theorem inboundView_failAll (peer : Peer) (l : List Rid) (s : State) :
    inboundView (failAll peer l s) = inboundView s := by
  induction l generalizing s with
  | nil => rfl
  | cons x rest ih => simp [failAll, ih]

theorem inboundView_failDials (peer : Peer) (l : List Ctx) (s : State) :
    inboundView (failDials peer l s) = inboundView s := by
  induction l generalizing s with
  | nil => rfl
  | cons x rest ih => simp only [failDials, ih]; rfl

/-- In-flight inbound requests. -/
def inboundInFlight (s : State) : Nat :=
  s.pendingInboundRequests.length + s.pendingOutboundResponses.length

theorem inboundInFlight_eq (s s' : State) (h : inboundView s' = inboundView s) :
    inboundInFlight s' = inboundInFlight s ∧ s'.maxInbound = s.maxInbound := by
  simp only [inboundView, Prod.mk.injEq] at h
  simp [inboundInFlight, h.1, h.2.1, h.2.2.1]

theorem length_erase_le {α : Type} [BEq α] [LawfulBEq α] (l : List α) (a : α) :
    (l.erase a).length ≤ l.length := by
  rw [List.length_erase]; split <;> omega

theorem length_erase_of_mem {α : Type} [BEq α] [LawfulBEq α] (l : List α) (a : α) (h : a ∈ l) :
    (l.erase a).length + 1 = l.length := by
  rw [List.length_erase_of_mem h]
  have := List.length_pos_of_mem h
  omega

/-- One step keeps the number of in-flight inbound requests within the configured maximum. -/
theorem step_inbound_bound (s : State) (i : Input) (n : Nat) (hm : s.maxInbound = some n)
    (hb : inboundInFlight s ≤ n) (ha : Allowed s i) :
    (step s i).maxInbound = some n ∧ inboundInFlight (step s i) ≤ n := by
  cases i with
  | send peer request opts dialAns openAns =>
    have : inboundView (step s (.send peer request opts dialAns openAns)) =
        (s.pendingInboundRequests, s.pendingOutboundResponses, s.maxInbound, s.nextRid + 1) := by
      simp only [step, onSendRequest]
      split
      · split
        · rfl
        · split <;> rfl
      · split
        · split <;> rfl
        · rfl
    simp only [inboundView, Prod.mk.injEq] at this
    simp [inboundInFlight, this.1, this.2.1, this.2.2.1, hm]; exact hb
  | cancel rid =>
    have : inboundView (step s (.cancel rid)) = inboundView s := by
      simp only [step, onCancelRequest]; split <;> rfl
    have := inboundInFlight_eq _ _ this
    simp [this.1, this.2, hm, hb]
  | connectionEstablished peer openAns =>
    have : inboundView (step s (.connectionEstablished peer openAns)) = inboundView s := by
      simp only [step, onConnectionEstablished]
      split
      · rfl
      · split
        · rfl
        · rw [inboundView_reportFailures]; split <;> rfl
    have := inboundInFlight_eq _ _ this
    simp [this.1, this.2, hm, hb]
  | connectionClosed peer =>
    have : inboundView (step s (.connectionClosed peer)) = inboundView s := by
      simp only [step, onConnectionClosed]
      split
      · rfl
      · rw [inboundView_failAll]; rfl
    have := inboundInFlight_eq _ _ this
    simp [this.1, this.2, hm, hb]
  | dialFailure peer =>
    have : inboundView (step s (.dialFailure peer)) = inboundView s := by
      simp only [step, onDialFailure]
      split
      · rfl
      · rw [inboundView_failDials]; rfl
    have := inboundInFlight_eq _ _ this
    simp [this.1, this.2, hm, hb]
  | outboundSubstream peer sid fb =>
    have : inboundView (step s (.outboundSubstream peer sid fb)) = inboundView s := by
      simp only [step, onOutboundSubstream]; split <;> rfl
    have := inboundInFlight_eq _ _ this
    simp [this.1, this.2, hm, hb]
  | substreamOpenFailure sid error =>
    have : inboundView (step s (.substreamOpenFailure sid error)) = inboundView s := by
      simp only [step, onSubstreamOpenFailure]; split <;> rfl
    have := inboundInFlight_eq _ _ this
    simp [this.1, this.2, hm, hb]
  | inboundSubstream peer =>
    simp only [step, onInboundSubstream, hm]
    split
    · exact ⟨hm, hb⟩
    · rename_i hfull
      simp only [decide_eq_true_eq, Nat.not_le] at hfull
      split
      · exact ⟨rfl, hb⟩
      · refine ⟨rfl, ?_⟩
        simp only [inboundInFlight, List.length_append, List.length_cons, List.length_nil] at hb ⊢
        omega
  | futureDone f res =>
    have : inboundView (step s (.futureDone f res)) = inboundView s := by
      simp only [step, onSubstreamEvent]
      split
      · rfl
      · split
        · split <;> rfl
        · rfl
    have := inboundInFlight_eq _ _ this
    simp [this.1, this.2, hm, hb]
  | inboundRead f request =>
    have hf : f ∈ s.pendingInboundRequests := ha
    have hl := length_erase_of_mem _ _ hf
    simp only [step, onInboundRequest]
    split
    · refine ⟨hm, ?_⟩
      simp only [inboundInFlight] at hb ⊢; omega
    · split
      · split
        · refine ⟨hm, ?_⟩
          simp only [inboundInFlight] at hb ⊢; omega
        · refine ⟨hm, ?_⟩
          simp only [inboundInFlight, emit, List.length_append, List.length_cons, List.length_nil] at hb ⊢
          omega
      · refine ⟨hm, ?_⟩
        simp only [inboundInFlight] at hb ⊢; omega
  | responseDone f =>
    refine ⟨hm, ?_⟩
    have := length_erase_le s.pendingOutboundResponses f
    simp only [step, onResponseDone, inboundInFlight] at hb ⊢
    omega
  | responderWrites sid response => exact ⟨hm, hb⟩
  | clogged => exact ⟨hm, hb⟩

theorem reach_inbound_bound (n : Nat) (s : State) (h : Reach (some n) s) :
    s.maxInbound = some n ∧ inboundInFlight s ≤ n := by
  induction h with
  | init => exact ⟨rfl, by simp [init, inboundInFlight]⟩
  | step i _ _ ha ih => exact step_inbound_bound _ i n ih.1 ih.2 ha

end Litep2pVerif.ReqResp
