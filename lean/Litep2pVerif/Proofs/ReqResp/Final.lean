import Litep2pVerif.Proofs.ReqResp.Written
/-!
Consequences of the invariants `Inv`, `Own`, `Sub`, `Inb` used by the C13 property theorems.
-/
namespace Litep2pVerif.ReqResp

theorem countP_le_one_unique {α : Type} (p : α → Bool) (l : List α) (h : l.countP p ≤ 1) (a b : α)
    (ha : a ∈ l) (hb : b ∈ l) (pa : p a = true) (pb : p b = true) : a = b := by
  induction l with
  | nil => simp at ha
  | cons x rest ih =>
    simp only [List.countP_cons] at h
    simp only [List.mem_cons] at ha hb
    have pos : ∀ c, c ∈ rest → p c = true → 0 < rest.countP p :=
      fun c hc pc => List.countP_pos_iff.mpr ⟨c, hc, pc⟩
    rcases ha with ha | ha <;> rcases hb with hb | hb
    · rw [ha, hb]
    · subst ha
      have := pos b hb pb
      simp only [pa, if_true] at h
      omega
    · subst hb
      have := pos a ha pa
      simp only [pb, if_true] at h
      omega
    · exact ih (by omega) ha hb

/-- In a reachable quiescent state nothing is registered as active. -/
theorem reach_quiescent_active_zero (m : Option Nat) (s : State) (h : Reach m s) (hq : Quiescent s) (r : Rid) :
    activeCount s r = 0 :=
  quiescent_active_zero s hq (reach_own m s h).toOwned r

theorem reach_exactly_one (m : Option Nat) (s : State) (h : Reach m s) (hq : Quiescent s) (r : Rid)
    (hi : issuedCount s r = 1) :
    ((terminals s.log r = 1 ∧ s.cancelDone.count r = 0) ∨
     (terminals s.log r = 0 ∧ s.cancelDone.count r = 1 ∧ r ∈ s.cancelSent)) ∧
    (r ∉ s.cancelSent → terminals s.log r = 1) := by
  have i := reach_inv m s h
  have h1 := i.ledger r
  have h2 := reach_quiescent_active_zero m s h hq r
  have h3 : dialCount s r = 0 := by simp [dialCount, hq.1]
  by_cases hc : s.cancelDone.count r = 0
  · exact ⟨Or.inl ⟨by omega, hc⟩, fun _ => by omega⟩
  · have hm : r ∈ s.cancelDone := List.count_pos_iff.mp (by omega)
    have hs := i.cancelSub r hm
    exact ⟨Or.inr ⟨by omega, by omega, hs⟩, fun hn => absurd hs hn⟩

theorem reach_opened_le_one (m : Option Nat) (s : State) (h : Reach m s) (r : Rid) : openedCount s r ≤ 1 := by
  have := (reach_sub m s h).openedCnt r
  have := (reach_inv m s h).issuedLe r
  omega

theorem reach_response_matches (m : Option Nat) (s : State) (h : Reach m s) (p : Peer) (r : Rid) (pl : Payload)
    (hm : Event.responseReceived p r pl ∈ s.log) :
    ∃ sid req, (sid, (⟨p, r, req⟩ : Ctx)) ∈ s.opened ∧ (sid, (⟨p, r, req⟩ : Ctx)) ∈ s.sentOn ∧
      (⟨p, r, req⟩ : Ctx) ∈ s.issued ∧ (sid, pl) ∈ s.wire ∧
      (∀ o ∈ s.opened, o.2.rid = r → o = (sid, ⟨p, r, req⟩)) ∧
      (∀ o ∈ s.opened, o.1 = sid → o = (sid, ⟨p, r, req⟩)) := by
  have hs := reach_sub m s h
  obtain ⟨sid, c, h1, h2, h3, h4⟩ := hs.respOk p r pl hm
  obtain ⟨cp, cr, creq⟩ := c
  simp only at h2 h3
  subst h2; subst h3
  have hop := hs.sentSub _ h1
  refine ⟨sid, creq, hop, h1, hs.openedIssued _ hop, h4, ?_, ?_⟩
  · intro o ho hr
    have hle : s.opened.countP (fun e : Sid × Ctx => e.2.rid == cr) ≤ 1 := reach_opened_le_one m s h cr
    exact countP_le_one_unique (fun e : Sid × Ctx => e.2.rid == cr) s.opened hle o _ ho hop
      (by simpa using hr) (by simp)
  · intro o ho hk
    have e1 := find_of_mem_nodup s.opened hs.openedNodup o ho
    have e2 := find_of_mem_nodup s.opened hs.openedNodup _ hop
    rw [hk] at e1
    simp only at e2
    rw [e1] at e2
    cases o
    simp only [Option.some.injEq] at e2 hk
    rw [hk, e2]

end Litep2pVerif.ReqResp
