import Litep2pVerif.Proofs.ReqResp.Lists
/-!
The ledger invariant of the request-response model and its preservation by every handler.
-/
namespace Litep2pVerif.ReqResp

/-- Requests waiting for their substream. -/
def outCount (s : State) (r : Rid) : Nat := s.pendingOutbound.countP (fun e => e.2.rid == r)

/-- Request futures (live or orphaned by a closed connection). -/
def futCount (s : State) (r : Rid) : Nat := s.pendingInbound.countP (fun f => f.rid == r)

theorem dialCount_def (s : State) (r : Rid) : dialCount s r = alSum (ctxCount r) s.pendingDials := rfl
theorem activeCount_def (s : State) (r : Rid) :
    activeCount s r = alSum (fun pc => pc.active.count r) s.peers := rfl

structure Inv (s : State) : Prop where
  /-- every issued request is waiting for a dial, registered as active, finished with one terminal
  event, or silently finished by an effective cancel — exactly one of the four -/
  ledger : ∀ r, terminals s.log r + dialCount s r + activeCount s r + s.cancelDone.count r = issuedCount s r
  fresh : ∀ r, s.nextRid ≤ r → issuedCount s r = 0 ∧ outCount s r = 0 ∧ futCount s r = 0
  issuedLe : ∀ r, issuedCount s r ≤ 1
  /-- a request is in at most one of: dial queue, pending substream, request future -/
  excl : ∀ r, dialCount s r + outCount s r + futCount s r ≤ 1
  /-- a request waiting for its substream is registered as active with its peer -/
  owned : ∀ e ∈ s.pendingOutbound, ∃ pc, alFind e.2.peer s.peers = some pc ∧ e.2.rid ∈ pc.active
  dialPeer : ∀ e ∈ s.pendingDials, ∀ c ∈ e.2, c.peer = e.1
  cancelSub : ∀ r, r ∈ s.cancelDone → r ∈ s.cancelSent

theorem Inv.init (m : Option Nat) : Inv (init m) := by
  constructor <;> simp [ReqResp.init, terminals, dialCount, activeCount, issuedCount, ctxCount, outCount, futCount]

/-- Transfer of the invariant to a state that agrees on everything the invariant reads. -/
theorem Inv.congr {s s' : State} (h : Inv s)
    (hlog : ∀ r, terminals s'.log r = terminals s.log r)
    (hd : s'.pendingDials = s.pendingDials)
    (hact : ∀ k, (alFind k s'.peers).map (·.active) = (alFind k s.peers).map (·.active))
    (hsum : ∀ r, activeCount s' r = activeCount s r)
    (hcd : s'.cancelDone = s.cancelDone) (hcs : ∀ r, r ∈ s.cancelSent → r ∈ s'.cancelSent)
    (hi : s'.issued = s.issued)
    (ho : s'.pendingOutbound = s.pendingOutbound) (hf : s'.pendingInbound = s.pendingInbound)
    (hn : s.nextRid ≤ s'.nextRid) : Inv s' := by
  constructor
  · intro r; have := h.ledger r
    simp only [dialCount, issuedCount, hlog, hd, hsum, hcd, hi] at this ⊢; exact this
  · intro r hr; have := h.fresh r (Nat.le_trans hn hr)
    simpa only [issuedCount, outCount, futCount, hi, ho, hf] using this
  · intro r; have := h.issuedLe r; simpa only [issuedCount, hi] using this
  · intro r; have := h.excl r; simpa only [dialCount, outCount, futCount, hd, ho, hf] using this
  · intro e he
    rw [ho] at he
    obtain ⟨pc, hpc, hm⟩ := h.owned e he
    have := hact e.2.peer
    rw [hpc] at this
    cases hx : alFind e.2.peer s'.peers with
    | none => simp [hx] at this
    | some pc' =>
      simp only [hx, Option.map_some, Option.some.injEq] at this
      exact ⟨pc', rfl, this ▸ hm⟩
  · rw [hd]; exact h.dialPeer
  · intro r hr; rw [hcd] at hr; exact hcs r (h.cancelSub r hr)

/-- Modifying a peer context without touching `active`. -/
theorem activeSum_modify_same (k : Nat) (f : PeerCtx → PeerCtx) (hf : ∀ c, (f c).active = c.active)
    (l : List (Peer × PeerCtx)) (r : Rid) :
    alSum (fun pc => pc.active.count r) (alModify k f l) = alSum (fun pc => pc.active.count r) l := by
  induction l with
  | nil => rfl
  | cons e rest ih =>
    obtain ⟨q, v⟩ := e
    simp only [alModify]
    split
    · simp [hf]
    · simp [ih]

theorem findActive_modify_same (k : Nat) (f : PeerCtx → PeerCtx) (hf : ∀ c, (f c).active = c.active)
    (l : List (Peer × PeerCtx)) (k' : Nat) :
    (alFind k' (alModify k f l)).map (·.active) = (alFind k' l).map (·.active) := by
  rw [alFind_modify]
  split
  · cases alFind k' l <;> simp [hf]
  · rfl

/-- Same, when the peers changed only by a modification that keeps every `active` set. -/
theorem Inv.congr_modify {s s' : State} (h : Inv s) {k : Nat} {f : PeerCtx → PeerCtx}
    (hp : s'.peers = alModify k f s.peers) (hfa : ∀ c, (f c).active = c.active)
    (hlog : ∀ r, terminals s'.log r = terminals s.log r)
    (hd : s'.pendingDials = s.pendingDials)
    (hcd : s'.cancelDone = s.cancelDone) (hcs : ∀ r, r ∈ s.cancelSent → r ∈ s'.cancelSent)
    (hi : s'.issued = s.issued)
    (ho : s'.pendingOutbound = s.pendingOutbound) (hf : s'.pendingInbound = s.pendingInbound)
    (hn : s.nextRid ≤ s'.nextRid) : Inv s' :=
  h.congr hlog hd (fun k' => by rw [hp]; exact findActive_modify_same _ _ hfa _ _)
    (fun r => by rw [activeCount_def, activeCount_def, hp]; exact activeSum_modify_same _ _ hfa _ _)
    hcd hcs hi ho hf hn

theorem inv_cancel (s : State) (rid : Rid) (h : Inv s) : Inv (onCancelRequest s rid) := by
  simp only [onCancelRequest]
  split
  · exact h.congr (fun _ => rfl) rfl (fun _ => rfl) (fun _ => rfl) rfl
      (fun r hr => List.mem_append_left _ hr) rfl rfl rfl (Nat.le_refl _)
  · exact h

theorem inv_inboundSubstream (s : State) (peer : Peer) (h : Inv s) : Inv (onInboundSubstream s peer) := by
  simp only [onInboundSubstream]
  repeat' split
  all_goals first
    | exact h
    | exact h.congr (fun _ => rfl) rfl (fun _ => rfl) (fun _ => rfl) rfl (fun _ hr => hr) rfl rfl rfl
        (Nat.le_succ _)
    | exact h.congr_modify rfl (fun _ => rfl) (fun _ => rfl) rfl rfl (fun _ hr => hr) rfl rfl rfl (Nat.le_succ _)

theorem inv_inboundRead (s : State) (f : InFut) (req : Option Payload) (h : Inv s) :
    Inv (onInboundRequest s f req) := by
  simp only [onInboundRequest]
  repeat' split
  all_goals first
    | exact h.congr (fun _ => rfl) rfl (fun _ => rfl) (fun _ => rfl) rfl (fun _ hr => hr) rfl rfl rfl
        (Nat.le_refl _)
    | exact h.congr_modify rfl (fun _ => rfl) (fun _ => rfl) rfl rfl (fun _ hr => hr) rfl rfl rfl (Nat.le_refl _)
    | exact h.congr_modify rfl (fun _ => rfl)
        (fun r => by simp [emit, terminals_append, terminals_single, Event.terminalFor]) rfl rfl
        (fun _ hr => hr) rfl rfl rfl (Nat.le_refl _)

theorem inv_responseDone (s : State) (f : InFut) (h : Inv s) : Inv (onResponseDone s f) :=
  h.congr (fun _ => rfl) rfl (fun _ => rfl) (fun _ => rfl) rfl (fun _ hr => hr) rfl rfl rfl (Nat.le_refl _)

theorem inv_panicked (s : State) (h : Inv s) : Inv { s with panicked := true } :=
  h.congr (fun _ => rfl) rfl (fun _ => rfl) (fun _ => rfl) rfl (fun _ hr => hr) rfl rfl rfl (Nat.le_refl _)

end Litep2pVerif.ReqResp
