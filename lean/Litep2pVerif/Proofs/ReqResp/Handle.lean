import Litep2pVerif.Model.ReqResp.Handle
import Litep2pVerif.Proofs.ReqResp.Final
/-!
The user-facing translation layer: every internal outcome of a request becomes at most one user
event (none exactly for `Canceled`), the handle's stream is a field-preserving one-to-one image of
the protocol's event stream (it never panics), and the handle's own bookkeeping (request ids,
command channel, pending responses).
-/
namespace Litep2pVerif.ReqResp

/-! ## Outcome translation -/

theorem result_canceled_iff (o : FutOutcome) : o.result = .error .canceled ↔ o = .canceled := by
  cases o <;> simp [FutOutcome.result]

theorem terminalEvents_nil_iff (peer : Peer) (rid : Rid) (res : FutResult) :
    terminalEvents peer rid res = [] ↔ res = .error .canceled := by
  cases res with
  | response p => simp [terminalEvents]
  | error e => cases e <;> simp [terminalEvents]

theorem terminalEvents_length (peer : Peer) (rid : Rid) (res : FutResult) :
    (terminalEvents peer rid res).length ≤ 1 := by
  cases res with
  | response p => simp [terminalEvents]
  | error e => cases e <;> simp [terminalEvents]

theorem terminalEvents_terminal (peer : Peer) (rid : Rid) (res : FutResult) :
    ∀ ev ∈ terminalEvents peer rid res, Event.terminalFor rid ev = true := by
  cases res with
  | response p => simp [terminalEvents, Event.terminalFor]
  | error e => cases e <;> simp [terminalEvents, Event.terminalFor]

/-- `on_substream_event` appends exactly `terminalEvents` when the request is still active with its
registered peer, and nothing otherwise. -/
theorem substreamEvent_log (s : State) (f : Fut) (res : FutResult) :
    (onSubstreamEvent s f res).log =
      match alFind f.peer s.peers with
      | some pc => if f.rid ∈ pc.active then s.log ++ terminalEvents f.peer f.rid res else s.log
      | none => s.log := by
  simp only [onSubstreamEvent]
  cases hf : alFind f.peer s.peers with
  | none => rfl
  | some pc =>
    simp only []
    by_cases hm : f.rid ∈ pc.active
    · simp only [hm, if_true]
      cases res with
      | response p => simp [terminalEvents, emit]
      | error e => cases e <;> simp [terminalEvents, emit]
    · simp only [hm, if_false]

/-! ## Error-kind translation -/

theorem ofSubErr_eq (e : SubErr) :
    RejectReason.ofSubErr e = if e.isNotConnected then .connectionClosed else .substreamOpenError e := by
  cases e <;> rfl

theorem openFailureError_eq (e : SubErr) :
    openFailureError e = if e = .unsupported then .unsupportedProtocol else .rejected (.ofSubErr e) := by
  cases e <;> rfl

/-- The model's `on_substream_open_failure` reports `openFailureError`. -/
theorem substreamOpenFailure_log (s : State) (sid : Sid) (error : SubErr) (ctx : Ctx)
    (h : alFind sid s.pendingOutbound = some ctx) :
    (onSubstreamOpenFailure s sid error).log =
      s.log ++ [.requestFailed ctx.peer ctx.rid (openFailureError error)] := by
  have ht : (alTake sid s.pendingOutbound).1 = some ctx := by rw [alTake_fst]; exact h
  simp only [onSubstreamOpenFailure]
  cases hx : alTake sid s.pendingOutbound with
  | mk o rest =>
    rw [hx] at ht
    simp only at ht
    subst ht
    cases error <;> simp [emit, openFailureError]

/-! ## The handle's event stream -/

/-- The user event an inner event becomes. -/
def InnerEvent.toUser : InnerEvent → UserEvent
  | .requestReceived p fb r req => .requestReceived p fb r req
  | .responseReceived p fb r resp => .responseReceived p r fb resp
  | .requestFailed p r e => .requestFailed p r e

theorem poll_event (h : Handle) (ev : InnerEvent) : (h.poll ev).2 = some ev.toUser := by
  cases ev <;> rfl

theorem pollAll_events (h : Handle) (evs : List InnerEvent) :
    (h.pollAll evs).2 = evs.map (fun ev => some ev.toUser) := by
  induction evs generalizing h with
  | nil => rfl
  | cons ev rest ih => simp only [Handle.pollAll, List.map_cons, poll_event, ih]

theorem toUser_terminalFor (r : Rid) (ev : InnerEvent) :
    UserEvent.terminalFor r ev.toUser = InnerEvent.terminalFor r ev := by
  cases ev <;> rfl

theorem toInner_terminalFor (r : Rid) (fb : Option Nat) (ev : Event) :
    InnerEvent.terminalFor r (ev.toInner fb) = Event.terminalFor r ev := by
  cases ev <;> rfl

/-- Terminal events the user receives for request `r` out of the model's log, whatever fallback
protocols the substreams were negotiated with. -/
def userTerminals (h : Handle) (log : List Event) (fb : Event → Option Nat) (r : Rid) : Nat :=
  ((h.pollAll (log.map fun ev => ev.toInner (fb ev))).2.filterMap id).countP (UserEvent.terminalFor r)

theorem userTerminals_eq (h : Handle) (log : List Event) (fb : Event → Option Nat) (r : Rid) :
    userTerminals h log fb r = terminals log r := by
  simp only [userTerminals, pollAll_events, terminals]
  induction log with
  | nil => rfl
  | cons ev rest ih =>
    simp only [List.map_cons, List.filterMap_cons, id, List.countP_cons, toUser_terminalFor,
      toInner_terminalFor] at ih ⊢
    rw [ih]

/-! ## Request ids and the command channel -/

theorem trySend_spec (h : Handle) (n : Nat) (mk : Rid → Command) :
    (h.trySend n mk).2.1 = n + 1 ∧
    (h.queue.length < h.capacity →
      (h.trySend n mk).2.2 = some n ∧ (h.trySend n mk).1.queue = h.queue ++ [mk n]) ∧
    (¬ h.queue.length < h.capacity → (h.trySend n mk).2.2 = none ∧ (h.trySend n mk).1 = h) ∧
    (h.trySend n mk).1.capacity = h.capacity := by
  simp only [Handle.trySend]
  split <;> simp_all

theorem trySendMany_spec (h : Handle) (n : Nat) (mk : Rid → Command) (k : Nat)
    (hc : h.queue.length ≤ h.capacity) :
    (h.trySendMany n mk k).2.1 = n + k ∧
    (h.trySendMany n mk k).2.2 = min k (h.capacity - h.queue.length) ∧
    (h.trySendMany n mk k).1.queue.length = h.queue.length + min k (h.capacity - h.queue.length) := by
  induction k generalizing h n with
  | zero => simp [Handle.trySendMany]
  | succ k ih =>
    have hs := trySend_spec h n mk
    simp only [Handle.trySendMany]
    generalize h.trySend n mk = r at hs ⊢
    obtain ⟨h', n', res⟩ := r
    simp only at hs ⊢
    obtain ⟨h1, h2, h3, h4⟩ := hs
    subst h1
    by_cases hlt : h.queue.length < h.capacity
    · obtain ⟨h2a, h2b⟩ := h2 hlt
      subst h2a
      have hc' : h'.queue.length ≤ h'.capacity := by
        rw [h2b, h4]; simp only [List.length_append, List.length_singleton]; omega
      have := ih h' (n + 1) hc'
      rw [h2b, h4] at this
      simp only [List.length_append, List.length_singleton] at this
      simp only [Option.isSome_some, if_true]
      omega
    · obtain ⟨h3a, h3b⟩ := h3 hlt
      subst h3a; subst h3b
      have := ih h' (n + 1) hc
      simp only [Option.isSome_none, Bool.false_eq_true, if_false]
      omega

/-! ## Pending responses -/

theorem nodup_poll (h : Handle) (ev : InnerEvent) (hn : h.pendingResponses.Nodup) :
    (h.poll ev).1.pendingResponses.Nodup := by
  cases ev with
  | requestReceived p fb r req =>
    simp only [Handle.poll, List.nodup_cons]
    exact ⟨fun hm => (List.Nodup.mem_erase_iff hn).mp hm |>.1 rfl, List.Nodup.erase _ hn⟩
  | responseReceived p fb r resp => exact hn
  | requestFailed p r e => exact hn

theorem sendResponse_consumes (h : Handle) (rid : Rid) (hn : h.pendingResponses.Nodup) :
    (h.sendResponse rid).1.pendingResponses.Nodup ∧ rid ∉ (h.sendResponse rid).1.pendingResponses ∨
    (h.sendResponse rid).2 = false := by
  simp only [Handle.sendResponse]
  split
  · exact Or.inl ⟨List.Nodup.erase _ hn, fun hm => (List.Nodup.mem_erase_iff hn).mp hm |>.1 rfl⟩
  · exact Or.inr rfl

theorem rejectRequest_consumes (h : Handle) (rid : Rid) (hn : h.pendingResponses.Nodup) :
    (h.rejectRequest rid).1.pendingResponses.Nodup ∧ rid ∉ (h.rejectRequest rid).1.pendingResponses ∨
    (h.rejectRequest rid).2 = false := by
  simp only [Handle.rejectRequest]
  split
  · exact Or.inl ⟨List.Nodup.erase _ hn, fun hm => (List.Nodup.mem_erase_iff hn).mp hm |>.1 rfl⟩
  · exact Or.inr rfl

/-- Once an inbound request has been answered or rejected, a further answer or rejection of it has
no effect: the `oneshot` of an inbound request is used at most once. -/
theorem answer_once (h : Handle) (rid : Rid) (hn : h.pendingResponses.Nodup) :
    ((h.sendResponse rid).1.sendResponse rid).2 = false ∧
    ((h.sendResponse rid).1.rejectRequest rid).2 = false ∧
    ((h.rejectRequest rid).1.sendResponse rid).2 = false ∧
    ((h.rejectRequest rid).1.rejectRequest rid).2 = false := by
  have e : rid ∉ h.pendingResponses.erase rid := fun hm => (List.Nodup.mem_erase_iff hn).mp hm |>.1 rfl
  by_cases hm : rid ∈ h.pendingResponses <;>
    simp [Handle.sendResponse, Handle.rejectRequest, hm, e]

end Litep2pVerif.ReqResp
