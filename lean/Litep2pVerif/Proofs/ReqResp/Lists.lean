import Litep2pVerif.Model.ReqResp.Ledger
/-!
List and association-list lemmas for the request-response ledger.
-/
namespace Litep2pVerif.ReqResp

variable {β : Type}

/-- Sum of a weight over the values of an association list. -/
def alSum (w : β → Nat) (l : List (Nat × β)) : Nat := (l.map (fun e => w e.2)).sum

@[simp] theorem alSum_nil (w : β → Nat) : alSum w [] = 0 := rfl
@[simp] theorem alSum_cons (w : β → Nat) (e : Nat × β) (l : List (Nat × β)) :
    alSum w (e :: l) = w e.2 + alSum w l := by simp [alSum]

def optW (w : β → Nat) : Option β → Nat
  | none => 0
  | some v => w v

theorem alTake_fst (k : Nat) (l : List (Nat × β)) : (alTake k l).1 = alFind k l := by
  induction l with
  | nil => rfl
  | cons e rest ih =>
    obtain ⟨q, v⟩ := e
    simp only [alTake, alFind]
    split <;> simp [ih]

theorem alSum_take (w : β → Nat) (k : Nat) (l : List (Nat × β)) :
    alSum w l = optW w (alFind k l) + alSum w (alTake k l).2 := by
  induction l with
  | nil => rfl
  | cons e rest ih =>
    obtain ⟨q, v⟩ := e
    simp only [alTake, alFind]
    split
    · simp [optW]
    · simp only [alSum_cons, ih]; omega

theorem alSum_modify (w : β → Nat) (k : Nat) (f : β → β) (l : List (Nat × β)) :
    alSum w (alModify k f l) + optW w (alFind k l) = alSum w l + optW w ((alFind k l).map f) := by
  induction l with
  | nil => rfl
  | cons e rest ih =>
    obtain ⟨q, v⟩ := e
    simp only [alModify, alFind]
    split
    · simp [optW]; omega
    · simp only [alSum_cons]; omega

theorem alFind_modify (k k' : Nat) (f : β → β) (l : List (Nat × β)) :
    alFind k' (alModify k f l) = if k' = k then (alFind k' l).map f else alFind k' l := by
  induction l with
  | nil => simp [alModify, alFind]
  | cons e rest ih =>
    obtain ⟨q, v⟩ := e
    simp only [alModify]
    by_cases hq : q = k
    · subst hq
      simp only [if_true, alFind]
      by_cases hk : q = k'
      · subst hk; simp
      · simp [hk, Ne.symm hk]
    · simp only [hq, if_false, alFind]
      by_cases hk : q = k'
      · subst hk; simp [hq]
      · simp only [hk, if_false, ih]

theorem alFind_take_ne (k k' : Nat) (h : k' ≠ k) (l : List (Nat × β)) :
    alFind k' (alTake k l).2 = alFind k' l := by
  induction l with
  | nil => rfl
  | cons e rest ih =>
    obtain ⟨q, v⟩ := e
    simp only [alTake]
    by_cases hq : q = k
    · subst hq
      have : ¬ q = k' := fun h' => h h'.symm
      simp [alFind, this]
    · simp only [hq, if_false, alFind, ih]

theorem alTake_of_find_none (k : Nat) (l : List (Nat × β)) (h : alFind k l = none) :
    (alTake k l).2 = l := by
  induction l with
  | nil => rfl
  | cons e rest ih =>
    obtain ⟨q, v⟩ := e
    simp only [alFind] at h
    split at h
    · cases h
    · rename_i hq
      simp [alTake, hq, ih h]

theorem mem_of_mem_take (k : Nat) (l : List (Nat × β)) (e : Nat × β) (h : e ∈ (alTake k l).2) :
    e ∈ l := by
  induction l with
  | nil => simp [alTake] at h
  | cons x rest ih =>
    obtain ⟨q, v⟩ := x
    simp only [alTake] at h
    split at h
    · exact List.mem_cons_of_mem _ h
    · simp only [List.mem_cons] at h ⊢
      rcases h with h | h
      · exact Or.inl h
      · exact Or.inr (ih h)

theorem mem_of_find (k : Nat) (l : List (Nat × β)) (v : β) (h : alFind k l = some v) : (k, v) ∈ l := by
  induction l with
  | nil => simp [alFind] at h
  | cons x rest ih =>
    obtain ⟨q, v'⟩ := x
    simp only [alFind] at h
    split at h
    · rename_i hq; cases h; subst hq; simp
    · exact List.mem_cons_of_mem _ (ih h)

theorem find_isSome_of_mem (k : Nat) (v : β) (l : List (Nat × β)) (h : (k, v) ∈ l) :
    ∃ v', alFind k l = some v' := by
  induction l with
  | nil => simp at h
  | cons x rest ih =>
    obtain ⟨q, v'⟩ := x
    simp only [alFind]
    split
    · exact ⟨_, rfl⟩
    · rename_i hq
      simp only [List.mem_cons, Prod.mk.injEq] at h
      rcases h with h | h
      · exact absurd h.1.symm hq
      · exact ih h

/-- Counting over an association list split by `alTake`. -/
theorem countP_take (q : Nat × β → Bool) (k : Nat) (l : List (Nat × β)) :
    l.countP q = (match alFind k l with | some v => if q (k, v) then 1 else 0 | none => 0) +
      (alTake k l).2.countP q := by
  induction l with
  | nil => rfl
  | cons e rest ih =>
    obtain ⟨p, v⟩ := e
    simp only [alTake, alFind]
    by_cases hp : p = k
    · subst hp
      simp only [if_true, List.countP_cons]; omega
    · simp only [hp, if_false, List.countP_cons, ih]; omega

theorem terminals_append (log : List Event) (l : List Event) (r : Rid) :
    terminals (log ++ l) r = terminals log r + terminals l r := by
  simp [terminals, List.countP_append]

theorem terminals_single (e : Event) (r : Rid) :
    terminals [e] r = if e.terminalFor r then 1 else 0 := by
  simp [terminals, List.countP_cons]

theorem ctxCount_append (r : Rid) (l l' : List Ctx) : ctxCount r (l ++ l') = ctxCount r l + ctxCount r l' := by
  simp [ctxCount, List.countP_append]

theorem dialSum_pushDial (r : Rid) (p : Peer) (c : Ctx) (l : List (Peer × List Ctx)) :
    alSum (ctxCount r) (pushDial p c l) = alSum (ctxCount r) l + (if c.rid == r then 1 else 0) := by
  induction l with
  | nil => simp [pushDial, ctxCount, List.countP_cons]
  | cons e rest ih =>
    obtain ⟨q, cs⟩ := e
    simp only [pushDial]
    split
    · simp only [alSum_cons, ctxCount_append]
      simp only [ctxCount, List.countP_cons, List.countP_nil]; omega
    · simp only [alSum_cons, ih, Nat.add_assoc]

theorem count_setInsert (r x : Rid) (l : List Rid) (h : x ∉ l) :
    (setInsert x l).count r = l.count r + (if x == r then 1 else 0) := by
  simp only [setInsert, h, if_false, List.count_cons]

theorem mem_setInsert (x y : Rid) (l : List Rid) : y ∈ setInsert x l ↔ y = x ∨ y ∈ l := by
  unfold setInsert
  split
  · rename_i h
    constructor
    · exact Or.inr
    · rintro (h' | h')
      · exact h' ▸ h
      · exact h'
  · simp

theorem count_erase_self_of_mem (r : Rid) (l : List Rid) (h : r ∈ l) :
    (l.erase r).count r + 1 = l.count r := by
  have := List.count_erase_self (a := r) (l := l)
  have hp : 0 < l.count r := List.count_pos_iff.mpr h
  omega

theorem count_erase_ne (r x : Rid) (l : List Rid) (h : x ≠ r) : (l.erase x).count r = l.count r := by
  exact List.count_erase_of_ne (Ne.symm h)

end Litep2pVerif.ReqResp
