import Litep2pVerif.Proofs.ReqResp.Substreams
/-!
The inbound path: every inbound request id is handed to the user at most once (`RequestReceived`),
never while it is still being read, never collides with an outbound request id, and the user is
asked for an answer only for requests it has seen.
-/
namespace Litep2pVerif.ReqResp

structure Inb (s : State) : Prop where
  fresh2 : ∀ r, s.nextRid ≤ r → inReadCount s r = 0 ∧ receivedCount s.log r = 0
  once : ∀ r, inReadCount s r + receivedCount s.log r + issuedCount s r ≤ 1
  await : ∀ r, awaitCount s r ≤ receivedCount s.log r

theorem Inb.init (m : Option Nat) : Inb (init m) := by
  constructor <;> simp [ReqResp.init, inReadCount, receivedCount, issuedCount, ctxCount, awaitCount]

theorem Inb.congr {s s' : State} (h : Inb s) (hn : s.nextRid ≤ s'.nextRid)
    (hq : s'.pendingInboundRequests = s.pendingInboundRequests)
    (hlog : ∀ r, receivedCount s'.log r = receivedCount s.log r) (hi : s'.issued = s.issued)
    (hw : ∀ r, awaitCount s' r ≤ awaitCount s r) : Inb s' := by
  constructor
  · intro r hr
    have := h.fresh2 r (Nat.le_trans hn hr)
    simpa only [inReadCount, hq, hlog] using this
  · intro r
    have := h.once r
    simpa only [inReadCount, issuedCount, hq, hlog, hi] using this
  · intro r
    have := h.await r; have := hw r
    rw [hlog]; omega

/-- The components of the inbound path other than the log. -/
def inbView (s : State) : Nat × List InFut × List InFut × List Ctx :=
  (s.nextRid, s.pendingInboundRequests, s.pendingOutboundResponses, s.issued)

theorem inbView_failDials (peer : Peer) (l : List Ctx) (s : State) :
    inbView (failDials peer l s) = inbView s := by
  induction l generalizing s with
  | nil => rfl
  | cons x rest ih => simp only [failDials, ih]; rfl

/-- Handlers of the outbound path do not touch the inbound path. -/
theorem inbView_step (s : State) (i : Input)
    (h1 : ∀ p r o d a, i ≠ .send p r o d a) (h2 : ∀ p, i ≠ .inboundSubstream p)
    (h3 : ∀ f r, i ≠ .inboundRead f r) (h4 : ∀ f, i ≠ .responseDone f) (h5 : i ≠ .clogged) :
    inbView (step s i) = inbView s := by
  cases i with
  | send peer request opts dialAns openAns => exact absurd rfl (h1 _ _ _ _ _)
  | cancel rid => simp only [step, onCancelRequest]; split <;> rfl
  | connectionEstablished peer openAns =>
    simp only [step, onConnectionEstablished]
    split
    · rfl
    · split
      · rfl
      · rw [reportFailures_eq]; split <;> rfl
  | connectionClosed peer =>
    simp only [step, onConnectionClosed]
    split
    · rfl
    · rw [failAll_eq]; rfl
  | dialFailure peer =>
    simp only [step, onDialFailure]
    split
    · rfl
    · rw [inbView_failDials]; rfl
  | outboundSubstream peer sid fb => simp only [step, onOutboundSubstream]; split <;> rfl
  | substreamOpenFailure sid error => simp only [step, onSubstreamOpenFailure]; split <;> rfl
  | inboundSubstream peer => exact absurd rfl (h2 _)
  | futureDone f res =>
    simp only [step, onSubstreamEvent]
    split
    · rfl
    · split
      · split <;> rfl
      · rfl
  | inboundRead f request => exact absurd rfl (h3 _ _)
  | responseDone f => exact absurd rfl (h4 _)
  | responderWrites sid response => rfl
  | clogged => exact absurd rfl h5

theorem Inb.of_view {s s' : State} (h : Inb s) (hv : inbView s' = inbView s)
    (hlog : ∀ r, receivedCount s'.log r = receivedCount s.log r) : Inb s' := by
  simp only [inbView, Prod.mk.injEq] at hv
  obtain ⟨e1, e2, e3, e4⟩ := hv
  exact h.congr (by omega) e2 hlog e4 (by intro r; simp [awaitCount, e3])

theorem send_view (s : State) (peer : Peer) (request : Request) (opts : DialOptions)
    (dialAns : Except DialErr Unit) (openAns : Except SubErr Sid) :
    inbView (step s (.send peer request opts dialAns openAns)) =
      (s.nextRid + 1, s.pendingInboundRequests, s.pendingOutboundResponses,
        s.issued ++ [⟨peer, s.nextRid, request⟩]) := by
  simp only [step, onSendRequest]
  repeat' split
  all_goals rfl

theorem one_le_inReadCount (s : State) (f : InFut) (hf : f ∈ s.pendingInboundRequests) :
    1 ≤ inReadCount s f.rid := by
  have : 0 < s.pendingInboundRequests.countP (fun x => x.rid == f.rid) :=
    List.countP_pos_iff.mpr ⟨f, hf, by simp⟩
  exact this

/-- `on_inbound_substream` accepts the substream: a fresh id starts being read. -/
theorem inb_accept (s : State) (hi : Inv s) (h : Inb s) (peer : Peer) (P : List (Peer × PeerCtx)) :
    Inb { s with peers := P, pendingInboundRequests := s.pendingInboundRequests ++ [⟨peer, s.nextRid⟩],
                 nextRid := s.nextRid + 1 } := by
  have h0 := hi.next_zero s.nextRid (Nat.le_refl _)
  have hf0 := h.fresh2 s.nextRid (Nat.le_refl _)
  constructor
  · intro r hr
    have hr' : s.nextRid ≤ r := by simp only at hr; omega
    have := h.fresh2 r hr'
    have hb : (s.nextRid == r) = false := by
      have : s.nextRid ≠ r := by simp only at hr; omega
      simpa using this
    simp only [inReadCount, List.countP_append, List.countP_cons, List.countP_nil, hb] at this ⊢
    simpa using this
  · intro r
    have := h.once r
    simp only [inReadCount, issuedCount, List.countP_append, List.countP_cons, List.countP_nil] at this hf0 h0 ⊢
    by_cases hr : s.nextRid = r
    · subst hr
      simp only [beq_self_eq_true, if_true]
      omega
    · have hb : (s.nextRid == r) = false := by simpa using hr
      simp only [hb, Bool.false_eq_true, if_false]
      omega
  · intro r
    exact h.await r

theorem inb_step (s : State) (i : Input) (hi : Inv s) (h : Inb s) (ha : Allowed s i) : Inb (step s i) := by
  by_cases c1 : ∃ p r o d a, i = .send p r o d a
  · obtain ⟨peer, request, opts, dialAns, openAns, rfl⟩ := c1
    have hv := send_view s peer request opts dialAns openAns
    have hlog := received_step s (.send peer request opts dialAns openAns) (by intro f r hc; cases hc)
    simp only [inbView, Prod.mk.injEq] at hv
    obtain ⟨e1, e2, e3, e4⟩ := hv
    have h0 := hi.next_zero s.nextRid (Nat.le_refl _)
    have hf0 := h.fresh2 s.nextRid (Nat.le_refl _)
    constructor
    · intro r hr
      have := h.fresh2 r (by omega)
      simpa only [inReadCount, e2, hlog] using this
    · intro r
      have := h.once r
      simp only [inReadCount, issuedCount, e2, e4, hlog, ctxCount_snoc] at this hf0 h0 ⊢
      by_cases hr : s.nextRid = r
      · subst hr
        simp only [beq_self_eq_true, if_true]
        omega
      · have hb : (s.nextRid == r) = false := by simpa using hr
        simp only [hb, Bool.false_eq_true, if_false]
        omega
    · intro r
      have := h.await r
      simpa only [awaitCount, e3, hlog] using this
  by_cases c2 : ∃ p, i = .inboundSubstream p
  · obtain ⟨peer, rfl⟩ := c2
    simp only [step, onInboundSubstream]
    repeat' split
    all_goals first
      | exact h
      | exact h.congr (Nat.le_succ _) rfl (fun _ => rfl) rfl (fun _ => Nat.le_refl _)
      | exact inb_accept s hi h peer _
  by_cases c3 : ∃ f r, i = .inboundRead f r
  · obtain ⟨f, request, rfl⟩ := c3
    have hf : f ∈ s.pendingInboundRequests := ha
    have hcnt : ∀ r, (s.pendingInboundRequests.erase f).countP (fun x => x.rid == r) +
        (if f.rid == r then 1 else 0) = inReadCount s r := fun r => countP_erase_mem _ _ _ hf
    have hone := one_le_inReadCount s f hf
    -- the paths on which nothing is handed to the user
    have drop : ∀ s' : State, s'.nextRid = s.nextRid →
        s'.pendingInboundRequests = s.pendingInboundRequests.erase f → s'.log = s.log →
        s'.issued = s.issued → s'.pendingOutboundResponses = s.pendingOutboundResponses → Inb s' := by
      intro s' e1 e2 e3 e4 e5
      constructor
      · intro r hr
        have := h.fresh2 r (by omega); have := hcnt r
        simp only [inReadCount, e2, e3] at *
        omega
      · intro r
        have := h.once r; have := hcnt r
        simp only [inReadCount, issuedCount, e2, e3, e4] at *
        omega
      · intro r
        have := h.await r
        simpa only [awaitCount, e5, e3] using this
    simp only [step, onInboundRequest]
    split
    · exact drop _ rfl rfl rfl rfl rfl
    · split
      · split
        · exact drop _ rfl rfl rfl rfl rfl
        · rename_i req
          have hrc : ∀ r, receivedCount (s.log ++ [Event.requestReceived f.peer f.rid req]) r =
              receivedCount s.log r + (if f.rid == r then 1 else 0) := by
            intro r
            simp [receivedCount, List.countP_append, List.countP_cons, Event.receivedFor]
          constructor
          · intro r hr
            have := h.fresh2 r hr; have := hcnt r
            have hb : (f.rid == r) = false := by
              have : f.rid ≠ r := by
                intro hc
                rw [hc] at hone
                omega
              simpa using this
            simp only [emit, inReadCount, hrc, hb] at *
            omega
          · intro r
            have := h.once r; have := hcnt r
            simp only [emit, inReadCount, issuedCount, hrc] at *
            omega
          · intro r
            have := h.await r
            simp only [emit, awaitCount, hrc, List.countP_append, List.countP_cons, List.countP_nil] at *
            omega
      · exact drop _ rfl rfl rfl rfl rfl
  by_cases c4 : ∃ f, i = .responseDone f
  · obtain ⟨f, rfl⟩ := c4
    exact h.congr (Nat.le_refl _) rfl (fun _ => rfl) rfl
      (fun r => List.Sublist.countP_le List.erase_sublist)
  by_cases c5 : i = .clogged
  · subst c5
    exact h.congr (Nat.le_succ _) rfl (fun _ => rfl) rfl (fun _ => Nat.le_refl _)
  · exact h.of_view
      (inbView_step s i (fun p r o d a hc => c1 ⟨p, r, o, d, a, hc⟩) (fun p hc => c2 ⟨p, hc⟩)
        (fun f r hc => c3 ⟨f, r, hc⟩) (fun f hc => c4 ⟨f, hc⟩) c5)
      (received_step s i (fun f r hc => c3 ⟨f, r, hc⟩))

theorem reach_inb (m : Option Nat) (s : State) (h : Reach m s) : Inb s := by
  induction h with
  | init => exact Inb.init m
  | step i hr _ ha ih => exact inb_step _ i (reach_inv m _ hr) ih ha

/-- The completion of an inbound read hands the request to the user exactly when the read
succeeded and the request is still registered with its (connected) peer; nothing else is emitted. -/
theorem inboundRead_log (s : State) (f : InFut) (request : Option Payload) :
    (onInboundRequest s f request).log =
      match alFind f.peer s.peers, request with
      | some pc, some req => if f.rid ∈ pc.activeInbound then s.log ++ [.requestReceived f.peer f.rid req] else s.log
      | _, _ => s.log := by
  simp only [onInboundRequest]
  repeat' split
  all_goals simp_all [emit]

end Litep2pVerif.ReqResp
