import Litep2pVerif.Proofs.ReqResp.Owner
/-!
History invariants about substreams and payloads:

* what a step appends to the log (`step_log`);
* `Sub`: every substream waited for or used was opened for that request (`opened`), at most one
  substream is ever opened per request id, the request future is started at most once on it, and
  every `ResponseReceived` in the log carries a payload the responder wrote on that substream.
-/
namespace Litep2pVerif.ReqResp

/-! ## What a step appends to the log -/

/-- The events input `i` can produce. -/
def EvFrom (i : Input) : Event → Prop
  | .requestFailed _ _ _ => True
  | .responseReceived p r pl => ∃ f, i = .futureDone f (.response pl) ∧ f.peer = p ∧ f.rid = r
  | .requestReceived p r req => ∃ f, i = .inboundRead f (some req) ∧ f.peer = p ∧ f.rid = r

theorem failDials_log (peer : Peer) (l : List Ctx) (s : State) :
    (failDials peer l s).log =
      s.log ++ l.map (fun c => Event.requestFailed peer c.rid (.rejected (.dialFailed none))) := by
  induction l generalizing s with
  | nil => simp [failDials]
  | cons x rest ih => simp [failDials, ih, emit, List.append_assoc]

theorem step_log (s : State) (i : Input) :
    ∃ l, (step s i).log = s.log ++ l ∧ ∀ e ∈ l, EvFrom i e := by
  cases i with
  | send peer request opts dialAns openAns =>
    simp only [step, onSendRequest]
    repeat' split
    all_goals first
      | exact ⟨[_], rfl, by simp [EvFrom]⟩
      | exact ⟨[], by simp, by simp⟩
  | cancel rid =>
    simp only [step, onCancelRequest]
    split <;> exact ⟨[], by simp, by simp⟩
  | connectionEstablished peer openAns =>
    simp only [step, onConnectionEstablished]
    split
    · exact ⟨[], by simp, by simp⟩
    · split
      · exact ⟨[], by simp, by simp⟩
      · rename_i ctxs dials hx
        rw [reportFailures_eq]
        refine ⟨(openAll peer openAns ctxs 0 [] s.pendingOutbound [] s.calls).2.2.1.map
          (fun x => Event.requestFailed peer x.1 (.rejected (.ofSubErr x.2))), ?_, ?_⟩
        · split <;> rfl
        · intro e he
          obtain ⟨x, _, hx⟩ := List.mem_map.mp he
          rw [← hx]; trivial
  | connectionClosed peer =>
    simp only [step, onConnectionClosed]
    split
    · exact ⟨[], by simp, by simp⟩
    · rw [failAll_eq]
      refine ⟨_, rfl, ?_⟩
      intro e he
      obtain ⟨x, _, hx⟩ := List.mem_map.mp he
      rw [← hx]; trivial
  | dialFailure peer =>
    simp only [step, onDialFailure]
    split
    · exact ⟨[], by simp, by simp⟩
    · rw [failDials_log]
      refine ⟨_, rfl, ?_⟩
      intro e he
      obtain ⟨x, _, hx⟩ := List.mem_map.mp he
      rw [← hx]; trivial
  | outboundSubstream peer sid fb =>
    simp only [step, onOutboundSubstream]
    split <;> exact ⟨[], by simp, by simp⟩
  | substreamOpenFailure sid error =>
    simp only [step, onSubstreamOpenFailure]
    split
    · exact ⟨[], by simp, by simp⟩
    · exact ⟨[_], rfl, by simp [EvFrom]⟩
  | inboundSubstream peer =>
    simp only [step, onInboundSubstream]
    repeat' split
    all_goals exact ⟨[], by simp, by simp⟩
  | futureDone f res =>
    simp only [step, onSubstreamEvent]
    repeat' split
    all_goals first
      | exact ⟨[_], rfl, by simp [EvFrom]⟩
      | exact ⟨[], by simp, by simp⟩
  | inboundRead f request =>
    simp only [step, onInboundRequest]
    repeat' split
    all_goals first
      | exact ⟨[_], rfl, by simp [EvFrom]⟩
      | exact ⟨[], by simp, by simp⟩
  | responseDone f => exact ⟨[], by simp [step, onResponseDone], by simp⟩
  | responderWrites sid response => exact ⟨[], by simp [step], by simp⟩
  | clogged => exact ⟨[], by simp [step], by simp⟩

/-- Only the completion of a request future with a response adds a `ResponseReceived`. -/
theorem resp_step (s : State) (i : Input) (p : Peer) (r : Rid) (pl : Payload)
    (h : Event.responseReceived p r pl ∈ (step s i).log) :
    Event.responseReceived p r pl ∈ s.log ∨ ∃ f, i = .futureDone f (.response pl) ∧ f.peer = p ∧ f.rid = r := by
  obtain ⟨l, hl, hev⟩ := step_log s i
  rw [hl] at h
  rcases List.mem_append.mp h with h | h
  · exact Or.inl h
  · exact Or.inr (hev _ h)

/-- Only the completion of an inbound read adds a `RequestReceived`. -/
theorem received_step (s : State) (i : Input) (hni : ∀ f req, i ≠ .inboundRead f req) (r : Rid) :
    receivedCount (step s i).log r = receivedCount s.log r := by
  obtain ⟨l, hl, hev⟩ := step_log s i
  rw [hl]
  simp only [receivedCount, List.countP_append]
  have : l.countP (Event.receivedFor r) = 0 := by
    apply List.countP_eq_zero.mpr
    intro e he
    have := hev e he
    cases e with
    | requestReceived p r' req =>
      obtain ⟨f, hf, _⟩ := this
      exact absurd hf (hni f _)
    | responseReceived _ _ _ => simp [Event.receivedFor]
    | requestFailed _ _ _ => simp [Event.receivedFor]
  omega

/-! ## `openedBy` and `openAll` -/

theorem pairCount_append (r : Rid) (l l' : List (Sid × Ctx)) :
    pairCount r (l ++ l') = pairCount r l + pairCount r l' := by
  simp [pairCount, List.countP_append]

theorem pairCount_cons (r : Rid) (o : Sid × Ctx) (l : List (Sid × Ctx)) :
    pairCount r (o :: l) = pairCount r l + (if o.2.rid == r then 1 else 0) := by
  simp [pairCount, List.countP_cons]

theorem openedBy_spec (openAns : Nat → Except SubErr Sid) (ctxs : List Ctx) : ∀ i,
    (∀ o ∈ openedBy openAns ctxs i, o.2 ∈ ctxs ∧ ∃ j, i ≤ j ∧ openAns j = .ok o.1) ∧
    (∀ r, pairCount r (openedBy openAns ctxs i) ≤ ctxCount r ctxs) := by
  induction ctxs with
  | nil => intro i; simp [openedBy, pairCount, ctxCount]
  | cons c rest ih =>
    intro i
    obtain ⟨h1, h2⟩ := ih (i + 1)
    simp only [openedBy]
    split
    · rename_i sid hsid
      constructor
      · intro o ho
        simp only [List.mem_cons] at ho
        rcases ho with ho | ho
        · subst ho; exact ⟨List.mem_cons_self .., i, Nat.le_refl _, hsid⟩
        · obtain ⟨h3, j, h4, h5⟩ := h1 o ho
          exact ⟨List.mem_cons_of_mem _ h3, j, by omega, h5⟩
      · intro r
        have := h2 r
        simp only [pairCount_cons, ctxCount_cons]
        omega
    · constructor
      · intro o ho
        obtain ⟨h3, j, h4, h5⟩ := h1 o ho
        exact ⟨List.mem_cons_of_mem _ h3, j, by omega, h5⟩
      · intro r
        have := h2 r
        simp only [ctxCount_cons]
        omega

theorem openedBy_nodup (openAns : Nat → Except SubErr Sid) (ctxs : List Ctx)
    (hinj : ∀ i j sid, openAns i = .ok sid → openAns j = .ok sid → i = j) : ∀ i,
    (keys (openedBy openAns ctxs i)).Nodup := by
  induction ctxs with
  | nil => intro i; simp [openedBy, keys]
  | cons c rest ih =>
    intro i
    simp only [openedBy]
    split
    · rename_i sid hsid
      simp only [keys, List.map_cons, List.nodup_cons]
      refine ⟨?_, ih (i + 1)⟩
      intro hm
      obtain ⟨o, ho, hk⟩ := List.mem_map.mp hm
      obtain ⟨_, j, hj, hs⟩ := (openedBy_spec openAns rest (i + 1)).1 o ho
      rw [hk] at hs
      have := hinj i j sid hsid hs
      omega
    · exact ih (i + 1)

/-- `pending_outbound` after the loop of `on_connection_established`: the old entries that were not
overwritten and the substreams the loop opened. -/
theorem openAll_out (peer : Peer) (openAns : Nat → Except SubErr Sid) (ctxs : List Ctx) :
    ∀ (i : Nat) (active : List Rid) (outbound : List (Sid × Ctx)) (failed : List (Rid × SubErr))
      (calls : List Call),
    (∀ o ∈ (openAll peer openAns ctxs i active outbound failed calls).2.1,
      o ∈ outbound ∨ o ∈ openedBy openAns ctxs i) ∧
    (∀ r, pairCount r (openAll peer openAns ctxs i active outbound failed calls).2.1 ≤
      pairCount r outbound + pairCount r (openedBy openAns ctxs i)) := by
  induction ctxs with
  | nil =>
    intro i active outbound failed calls
    simp [openAll, openedBy]
  | cons c rest ih =>
    intro i active outbound failed calls
    simp only [openAll, openedBy]
    split
    · rename_i sid hsid
      obtain ⟨h1, h2⟩ := ih (i + 1) (setInsert c.rid active) ((sid, c) :: (alTake sid outbound).2) failed
        (calls ++ [.openSubstream peer (.ok sid)])
      constructor
      · intro o ho
        rcases h1 o ho with h | h
        · simp only [List.mem_cons] at h
          rcases h with h | h
          · exact Or.inr (by rw [h]; exact List.mem_cons_self ..)
          · exact Or.inl (mem_of_mem_take sid _ o h)
        · exact Or.inr (List.mem_cons_of_mem _ h)
      · intro r
        have := h2 r
        have hle := countP_take_le (fun e => e.2.rid == r) sid outbound
        simp only [pairCount_cons] at this ⊢
        simp only [pairCount] at this hle ⊢
        omega
    · exact ih (i + 1) active outbound _ _

/-! ## The invariant -/

structure Sub (s : State) : Prop where
  /-- a substream the protocol waits for was opened for that request -/
  outSub : ∀ o ∈ s.pendingOutbound, o ∈ s.opened
  /-- a request future is only started on a substream opened for that request -/
  sentSub : ∀ o ∈ s.sentOn, o ∈ s.opened
  openedIssued : ∀ o ∈ s.opened, o.2 ∈ s.issued
  dialIssued : ∀ e ∈ s.pendingDials, ∀ c ∈ e.2, c ∈ s.issued
  /-- substream ids are never reused -/
  openedNodup : (keys s.opened).Nodup
  openedCnt : ∀ r, dialCount s r + openedCount s r ≤ issuedCount s r
  sentCnt : ∀ r, outCount s r + sentCount s r ≤ openedCount s r
  futSent : ∀ f ∈ s.pendingInbound, ∃ c, (f.sid, c) ∈ s.sentOn ∧ c.rid = f.rid ∧ c.peer = f.peer
  respOk : ∀ p r pl, Event.responseReceived p r pl ∈ s.log →
    ∃ sid c, (sid, c) ∈ s.sentOn ∧ c.rid = r ∧ c.peer = p ∧ (sid, pl) ∈ s.wire

theorem Sub.init (m : Option Nat) : Sub (init m) := by
  constructor <;>
    simp [ReqResp.init, keys, dialCount, openedCount, issuedCount, outCount, sentCount, pairCount, ctxCount]

/-- Steps that open no substream and start no future. -/
theorem Sub.congr {s s' : State} (h : Sub s)
    (ho : ∀ o ∈ s'.pendingOutbound, o ∈ s.pendingOutbound) (hoc : ∀ r, outCount s' r ≤ outCount s r)
    (hs : s'.sentOn = s.sentOn) (hop : s'.opened = s.opened)
    (hi1 : ∀ c ∈ s.issued, c ∈ s'.issued) (hi2 : ∀ r, issuedCount s r ≤ issuedCount s' r)
    (hd : ∀ e ∈ s'.pendingDials, e ∈ s.pendingDials) (hdc : ∀ r, dialCount s' r ≤ dialCount s r)
    (hf : ∀ f ∈ s'.pendingInbound, f ∈ s.pendingInbound)
    (hl : ∀ p r pl, Event.responseReceived p r pl ∈ s'.log → Event.responseReceived p r pl ∈ s.log ∨
      ∃ sid c, (sid, c) ∈ s.sentOn ∧ c.rid = r ∧ c.peer = p ∧ (sid, pl) ∈ s.wire)
    (hw : ∀ x ∈ s.wire, x ∈ s'.wire) : Sub s' := by
  constructor
  · intro o ho'; rw [hop]; exact h.outSub o (ho o ho')
  · rw [hs, hop]; exact h.sentSub
  · intro o ho'; rw [hop] at ho'; exact hi1 _ (h.openedIssued o ho')
  · intro e he c hc; exact hi1 _ (h.dialIssued e (hd e he) c hc)
  · rw [hop]; exact h.openedNodup
  · intro r
    have := h.openedCnt r; have := hi2 r; have := hdc r
    simp only [openedCount, hop] at *
    omega
  · intro r
    have := h.sentCnt r; have := hoc r
    simp only [openedCount, sentCount, hop, hs] at *
    omega
  · intro f hf'
    rw [hs]; exact h.futSent f (hf f hf')
  · intro p r pl hm
    rw [hs]
    rcases hl p r pl hm with hm | ⟨sid, c, h1, h2, h3, h4⟩
    · obtain ⟨sid, c, h1, h2, h3, h4⟩ := h.respOk p r pl hm
      exact ⟨sid, c, h1, h2, h3, hw _ h4⟩
    · exact ⟨sid, c, h1, h2, h3, hw _ h4⟩

theorem issuedCount_snoc (s : State) (c : Ctx) (r : Rid) :
    ctxCount r (s.issued ++ [c]) = issuedCount s r + (if c.rid == r then 1 else 0) := by
  simp [issuedCount, ctxCount_snoc]

theorem sub_send (s : State) (peer : Peer) (request : Request) (opts : DialOptions)
    (dialAns : Except DialErr Unit) (openAns : Except SubErr Sid) (h : Sub s)
    (ha : ∀ sid, openAns = .ok sid → alFind sid s.pendingOutbound = none ∧ ∀ e ∈ s.opened, e.1 ≠ sid) :
    Sub (step s (.send peer request opts dialAns openAns)) := by
  have hlog := resp_step s (.send peer request opts dialAns openAns)
  have hl : ∀ p r pl, Event.responseReceived p r pl ∈ (step s (.send peer request opts dialAns openAns)).log →
      Event.responseReceived p r pl ∈ s.log ∨
        ∃ sid c, (sid, c) ∈ s.sentOn ∧ c.rid = r ∧ c.peer = p ∧ (sid, pl) ∈ s.wire := by
    intro p r pl hm
    rcases hlog p r pl hm with h1 | ⟨f, hf, _⟩
    · exact Or.inl h1
    · cases hf
  -- the paths on which the request fails at once (or the assertion fires)
  have easy : ∀ s' : State, s'.pendingOutbound = s.pendingOutbound → s'.sentOn = s.sentOn →
      s'.opened = s.opened → s'.issued = s.issued ++ [⟨peer, s.nextRid, request⟩] →
      s'.pendingDials = s.pendingDials → s'.pendingInbound = s.pendingInbound → s'.wire = s.wire →
      (∀ p r pl, Event.responseReceived p r pl ∈ s'.log → Event.responseReceived p r pl ∈ s.log ∨
        ∃ sid c, (sid, c) ∈ s.sentOn ∧ c.rid = r ∧ c.peer = p ∧ (sid, pl) ∈ s.wire) → Sub s' := by
    intro s' e1 e2 e3 e4 e5 e6 e7 e8
    refine h.congr (by rw [e1]; exact fun _ x => x) (by simp [outCount, e1]) e2 e3
      (by rw [e4]; exact fun _ x => List.mem_append_left _ x)
      (by intro r; simp only [issuedCount, e4, ctxCount_snoc]; omega)
      (by rw [e5]; exact fun _ x => x) (by simp [dialCount, e5])
      (by rw [e6]; exact fun _ x => x) e8 (by rw [e7]; exact fun _ x => x)
  revert hl
  simp only [step, onSendRequest]
  split
  · split
    · intro hl; exact easy _ rfl rfl rfl rfl rfl rfl rfl hl
    · split
      · -- the request joins the dial queue
        intro _
        constructor
        · exact h.outSub
        · exact h.sentSub
        · intro o ho; exact List.mem_append_left _ (h.openedIssued o ho)
        · intro e he c hc
          -- either an old entry or the new request
          have : ∀ (l : List (Peer × List Ctx)), (∀ e ∈ l, ∀ c ∈ e.2, c ∈ s.issued) →
              ∀ e ∈ pushDial peer ⟨peer, s.nextRid, request⟩ l, ∀ c ∈ e.2,
                c ∈ s.issued ++ [⟨peer, s.nextRid, request⟩] := by
            intro l
            induction l with
            | nil =>
              intro _ e he c hc
              simp only [pushDial, List.mem_singleton] at he
              subst he
              simp only [List.mem_singleton] at hc
              subst hc; simp
            | cons x rest ih =>
              obtain ⟨q, cs⟩ := x
              intro hall e he c hc
              simp only [pushDial] at he
              split at he
              · simp only [List.mem_cons] at he
                rcases he with he | he
                · subst he
                  simp only [List.mem_append, List.mem_singleton] at hc
                  rcases hc with hc | hc
                  · exact List.mem_append_left _ (hall (q, cs) (List.mem_cons_self ..) c hc)
                  · subst hc; simp
                · exact List.mem_append_left _ (hall e (List.mem_cons_of_mem _ he) c hc)
              · simp only [List.mem_cons] at he
                rcases he with he | he
                · subst he; exact List.mem_append_left _ (hall (q, cs) (List.mem_cons_self ..) c hc)
                · exact ih (fun e he => hall e (List.mem_cons_of_mem _ he)) e he c hc
          exact this _ h.dialIssued e he c hc
        · exact h.openedNodup
        · intro r
          have := h.openedCnt r
          simp only [dialCount_def, dialSum_pushDial, openedCount, issuedCount, ctxCount_snoc] at this ⊢
          omega
        · exact h.sentCnt
        · exact h.futSent
        · exact h.respOk
      · intro hl; exact easy _ rfl rfl rfl rfl rfl rfl rfl hl
  · split
    · rename_i sid
      split
      · intro hl; exact easy _ rfl rfl rfl rfl rfl rfl rfl hl
      · -- a substream is opened for the request
        intro _
        have hout : (alTake sid s.pendingOutbound).2 = s.pendingOutbound :=
          alTake_of_find_none sid _ (ha sid rfl).1
        simp only [hout]
        constructor
        · intro o ho
          simp only [List.mem_cons] at ho
          rcases ho with ho | ho
          · rw [ho]; exact List.mem_append_right _ (List.mem_singleton.mpr rfl)
          · exact List.mem_append_left _ (h.outSub o ho)
        · intro o ho; exact List.mem_append_left _ (h.sentSub o ho)
        · intro o ho
          simp only [List.mem_append, List.mem_singleton] at ho
          rcases ho with ho | ho
          · exact List.mem_append_left _ (h.openedIssued o ho)
          · rw [ho]; simp
        · intro e he c hc; exact List.mem_append_left _ (h.dialIssued e he c hc)
        · simp only [keys, List.map_append, List.map_cons, List.map_nil]
          refine List.nodup_append.mpr ⟨h.openedNodup, by simp, ?_⟩
          intro a ha' b hb
          simp only [List.mem_singleton] at hb
          obtain ⟨e, he, hk⟩ := List.mem_map.mp ha'
          rw [hb, ← hk]
          exact (ha sid rfl).2 e he
        · intro r
          have := h.openedCnt r
          simp only [dialCount_def, openedCount, pairCount, List.countP_append, List.countP_cons,
            List.countP_nil, issuedCount, ctxCount_snoc] at this ⊢
          omega
        · intro r
          have := h.sentCnt r
          simp only [outCount, sentCount, openedCount, pairCount, List.countP_append, List.countP_cons,
            List.countP_nil] at this ⊢
          omega
        · exact h.futSent
        · exact h.respOk
    · intro hl; exact easy _ rfl rfl rfl rfl rfl rfl rfl hl

theorem sub_connectionEstablished (s : State) (peer : Peer) (openAns : Nat → Except SubErr Sid) (h : Sub s)
    (hfresh : ∀ i sid, openAns i = .ok sid → ∀ e ∈ s.opened, e.1 ≠ sid)
    (hinj : ∀ i j sid, openAns i = .ok sid → openAns j = .ok sid → i = j) :
    Sub (onConnectionEstablished s peer openAns) := by
  have hlog := resp_step s (.connectionEstablished peer openAns)
  have hl : ∀ p r pl, Event.responseReceived p r pl ∈ (onConnectionEstablished s peer openAns).log →
      Event.responseReceived p r pl ∈ s.log := by
    intro p r pl hm
    rcases hlog p r pl hm with h1 | ⟨f, hf, _⟩
    · exact h1
    · cases hf
  revert hl
  simp only [onConnectionEstablished]
  split
  · intro hl
    exact h.congr (fun _ x => x) (fun _ => Nat.le_refl _) rfl rfl (fun _ x => x) (fun _ => Nat.le_refl _)
      (fun _ x => x) (fun _ => Nat.le_refl _) (fun _ x => x) (fun p r pl hm => Or.inl (hl p r pl hm)) (fun _ x => x)
  · split
    · intro hl
      exact h.congr (fun _ x => x) (fun _ => Nat.le_refl _) rfl rfl (fun _ x => x) (fun _ => Nat.le_refl _)
        (fun _ x => x) (fun _ => Nat.le_refl _) (fun _ x => x) (fun p r pl hm => Or.inl (hl p r pl hm)) (fun _ x => x)
    · rename_i ctxs dials hx
      have hfind : alFind peer s.pendingDials = some ctxs := by rw [← alTake_fst, hx]
      have hrest : dials = (alTake peer s.pendingDials).2 := by rw [hx]
      have hD : ∀ r, dialCount s r = ctxCount r ctxs + alSum (ctxCount r) dials := by
        intro r
        have := alSum_take (ctxCount r) peer s.pendingDials
        rw [hfind, ← hrest] at this
        simpa [dialCount_def, optW] using this
      obtain ⟨h1, h2⟩ := openAll_out peer openAns ctxs 0 [] s.pendingOutbound [] s.calls
      obtain ⟨h3, h4⟩ := openedBy_spec openAns ctxs 0
      have h5 := openedBy_nodup openAns ctxs hinj 0
      generalize openAll peer openAns ctxs 0 [] s.pendingOutbound [] s.calls = res at h1 h2 ⊢
      obtain ⟨act, outN, fl, callsN⟩ := res
      simp only at h1 h2
      rw [reportFailures_eq]
      intro hl
      -- the peer registration does not matter here
      have hs : Sub { s with
          pendingDials := dials
          pendingOutbound := outN
          calls := callsN
          opened := s.opened ++ openedBy openAns ctxs 0
          log := s.log ++ fl.map (fun x => Event.requestFailed peer x.1 (.rejected (.ofSubErr x.2))) } := by
        have hl' : ∀ p r pl, Event.responseReceived p r pl ∈
            s.log ++ fl.map (fun x => Event.requestFailed peer x.1 (.rejected (.ofSubErr x.2))) →
            Event.responseReceived p r pl ∈ s.log := by
          intro p r pl hm
          rcases List.mem_append.mp hm with hm | hm
          · exact hm
          · obtain ⟨x, _, hx⟩ := List.mem_map.mp hm
            cases hx
        constructor
        · intro o ho
          rcases h1 o ho with hm | hm
          · exact List.mem_append_left _ (h.outSub o hm)
          · exact List.mem_append_right _ hm
        · intro o ho; exact List.mem_append_left _ (h.sentSub o ho)
        · intro o ho
          rcases List.mem_append.mp ho with hm | hm
          · exact h.openedIssued o hm
          · exact h.dialIssued (peer, ctxs) (mem_of_find peer _ ctxs hfind) _ (h3 o hm).1
        · intro e he c hc
          exact h.dialIssued e (mem_of_mem_take peer _ e (hrest ▸ he)) c hc
        · simp only [keys, List.map_append]
          refine List.nodup_append.mpr ⟨h.openedNodup, h5, ?_⟩
          intro a ha b hb
          obtain ⟨e, he, hk⟩ := List.mem_map.mp ha
          obtain ⟨o, ho, hk'⟩ := List.mem_map.mp hb
          obtain ⟨_, j, _, hj⟩ := h3 o ho
          rw [← hk, ← hk']
          exact hfresh j o.1 hj e he
        · intro r
          have := h.openedCnt r; have := hD r; have := h4 r
          simp only [dialCount_def, openedCount, pairCount, List.countP_append, issuedCount] at *
          omega
        · intro r
          have := h.sentCnt r; have := h2 r
          simp only [outCount, sentCount, openedCount, pairCount, List.countP_append] at *
          omega
        · exact h.futSent
        · intro p r pl hm
          exact h.respOk p r pl (hl' p r pl hm)
      split
      · exact hs
      · constructor
        · exact hs.outSub
        · exact hs.sentSub
        · exact hs.openedIssued
        · exact hs.dialIssued
        · exact hs.openedNodup
        · exact hs.openedCnt
        · exact hs.sentCnt
        · exact hs.futSent
        · exact hs.respOk

theorem sub_outboundSubstream (s : State) (peer : Peer) (sid : Sid) (fb : Option Nat) (h : Sub s)
    (ha : ∀ ctx, alFind sid s.pendingOutbound = some ctx → ctx.peer = peer) :
    Sub (onOutboundSubstream s peer sid fb) := by
  simp only [onOutboundSubstream]
  split
  · exact h.congr (fun _ x => x) (fun _ => Nat.le_refl _) rfl rfl (fun _ x => x) (fun _ => Nat.le_refl _)
      (fun _ x => x) (fun _ => Nat.le_refl _) (fun _ x => x) (fun p r pl hm => Or.inl hm) (fun _ x => x)
  · rename_i ctx outbound hx
    have hfind : alFind sid s.pendingOutbound = some ctx := by rw [← alTake_fst, hx]
    have hrest : outbound = (alTake sid s.pendingOutbound).2 := by rw [hx]
    have hc := outCount_take s sid ctx outbound hx
    have hctx : (⟨peer, ctx.rid, ctx.request⟩ : Ctx) = ctx := by
      rw [← ha ctx hfind]
    rw [hctx]
    constructor
    · intro o ho
      exact h.outSub o (mem_of_mem_take sid _ o (hrest ▸ ho))
    · intro o ho
      simp only [List.mem_append, List.mem_singleton] at ho
      rcases ho with ho | ho
      · exact h.sentSub o ho
      · rw [ho]; exact h.outSub _ (mem_of_find sid _ ctx hfind)
    · exact h.openedIssued
    · exact h.dialIssued
    · exact h.openedNodup
    · exact h.openedCnt
    · intro r
      have := h.sentCnt r; have := hc r
      simp only [outCount, sentCount, openedCount, pairCount, List.countP_append, List.countP_cons,
        List.countP_nil] at *
      omega
    · intro f hf
      simp only [List.mem_append, List.mem_singleton] at hf
      rcases hf with hf | hf
      · obtain ⟨c, h1, h2⟩ := h.futSent f hf
        exact ⟨c, List.mem_append_left _ h1, h2⟩
      · subst hf
        exact ⟨ctx, List.mem_append_right _ (List.mem_singleton.mpr rfl), rfl, ha ctx hfind⟩
    · intro p r pl hm
      obtain ⟨sid', c, h1, h2⟩ := h.respOk p r pl hm
      exact ⟨sid', c, List.mem_append_left _ h1, h2⟩

theorem outCount_le_of_sublist (s : State) (l : List (Sid × Ctx)) (h : l.Sublist s.pendingOutbound) (r : Rid) :
    l.countP (fun e => e.2.rid == r) ≤ outCount s r :=
  List.Sublist.countP_le h

theorem dialCount_take_le (s : State) (peer : Peer) (r : Rid) :
    alSum (ctxCount r) (alTake peer s.pendingDials).2 ≤ dialCount s r := by
  have := alSum_take (ctxCount r) peer s.pendingDials
  simp only [dialCount_def]; omega

theorem sub_step (s : State) (i : Input) (h : Sub s) (ha : Allowed s i) : Sub (step s i) := by
  have hlog := resp_step s i
  -- default treatment of the log: no `ResponseReceived` is added
  have hl0 : (∀ f p, i ≠ .futureDone f (.response p)) →
      ∀ p r pl, Event.responseReceived p r pl ∈ (step s i).log → Event.responseReceived p r pl ∈ s.log ∨
        ∃ sid c, (sid, c) ∈ s.sentOn ∧ c.rid = r ∧ c.peer = p ∧ (sid, pl) ∈ s.wire := by
    intro hni p r pl hm
    rcases hlog p r pl hm with h1 | ⟨f, hf, _⟩
    · exact Or.inl h1
    · exact absurd hf (hni f _)
  cases i with
  | send peer request opts dialAns openAns =>
    exact sub_send s peer request opts dialAns openAns h (fun sid hs => ⟨(ha sid hs).1, (ha sid hs).2.2⟩)
  | cancel rid =>
    have hl := hl0 (by intro f p hc; cases hc)
    revert hl
    simp only [step, onCancelRequest]
    split
    · intro hl
      exact h.congr (fun _ x => x) (fun _ => Nat.le_refl _) rfl rfl (fun _ x => x) (fun _ => Nat.le_refl _)
        (fun _ x => x) (fun _ => Nat.le_refl _) (fun _ x => x) hl (fun _ x => x)
    · intro _; exact h
  | connectionEstablished peer openAns =>
    exact sub_connectionEstablished s peer openAns h (fun i sid hs => (ha.1 i sid hs).2.2) ha.2
  | connectionClosed peer =>
    have hl := hl0 (by intro f p hc; cases hc)
    revert hl
    simp only [step, onConnectionClosed]
    split
    · intro hl
      exact h.congr (fun o ho => (List.mem_filter.mp ho).1)
        (fun r => outCount_le_of_sublist s _ List.filter_sublist r) rfl rfl (fun _ x => x)
        (fun _ => Nat.le_refl _) (fun _ x => x) (fun _ => Nat.le_refl _) (fun _ x => x) hl (fun _ x => x)
    · rw [failAll_eq]
      intro hl
      exact h.congr (fun o ho => (List.mem_filter.mp ho).1)
        (fun r => outCount_le_of_sublist s _ List.filter_sublist r) rfl rfl (fun _ x => x)
        (fun _ => Nat.le_refl _) (fun _ x => x) (fun _ => Nat.le_refl _) (fun _ x => x) hl (fun _ x => x)
  | dialFailure peer =>
    have hl := hl0 (by intro f p hc; cases hc)
    revert hl
    simp only [step, onDialFailure]
    split
    · intro _; exact h
    · rename_i ctxs dials hx
      have hrest : dials = (alTake peer s.pendingDials).2 := by rw [hx]
      intro hl
      -- `failDials` only touches `peers` and the log
      have hframe : ∀ (l : List Ctx) (t : State),
          (failDials peer l t).pendingOutbound = t.pendingOutbound ∧ (failDials peer l t).sentOn = t.sentOn ∧
          (failDials peer l t).opened = t.opened ∧ (failDials peer l t).issued = t.issued ∧
          (failDials peer l t).pendingDials = t.pendingDials ∧
          (failDials peer l t).pendingInbound = t.pendingInbound ∧ (failDials peer l t).wire = t.wire := by
        intro l
        induction l with
        | nil => intro t; simp [failDials]
        | cons x rest ih => intro t; simp only [failDials]; rw [(ih _).1, (ih _).2.1, (ih _).2.2.1,
            (ih _).2.2.2.1, (ih _).2.2.2.2.1, (ih _).2.2.2.2.2.1, (ih _).2.2.2.2.2.2]; simp [emit]
      obtain ⟨e1, e2, e3, e4, e5, e6, e7⟩ := hframe ctxs { s with pendingDials := dials }
      exact h.congr (by rw [e1]; exact fun _ x => x) (by simp [outCount, e1]) e2 e3
        (by rw [e4]; exact fun _ x => x) (by simp [issuedCount, e4])
        (by rw [e5]; exact fun e he => mem_of_mem_take peer _ e (hrest ▸ he))
        (by intro r; simp only [dialCount_def, e5]; rw [hrest]; exact dialCount_take_le s peer r)
        (by rw [e6]; exact fun _ x => x) hl (by rw [e7]; exact fun _ x => x)
  | outboundSubstream peer sid fb => exact sub_outboundSubstream s peer sid fb h ha
  | substreamOpenFailure sid error =>
    have hl := hl0 (by intro f p hc; cases hc)
    revert hl
    simp only [step, onSubstreamOpenFailure]
    split
    · intro hl
      exact h.congr (fun _ x => x) (fun _ => Nat.le_refl _) rfl rfl (fun _ x => x) (fun _ => Nat.le_refl _)
        (fun _ x => x) (fun _ => Nat.le_refl _) (fun _ x => x) hl (fun _ x => x)
    · rename_i ctx outbound hx
      have hrest : outbound = (alTake sid s.pendingOutbound).2 := by rw [hx]
      intro hl
      exact h.congr (fun o ho => mem_of_mem_take sid _ o (hrest ▸ ho))
        (fun r => by rw [hrest]; exact outCount_le_of_sublist s _ (take_sublist sid _) r) rfl rfl (fun _ x => x)
        (fun _ => Nat.le_refl _) (fun _ x => x) (fun _ => Nat.le_refl _) (fun _ x => x) hl (fun _ x => x)
  | inboundSubstream peer =>
    have hl := hl0 (by intro f p hc; cases hc)
    revert hl
    simp only [step, onInboundSubstream]
    repeat' split
    all_goals
      intro hl
      exact h.congr (fun _ x => x) (fun _ => Nat.le_refl _) rfl rfl (fun _ x => x) (fun _ => Nat.le_refl _)
        (fun _ x => x) (fun _ => Nat.le_refl _) (fun _ x => x) hl (fun _ x => x)
  | futureDone f res =>
    have hl : ∀ p r pl, Event.responseReceived p r pl ∈ (step s (.futureDone f res)).log →
        Event.responseReceived p r pl ∈ s.log ∨
          ∃ sid c, (sid, c) ∈ s.sentOn ∧ c.rid = r ∧ c.peer = p ∧ (sid, pl) ∈ s.wire := by
      intro p r pl hm
      rcases hlog p r pl hm with h1 | ⟨f', hf, hp, hr⟩
      · exact Or.inl h1
      · cases hf
        obtain ⟨c, h1, h2, h3⟩ := h.futSent f ha.1
        exact Or.inr ⟨f.sid, c, h1, by rw [h2, hr], by rw [h3, hp], ha.2.2 pl rfl⟩
    revert hl
    simp only [step, onSubstreamEvent]
    repeat' split
    all_goals
      intro hl
      exact h.congr (fun _ x => x) (fun _ => Nat.le_refl _) rfl rfl (fun _ x => x) (fun _ => Nat.le_refl _)
        (fun _ x => x) (fun _ => Nat.le_refl _) (fun f' hf' => List.mem_of_mem_erase hf') hl (fun _ x => x)
  | inboundRead f request =>
    have hl := hl0 (by intro f p hc; cases hc)
    revert hl
    simp only [step, onInboundRequest]
    repeat' split
    all_goals
      intro hl
      exact h.congr (fun _ x => x) (fun _ => Nat.le_refl _) rfl rfl (fun _ x => x) (fun _ => Nat.le_refl _)
        (fun _ x => x) (fun _ => Nat.le_refl _) (fun _ x => x) hl (fun _ x => x)
  | responseDone f =>
    exact h.congr (fun _ x => x) (fun _ => Nat.le_refl _) rfl rfl (fun _ x => x) (fun _ => Nat.le_refl _)
      (fun _ x => x) (fun _ => Nat.le_refl _) (fun _ x => x) (fun p r pl hm => Or.inl hm) (fun _ x => x)
  | responderWrites sid response =>
    exact h.congr (fun _ x => x) (fun _ => Nat.le_refl _) rfl rfl (fun _ x => x) (fun _ => Nat.le_refl _)
      (fun _ x => x) (fun _ => Nat.le_refl _) (fun _ x => x) (fun p r pl hm => Or.inl hm)
      (fun x hx => List.mem_append_left _ hx)
  | clogged =>
    exact h.congr (fun _ x => x) (fun _ => Nat.le_refl _) rfl rfl (fun _ x => x) (fun _ => Nat.le_refl _)
      (fun _ x => x) (fun _ => Nat.le_refl _) (fun _ x => x) (fun p r pl hm => Or.inl hm) (fun _ x => x)

theorem reach_sub (m : Option Nat) (s : State) (h : Reach m s) : Sub s := by
  induction h with
  | init => exact Sub.init m
  | step i _ _ ha ih => exact sub_step _ i ih ha

end Litep2pVerif.ReqResp
