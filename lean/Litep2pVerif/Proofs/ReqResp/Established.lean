import Litep2pVerif.Proofs.ReqResp.Hard
/-!
Preservation of the ledger invariant by `on_connection_established` (the per-peer dial queue).
-/
namespace Litep2pVerif.ReqResp

def failedCount (r : Rid) (l : List (Rid × SubErr)) : Nat := l.countP (fun x => x.1 == r)

theorem reportFailures_eq (peer : Peer) (l : List (Rid × SubErr)) (s : State) :
    reportFailures peer l s =
      { s with log := s.log ++ l.map (fun x => Event.requestFailed peer x.1 (.rejected (.ofSubErr x.2))) } := by
  induction l generalizing s with
  | nil => simp [reportFailures]
  | cons x rest ih => obtain ⟨rid, e⟩ := x; simp [reportFailures, ih, emit, List.append_assoc]

theorem terminals_map_reported (peer : Peer) (l : List (Rid × SubErr)) (r : Rid) :
    terminals (l.map (fun x => Event.requestFailed peer x.1 (.rejected (.ofSubErr x.2)))) r = failedCount r l := by
  induction l with
  | nil => rfl
  | cons x rest ih =>
    simp only [terminals, failedCount] at ih
    simp only [List.map_cons, terminals, failedCount, List.countP_cons, ih, Event.terminalFor]
    by_cases hx : x.1 = r
    · simp [hx]
    · have hb : (x.1 == r) = false := by simpa using hx
      simp [hb]

theorem ctxCount_cons (r : Rid) (c : Ctx) (l : List Ctx) :
    ctxCount r (c :: l) = ctxCount r l + (if c.rid == r then 1 else 0) := by
  simp [ctxCount, List.countP_cons]

theorem countP_take_le (q : Sid × Ctx → Bool) (k : Nat) (l : List (Sid × Ctx)) :
    (alTake k l).2.countP q ≤ l.countP q := by
  have := countP_take q k l
  omega

theorem openAll_spec (peer : Peer) (openAns : Nat → Except SubErr Sid) (ctxs : List Ctx) :
    ∀ (i : Nat) (active : List Rid) (outbound : List (Sid × Ctx)) (failed : List (Rid × SubErr))
      (calls : List Call), (∀ r, active.count r + ctxCount r ctxs ≤ 1) →
    (∀ r, (openAll peer openAns ctxs i active outbound failed calls).1.count r +
        failedCount r (openAll peer openAns ctxs i active outbound failed calls).2.2.1 =
        active.count r + failedCount r failed + ctxCount r ctxs) ∧
    (∀ r, (openAll peer openAns ctxs i active outbound failed calls).2.1.countP (fun e => e.2.rid == r) +
        active.count r ≤ outbound.countP (fun e => e.2.rid == r) +
        (openAll peer openAns ctxs i active outbound failed calls).1.count r) ∧
    (∀ e ∈ (openAll peer openAns ctxs i active outbound failed calls).2.1,
        e ∈ outbound ∨ (e.2 ∈ ctxs ∧ e.2.rid ∈ (openAll peer openAns ctxs i active outbound failed calls).1)) ∧
    (∀ x ∈ active, x ∈ (openAll peer openAns ctxs i active outbound failed calls).1) := by
  induction ctxs with
  | nil =>
    intro i active outbound failed calls _
    simp [openAll, ctxCount]
  | cons c rest ih =>
    intro i active outbound failed calls hd
    simp only [openAll]
    split
    · rename_i sid _
      have hnot : c.rid ∉ active := by
        intro hm
        have := List.count_pos_iff.mpr hm
        have := hd c.rid
        simp only [ctxCount_cons, beq_self_eq_true, if_true] at this
        omega
      have hcnt := fun r => count_setInsert r c.rid active hnot
      have hd1 : ∀ r, (setInsert c.rid active).count r + ctxCount r rest ≤ 1 := by
        intro r
        have := hd r
        rw [hcnt r]
        simp only [ctxCount_cons] at this
        omega
      obtain ⟨h1, h2, h3, h4⟩ := ih (i + 1) (setInsert c.rid active) ((sid, c) :: (alTake sid outbound).2) failed
        (calls ++ [.openSubstream peer (.ok sid)]) hd1
      refine ⟨?_, ?_, ?_, ?_⟩
      · intro r
        have := h1 r
        rw [hcnt r] at this
        simp only [ctxCount_cons]
        omega
      · intro r
        have := h2 r
        have hle := countP_take_le (fun e => e.2.rid == r) sid outbound
        rw [hcnt r] at this
        simp only [List.countP_cons] at this
        omega
      · intro e he
        rcases h3 e he with h | h
        · simp only [List.mem_cons] at h
          rcases h with h | h
          · subst h
            exact Or.inr ⟨List.mem_cons_self .., h4 _ ((mem_setInsert _ _ _).mpr (Or.inl rfl))⟩
          · exact Or.inl (mem_of_mem_take sid _ e h)
        · exact Or.inr ⟨List.mem_cons_of_mem _ h.1, h.2⟩
      · intro x hx
        exact h4 x ((mem_setInsert _ _ _).mpr (Or.inr hx))
    · rename_i e _
      have hd1 : ∀ r, active.count r + ctxCount r rest ≤ 1 := by
        intro r
        have := hd r
        simp only [ctxCount_cons] at this
        omega
      obtain ⟨h1, h2, h3, h4⟩ := ih (i + 1) active outbound (failed ++ [(c.rid, e)])
        (calls ++ [.openSubstream peer (.error e)]) hd1
      refine ⟨?_, h2, ?_, h4⟩
      · intro r
        have := h1 r
        simp only [failedCount, List.countP_append, List.countP_cons, List.countP_nil, ctxCount_cons] at this ⊢
        omega
      · intro e' he
        rcases h3 e' he with h | h
        · exact Or.inl h
        · exact Or.inr ⟨List.mem_cons_of_mem _ h.1, h.2⟩

theorem alFind_cons_ne {β : Type} (k k' : Nat) (v : β) (l : List (Nat × β)) (h : k ≠ k') :
    alFind k' ((k, v) :: l) = alFind k' l := by
  simp [alFind, h]

theorem inv_connectionEstablished (s : State) (peer : Peer) (openAns : Nat → Except SubErr Sid) (h : Inv s) :
    Inv (onConnectionEstablished s peer openAns) := by
  simp only [onConnectionEstablished]
  split
  · exact inv_panicked s h
  · rename_i hnone
    -- entries waiting for a substream belong to other peers
    have hother : ∀ e ∈ s.pendingOutbound, peer ≠ e.2.peer := by
      intro e he heq
      obtain ⟨pc, hpc, _⟩ := h.owned e he
      rw [← heq, hnone] at hpc
      cases hpc
    split
    · -- no request waits for this peer
      constructor
      · intro r
        have := h.ledger r
        simpa only [activeCount_def, dialCount_def, issuedCount, alSum_cons, List.count_nil, Nat.zero_add] using this
      · exact h.fresh
      · exact h.issuedLe
      · exact h.excl
      · intro e he
        obtain ⟨pc, hpc, hm⟩ := h.owned e he
        exact ⟨pc, by rw [alFind_cons_ne _ _ _ _ (hother e he)]; exact hpc, hm⟩
      · exact h.dialPeer
      · exact h.cancelSub
    · rename_i ctxs dials hx
      have hfind : alFind peer s.pendingDials = some ctxs := by rw [← alTake_fst, hx]
      have hrest : dials = (alTake peer s.pendingDials).2 := by rw [hx]
      have hD : ∀ r, dialCount s r = ctxCount r ctxs + alSum (ctxCount r) dials := by
        intro r
        have := alSum_take (ctxCount r) peer s.pendingDials
        rw [hfind, ← hrest] at this
        simpa [dialCount_def, optW] using this
      have hd : ∀ r, ([] : List Rid).count r + ctxCount r ctxs ≤ 1 := by
        intro r
        have := h.excl r; have := hD r
        simp only [List.count_nil]
        omega
      obtain ⟨h1, h2, h3, _⟩ := openAll_spec peer openAns ctxs 0 [] s.pendingOutbound [] s.calls hd
      generalize openAll peer openAns ctxs 0 [] s.pendingOutbound [] s.calls = res at h1 h2 h3 ⊢
      obtain ⟨act, out', fl, calls'⟩ := res
      simp only [List.count_nil, failedCount, List.countP_nil, Nat.zero_add, Nat.add_zero] at h1 h2 h3
      have hpeerOf : ∀ c ∈ ctxs, c.peer = peer :=
        fun c hc => h.dialPeer (peer, ctxs) (mem_of_find peer _ ctxs hfind) c hc
      rw [reportFailures_eq]
      by_cases hemp : act = []
      · subst hemp
        simp only [List.isEmpty_nil, if_true]
        simp only [List.count_nil, Nat.zero_add, List.not_mem_nil, and_false, or_false] at h1 h2 h3
        constructor
        · intro r
          have := h.ledger r; have := hD r; have := h1 r
          simp only [terminals_append, terminals_map_reported, failedCount, activeCount_def, dialCount_def,
            issuedCount] at *
          omega
        · intro r hr
          have := h.fresh r hr; have := h2 r
          simp only [outCount, futCount, issuedCount] at *
          omega
        · exact h.issuedLe
        · intro r
          have := h.excl r; have := hD r; have := h2 r
          simp only [outCount, futCount, dialCount_def] at *
          omega
        · intro e he
          exact h.owned e (h3 e he)
        · intro e he
          exact h.dialPeer e (mem_of_mem_take peer _ e (hrest ▸ he))
        · exact h.cancelSub
      · have hne : act.isEmpty = false := by
          cases act with
          | nil => exact absurd rfl hemp
          | cons _ _ => rfl
        simp only [hne, Bool.false_eq_true, if_false]
        constructor
        · intro r
          have := h.ledger r; have := hD r; have := h1 r
          simp only [terminals_append, terminals_map_reported, failedCount, activeCount_def, dialCount_def,
            issuedCount, alSum_cons] at *
          omega
        · intro r hr
          have h0 := h.next_zero r hr
          have := hD r; have := h2 r; have := h1 r
          simp only [outCount, futCount, issuedCount] at *
          omega
        · exact h.issuedLe
        · intro r
          have := h.excl r; have := hD r; have := h2 r; have := h1 r
          simp only [outCount, futCount, dialCount_def] at *
          omega
        · intro e he
          rcases h3 e he with hin | ⟨hc, hm⟩
          · obtain ⟨pc, hpc, hm⟩ := h.owned e hin
            exact ⟨pc, by rw [alFind_cons_ne _ _ _ _ (hother e hin)]; exact hpc, hm⟩
          · refine ⟨{ active := act }, ?_, hm⟩
            rw [hpeerOf e.2 hc]
            simp [alFind]
        · intro e he
          exact h.dialPeer e (mem_of_mem_take peer _ e (hrest ▸ he))
        · exact h.cancelSub

end Litep2pVerif.ReqResp
