import Litep2pVerif.Proofs.ReqResp.Established
import Litep2pVerif.Proofs.ReqResp.Frame
/-!
Consequences of the ledger invariant, and the cancel lemmas.
-/
namespace Litep2pVerif.ReqResp

theorem Inv.terminals_le_one {s : State} (h : Inv s) (r : Rid) : terminals s.log r ≤ 1 := by
  have := h.ledger r; have := h.issuedLe r; omega

/-- Every handler preserves the ledger invariant. -/
theorem inv_step (s : State) (i : Input) (h : Inv s) (ha : Allowed s i) : Inv (step s i) := by
  cases i with
  | send peer request opts dialAns openAns =>
    exact inv_send s peer request opts dialAns openAns h (fun sid hs => (ha sid hs).1)
  | cancel rid => exact inv_cancel s rid h
  | connectionEstablished peer openAns => exact inv_connectionEstablished s peer openAns h
  | connectionClosed peer => exact inv_connectionClosed s peer h
  | dialFailure peer => exact inv_dialFailure s peer h
  | outboundSubstream peer sid fb => exact inv_outboundSubstream s peer sid fb h
  | substreamOpenFailure sid error => exact inv_substreamOpenFailure s sid error h
  | inboundSubstream peer => exact inv_inboundSubstream s peer h
  | futureDone f res => exact inv_substreamEvent s f res h ha.1 ha.2.1
  | inboundRead f request => exact inv_inboundRead s f request h
  | responseDone f => exact inv_responseDone s f h
  | responderWrites sid response =>
    exact h.congr (fun _ => rfl) rfl (fun _ => rfl) (fun _ => rfl) rfl (fun _ hr => hr) rfl rfl rfl
      (Nat.le_refl _)
  | clogged =>
    exact h.congr (fun _ => rfl) rfl (fun _ => rfl) (fun _ => rfl) rfl (fun _ hr => hr) rfl rfl rfl
      (Nat.le_succ _)

theorem reach_inv (m : Option Nat) (s : State) (h : Reach m s) : Inv s := by
  induction h with
  | init => exact Inv.init m
  | step i _ _ ha ih => exact inv_step _ i ih ha

/-- Every request registered as active is waited for by a pending substream or a request future. -/
def Owned (s : State) : Prop :=
  ∀ e ∈ s.peers, ∀ r ∈ e.2.active, 1 ≤ outCount s r + futCount s r

theorem alSum_zero_of_nil_active (l : List (Peer × PeerCtx)) (r : Rid)
    (h : ∀ e ∈ l, r ∉ e.2.active) : alSum (fun pc => pc.active.count r) l = 0 := by
  induction l with
  | nil => rfl
  | cons e rest ih =>
    simp only [alSum_cons]
    have h1 : e.2.active.count r = 0 := List.count_eq_zero.mpr (h e (List.mem_cons_self ..))
    have h2 := ih (fun e' he' => h e' (List.mem_cons_of_mem _ he'))
    omega

theorem quiescent_active_zero (s : State) (hq : Quiescent s) (ho : Owned s) (r : Rid) :
    activeCount s r = 0 := by
  apply alSum_zero_of_nil_active
  intro e he hm
  have := ho e he r hm
  obtain ⟨_, h2, h3⟩ := hq
  simp [outCount, futCount, h2, h3] at this

theorem cancel_noop (s : State) (rid : Rid) (h : rid ∉ s.pendingCancels) : onCancelRequest s rid = s := by
  simp [onCancelRequest, h]

theorem cancel_effective (s : State) (rid : Rid) (h : rid ∈ s.pendingCancels) :
    onCancelRequest s rid =
      { s with pendingCancels := s.pendingCancels.erase rid, cancelSent := s.cancelSent ++ [rid] } := by
  simp [onCancelRequest, h]

theorem canceled_no_event (s : State) (f : Fut) :
    (onSubstreamEvent s f (.error .canceled)).log = s.log := by
  simp only [onSubstreamEvent]
  repeat' split
  all_goals rfl

end Litep2pVerif.ReqResp
