import Litep2pVerif.Proofs.Notif.Shape
/-! The invariant behind the user-channel grammar theorems of C11. -/
namespace Litep2pVerif.Notif

/-- Two systems agree on what the grammar invariant looks at. -/
def Sim (a b : PeerSys) : Prop := a.tasks = b.tasks ∧ grammar a.log = grammar b.log ∧ a.slot = b.slot

theorem sim_applyOut {a b : PeerSys} (h : Sim a b) (o : Out) : Sim (applyOut a o) (applyOut b o) := by
  obtain ⟨ht, hg, hs⟩ := h
  cases o <;> simp_all [applyOut, Sim, grammar_append, gstep]
  all_goals (cases grammar b.log <;> simp [gstep]) 
  all_goals (rename_i x; cases x <;> rfl)

theorem sim_irrelevant (a : PeerSys) (o : Out) (h : relevant o = false) : Sim (applyOut a o) a := by
  cases o <;> simp_all [applyOut, Sim, grammar_append, relevant, gstep]
  all_goals (cases grammar a.log <;> simp [gstep])
  all_goals (rename_i x; cases x <;> rfl)

theorem sim_fold (outs : List Out) : ∀ (a b : PeerSys), Sim a b →
    Sim (outs.foldl applyOut a) ((outs.filter relevant).foldl applyOut b) := by
  induction outs with
  | nil => intro a b h; simpa using h
  | cons o rest ih =>
    intro a b h
    by_cases hr : relevant o = true
    · simp only [List.foldl_cons, List.filter_cons, hr, if_true]
      exact ih _ _ (sim_applyOut h o)
    · have hr' : relevant o = false := by simpa using hr
      simp only [List.foldl_cons, List.filter_cons, hr', Bool.false_eq_true, if_false]
      refine ih _ _ ?_
      obtain ⟨h1, h2, h3⟩ := sim_irrelevant a o hr'
      exact ⟨h1.trans h.1, h2.trans h.2.1, h3.trans h.2.2⟩

theorem shape_opn (t : Tid) (r : Res) (nt : Tid) (h : shapeOk (some (.opn t)) r nt = true) :
    (r.1 = some (.opn t) ∧ r.2.filter relevant = []) ∨
    (isOpn r.1 = false ∧ r.2.filter relevant = [.shutdown t]) := by
  simp only [shapeOk, Bool.or_eq_true, Bool.and_eq_true, beq_iff_eq, Bool.not_eq_true'] at h
  exact h

theorem shape_nonopn (slot : Slot) (r : Res) (nt : Tid) (hs : isOpn slot = false)
    (h : shapeOk slot r nt = true) :
    (isOpn r.1 = false ∧ (r.2.filter relevant = [] ∨ ∃ e, r.2.filter relevant = [.fail e])) ∨
    (∃ pi po d hs, r.1 = some (.opn nt) ∧ r.2.filter relevant = [.spawn nt pi po, .opened d hs nt]) := by
  have key : shapeRest r nt = true := by
    rcases slot with _ | st
    · exact h
    · cases st <;> first | exact h | (simp [isOpn] at hs)
  simp only [shapeRest] at key
  generalize r.2.filter relevant = g at key
  rcases Bool.or_eq_true _ _ |>.mp key with h1 | h2
  · left
    simp only [Bool.and_eq_true, Bool.not_eq_true'] at h1
    refine ⟨h1.1, ?_⟩
    have h2 := h1.2
    split at h2
    · exact .inl rfl
    · exact .inr ⟨_, rfl⟩
    · simp at h2
  · right
    split at h2
    · simp at h2
      obtain ⟨⟨rfl, rfl⟩, rfl⟩ := h2
      exact ⟨_, _, _, _, by assumption, rfl⟩
    · simp at h2


structure Inv1 (s : PeerSys) : Prop where
  g : grammar s.log = some (!s.tasks.isEmpty)
  len : s.tasks.length ≤ 1
  run : ∀ k ∈ s.tasks, k.phase = .running → k.signalled = false → s.slot = some (.opn k.id)
  /-- a task whose oneshot has fired belongs to a stream the protocol has already left -/
  sig : ∀ k ∈ s.tasks, k.signalled = true → isOpn s.slot = false

theorem Inv1.of_sim {a b : PeerSys} (h : Sim a b) (hb : Inv1 b) : Inv1 a := by
  obtain ⟨h1, h2, h3⟩ := h
  exact ⟨by rw [h2, h1]; exact hb.g, by rw [h1]; exact hb.len, by rw [h1, h3]; exact hb.run,
    by rw [h1, h3]; exact hb.sig⟩

theorem grammar_request (l : List UEv) : grammar (l ++ [.request]) = grammar l := by
  rw [grammar_append]; cases grammar l <;> simp [gstep]

theorem runHandler_sim (s : PeerSys) (ev : Ev) :
    Sim (runHandler s ev)
      (((handle s.slot ev).2.filter relevant).foldl applyOut { s with slot := (handle s.slot ev).1 }) := by
  unfold runHandler
  simp only []
  apply sim_fold
  split
  · exact ⟨rfl, grammar_request _, rfl⟩
  · exact ⟨rfl, rfl, rfl⟩

theorem inv_cases {s : PeerSys} (h : Inv1 s) (hb : Busy s = false) :
    s.tasks = [] ∨ ∃ k, s.tasks = [k] ∧ s.slot = some (.opn k.id) := by
  rcases hs : s.tasks with _ | ⟨k, rest⟩
  · exact .inl rfl
  · right
    have hl := h.len; rw [hs] at hl
    have : rest = [] := by cases rest <;> simp_all
    subst this
    refine ⟨k, rfl, h.run k (by simp [hs]) ?_ ?_⟩
    · simp [Busy, hs] at hb; exact hb.1
    · simp [Busy, hs] at hb; exact hb.2

theorem calm_of_not_busy {s : PeerSys} (hb : Busy s = false) :
    ∀ k ∈ s.tasks, k.phase = .running ∧ k.signalled = false := by
  intro k hk
  simp only [Busy, List.any_eq_false] at hb
  have := hb k hk
  simp only [Bool.or_eq_true, not_or, ne_eq, decide_eq_true_eq, Bool.not_eq_true,
    Decidable.not_not] at this
  simpa using this

theorem handler_inv {s : PeerSys} (ev : Ev) (h : Inv1 s) (hb : Busy s = false) : Inv1 (runHandler s ev) := by
  refine Inv1.of_sim (runHandler_sim s ev) ?_
  have sh := shape s.slot ev
  generalize hr : handle s.slot ev = r at sh
  by_cases ho : isOpn s.slot = true
  · -- the slot is `Open t`
    obtain ⟨t, hst⟩ : ∃ t, s.slot = some (.opn t) := by
      rcases hsl : s.slot with _ | st
      · simp [hsl, isOpn] at ho
      · cases st <;> simp_all [isOpn]
    rw [hst] at sh
    rcases shape_opn t r _ sh with ⟨h1, h2⟩ | ⟨h1, h2⟩
    · rw [h2]; simp only [List.foldl_nil]
      refine ⟨h.g, h.len, fun k hk a b => by rw [h1, ← hst]; exact h.run k hk a b, ?_⟩
      intro k hk hsig
      have := calm_of_not_busy hb k hk
      rw [this.2] at hsig; cases hsig
    · rw [h2]; simp only [List.foldl_cons, List.foldl_nil, applyOut]
      refine ⟨?_, ?_, ?_, fun _ _ _ => h1⟩
      · simp only [signalTask]; rw [h.g]; cases s.tasks <;> simp
      · simp only [signalTask, List.length_map]; exact h.len
      · intro k hk hp hsig
        simp only [signalTask, List.mem_map] at hk
        obtain ⟨k0, hk0, rfl⟩ := hk
        have : s.slot = some (.opn k0.id) := by
          rcases inv_cases h hb with h0 | ⟨kk, hk1, hk2⟩
          · simp [h0] at hk0
          · rw [hk1] at hk0; simp at hk0; subst hk0; exact hk2
        rw [hst] at this; injection this with this; injection this with this
        simp [this] at hsig
  · have ho' : isOpn s.slot = false := by simpa using ho
    have ht : s.tasks = [] := by
      rcases inv_cases h hb with h0 | ⟨k, _, hk2⟩
      · exact h0
      · simp [hk2, isOpn] at ho'
    rcases shape_nonopn s.slot r _ ho' sh with ⟨h1, h2 | ⟨e, h2⟩⟩ | ⟨pi, po, d, hs', h1, h2⟩
    · rw [h2]; simp only [List.foldl_nil]
      exact ⟨h.g, h.len, fun k hk => by simp [ht] at hk, fun k hk => by simp [ht] at hk⟩
    · rw [h2]; simp only [List.foldl_cons, List.foldl_nil, applyOut]
      refine ⟨?_, h.len, fun k hk => by simp [ht] at hk, fun k hk => by simp [ht] at hk⟩
      simp only []; rw [grammar_append, h.g, ht]; rfl
    · rw [h2]; simp only [List.foldl_cons, List.foldl_nil, applyOut, ht, List.nil_append]
      refine ⟨?_, by simp, ?_, ?_⟩
      · simp only [List.find?_cons, decide_true, List.isEmpty_cons, Bool.not_false]
        rw [grammar_append, h.g, ht]; rfl
      · intro k hk _ _
        simp at hk; subst hk; exact h1
      · intro k hk hsig
        simp at hk; subst hk; cases hsig

theorem Inv1.congr {a b : PeerSys} (h1 : a.slot = b.slot) (h2 : a.tasks = b.tasks) (h3 : a.log = b.log)
    (h : Inv1 a) : Inv1 b :=
  ⟨by rw [← h3, ← h2]; exact h.g, by rw [← h2]; exact h.len, by rw [← h2, ← h1]; exact h.run,
    by rw [← h2, ← h1]; exact h.sig⟩

theorem notice_shape (slot : Slot) :
    isOpn (handle slot .notice).1 = false ∧
    ((handle slot .notice).2.filter relevant = [] ∨ ∃ t, (handle slot .notice).2.filter relevant = [.shutdown t]) := by
  rcases slot with _ | st
  · simp [handle, onShutdownNotice, isOpn]
  · cases st <;> first
      | (simp [handle, onShutdownNotice, isOpn, relevant]; done)
      | exact ⟨by simp [handle, onShutdownNotice, isOpn],
          .inr ⟨_, by simp [handle, onShutdownNotice, relevant]; rfl⟩⟩

theorem busy_signal (t : Tid) (ts : List Task) (h : ∀ k ∈ ts, ¬(k.phase = .running ∧ k.signalled = false)) :
    ∀ k ∈ signalTask t ts, ¬(k.phase = .running ∧ k.signalled = false) := by
  intro k hk
  simp only [signalTask, List.mem_map] at hk
  obtain ⟨k0, hk0, rfl⟩ := hk
  have := h k0 hk0
  split <;> simp_all

theorem notice_inv {s : PeerSys} (h : Inv1 s) (hb : Busy s = true) : Inv1 (runHandler s .notice) := by
  refine Inv1.of_sim (runHandler_sim s .notice) ?_
  have allBusy : ∀ k ∈ s.tasks, ¬(k.phase = .running ∧ k.signalled = false) := by
    have hl := h.len
    rcases hs : s.tasks with _ | ⟨k, rest⟩
    · simp [Busy, hs] at hb
    · rw [hs] at hl
      have : rest = [] := by cases rest <;> simp_all
      subst this
      intro k' hk'
      simp at hk'; subst hk'
      simp [Busy, hs] at hb
      intro ⟨h1, h2⟩
      rcases hb with hb | hb
      · exact hb h1
      · simp [h2] at hb
  obtain ⟨hn, h2 | ⟨t, h2⟩⟩ := notice_shape s.slot
  · rw [h2]; simp only [List.foldl_nil]
    exact ⟨h.g, h.len, fun k hk a b => absurd ⟨a, b⟩ (allBusy k hk), fun _ _ _ => hn⟩
  · rw [h2]; simp only [List.foldl_cons, List.foldl_nil, applyOut]
    refine ⟨?_, ?_, ?_, fun _ _ _ => hn⟩
    · simp only [signalTask]; rw [h.g]; cases s.tasks <;> simp
    · simp only [signalTask, List.length_map]; exact h.len
    · intro k hk a b
      exact absurd ⟨a, b⟩ (busy_signal t s.tasks allBusy k hk)

theorem setPhase_inv {s : PeerSys} (t : Tid) (ph : TaskPhase) (hph : ph ≠ .running) (n : Nat) (h : Inv1 s) :
    Inv1 { s with tasks := setPhase t ph s.tasks, notices := n } := by
  refine ⟨?_, ?_, ?_, ?_⟩
  · simp only [setPhase]; rw [h.g]; cases s.tasks <;> simp
  · simp only [setPhase, List.length_map]; exact h.len
  · intro k hk hp hsig
    simp only [setPhase, List.mem_map] at hk
    obtain ⟨k0, hk0, rfl⟩ := hk
    by_cases hid : k0.id = t
    · simp [hid] at hp; exact absurd hp hph
    · simp [hid] at hp hsig ⊢
      exact h.run k0 hk0 hp hsig
  · intro k hk hsig
    simp only [setPhase, List.mem_map] at hk
    obtain ⟨k0, hk0, rfl⟩ := hk
    refine h.sig k0 hk0 ?_
    by_cases hid : k0.id = t <;> simpa [hid] using hsig

theorem report_inv {s : PeerSys} (t : Tid) (h : Inv1 s) (he : enabled s (.taskReport t) = true) :
    Inv1 { s with tasks := s.tasks.filter (·.id ≠ t), log := s.log ++ [.closed] } := by
  have hl := h.len
  simp only [enabled, hasTask, List.any_eq_true] at he
  obtain ⟨k, hk, hk2⟩ := he
  rcases hs : s.tasks with _ | ⟨k1, rest⟩
  · simp [hs] at hk
  · rw [hs] at hl
    have : rest = [] := by cases rest <;> simp_all
    subst this
    rw [hs] at hk; simp at hk; subst hk
    have hid : k.id = t := by simp at hk2; exact hk2.1
    refine ⟨?_, by simp [hid], by simp [hid], by simp [hid]⟩
    simp only []
    rw [grammar_append, h.g, hs]; simp [hid, gstep]

theorem handler_inv' {s s1 : PeerSys} (ev : Ev) (h : Inv1 s) (hb : Busy s = false)
    (e1 : s1.slot = s.slot) (e2 : s1.tasks = s.tasks) (e3 : s1.log = s.log) : Inv1 (runHandler s1 ev) :=
  handler_inv ev (Inv1.congr e1.symm e2.symm e3.symm h) (by unfold Busy; rw [e2]; exact hb)

theorem post_inv {r : PeerSys} (a : Act) (h : Inv1 r) : Inv1 (post r a) := by
  cases a <;> first | exact h | exact Inv1.congr (a := r) rfl rfl rfl h

theorem evOf_same {s s1 : PeerSys} {a : Act} {ev : Ev} (h : evOf s a = some (s1, ev)) :
    s1.slot = s.slot ∧ s1.tasks = s.tasks ∧ s1.log = s.log := by
  cases a <;> simp only [evOf, Option.some.injEq, Prod.mk.injEq, reduceCtorEq] at h
  case hsNegotiated d hs auto t =>
    cases d
    · rcases hi : s.hsIn with _ | ⟨p, b⟩
      · rw [hi] at h; simp at h
      · rw [hi] at h; simp at h; obtain ⟨rfl, -⟩ := h; exact ⟨rfl, rfl, rfl⟩
    · rcases ho : s.hsOut with _ | p
      · rw [ho] at h; simp at h
      · rw [ho] at h; simp at h; obtain ⟨rfl, -⟩ := h; exact ⟨rfl, rfl, rfl⟩
  all_goals (obtain ⟨rfl, -⟩ := h; exact ⟨rfl, rfl, rfl⟩)

/-- A task that has been signalled but not polled since: the protocol goes on, reporting neither `opened` nor
an open failure. -/
theorem linger_inv {s : PeerSys} (ev : Ev) (h : Inv1 s) (hb : Busy s = true) (hc : InClose s = false)
    (hq : quietOuts (handle s.slot ev).2 = true) : Inv1 (runHandler s ev) := by
  refine Inv1.of_sim (runHandler_sim s ev) ?_
  have sh := shape s.slot ev
  generalize hr : handle s.slot ev = r at sh hq
  obtain ⟨k, hk, hsig⟩ : ∃ k ∈ s.tasks, k.signalled = true := by
    simp only [Busy, List.any_eq_true] at hb
    obtain ⟨k, hk, hk2⟩ := hb
    refine ⟨k, hk, ?_⟩
    simp only [InClose, List.any_eq_false] at hc
    have := hc k hk
    simp only [ne_eq, decide_eq_true_eq, Decidable.not_not] at this
    simpa [this] using hk2
  have hts : s.tasks = [k] := by
    have hl := h.len
    rcases hs : s.tasks with _ | ⟨k1, rest⟩
    · simp [hs] at hk
    · rw [hs] at hl hk
      have : rest = [] := by cases rest <;> simp_all
      subst this
      simp at hk; subst hk; rfl
  have ho : isOpn s.slot = false := h.sig k hk hsig
  have hall := List.all_eq_true.mp hq
  rcases shape_nonopn s.slot r _ ho sh with ⟨h1, h2 | ⟨e, h2⟩⟩ | ⟨pi, po, d, hs', h1, h2⟩
  · rw [h2]; simp only [List.foldl_nil]
    refine ⟨h.g, h.len, ?_, fun _ _ _ => h1⟩
    intro k' hk' _ hns
    rw [hts] at hk'; simp at hk'; subst hk'; rw [hsig] at hns; cases hns
  · exfalso
    have hm : Out.fail e ∈ r.2.filter relevant := by rw [h2]; simp
    have := hall _ (List.mem_filter.mp hm).1
    simp at this
  · exfalso
    have hm : Out.opened d hs' (evTask ev) ∈ r.2.filter relevant := by rw [h2]; simp
    have := hall _ (List.mem_filter.mp hm).1
    simp at this

theorem linger_step {s : PeerSys} (a : Act) (h : Inv1 s) (hb : Busy s = true) (hc : InClose s = false)
    (hq : quietAct s a = true) (hnt : a.isTask = false) : Inv1 (step s a) := by
  rcases hev : evOf s a with _ | ⟨s1, ev⟩
  · have : step s a = s := by
      simp only [step, hev]
      cases a <;> simp [Act.isTask] at hnt <;> rfl
    rw [this]; exact h
  · obtain ⟨e1, e2, e3⟩ := evOf_same hev
    have hst : step s a = post (runHandler s1 ev) a := by simp only [step, hev]
    rw [hst]
    apply post_inv
    refine linger_inv ev (Inv1.congr e1.symm e2.symm e3.symm h) (by unfold Busy; rw [e2]; exact hb)
      (by unfold InClose; rw [e2]; exact hc) ?_
    simpa only [quietAct, outsOf, hev] using hq

theorem inv_step {s : PeerSys} (a : Act) (h : Inv1 s) (he : enabled s a = true) (hp : prompt s a = true) :
    Inv1 (step s a) := by
  by_cases hbusy : (InClose s || decide (s.notices > 0)) = true
  · -- only task steps and the notice
    simp only [prompt, hbusy, if_true] at hp
    cases a <;> simp [Act.isTask] at hp
    case notice =>
      simp only [step, evOf]
      apply post_inv
      by_cases hb : Busy s = true
      · exact notice_inv (s := { s with notices := s.notices - 1 }) (Inv1.congr (a := s) rfl rfl rfl h) hb
      · exact handler_inv' _ h (by simpa using hb) rfl rfl rfl
    case taskSeesSignal t => exact setPhase_inv t _ (by simp) s.notices h
    case taskSeesClose t => exact setPhase_inv t _ (by simp) s.notices h
    case taskNotice t => exact setPhase_inv t _ (by simp) _ h
    case taskReport t => exact report_inv t h he
  · by_cases hb : Busy s = true
    · -- a signalled task has not been polled yet
      have hc : InClose s = false := by
        simp only [Bool.or_eq_true, not_or, Bool.not_eq_true] at hbusy; exact hbusy.1
      simp only [prompt, hbusy, hb, if_true] at hp
      by_cases ht : a.isTask = true
      · cases a <;> simp [Act.isTask] at ht
        case taskSeesSignal t => exact setPhase_inv t _ (by simp) s.notices h
        case taskSeesClose t => exact setPhase_inv t _ (by simp) s.notices h
        case taskNotice t => exact setPhase_inv t _ (by simp) _ h
        case taskReport t => exact report_inv t h he
      · have ht' : a.isTask = false := by simpa using ht
        rw [ht'] at hp
        exact linger_step a h hb hc (by simpa using hp) ht'
    · have hb : Busy s = false := by simpa using hb
      cases a
      case taskSeesSignal t => exact setPhase_inv t _ (by simp) s.notices h
      case taskSeesClose t => exact setPhase_inv t _ (by simp) s.notices h
      case taskNotice t => exact setPhase_inv t _ (by simp) _ h
      case taskReport t => exact report_inv t h he
      case hsNegotiated d hs auto t =>
        simp only [step, evOf]
        cases d
        · rcases hi : s.hsIn with _ | ⟨p, b⟩
          · simp [taskStep]; exact h
          · simp only [Option.map_some]; exact post_inv _ (handler_inv' _ h hb rfl rfl rfl)
        · rcases ho : s.hsOut with _ | p
          · simp [taskStep]; exact h
          · simp only [Option.map_some]; exact post_inv _ (handler_inv' _ h hb rfl rfl rfl)
      all_goals
        simp only [step, evOf]
        exact post_inv _ (handler_inv' _ h hb rfl rfl rfl)

theorem inv_reach {s : PeerSys} (h : ReachP s) : Inv1 s := by
  induction h with
  | init => exact ⟨rfl, by simp, by intro k hk; simp at hk, by intro k hk; simp at hk⟩
  | step a _ he hp _ ih => exact inv_step a ih he hp

end Litep2pVerif.Notif
