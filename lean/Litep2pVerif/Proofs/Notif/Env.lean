import Litep2pVerif.Proofs.Notif.Shape
/-!
Helper lemmas for C11, part 2: what every handler does to each environment component (pending ids,
requested ids, handshake entries, validation futures, the user-channel ledgers), as pure statements about
`handle slot ev` proved by the full (state, event) case split; `Proofs/Notif/Inv2.lean` lifts them to the
transition system.
-/
namespace Litep2pVerif.Notif

-- ------------------------------------------------------------------ views of the slot

/-- The slot says the peer is connected. -/
def slotConn : Slot → Bool
  | none | some .dialing | some (.valPending .clo) => false
  | _ => true

/-- The outbound substream request the slot is waiting for. -/
def slotSid : Slot → Option Sid
  | some (.closed (some s)) | some (.outInit s) | some (.validating (.init s) _ _) => some s
  | _ => none

def outNeg : Slot → Bool
  | some (.validating .neg _ _) => true
  | _ => false

/-- The inbound handshake entry the slot expects: reading (`false`) or sending (`true`). -/
def inbEntry : Slot → Option Bool
  | some (.validating _ .reading _) => some false
  | some (.validating _ .sending _) => some true
  | _ => none

def slotVal : Slot → Option Pipe
  | some (.validating _ (.validating p) _) => some p
  | _ => none

/-- The slots a peer can be in while one of its connection tasks is closing. -/
def idle : Slot → Bool
  | none | some (.closed none) | some (.opn _) => true
  | _ => false

def isValidating : Slot → Bool
  | some (.validating ..) => true
  | _ => false

/-- Both substreams open is not a resting state (the stream is reported at once), and the inbound handshake
is sent only when an outbound substream exists or has been requested. -/
def slotWf : Slot → Bool
  | some (.validating (.opn ..) (.opn _) _) => false
  | some (.validating .closed .sending _) | some (.validating .closed (.opn _) _) => false
  | _ => true

def owes (slot : Slot) : Bool := owed slot == 1

/-- The inbound substream that has been accepted in the current negotiation round. -/
def accOf (slot : Slot) (hsIn : Option (Pipe × Bool)) : Option Pipe :=
  match slot with
  | some (.validating _ .sending _) => hsIn.map (·.1)
  | some (.validating _ (.opn p) _) => some p
  | _ => none

/-- The `pending_outbound` ids of the peer — equally the requests the transport still has to answer — as the
slot determines them. `live`: the id kept in `Closed{pending_open}` is still being opened (it is dead, and
forgotten by `pending_outbound`, after a `SubstreamOpenFailure` in `Validating{OutboundInitiated}`). -/
def isClosedSome : Slot → Bool
  | some (.closed (some _)) => true
  | _ => false

def pendOf (slot : Slot) (live : Bool) : List Sid :=
  if isClosedSome slot && !live then [] else (slotSid slot).toList

/-- Is the id of a `Closed{pending_open}` the handler leaves behind still being opened? -/
def liveAfter (slot : Slot) (ev : Ev) (live : Bool) : Bool :=
  if isValidating slot then (match ev with | .openFailure .. => false | _ => true) else live

/-- What the guards of the transition system and the invariant guarantee about the state a handler is
called in. -/
def Pre (slot : Slot) (live : Bool) : Ev → Bool
  | .connEst _ => !slotConn slot
  | .connClosed => slotConn slot
  | .outbound sid _ ok => pendOf slot live == [sid] && ok
  | .inbound _ => slotConn slot
  | .openFailure sid f => pendOf slot live == [sid] && f
  | .hsNegotiated .outbound _ _ _ _ => outNeg slot
  | .hsNegotiated .inbound _ _ _ _ => (inbEntry slot).isSome
  | .hsError => isValidating slot
  | .notice => idle slot
  | .cmdOpen _ _ ph _ => ph == (isClosedSome slot && live)
  | _ => true

-- ------------------------------------------------------------------ the effect of an output list on one component

def pendF (l : List Sid) : Out → List Sid
  | .pendIns sid => if sid ∈ l then l else l ++ [sid]
  | .pendRm sid => l.filter (· ≠ sid)
  | .pendRetain => []
  | _ => l

def reqF (l : List Sid) : Out → List Sid
  | .callOpen sid => l ++ [sid]
  | _ => l

def hsOutF (h : Option Pipe) : Out → Option Pipe
  | .negOut p => some p
  | .rmOut => none
  | _ => h

def hsInF (h : Option (Pipe × Bool)) : Out → Option (Pipe × Bool)
  | .readHs p => some (p, false)
  | .sendHs p => some (p, true)
  | .rmIn => none
  | _ => h

def valF (l : List Pipe) : Out → List Pipe
  | .validation p => l ++ [p]
  | _ => l

def dialF (b : Bool) : Out → Bool
  | .callDial => true
  | _ => b

/-- tasks and log -/
def tlF (x : List Task × List UEv) : Out → List Task × List UEv
  | .opened d hs t =>
    (x.1, x.2 ++ [.opened d hs t (match x.1.find? (·.id = t) with | some k => k.inPipe | none => 0)])
  | .fail e => (x.1, x.2 ++ [.fail e])
  | .validate hs p => (x.1, x.2 ++ [.validate hs p])
  | .spawn t pi po => (x.1 ++ [{ id := t, inPipe := pi, outPipe := po }], x.2)
  | .shutdown t => (signalTask t x.1, x.2)
  | .bug => (x.1, x.2 ++ [.bug])
  | .accepted p => (x.1, x.2 ++ [.accepted p])
  | .autoAccepted p => (x.1, x.2 ++ [.autoAccepted p])
  | .rejected p => (x.1, x.2 ++ [.rejected p])
  | _ => x

theorem fold_slot (outs : List Out) : ∀ s : PeerSys, (outs.foldl applyOut s).slot = s.slot := by
  induction outs with
  | nil => intro s; rfl
  | cons o r ih => intro s; rw [List.foldl_cons, ih]; cases o <;> rfl

theorem fold_connected (outs : List Out) : ∀ s : PeerSys, (outs.foldl applyOut s).connected = s.connected := by
  induction outs with
  | nil => intro s; rfl
  | cons o r ih => intro s; rw [List.foldl_cons, ih]; cases o <;> rfl

theorem fold_notices (outs : List Out) : ∀ s : PeerSys, (outs.foldl applyOut s).notices = s.notices := by
  induction outs with
  | nil => intro s; rfl
  | cons o r ih => intro s; rw [List.foldl_cons, ih]; cases o <;> rfl

theorem fold_pending (outs : List Out) : ∀ s : PeerSys, (outs.foldl applyOut s).pending = outs.foldl pendF s.pending := by
  induction outs with
  | nil => intro s; rfl
  | cons o r ih => intro s; rw [List.foldl_cons, List.foldl_cons, ih]; cases o <;> rfl

theorem fold_requested (outs : List Out) : ∀ s : PeerSys, (outs.foldl applyOut s).requested = outs.foldl reqF s.requested := by
  induction outs with
  | nil => intro s; rfl
  | cons o r ih => intro s; rw [List.foldl_cons, List.foldl_cons, ih]; cases o <;> rfl

theorem fold_hsOut (outs : List Out) : ∀ s : PeerSys, (outs.foldl applyOut s).hsOut = outs.foldl hsOutF s.hsOut := by
  induction outs with
  | nil => intro s; rfl
  | cons o r ih => intro s; rw [List.foldl_cons, List.foldl_cons, ih]; cases o <;> rfl

theorem fold_hsIn (outs : List Out) : ∀ s : PeerSys, (outs.foldl applyOut s).hsIn = outs.foldl hsInF s.hsIn := by
  induction outs with
  | nil => intro s; rfl
  | cons o r ih => intro s; rw [List.foldl_cons, List.foldl_cons, ih]; cases o <;> rfl

theorem fold_validations (outs : List Out) :
    ∀ s : PeerSys, (outs.foldl applyOut s).validations = outs.foldl valF s.validations := by
  induction outs with
  | nil => intro s; rfl
  | cons o r ih => intro s; rw [List.foldl_cons, List.foldl_cons, ih]; cases o <;> rfl

theorem fold_dialing (outs : List Out) : ∀ s : PeerSys, (outs.foldl applyOut s).dialing = outs.foldl dialF s.dialing := by
  induction outs with
  | nil => intro s; rfl
  | cons o r ih => intro s; rw [List.foldl_cons, List.foldl_cons, ih]; cases o <;> rfl

theorem fold_tl (outs : List Out) : ∀ s : PeerSys,
    ((outs.foldl applyOut s).tasks, (outs.foldl applyOut s).log) = outs.foldl tlF (s.tasks, s.log) := by
  induction outs with
  | nil => intro s; rfl
  | cons o r ih => intro s; rw [List.foldl_cons, List.foldl_cons, ih]; cases o <;> rfl

/-- The log only grows: the new entries do not depend on the old ones. -/
theorem tl_append (outs : List Out) : ∀ (ts : List Task) (lg : List UEv),
    outs.foldl tlF (ts, lg) = ((outs.foldl tlF (ts, [])).1, lg ++ (outs.foldl tlF (ts, [])).2) := by
  induction outs with
  | nil => intro ts lg; simp
  | cons o r ih =>
    intro ts lg
    rw [List.foldl_cons, List.foldl_cons]
    cases o <;> simp only [tlF, List.nil_append] <;> first
      | exact ih _ _
      | (rw [ih ts (lg ++ _), ih ts [_]]; simp [List.append_assoc])

/-- The user events a handler's outputs append to the log (`ts`: the connection tasks before). -/
def newEvs (ts : List Task) (outs : List Out) : List UEv := (outs.foldl tlF (ts, [])).2

-- ------------------------------------------------------------------ the two ledgers kept on the user channel

/-- Request/answer ledger: `some b` = every `request` marker so far was followed by exactly one answer
(`opened` or open failure) before the next marker — or by the user's own Reject of the peer's inbound
substream, which ends the negotiation silently (mod.rs, `ValidationResult::Reject`) —, no answer came without a
marker, and an answer is outstanding iff `b`. -/
def lstep (st : Option Bool) (e : UEv) : Option Bool :=
  match st, e with
  | some false, .request => some true
  | some true, .request => none
  | some true, .opened .. => some false
  | some true, .fail _ => some false
  | some false, .opened .. => none
  | some false, .fail _ => none
  | some _, .rejected _ => some false
  | st, _ => st

def lfold (log : List UEv) : Option Bool := log.foldl lstep (some false)

/-- Acceptance ledger: `some c` = every `opened` so far was preceded, within its negotiation round (no other
`opened` and no open failure in between), by the marker `accepted p`/`autoAccepted p` of exactly its inbound
substream `p`; `c` = the substream accepted in the current round, if any. -/
def astep (st : Option (Option Pipe)) (e : UEv) : Option (Option Pipe) :=
  match st, e with
  | some _, .accepted p => some (some p)
  | some _, .autoAccepted p => some (some p)
  | some (some q), .opened _ _ _ ip => if ip = q then some none else none
  | some none, .opened .. => none
  | some _, .fail _ => some none
  | some _, .rejected _ => some none
  | st, _ => st

def afold (log : List UEv) : Option (Option Pipe) := log.foldl astep (some none)

/-- `runHandler` logs a `request` marker. -/
def takesUp (slot : Slot) (r : Res) : Bool :=
  (!owes slot && owes r.1) ||
  (!owes slot && !owes r.1 && r.2.any fun o => match o with | .opened .. => true | .fail _ => true | _ => false)

-- ------------------------------------------------------------------ the case split

set_option hygiene false in
/-- Split into all (state, event) pairs and compute the handler. -/
macro "handler_cases" : tactic => `(tactic| (
  rcases slot with _ | (_ | c | pend | _ | s | ⟨out, inb, dir⟩ | t)
  all_goals (try cases out)
  all_goals (try cases inb)
  all_goals (try cases pend)
  all_goals (try cases c)
  all_goals cases ev
  all_goals (try (rename Dir => d; cases d))
  all_goals simp only [handle, onConnEstablished, onConnClosed, onOutboundSubstream, onInboundSubstream,
      onSubstreamOpenFailure, onOpenSubstream, onCloseSubstream, onValidationResult, onHsNegotiated,
      onHsError, onDialFailure, onShutdownNotice, onTimer, hsFinal, PState.dropped, OutSt.pendingOpen]
  all_goals (repeat' split)))

def connAfter (b : Bool) : Ev → Bool
  | .connEst _ => true
  | .connClosed => false
  | _ => b

set_option maxHeartbeats 4000000 in
theorem conn_pure (slot : Slot) (ev : Ev) (live : Bool) (h : Pre slot live ev = true) :
    slotConn (handle slot ev).1 = connAfter (slotConn slot) ev := by
  revert h
  cases live
  all_goals handler_cases
  all_goals simp_all [Pre, pendOf, isClosedSome, slotConn, connAfter, slotSid, outNeg, inbEntry, isValidating, idle]

set_option maxHeartbeats 4000000 in
theorem bug_pure (slot : Slot) (ev : Ev) (live : Bool) (h : Pre slot live ev = true) : Out.bug ∉ (handle slot ev).2 := by
  revert h
  cases live
  all_goals handler_cases
  all_goals simp_all [Pre, pendOf, isClosedSome, slotConn, slotSid, outNeg, inbEntry, isValidating, idle]

/-- The requested ids before the handler runs (the transport's answer removes the id it answers). -/
def reqBefore (slot : Slot) (live : Bool) : Ev → List Sid
  | .outbound .. | .openFailure .. | .connClosed => []
  | _ => pendOf slot live

set_option maxHeartbeats 4000000 in
theorem req_pure (slot : Slot) (ev : Ev) (live : Bool) (h : Pre slot live ev = true) :
    (handle slot ev).2.foldl reqF (reqBefore slot live ev) = pendOf (handle slot ev).1 (liveAfter slot ev live) := by
  revert h
  cases live
  all_goals handler_cases
  all_goals simp_all [Pre, slotConn, slotSid, outNeg, inbEntry, isValidating, idle, reqF, reqBefore, pendOf, isClosedSome, liveAfter]

set_option maxHeartbeats 4000000 in
theorem pend_pure (slot : Slot) (ev : Ev) (live : Bool) (h : Pre slot live ev = true) :
    (handle slot ev).2.foldl pendF (pendOf slot live) = pendOf (handle slot ev).1 (liveAfter slot ev live) := by
  revert h
  cases live
  all_goals handler_cases
  all_goals simp_all [Pre, slotConn, slotSid, outNeg, inbEntry, isValidating, idle, pendF, pendOf, isClosedSome, liveAfter]

set_option maxHeartbeats 4000000 in
theorem hsOut_pure (slot : Slot) (ev : Ev) (live : Bool) (h : Pre slot live ev = true) (v : Option Pipe)
    (hv : v.isSome = outNeg slot) : ((handle slot ev).2.foldl hsOutF v).isSome = outNeg (handle slot ev).1 := by
  revert h hv
  cases live
  all_goals handler_cases
  all_goals simp_all [Pre, pendOf, isClosedSome, slotConn, slotSid, outNeg, inbEntry, isValidating, idle, hsOutF]

set_option maxHeartbeats 4000000 in
theorem hsIn_pure (slot : Slot) (ev : Ev) (live : Bool) (h : Pre slot live ev = true) (v : Option (Pipe × Bool))
    (hv : v.map (·.2) = inbEntry slot) :
    ((handle slot ev).2.foldl hsInF v).map (·.2) = inbEntry (handle slot ev).1 := by
  revert h hv
  cases live
  all_goals handler_cases
  all_goals simp_all [Pre, pendOf, isClosedSome, slotConn, slotSid, outNeg, inbEntry, isValidating, idle, hsInF]

set_option maxHeartbeats 4000000 in
theorem val_pure (slot : Slot) (ev : Ev) (live : Bool) (h : Pre slot live ev = true) (v : List Pipe)
    (hv : ∀ q, slotVal slot = some q → q ∈ v) :
    ∀ q, slotVal (handle slot ev).1 = some q → q ∈ (handle slot ev).2.foldl valF v := by
  revert h hv
  cases live
  all_goals handler_cases
  all_goals simp_all [Pre, pendOf, isClosedSome, slotConn, slotSid, outNeg, inbEntry, isValidating, idle, valF, slotVal]

/-- After a validation answer the slot is not waiting for one. -/
theorem val_answer (slot : Slot) (a : Bool) (r : Option Sid) : slotVal (handle slot (.validation a r)).1 = none := by
  generalize hev : Ev.validation a r = ev
  revert hev
  handler_cases
  all_goals simp_all [slotVal]

set_option maxHeartbeats 4000000 in
theorem wf_pure (slot : Slot) (ev : Ev) (live : Bool) (h : Pre slot live ev = true) (hw : slotWf slot = true) :
    slotWf (handle slot ev).1 = true := by
  revert h hw
  cases live
  all_goals handler_cases
  all_goals simp_all [Pre, pendOf, isClosedSome, slotConn, slotSid, outNeg, inbEntry, isValidating, idle, slotWf]

set_option maxHeartbeats 4000000 in
/-- A handler that fires (or drops) a shutdown oneshot leaves the peer without a negotiation. -/
theorem idle_pure (slot : Slot) (ev : Ev) (live : Bool) (h : Pre slot live ev = true) (t : Tid)
    (ht : Out.shutdown t ∈ (handle slot ev).2) : idle (handle slot ev).1 = true := by
  revert h ht
  cases live
  all_goals handler_cases
  all_goals simp_all [Pre, pendOf, isClosedSome, slotConn, slotSid, outNeg, inbEntry, isValidating, idle]

theorem idle_notice (slot : Slot) (h : idle slot = true) : idle (handle slot .notice).1 = true := by
  rcases slot with _ | st
  · rfl
  · cases st <;> simp_all [idle, handle, onShutdownNotice]

set_option maxHeartbeats 4000000 in
/-- Every handler keeps the request/answer ledger: it answers exactly when it owes an answer and stops
owing it, or when it takes a request up and answers it at once. -/
theorem ledger_pure (slot : Slot) (ev : Ev) (live : Bool) (h : Pre slot live ev = true) (ts : List Task) :
    (newEvs ts (handle slot ev).2).foldl lstep
      (if takesUp slot (handle slot ev) = true then lstep (some (owes slot)) .request else some (owes slot))
    = some (owes (handle slot ev).1) := by
  revert h
  cases live
  all_goals handler_cases
  all_goals simp_all [Pre, pendOf, isClosedSome, slotConn, slotSid, outNeg, inbEntry, isValidating, idle, newEvs, tlF, lstep, takesUp,
    owes, owed]

/-- The pipe a handshake-negotiated event for the inbound substream carries. -/
def evPipe : Ev → Option Pipe
  | .hsNegotiated .inbound _ p _ _ => some p
  | _ => none

set_option maxHeartbeats 4000000 in
/-- Every handler keeps the acceptance ledger. -/
theorem acc_pure (slot : Slot) (ev : Ev) (live : Bool) (h : Pre slot live ev = true) (hw : slotWf slot = true) (ts : List Task)
    (hts : isValidating slot = true → ts = []) (v : Option (Pipe × Bool)) (hv : v.map (·.2) = inbEntry slot)
    (hp : ∀ p, evPipe ev = some p → v.map (·.1) = some p) :
    (newEvs ts (handle slot ev).2).foldl astep (some (accOf slot v))
      = some (accOf (handle slot ev).1 ((handle slot ev).2.foldl hsInF v)) := by
  revert h hw hts hv hp
  cases live
  all_goals handler_cases
  all_goals simp_all [Pre, pendOf, isClosedSome, slotConn, slotSid, outNeg, inbEntry, isValidating, idle, newEvs, tlF, astep, accOf,
    slotWf, hsInF, evPipe]

set_option maxHeartbeats 4000000 in
/-- The marker `accepted q` is produced only by the handler of an Accept answer, for the inbound substream
under validation. -/
theorem accepted_pure (slot : Slot) (ev : Ev) (q : Pipe) (h : Out.accepted q ∈ (handle slot ev).2) :
    slotVal slot = some q ∧ ∃ r, ev = .validation true r := by
  revert h
  handler_cases
  all_goals simp_all [slotVal]

set_option maxHeartbeats 4000000 in
/-- The marker `autoAccepted q` is produced only when the handshake of inbound substream `q` has been read,
auto-accept is configured and the user has itself asked for a stream to that peer. -/
theorem auto_pure (slot : Slot) (ev : Ev) (q : Pipe) (h : Out.autoAccepted q ∈ (handle slot ev).2) :
    inbEntry slot = some false ∧ owes slot = true ∧ ∃ hs t, ev = .hsNegotiated .inbound hs q true t := by
  revert h
  handler_cases
  all_goals simp_all [inbEntry, owes, owed]

end Litep2pVerif.Notif
