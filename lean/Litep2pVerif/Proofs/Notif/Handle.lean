import Litep2pVerif.Model.Notif.Handle
/-! Lemmas about the handle's batch commands (Model/Notif/Handle.lean). -/
namespace Litep2pVerif.NotifHandle
open Litep2pVerif.Notif

theorem dedup_aux (l acc : List Nat) :
    (∀ p, p ∈ l.foldl (fun acc p => if acc.contains p then acc else acc ++ [p]) acc ↔ p ∈ acc ∨ p ∈ l) ∧
    (acc.Nodup → (l.foldl (fun acc p => if acc.contains p then acc else acc ++ [p]) acc).Nodup) := by
  induction l generalizing acc with
  | nil => simp
  | cons x xs ih =>
    simp only [List.foldl_cons]
    by_cases hx : acc.contains x = true
    · simp only [hx, if_true]
      have hxa : x ∈ acc := by simpa using hx
      refine ⟨fun p => ?_, (ih acc).2⟩
      rw [(ih acc).1 p]
      grind
    · simp only [hx, Bool.false_eq_true, if_false]
      have hxn : x ∉ acc := by simpa using hx
      refine ⟨fun p => ?_, fun hn => (ih (acc ++ [x])).2 ?_⟩
      · rw [(ih (acc ++ [x])).1 p]
        grind
      · grind

theorem mem_dedup (l : List Nat) (p : Nat) : p ∈ dedup l ↔ p ∈ l := by
  have := (dedup_aux l []).1 p
  simpa [dedup] using this

theorem nodup_dedup (l : List Nat) : (dedup l).Nodup := (dedup_aux l []).2 List.nodup_nil

theorem mem_toAdd (view peers : List Nat) (p : Nat) : p ∈ toAdd view peers ↔ p ∈ peers ∧ p ∉ view := by
  simp [toAdd, mem_dedup]

theorem mem_toIgnore (view peers : List Nat) (p : Nat) : p ∈ toIgnore view peers ↔ p ∈ peers ∧ p ∈ view := by
  simp [toIgnore, mem_dedup]

theorem getP_setP_same (ms : Multi) (p : Nat) (s : PeerSys) : getP (setP ms p s) p = s := by
  simp [getP, setP, List.lookup]

theorem lookup_filter_ne (ms : Multi) (p q : Nat) (h : q ≠ p) :
    (ms.filter (·.1 ≠ p)).lookup q = ms.lookup q := by
  induction ms with
  | nil => rfl
  | cons x xs ih =>
    obtain ⟨a, b⟩ := x
    by_cases ha : a = p
    · subst ha
      have hq : (q == a) = false := by simpa using h
      simp only [List.filter, ne_eq, not_true_eq_false, decide_false, List.lookup, hq]
      exact ih
    · by_cases hq : q = a
      · subst hq
        simp [List.filter, List.lookup, ha]
      · have hq' : (q == a) = false := by simpa using hq
        simp only [List.filter, ne_eq, ha, not_false_eq_true, decide_true, List.lookup, hq']
        exact ih

theorem getP_setP_other (ms : Multi) (p q : Nat) (s : PeerSys) (h : q ≠ p) : getP (setP ms p s) q = getP ms q := by
  have hb : (q == p) = false := by simpa using h
  simp only [getP, setP, List.lookup, hb]
  rw [lookup_filter_ne ms p q h]

theorem batchOpen_other (order : List (Nat × OpenArgs)) : ∀ (ms : Multi) (q : Nat),
    q ∉ order.map (·.1) → getP (batchOpen ms order) q = getP ms q := by
  induction order with
  | nil => intro ms q _; rfl
  | cons x xs ih =>
    intro ms q hq
    obtain ⟨p, a⟩ := x
    simp only [List.map_cons, List.mem_cons, not_or] at hq
    simp only [batchOpen]
    rw [ih _ q hq.2, getP_setP_other _ _ _ _ hq.1]

theorem batchOpen_each (order : List (Nat × OpenArgs)) : ∀ (ms : Multi) (p : Nat) (a : OpenArgs),
    (order.map (·.1)).Nodup → (p, a) ∈ order → getP (batchOpen ms order) p = step (getP ms p) a.act := by
  induction order with
  | nil => intro ms p a _ h; cases h
  | cons x xs ih =>
    intro ms p a hn hm
    obtain ⟨p0, a0⟩ := x
    simp only [List.map_cons, List.nodup_cons] at hn
    simp only [batchOpen]
    rcases List.mem_cons.1 hm with h | h
    · cases h
      rw [batchOpen_other xs _ p hn.1, getP_setP_same]
    · have hne : p ≠ p0 := by
        intro e
        subst e
        exact hn.1 (List.mem_map.2 ⟨(p, a), h, rfl⟩)
      rw [ih _ p a hn.2 h, getP_setP_other _ _ _ _ hne]

theorem batchClose_other (order : List Nat) : ∀ (ms : Multi) (q : Nat),
    q ∉ order → getP (batchClose ms order) q = getP ms q := by
  induction order with
  | nil => intro ms q _; rfl
  | cons p xs ih =>
    intro ms q hq
    simp only [List.mem_cons, not_or] at hq
    simp only [batchClose]
    rw [ih _ q hq.2, getP_setP_other _ _ _ _ hq.1]

theorem batchClose_each (order : List Nat) : ∀ (ms : Multi) (p : Nat),
    order.Nodup → p ∈ order → getP (batchClose ms order) p = step (getP ms p) .cmdClose := by
  induction order with
  | nil => intro ms p _ h; cases h
  | cons p0 xs ih =>
    intro ms p hn hm
    simp only [List.nodup_cons] at hn
    simp only [batchClose]
    rcases List.mem_cons.1 hm with h | h
    · subst h
      rw [batchClose_other xs _ p hn.1, getP_setP_same]
    · have hne : p ≠ p0 := fun e => hn.1 (e ▸ h)
      rw [ih _ p hn.2 h, getP_setP_other _ _ _ _ hne]

/-- A batch keeps every peer's world inside the restricted system as long as each single command does. -/
theorem batchOpen_reachP (order : List (Nat × OpenArgs)) (ms : Multi) (hn : (order.map (·.1)).Nodup)
    (hr : ∀ p, ReachP (getP ms p))
    (he : ∀ x ∈ order, enabled (getP ms x.1) x.2.act = true ∧ prompt (getP ms x.1) x.2.act = true) :
    ∀ p, ReachP (getP (batchOpen ms order) p) := by
  intro p
  by_cases hp : p ∈ order.map (·.1)
  · obtain ⟨⟨p', a⟩, hm, rfl⟩ := List.mem_map.1 hp
    rw [batchOpen_each order ms p' a hn hm]
    exact .step _ (hr p') (he _ hm).1 (he _ hm).2 rfl
  · rw [batchOpen_other order ms p hp]
    exact hr p

end Litep2pVerif.NotifHandle
