import Litep2pVerif.Proofs.Notif.Env
import Litep2pVerif.Proofs.Notif.Inv
/-!
The consistency invariant of the restricted transition system of C11: the per-peer slot determines the
connected flag, the pending and requested substream ids and the handshake entries; the validation future of
the substream under validation exists; while a shutdown notice of a connection task is due the peer has no
negotiation (a task that was merely signalled and not polled yet puts no constraint on the slot); no
`bug` output was produced; and the two ledgers kept on the user channel (request/answer, acceptance/opened)
are in the state the slot says.
-/
namespace Litep2pVerif.Notif

/-- Is the id kept in `Closed{pending_open}` still tracked in `pending_outbound`? -/
def liveFn (slot : Slot) (pd : List Sid) : Bool :=
  match slot with
  | some (.closed (some x)) => pd.contains x
  | _ => true

def liveOf (s : PeerSys) : Bool := liveFn s.slot s.pending

theorem pendOf_fix (slot : Slot) (l : Bool) : pendOf slot (liveFn slot (pendOf slot l)) = pendOf slot l := by
  rcases slot with _ | st
  · rfl
  · cases st <;> try rfl
    rename_i pend
    cases pend <;> cases l <;> simp [pendOf, liveFn, isClosedSome, slotSid]

theorem pendOf_mem {slot : Slot} {l : Bool} {x : Sid} (h : x ∈ pendOf slot l) : pendOf slot l = [x] := by
  unfold pendOf at h ⊢
  split at h
  · simp at h
  · rename_i hc
    rw [if_neg hc]
    rcases hs : slotSid slot with _ | y
    · rw [hs] at h; simp at h
    · rw [hs] at h; simp at h; simp [h]

/-- A shutdown notice is on its way to the protocol: a task is inside `close_connection` with
`NotifyProtocol::Yes` and has not sent it yet, or one is in the channel. -/
def NoticeDue (s : PeerSys) : Bool :=
  s.tasks.any (fun k => k.phase = .closing true) || decide (s.notices > 0)

structure Inv2 (s : PeerSys) : Prop where
  i1 : Inv1 s
  c : s.connected = slotConn s.slot
  rq : s.requested = pendOf s.slot (liveOf s)
  pd : s.pending = pendOf s.slot (liveOf s)
  ho : s.hsOut.isSome = outNeg s.slot
  hi : s.hsIn.map (·.2) = inbEntry s.slot
  vl : ∀ q, slotVal s.slot = some q → q ∈ s.validations
  wf : slotWf s.slot = true
  bz : NoticeDue s = true → idle s.slot = true
  nb : UEv.bug ∉ s.log
  lg : lfold s.log = some (owes s.slot)
  ac : afold s.log = some (accOf s.slot s.hsIn)

-- ------------------------------------------------------------------ runHandler, field by field

theorem owed_cases (slot : Slot) : owed slot = 0 ∨ owed slot = 1 := by
  rcases slot with _ | st
  · exact .inl rfl
  · cases st <;> simp only [owed] <;> (try split) <;> simp

theorem takesUp_iff (slot : Slot) (r : Res) :
    takesUp slot r = true ↔
      ((owed slot = 0 ∧ owed r.1 = 1) ∨
       (owed slot = 0 ∧ owed r.1 = 0 ∧
        (r.2.any fun o => match o with | .opened .. => true | .fail _ => true | _ => false) = true)) := by
  rcases owed_cases slot with h1 | h1 <;> rcases owed_cases r.1 with h2 | h2 <;>
    simp only [takesUp, owes, h1, h2] <;> simp <;> exact Iff.rfl

theorem runHandler_eq (s : PeerSys) (ev : Ev) :
    runHandler s ev = (handle s.slot ev).2.foldl applyOut
      { s with slot := (handle s.slot ev).1,
               log := if takesUp s.slot (handle s.slot ev) = true then s.log ++ [.request] else s.log } := by
  have key := takesUp_iff s.slot (handle s.slot ev)
  unfold runHandler
  simp only []
  split
  · rename_i hc
    have h : takesUp s.slot (handle s.slot ev) = true := key.mpr hc
    simp only [h, if_true]
  · rename_i hc
    have h : ¬ takesUp s.slot (handle s.slot ev) = true := fun x => hc (key.mp x)
    simp only [h]
    rfl

theorem rh_slot (s : PeerSys) (ev : Ev) : (runHandler s ev).slot = (handle s.slot ev).1 := by
  rw [runHandler_eq, fold_slot]

theorem rh_connected (s : PeerSys) (ev : Ev) : (runHandler s ev).connected = s.connected := by
  rw [runHandler_eq, fold_connected]

theorem rh_notices (s : PeerSys) (ev : Ev) : (runHandler s ev).notices = s.notices := by
  rw [runHandler_eq, fold_notices]

theorem rh_pending (s : PeerSys) (ev : Ev) :
    (runHandler s ev).pending = (handle s.slot ev).2.foldl pendF s.pending := by
  rw [runHandler_eq, fold_pending]

theorem rh_requested (s : PeerSys) (ev : Ev) :
    (runHandler s ev).requested = (handle s.slot ev).2.foldl reqF s.requested := by
  rw [runHandler_eq, fold_requested]

theorem rh_hsOut (s : PeerSys) (ev : Ev) :
    (runHandler s ev).hsOut = (handle s.slot ev).2.foldl hsOutF s.hsOut := by
  rw [runHandler_eq, fold_hsOut]

theorem rh_hsIn (s : PeerSys) (ev : Ev) :
    (runHandler s ev).hsIn = (handle s.slot ev).2.foldl hsInF s.hsIn := by
  rw [runHandler_eq, fold_hsIn]

theorem rh_validations (s : PeerSys) (ev : Ev) :
    (runHandler s ev).validations = (handle s.slot ev).2.foldl valF s.validations := by
  rw [runHandler_eq, fold_validations]

theorem rh_tasks (s : PeerSys) (ev : Ev) (lg : List UEv) :
    (runHandler s ev).tasks = ((handle s.slot ev).2.foldl tlF (s.tasks, lg)).1 := by
  rw [runHandler_eq]
  have := congrArg Prod.fst (fold_tl (handle s.slot ev).2
    { s with slot := (handle s.slot ev).1,
             log := if takesUp s.slot (handle s.slot ev) = true then s.log ++ [.request] else s.log })
  simp only [] at this
  rw [this, tl_append, tl_append _ _ lg]

theorem rh_log (s : PeerSys) (ev : Ev) :
    (runHandler s ev).log =
      (if takesUp s.slot (handle s.slot ev) = true then s.log ++ [.request] else s.log) ++
        newEvs s.tasks (handle s.slot ev).2 := by
  rw [runHandler_eq]
  have := congrArg Prod.snd (fold_tl (handle s.slot ev).2
    { s with slot := (handle s.slot ev).1,
             log := if takesUp s.slot (handle s.slot ev) = true then s.log ++ [.request] else s.log })
  simp only [] at this
  rw [this, tl_append]
  rfl

-- ------------------------------------------------------------------ tasks and log of an output list

theorem calm_fold (outs : List Out) : ∀ (ts : List Task) (lg : List UEv),
    (∀ k ∈ ts, k.phase = .running ∧ k.signalled = false) → (∀ t, Out.shutdown t ∉ outs) →
    ∀ k ∈ (outs.foldl tlF (ts, lg)).1, k.phase = .running ∧ k.signalled = false := by
  induction outs with
  | nil => intro ts lg h _; exact h
  | cons o r ih =>
    intro ts lg h hn
    rw [List.foldl_cons]
    have hr : ∀ t, Out.shutdown t ∉ r := fun t ht => hn t (List.mem_cons_of_mem _ ht)
    cases o
    case shutdown t => exact absurd List.mem_cons_self (hn t)
    case spawn t pi po =>
      refine ih _ _ ?_ hr
      intro k hk
      simp only [List.mem_append, List.mem_singleton] at hk
      rcases hk with hk | rfl
      · exact h k hk
      · exact ⟨rfl, rfl⟩
    all_goals exact ih _ _ h hr

theorem bug_fold (outs : List Out) : ∀ (ts : List Task) (lg : List UEv),
    UEv.bug ∈ (outs.foldl tlF (ts, lg)).2 → UEv.bug ∈ lg ∨ Out.bug ∈ outs := by
  induction outs with
  | nil => intro ts lg h; exact .inl h
  | cons o r ih =>
    intro ts lg h
    rw [List.foldl_cons] at h
    rcases ih _ _ h with h1 | h1
    · cases o <;> simp_all [tlF]
    · exact .inr (List.mem_cons_of_mem _ h1)

theorem lfold_append (a b : List UEv) : lfold (a ++ b) = b.foldl lstep (lfold a) := by
  simp [lfold, List.foldl_append]

theorem afold_append (a b : List UEv) : afold (a ++ b) = b.foldl astep (afold a) := by
  simp [afold, List.foldl_append]

-- ------------------------------------------------------------------ one handler step

def isConnClosed : Ev → Bool
  | .connClosed => true
  | _ => false

def isValidation : Ev → Bool
  | .validation .. => true
  | _ => false

def isNotice : Ev → Bool
  | .notice => true
  | _ => false

/-- What the bookkeeping before the handler (`evOf`) leaves alone. -/
structure Before (s s1 : PeerSys) (ev : Ev) : Prop where
  slot : s1.slot = s.slot
  tasks : s1.tasks = s.tasks
  log : s1.log = s.log
  pending : s1.pending = s.pending
  hsOut : s1.hsOut = s.hsOut
  hsIn : s1.hsIn = s.hsIn
  connected : s1.connected = s.connected
  notices : s1.notices ≤ s.notices
  requested : isConnClosed ev = false → s1.requested = reqBefore s.slot (liveOf s) ev
  validations : isValidation ev = false → s1.validations = s.validations

/-- What the bookkeeping after the handler (`post`) does. -/
structure After (r s2 : PeerSys) (ev : Ev) : Prop where
  slot : s2.slot = r.slot
  tasks : s2.tasks = r.tasks
  log : s2.log = r.log
  pending : s2.pending = r.pending
  hsOut : s2.hsOut = r.hsOut
  hsIn : s2.hsIn = r.hsIn
  notices : s2.notices = r.notices
  validations : s2.validations = r.validations
  connected : s2.connected = connAfter r.connected ev
  requested : s2.requested = if isConnClosed ev = true then [] else r.requested

theorem slotSid_connClosed (slot : Slot) : slotSid (handle slot .connClosed).1 = none := by
  rcases slot with _ | st
  · rfl
  · cases st <;> simp only [handle, onConnClosed, slotSid]
    rename_i out inb dir
    cases out <;> cases inb <;> rfl

theorem not_validating_of_idle {slot : Slot} (h : idle slot = true) : isValidating slot = false := by
  rcases slot with _ | st
  · rfl
  · cases st <;> simp_all [idle, isValidating]

theorem pendOf_connClosed (slot : Slot) (l : Bool) : pendOf (handle slot .connClosed).1 l = [] := by
  simp [pendOf, slotSid_connClosed]

/-- Handler outputs never move a task out of `running`. -/
theorem run_fold (outs : List Out) : ∀ (ts : List Task) (lg : List UEv),
    (∀ k ∈ ts, k.phase = .running) → ∀ k ∈ (outs.foldl tlF (ts, lg)).1, k.phase = .running := by
  induction outs with
  | nil => intro ts lg h; exact h
  | cons o r ih =>
    intro ts lg h
    rw [List.foldl_cons]
    cases o
    case shutdown t =>
      refine ih _ _ ?_
      intro k hk
      simp only [signalTask, List.mem_map] at hk
      obtain ⟨k0, hk0, rfl⟩ := hk
      have := h k0 hk0
      split <;> simpa using this
    case spawn t pi po =>
      refine ih _ _ ?_
      intro k hk
      simp only [List.mem_append, List.mem_singleton] at hk
      rcases hk with hk | rfl
      · exact h k hk
      · rfl
    all_goals exact ih _ _ h

/-- Without an `opened` among the outputs the new user events do not depend on the tasks. -/
theorem tl_quiet (outs : List Out) : ∀ (ts ts' : List Task) (lg : List UEv), quietOuts outs = true →
    (outs.foldl tlF (ts, lg)).2 = (outs.foldl tlF (ts', lg)).2 := by
  induction outs with
  | nil => intro ts ts' lg _; rfl
  | cons o r ih =>
    intro ts ts' lg hq
    simp only [quietOuts, List.all_cons, Bool.and_eq_true] at hq
    have hr : quietOuts r = true := hq.2
    rw [List.foldl_cons, List.foldl_cons]
    cases o
    case opened d hs t => simp at hq
    all_goals exact ih _ _ _ hr

theorem newEvs_quiet (outs : List Out) (hq : quietOuts outs = true) (ts ts' : List Task) :
    newEvs ts outs = newEvs ts' outs := tl_quiet outs ts ts' [] hq

theorem handler_inv2 {s s1 s2 : PeerSys} {ev : Ev} (h : Inv2 s) (hi1 : Inv1 s2)
    (hpre : Pre s.slot (liveOf s) ev = true)
    (hbz : (InClose s || decide (s.notices > 0)) = true → isNotice ev = true)
    (hq : (isValidating s.slot = true → s.tasks = []) ∨ quietOuts (handle s.slot ev).2 = true)
    (hpipe : ∀ p, evPipe ev = some p → s.hsIn.map (·.1) = some p)
    (B : Before s s1 ev) (A : After (runHandler s1 ev) s2 ev) : Inv2 s2 := by
  have hslot : s2.slot = (handle s.slot ev).1 := by rw [A.slot, rh_slot, B.slot]
  have hlog : s2.log = (if takesUp s.slot (handle s.slot ev) = true then s.log ++ [.request] else s.log) ++
      newEvs s.tasks (handle s.slot ev).2 := by
    rw [A.log, rh_log, B.slot, B.log, B.tasks]
  have hpend : s2.pending = pendOf s2.slot (liveAfter s.slot ev (liveOf s)) := by
    rw [A.pending, rh_pending, B.slot, B.pending, h.pd, hslot, pend_pure _ _ _ hpre]
  have hlive : pendOf s2.slot (liveOf s2) = pendOf s2.slot (liveAfter s.slot ev (liveOf s)) := by
    have : liveOf s2 = liveFn s2.slot (pendOf s2.slot (liveAfter s.slot ev (liveOf s))) := by
      show liveFn s2.slot s2.pending = _
      rw [← hpend]
    rw [this, pendOf_fix]
  refine ⟨hi1, ?_, ?_, ?_, ?_, ?_, ?_, ?_, ?_, ?_, ?_, ?_⟩
  · -- connected
    rw [A.connected, rh_connected, B.connected, h.c, hslot, conn_pure _ _ _ hpre]
  · -- requested
    rw [hlive, A.requested, hslot]
    by_cases hc : isConnClosed ev = true
    · rw [if_pos hc]
      have : ev = .connClosed := by cases ev <;> simp_all [isConnClosed]
      subst this
      rw [pendOf_connClosed]
    · rw [if_neg hc, rh_requested, B.slot, B.requested (by simpa using hc), req_pure _ _ _ hpre]
  · -- pending
    rw [hlive]; exact hpend
  · -- hsOut
    rw [A.hsOut, rh_hsOut, B.slot, B.hsOut, hslot]
    exact hsOut_pure _ _ _ hpre _ h.ho
  · -- hsIn
    rw [A.hsIn, rh_hsIn, B.slot, B.hsIn, hslot]
    exact hsIn_pure _ _ _ hpre _ h.hi
  · -- validations
    rw [A.validations, rh_validations, B.slot, hslot]
    by_cases hv : isValidation ev = true
    · obtain ⟨a, r, rfl⟩ : ∃ a r, ev = .validation a r := by
        cases ev <;> simp_all [isValidation]
      intro q hq
      rw [val_answer] at hq; cases hq
    · rw [B.validations (by simpa using hv)]
      exact val_pure _ _ _ hpre _ h.vl
  · -- well-formed
    rw [hslot]; exact wf_pure _ _ _ hpre h.wf
  · -- a notice is due
    intro hb2
    rw [hslot]
    by_cases hn : isNotice ev = true
    · have : ev = .notice := by cases ev <;> simp_all [isNotice]
      subst this
      exact idle_notice _ (by simpa [Pre] using hpre)
    · -- not the notice: no task was inside `close_connection` and the channel was empty; still so afterwards
      exfalso
      have hb : ¬ (InClose s || decide (s.notices > 0)) = true := fun hc => hn (hbz hc)
      simp only [Bool.or_eq_true, not_or, Bool.not_eq_true, decide_eq_true_eq] at hb
      have hn2 : s2.notices = 0 := by
        have := B.notices
        rw [A.notices, rh_notices]; omega
      have hrun : ∀ k ∈ s.tasks, k.phase = .running := by
        intro k hk
        have := hb.1
        simp only [InClose, List.any_eq_false] at this
        simpa using this k hk
      have hrun2 := run_fold (handle s.slot ev).2 s.tasks [] hrun
      have ht2 : s2.tasks = ((handle s.slot ev).2.foldl tlF (s.tasks, [])).1 := by
        rw [A.tasks, rh_tasks _ _ [], B.slot, B.tasks]
      rw [← ht2] at hrun2
      simp only [NoticeDue, Bool.or_eq_true, List.any_eq_true, decide_eq_true_eq] at hb2
      rcases hb2 with ⟨k, hk, hk2⟩ | hb2
      · rw [hrun2 k hk] at hk2; cases hk2
      · omega
  · -- no bug
    rw [hlog]
    intro hbug
    rw [List.mem_append] at hbug
    rcases hbug with hbug | hbug
    · split at hbug
      · rw [List.mem_append] at hbug
        rcases hbug with hbug | hbug
        · exact h.nb hbug
        · simp at hbug
      · exact h.nb hbug
    · rcases bug_fold _ _ _ hbug with h1 | h1
      · simp at h1
      · exact bug_pure _ _ _ hpre h1
  · -- request/answer ledger
    rw [hlog, lfold_append, hslot, ← ledger_pure _ _ _ hpre s.tasks]
    congr 1
    split
    · rw [lfold_append, h.lg]; rfl
    · exact h.lg
  · -- acceptance ledger
    rcases hq with hvt | hq
    · rw [hlog, afold_append, hslot, A.hsIn, rh_hsIn, B.slot, B.hsIn,
        ← acc_pure _ _ _ hpre h.wf s.tasks hvt s.hsIn h.hi hpipe]
      congr 1
      split
      · rw [afold_append, h.ac]; rfl
      · exact h.ac
    · rw [hlog, newEvs_quiet _ hq s.tasks [], afold_append, hslot, A.hsIn, rh_hsIn, B.slot, B.hsIn,
        ← acc_pure _ _ _ hpre h.wf [] (fun _ => rfl) s.hsIn h.hi hpipe]
      congr 1
      split
      · rw [afold_append, h.ac]; rfl
      · exact h.ac

-- ------------------------------------------------------------------ all steps

theorem pre_of {s s1 : PeerSys} {ev : Ev} {a : Act} (h : Inv2 s) (he : enabled s a = true)
    (hev : evOf s a = some (s1, ev)) : Pre s.slot (liveOf s) ev = true := by
  have hc := h.c
  have hrq := h.rq
  have hpd := h.pd
  have hho := h.ho
  have hhi := h.hi
  have hbz := h.bz
  cases a <;> simp only [evOf, Option.some.injEq, Prod.mk.injEq, reduceCtorEq] at hev
  case connEst ok sid => obtain ⟨-, rfl⟩ := hev; simp_all [Pre, enabled]
  case connClosed => obtain ⟨-, rfl⟩ := hev; simp_all [Pre, enabled]
  case dialFailure => obtain ⟨-, rfl⟩ := hev; rfl
  case subOpened sid pipe =>
    obtain ⟨-, rfl⟩ := hev
    simp only [enabled, Bool.and_eq_true, List.contains_iff_mem] at he
    rw [hrq] at he
    have := pendOf_mem he.2
    simp [Pre, this, hpd]
  case subFailed sid =>
    obtain ⟨-, rfl⟩ := hev
    simp only [enabled, Bool.and_eq_true, List.contains_iff_mem] at he
    rw [hrq] at he
    have := pendOf_mem he.2
    simp [Pre, this, hpd]
  case subInbound pipe => obtain ⟨-, rfl⟩ := hev; simp_all [Pre, enabled]
  case hsNegotiated d hs auto t =>
    cases d
    · rcases hin : s.hsIn with _ | ⟨p, b⟩
      · rw [hin] at hev; simp at hev
      · rw [hin] at hev hhi; simp at hev
        obtain ⟨-, rfl⟩ := hev
        simp only [Pre]; rw [← hhi]; rfl
    · rcases hout : s.hsOut with _ | p
      · rw [hout] at hev; simp at hev
      · rw [hout] at hev hho; simp at hev
        obtain ⟨-, rfl⟩ := hev
        simp only [Pre]; rw [← hho]; rfl
  case hsError d =>
    obtain ⟨-, rfl⟩ := hev
    simp only [Pre]
    rcases hsl : s.slot with _ | st
    · rw [hsl] at hho hhi; cases d <;> simp_all [enabled, outNeg, inbEntry]
    · rw [hsl] at hho hhi
      cases st <;> first | rfl | (cases d <;> simp_all [enabled, outNeg, inbEntry])
  case notice =>
    obtain ⟨-, rfl⟩ := hev
    simp only [Pre]
    apply hbz
    simp only [enabled, decide_eq_true_eq] at he
    simp [NoticeDue, he]
  case timer => obtain ⟨-, rfl⟩ := hev; rfl
  case validation p acc ok sid => obtain ⟨-, rfl⟩ := hev; rfl
  case cmdOpen sd dk ok sid =>
    obtain ⟨-, rfl⟩ := hev
    simp only [Pre, liveOf, liveFn]
    rcases hsl : s.slot with _ | st
    · rfl
    · cases st <;> try rfl
      rename_i pend
      cases pend <;> simp [isClosedSome]
  case cmdClose => obtain ⟨-, rfl⟩ := hev; rfl

theorem before_of {s s1 : PeerSys} {ev : Ev} {a : Act} (h : Inv2 s) (he : enabled s a = true)
    (hev : evOf s a = some (s1, ev)) : Before s s1 ev := by
  have hrq := h.rq
  cases a <;> simp only [evOf, Option.some.injEq, Prod.mk.injEq, reduceCtorEq] at hev
  case subOpened sid pipe =>
    obtain ⟨rfl, rfl⟩ := hev
    refine ⟨rfl, rfl, rfl, rfl, rfl, rfl, rfl, Nat.le_refl _, fun _ => ?_, fun _ => rfl⟩
    simp only [enabled, Bool.and_eq_true, List.contains_iff_mem] at he
    simp only [reqBefore]
    rw [hrq] at he ⊢
    rw [pendOf_mem he.2]; simp
  case subFailed sid =>
    obtain ⟨rfl, rfl⟩ := hev
    refine ⟨rfl, rfl, rfl, rfl, rfl, rfl, rfl, Nat.le_refl _, fun _ => ?_, fun _ => rfl⟩
    simp only [enabled, Bool.and_eq_true, List.contains_iff_mem] at he
    simp only [reqBefore]
    rw [hrq] at he ⊢
    rw [pendOf_mem he.2]; simp
  case hsNegotiated d hs auto t =>
    cases d
    · rcases hin : s.hsIn with _ | ⟨p, b⟩
      · rw [hin] at hev; simp at hev
      · rw [hin] at hev; simp at hev
        obtain ⟨rfl, rfl⟩ := hev
        exact ⟨rfl, rfl, rfl, rfl, rfl, rfl, rfl, Nat.le_refl _, fun _ => hrq, fun _ => rfl⟩
    · rcases hout : s.hsOut with _ | p
      · rw [hout] at hev; simp at hev
      · rw [hout] at hev; simp at hev
        obtain ⟨rfl, rfl⟩ := hev
        exact ⟨rfl, rfl, rfl, rfl, rfl, rfl, rfl, Nat.le_refl _, fun _ => hrq, fun _ => rfl⟩
  case notice =>
    obtain ⟨rfl, rfl⟩ := hev
    exact ⟨rfl, rfl, rfl, rfl, rfl, rfl, rfl, Nat.sub_le _ _, fun _ => hrq, fun _ => rfl⟩
  case validation p acc ok sid =>
    obtain ⟨rfl, rfl⟩ := hev
    exact ⟨rfl, rfl, rfl, rfl, rfl, rfl, rfl, Nat.le_refl _, fun _ => hrq, fun hv => by simp [isValidation] at hv⟩
  case connClosed =>
    obtain ⟨rfl, rfl⟩ := hev
    exact ⟨rfl, rfl, rfl, rfl, rfl, rfl, rfl, Nat.le_refl _, fun hc => by simp [isConnClosed] at hc, fun _ => rfl⟩
  all_goals
    obtain ⟨rfl, rfl⟩ := hev
    exact ⟨rfl, rfl, rfl, rfl, rfl, rfl, rfl, Nat.le_refl _, fun _ => hrq, fun _ => rfl⟩

theorem after_of {s s1 : PeerSys} {ev : Ev} {a : Act} (r : PeerSys) (hev : evOf s a = some (s1, ev)) :
    After r (post r a) ev := by
  cases a <;> simp only [evOf, Option.some.injEq, Prod.mk.injEq, reduceCtorEq] at hev
  case hsNegotiated d hs auto t =>
    cases d
    · rcases hin : s.hsIn with _ | ⟨p, b⟩
      · rw [hin] at hev; simp at hev
      · rw [hin] at hev; simp at hev
        obtain ⟨-, rfl⟩ := hev
        exact ⟨rfl, rfl, rfl, rfl, rfl, rfl, rfl, rfl, rfl, rfl⟩
    · rcases hout : s.hsOut with _ | p
      · rw [hout] at hev; simp at hev
      · rw [hout] at hev; simp at hev
        obtain ⟨-, rfl⟩ := hev
        exact ⟨rfl, rfl, rfl, rfl, rfl, rfl, rfl, rfl, rfl, rfl⟩
  all_goals
    obtain ⟨-, rfl⟩ := hev
    exact ⟨rfl, rfl, rfl, rfl, rfl, rfl, rfl, rfl, rfl, rfl⟩

theorem pipe_of {s s1 : PeerSys} {ev : Ev} {a : Act} (hev : evOf s a = some (s1, ev)) :
    ∀ p, evPipe ev = some p → s.hsIn.map (·.1) = some p := by
  cases a <;> simp only [evOf, Option.some.injEq, Prod.mk.injEq, reduceCtorEq] at hev
  case hsNegotiated d hs auto t =>
    cases d
    · rcases hin : s.hsIn with _ | ⟨p, b⟩
      · rw [hin] at hev; simp at hev
      · rw [hin] at hev; simp at hev
        obtain ⟨-, rfl⟩ := hev
        intro q hq; simp [evPipe] at hq; simp [hq]
    · rcases hout : s.hsOut with _ | p
      · rw [hout] at hev; simp at hev
      · rw [hout] at hev; simp at hev
        obtain ⟨-, rfl⟩ := hev
        intro q hq; simp [evPipe] at hq
  all_goals
    obtain ⟨-, rfl⟩ := hev
    intro q hq; simp [evPipe] at hq

theorem notice_of {s s1 : PeerSys} {ev : Ev} {a : Act} (hp : prompt s a = true)
    (hev : evOf s a = some (s1, ev)) : (InClose s || decide (s.notices > 0)) = true → isNotice ev = true := by
  intro hb
  simp only [prompt, hb, if_true] at hp
  cases a <;> simp [Act.isTask] at hp <;> simp [evOf] at hev
  obtain ⟨-, rfl⟩ := hev
  rfl

theorem any_setPhase_closing {t : Tid} {ph : TaskPhase} (hph : ph ≠ .closing true) (ts : List Task)
    (h : (setPhase t ph ts).any (fun k => k.phase = .closing true) = true) :
    ts.any (fun k => k.phase = .closing true) = true := by
  simp only [setPhase, List.any_map, List.any_eq_true, Function.comp, decide_eq_true_eq] at h ⊢
  obtain ⟨k, hk, hk2⟩ := h
  refine ⟨k, hk, ?_⟩
  by_cases hid : k.id = t
  · simp [hid] at hk2; exact absurd hk2 hph
  · simpa [hid] using hk2

/-- A task step leaves everything but the tasks, the notice count and the log (a `closed` report) alone. -/
theorem task_inv2 {s : PeerSys} {a : Act} (h : Inv2 s) (hi1 : Inv1 (taskStep s a)) (he : enabled s a = true)
    (ht : a.isTask = true) : Inv2 (taskStep s a) := by
  cases a <;> simp [Act.isTask] at ht
  case taskSeesSignal t =>
    refine ⟨hi1, h.c, h.rq, h.pd, h.ho, h.hi, h.vl, h.wf, ?_, h.nb, h.lg, h.ac⟩
    intro hd
    apply h.bz
    simp only [taskStep, NoticeDue, Bool.or_eq_true] at hd ⊢
    rcases hd with hd | hd
    · exact .inl (any_setPhase_closing (by simp) _ hd)
    · exact .inr hd
  case taskSeesClose t =>
    refine ⟨hi1, h.c, h.rq, h.pd, h.ho, h.hi, h.vl, h.wf, ?_, h.nb, h.lg, h.ac⟩
    intro _
    -- the task was running and had not been signalled: its stream is the open one
    simp only [enabled, hasTask, List.any_eq_true, Bool.and_eq_true, decide_eq_true_eq,
      Bool.not_eq_true'] at he
    obtain ⟨k, hk, -, hrun, hns⟩ := he
    have := h.i1.run k hk hrun hns
    show idle s.slot = true
    rw [this]; rfl
  case taskNotice t =>
    refine ⟨hi1, h.c, h.rq, h.pd, h.ho, h.hi, h.vl, h.wf, ?_, h.nb, h.lg, h.ac⟩
    intro hd
    apply h.bz
    simp only [taskStep, NoticeDue, Bool.or_eq_true, decide_eq_true_eq] at hd ⊢
    rcases hd with hd | hd
    · exact .inl (any_setPhase_closing (by simp) _ hd)
    · by_cases hn : (s.tasks.any fun k => k.id = t ∧ k.phase = .closing true) = true
      · left
        simp only [List.any_eq_true, decide_eq_true_eq] at hn ⊢
        obtain ⟨k, hk, -, hk2⟩ := hn
        exact ⟨k, hk, hk2⟩
      · right
        simp only [hn] at hd
        simpa using hd
  case taskReport t =>
    refine ⟨hi1, h.c, h.rq, h.pd, h.ho, h.hi, h.vl, h.wf, ?_, ?_, ?_, ?_⟩
    · intro hd
      apply h.bz
      simp only [taskStep, NoticeDue, Bool.or_eq_true, List.any_eq_true, decide_eq_true_eq] at hd ⊢
      rcases hd with ⟨k, hk, hk2⟩ | hd
      · exact .inl ⟨k, (List.mem_filter.mp hk).1, hk2⟩
      · exact .inr (by simpa using hd)
    · simp only [taskStep, List.mem_append, List.mem_singleton, reduceCtorEq, or_false]; exact h.nb
    · simp only [taskStep]; rw [lfold_append, h.lg]; cases owes s.slot <;> rfl
    · simp only [taskStep]; rw [afold_append, h.ac]; cases accOf s.slot s.hsIn <;> rfl

theorem not_task_of_evOf {s s1 : PeerSys} {a : Act} {ev : Ev} (hev : evOf s a = some (s1, ev)) :
    a.isTask = false := by
  cases a <;> simp [evOf] at hev <;> rfl

theorem inv2_step {s : PeerSys} (a : Act) (h : Inv2 s) (he : enabled s a = true) (hp : prompt s a = true) :
    Inv2 (step s a) := by
  have hi1 := inv_step a h.i1 he hp
  rcases hev : evOf s a with _ | ⟨s1, ev⟩
  · have hst : step s a = taskStep s a := by simp only [step, hev]
    rw [hst] at hi1 ⊢
    by_cases ht : a.isTask = true
    · exact task_inv2 h hi1 he ht
    · -- a handshake event without an entry is not enabled
      cases a <;> simp [Act.isTask] at ht <;> simp [evOf] at hev
      rename_i d hs auto t
      cases d <;> simp_all [enabled]
  · have hst : step s a = post (runHandler s1 ev) a := by simp only [step, hev]
    rw [hst] at hi1 ⊢
    have hpre := pre_of h he hev
    have hB := before_of h he hev
    have hq : (isValidating s.slot = true → s.tasks = []) ∨ quietOuts (handle s.slot ev).2 = true := by
      by_cases hb1 : (InClose s || decide (s.notices > 0)) = true
      · left
        intro hv
        have hn := notice_of hp hev hb1
        have : ev = .notice := by cases ev <;> simp_all [isNotice]
        subst this
        have := not_validating_of_idle (slot := s.slot) (by simpa [Pre] using hpre)
        rw [hv] at this; cases this
      · by_cases hb : Busy s = true
        · right
          simp only [prompt, hb1, hb, if_true, not_task_of_evOf hev] at hp
          have : quietAct s a = true := by simpa using hp
          simpa only [quietAct, outsOf, hev, hB.slot] using this
        · left
          intro hv
          rcases inv_cases h.i1 (by simpa using hb) with h0 | ⟨k, _, hk⟩
          · exact h0
          · rw [hk] at hv; simp [isValidating] at hv
    exact handler_inv2 h hi1 hpre (notice_of hp hev) hq (pipe_of hev) hB (after_of _ hev)

theorem inv2_init : Inv2 {} :=
  ⟨⟨rfl, by simp, by intro k hk; simp at hk, by intro k hk; simp at hk⟩, rfl, rfl, rfl, rfl, rfl,
    by intro q hq; simp [slotVal] at hq, rfl,
    by intro _; rfl, by simp, rfl, rfl⟩

theorem inv2_reach {s : PeerSys} (h : ReachP s) : Inv2 s := by
  induction h with
  | init => exact inv2_init
  | step a _ he hp _ ih => exact inv2_step a ih he hp

end Litep2pVerif.Notif
