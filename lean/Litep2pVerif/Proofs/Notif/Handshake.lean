import Litep2pVerif.Model.Notif.Handshake
/-! Lemmas about the handshake service (Model/Notif/Handshake.lean). -/
namespace Litep2pVerif.NotifHs
open Litep2pVerif.Notif

/-- What one entry can hand out: nothing above the limit, and either the empty marker of a sent handshake or
exactly the first unread frame of its substream (never a part of it); the frames it writes are the local
handshake, within the limit. -/
theorem ioLoop_spec (maxSize : Nat) (hsLocal : List Nat) : ∀ (n : Nat) (e : Entry),
    (∀ hs, (ioLoop maxSize hsLocal e n).2 = .ready hs →
      hs.length ≤ maxSize ∧ (hs = [] ∨ ∃ rest, e.sub.toLocal = hs :: rest)) ∧
    (∀ f ∈ (ioLoop maxSize hsLocal e n).1.sub.toRemote ++ (ioLoop maxSize hsLocal e n).1.sub.outBuf,
      f ∈ e.sub.toRemote ++ e.sub.outBuf ∨ (f = hsLocal ∧ hsLocal.length ≤ maxSize)) ∧
    (ioLoop maxSize hsLocal e n).1.peer = e.peer ∧ (ioLoop maxSize hsLocal e n).1.dir = e.dir := by
  intro n
  induction n with
  | zero => intro e; unfold ioLoop; exact ⟨by simp, fun f hf => .inl hf, rfl, rfl⟩
  | succ n ih =>
    intro e
    unfold ioLoop
    split
    · -- sendHandshake
      have := ih { e with state := .sinkReady }
      exact this
    · -- sinkReady
      split
      · exact ⟨by simp, fun f hf => .inl hf, rfl, rfl⟩
      · rename_i hle
        have h := ih { e with state := .handshakeSent, sub := { e.sub with outBuf := e.sub.outBuf ++ [hsLocal] } }
        refine ⟨h.1, ?_, h.2.2⟩
        intro f hf
        rcases h.2.1 f hf with h1 | h1
        · simp only [List.mem_append, List.mem_singleton] at h1
          rcases h1 with h1 | h1 | h1
          · exact .inl (List.mem_append.2 (.inl h1))
          · exact .inl (List.mem_append.2 (.inr h1))
          · exact .inr ⟨h1, by omega⟩
        · exact .inr h1
    · -- handshakeSent
      split
      · exact ⟨by simp, fun f hf => .inl hf, rfl, rfl⟩
      · split
        · have h := ih { e with state := .readHandshake,
                                sub := { e.sub with toRemote := e.sub.toRemote ++ e.sub.outBuf, outBuf := [] } }
          refine ⟨h.1, ?_, h.2.2⟩
          intro f hf
          rcases h.2.1 f hf with h1 | h1
          · simp only [List.append_nil] at h1
            exact .inl h1
          · exact .inr h1
        · refine ⟨?_, ?_, rfl, rfl⟩
          · intro hs h
            cases h
            exact ⟨Nat.zero_le _, .inl rfl⟩
          · intro f hf
            simp only [List.append_nil] at hf
            exact .inl hf
    · -- readHandshake
      split
      · exact ⟨by simp, fun f hf => .inl hf, rfl, rfl⟩
      · split
        · rename_i f rest hl
          split
          · exact ⟨by simp, fun f hf => .inl hf, rfl, rfl⟩
          · rename_i hle
            refine ⟨?_, ?_, rfl, rfl⟩
            · intro hs h
              cases h
              exact ⟨by omega, .inr ⟨rest, hl⟩⟩
            · intro g hg
              exact .inl hg
        · split <;> exact ⟨by simp, fun f hf => .inl hf, rfl, rfl⟩

/-- **A handshake above the limit is refused when read, never truncated**; at or below the limit it is handed
over unchanged. -/
theorem read_bounded (maxSize : Nat) (hsLocal f : List Nat) (rest : List (List Nat)) (e : Entry)
    (hst : e.state = .readHandshake) (hex : e.expired = false) (hr : e.sub.reset = false)
    (hl : e.sub.toLocal = f :: rest) :
    (f.length > maxSize → entryPoll maxSize hsLocal e = (e, .error)) ∧
    (f.length ≤ maxSize →
      entryPoll maxSize hsLocal e = ({ e with sub := { e.sub with toLocal := rest } }, .ready f)) := by
  constructor
  · intro h
    simp [entryPoll, hex, ioLoop, hst, hr, hl, h]
  · intro h
    have : ¬ f.length > maxSize := by omega
    simp [entryPoll, hex, ioLoop, hst, hr, hl, this]

/-- **A local handshake above the limit is refused when it is to be sent**: the entry fails and nothing is
written or buffered. -/
theorem send_bounded (maxSize : Nat) (hsLocal : List Nat) (e : Entry)
    (hst : e.state = .sendHandshake ∨ e.state = .sinkReady) (hex : e.expired = false)
    (h : hsLocal.length > maxSize) :
    (entryPoll maxSize hsLocal e).2 = .error ∧ (entryPoll maxSize hsLocal e).1.sub = e.sub := by
  rcases hst with hst | hst <;> simp [entryPoll, hex, ioLoop, hst, h]

/-- The timer is looked at first: an expired entry fails without any I/O, whatever its substream holds. -/
theorem expired_fails (maxSize : Nat) (hsLocal : List Nat) (e : Entry) (hex : e.expired = true) :
    entryPoll maxSize hsLocal e = (e, .error) := by
  simp [entryPoll, hex]

theorem entryPoll_spec (maxSize : Nat) (hsLocal : List Nat) (e : Entry) :
    (∀ hs, (entryPoll maxSize hsLocal e).2 = .ready hs →
      hs.length ≤ maxSize ∧ (hs = [] ∨ ∃ rest, e.sub.toLocal = hs :: rest)) ∧
    (entryPoll maxSize hsLocal e).1.key = e.key := by
  unfold entryPoll
  split
  · simp
  · have h := ioLoop_spec maxSize hsLocal 4 e
    exact ⟨h.1, by simp [Entry.key, h.2.2.1, h.2.2.2]⟩

def ReadyBounded (maxSize : Nat) (s : Service) : Prop := ∀ r ∈ s.ready, r.2.length ≤ maxSize

theorem popEvent_spec (maxSize : Nat) (entries : List Entry) : ∀ (ready : List (Key × List Nat)),
    (∀ r ∈ ready, r.2.length ≤ maxSize) →
    ReadyBounded maxSize (popEvent entries ready).1 ∧
    (∀ p d hs, (popEvent entries ready).2 = some (.negotiated p d hs) → hs.length ≤ maxSize) ∧
    (popEvent entries ready).2 ≠ some .bug := by
  intro ready
  induction ready with
  | nil => intro _; simp [popEvent, ReadyBounded]
  | cons x xs ih =>
    intro h
    obtain ⟨k, hs⟩ := x
    unfold popEvent
    split
    · refine ⟨fun r hr => h r (List.mem_cons_of_mem _ hr), ?_, by simp⟩
      intro p d hs' he
      cases he
      exact h (k, hs) (List.mem_cons_self ..)
    · exact ih fun r hr => h r (List.mem_cons_of_mem _ hr)

theorem scan_spec (maxSize : Nat) (hsLocal : List Nat) : ∀ (order : List Key) (s : Service),
    ReadyBounded maxSize s →
    ReadyBounded maxSize (scan maxSize hsLocal s order).1 ∧
    (∀ p d hs, (scan maxSize hsLocal s order).2 ≠ some (.negotiated p d hs)) ∧
    (scan maxSize hsLocal s order).2 ≠ some .bug := by
  intro order
  induction order with
  | nil => intro s h; simp [scan, h]
  | cons k rest ih =>
    intro s h
    unfold scan
    split
    · exact ih s h
    · rename_i e _
      split
      · refine ⟨?_, by simp, by simp⟩
        intro r hr
        exact h r hr
      · rename_i hs hres
        apply ih
        intro r hr
        simp only [List.mem_append, List.mem_singleton] at hr
        rcases hr with hr | hr
        · exact h r hr
        · subst hr
          exact ((entryPoll_spec maxSize hsLocal e).1 hs hres).1
      · apply ih
        intro r hr
        exact h r hr

theorem popFront_spec (maxSize : Nat) (s : Service) (h : ReadyBounded maxSize s) :
    ReadyBounded maxSize (popFront s).1 ∧
    (∀ p d hs, (popFront s).2 = some (.negotiated p d hs) → hs.length ≤ maxSize) := by
  unfold popFront
  split
  · exact ⟨h, by simp⟩
  · rename_i k hs rest hr
    split
    · refine ⟨fun r hm => h r (hr ▸ List.mem_cons_of_mem _ hm), ?_⟩
      intro p d hs' he
      cases he
      exact h (k, hs) (hr ▸ List.mem_cons_self ..)
    · exact ⟨fun r hm => h r (hr ▸ List.mem_cons_of_mem _ hm), by simp⟩

/-- Every handshake the service hands to the protocol is within the limit, for every history of polls. -/
theorem poll_bounded (maxSize : Nat) (hsLocal : List Nat) (s : Service) (order : List Key)
    (h : ReadyBounded maxSize s) :
    ReadyBounded maxSize (poll maxSize hsLocal s order).1 ∧
    (∀ p d hs, (poll maxSize hsLocal s order).2 = some (.negotiated p d hs) → hs.length ≤ maxSize) := by
  have hp := popEvent_spec maxSize s.entries s.ready h
  unfold poll
  split
  · rename_i ev hev
    exact ⟨hp.1, fun p d hs he => hp.2.1 p d hs (by rw [hev]; simpa using he)⟩
  · split
    · exact ⟨hp.1, by simp⟩
    · have hs := scan_spec maxSize hsLocal order _ hp.1
      split
      · rename_i ev hev
        refine ⟨hs.1, ?_⟩
        intro p d hs' he
        exact absurd (by rw [hev]; simpa using he) (hs.2.1 p d hs')
      · exact popFront_spec maxSize _ hs.1

theorem insert_bounded (maxSize : Nat) (s : Service) (e : Entry) (h : ReadyBounded maxSize s) :
    ReadyBounded maxSize (s.insert e) := h

theorem remove_bounded (maxSize : Nat) (s : Service) (k : Key) (h : ReadyBounded maxSize s) :
    ReadyBounded maxSize (s.remove k) := fun r hr => h r (List.mem_filter.1 hr).1

/-- The repaired removal leaves no result queued for the removed key. -/
theorem remove_purges (s : Service) (k : Key) : ∀ r ∈ (s.remove k).ready, r.1 ≠ k := by
  intro r hr
  have := (List.mem_filter.1 hr).2
  simpa using this

/-- `pop_event` comes first: while a result is queued for an existing entry, a poll hands it out and does no I/O
on any substream. -/
theorem ready_first (maxSize : Nat) (hsLocal : List Nat) (s : Service) (order : List Key) (ev : Event)
    (h : (popEvent s.entries s.ready).2 = some ev) :
    (poll maxSize hsLocal s order).2 = some ev ∧ subsAfter maxSize hsLocal s order = s.entries := by
  simp [poll, subsAfter, h]

end Litep2pVerif.NotifHs
