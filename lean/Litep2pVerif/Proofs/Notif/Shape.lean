import Litep2pVerif.Model.Notif.Sys
/-! Helper lemmas for C11: the shape of every handler's effects, and the invariant tying the peer slot,
the connection tasks and the user-channel grammar together. -/
namespace Litep2pVerif.Notif

/-- User-channel grammar: `some b` = well-formed so far and a stream is open iff `b`; an `opened` while
open, a `closed` while closed or an open failure while open break it. -/
def gstep (st : Option Bool) (e : UEv) : Option Bool :=
  match st, e with
  | some false, .opened .. => some true
  | some true, .opened .. => none
  | some true, .closed => some false
  | some false, .closed => none
  | some true, .fail _ => none
  | st, _ => st

def grammar (log : List UEv) : Option Bool := log.foldl gstep (some false)

theorem grammar_append (l : List UEv) (e : UEv) : grammar (l ++ [e]) = gstep (grammar l) e := by
  simp [grammar, List.foldl_append]

def relevant : Out → Bool
  | .opened .. | .fail _ | .spawn .. | .shutdown _ => true
  | _ => false

def isOpn : Slot → Bool
  | some (.opn _) => true
  | _ => false

def evTask : Ev → Tid
  | .hsNegotiated _ _ _ _ t => t
  | _ => 0

def shapeRest (r : Res) (nt : Tid) : Bool :=
  let g := r.2.filter relevant
  (!(isOpn r.1) && (match g with | [] => true | [.fail _] => true | _ => false)) ||
  (match r.1, g with
   | some (.opn t), [.spawn t' _ _, .opened _ _ t''] => t == t' && t == t'' && t == nt
   | _, _ => false)

/-- What a handler may do to the connection tasks and to the user channel: nothing; report one open
failure (never while `Open`); fire/drop the shutdown oneshot of the `Open` state it leaves; or enter `Open`
by spawning the task and reporting the stream opened. -/
def shapeOk (slot : Slot) (r : Res) (nt : Tid) : Bool :=
  match slot with
  | some (.opn t) =>
    (r.1 == some (.opn t) && r.2.filter relevant == []) || (!(isOpn r.1) && r.2.filter relevant == [.shutdown t])
  | _ => shapeRest r nt

set_option maxHeartbeats 4000000 in
theorem shape (slot : Slot) (ev : Ev) : shapeOk slot (handle slot ev) (evTask ev) = true := by
  rcases slot with _ | (_ | c | pend | _ | s | ⟨out, inb, dir⟩ | t)
  all_goals (try cases out)
  all_goals (try cases inb)
  all_goals (try cases pend)
  all_goals (try cases c)
  all_goals cases ev
  all_goals simp only [handle, onConnEstablished, onConnClosed, onOutboundSubstream, onInboundSubstream,
      onSubstreamOpenFailure, onOpenSubstream, onCloseSubstream, onValidationResult, onHsNegotiated,
      onHsError, onDialFailure, onShutdownNotice, onTimer, hsFinal, PState.dropped, OutSt.pendingOpen]
  all_goals (repeat' split)
  all_goals simp_all [shapeOk, shapeRest, relevant, isOpn, evTask]
  all_goals (first | rfl | simp [List.filter, relevant])

end Litep2pVerif.Notif
