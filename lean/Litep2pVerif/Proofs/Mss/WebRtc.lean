import Litep2pVerif.Model.Mss.WebRtc
/-! Safety half of the message-based negotiation. -/
namespace Litep2pVerif.Mss

theorem wListenFinish_accepted (sup : List Bytes) (q : Bytes) (hdr : Bool) (rest : Bytes) (p m : Bytes)
    (h : wListenFinish sup q hdr rest = .ok (.accepted p m)) : p ∈ sup ∧ p = q := by
  unfold wListenFinish at h
  repeat' split at h
  all_goals first | (cases h) | skip
  all_goals simp_all

theorem wListen_accepted (sup : List Bytes) (payload : Bytes) (hr : Bool) (p m : Bytes)
    (h : wListen sup payload hr = .ok (.accepted p m)) : p ∈ sup := by
  unfold wListen at h
  repeat' split at h
  all_goals first | (cases h) | skip
  all_goals first | exact (wListenFinish_accepted _ _ _ _ _ _ h).1 | simp_all

theorem wRegisterLoop_succeeded :
    ∀ (fuel : Nat) (d : WDialer) (payload : Bytes) (q : Bytes),
      (wRegisterLoop fuel d payload).2 = .ok (.succeeded q) → q = d.protocol := by
  intro fuel
  induction fuel with
  | zero => intro d payload q h; simp [wRegisterLoop] at h
  | succ f ih =>
    intro d payload q h
    rw [wRegisterLoop] at h
    repeat' split at h
    all_goals first | (have := ih _ _ _ h; simpa using this) | simp_all

end Litep2pVerif.Mss
